(** C19 — regeneration never loses user-written resolver code. *)
From GV Require Import Base.Prelude Model.Rewrite Proofs.RewriteProofs Corr.Corr_C19.
Open Scope list_scope.

(** Whatever the schema now calls for ([lv]) and whatever a resolver file contains: every top-level declaration
    of a regenerated file is either carried into the new files (a resolver method that still exists, a
    generated struct type, an accessor), or an import, or its source text is part of the file's remaining
    source - the text put into the trailing warning block. *)
Theorem C19_nothing_lost : forall lv f d,
  In d (f_decls f) ->
  copied lv d = true \/ is_import d = true \/ contains (d_src d) (remaining_source lv f) = true.
Proof. exact nothing_lost_lemma. Qed.
Print Assumptions C19_nothing_lost.

(** GetMethodBody: with Body.Pos() at the opening brace and Body.End() one past the closing brace (what go/parser
    gives), the slice is exactly the bytes between the braces, for any body - nested braces, strings, comments. *)
Theorem C19_method_body_slice : forall (A : Type) (pre body post : list A) (lb rb : A),
  method_body_bytes (pre ++ lb :: body ++ rb :: post) (List.length pre) (List.length pre + List.length body + 2) = body.
Proof. intros A. exact (@method_body_slice_lemma A). Qed.
Print Assumptions C19_method_body_slice.

(** TrimSpace, which is applied to the body and the doc comment on every regeneration, is idempotent and changes
    nothing inside: repeating regeneration does not erode a body. *)
Theorem C19_trim_idempotent : forall l, trim (trim l) = trim l.
Proof. exact trim_idempotent_lemma. Qed.
Print Assumptions C19_trim_idempotent.
Theorem C19_trim_keeps_inside : forall l, no_lead l = true -> no_lead (rev l) = true -> trim l = l.
Proof. exact trim_inside_lemma. Qed.
Print Assumptions C19_trim_keeps_inside.

(** The warning block of the repaired template lexes as comments only, for EVERY rescued text (so the
    regenerated file stays valid Go whatever the user's helpers contain). *)
Theorem C19_warning_block_is_comment : forall code, comments_only (warning_block true code) = true.
Proof. exact warning_block_is_comment_lemma. Qed.
Print Assumptions C19_warning_block_is_comment.

(** The pinned commit is refuted: a helper containing a block-comment end closes the block early. *)
Theorem C19_warning_block_legacy_refuted :
  comments_only (warning_block false [102; 40; 41; 32; 47; 42; 32; 120; 32; 42; 47; 32; 123; 125]%N) = false.
Proof. vm_compute. reflexivity. Qed.
Print Assumptions C19_warning_block_legacy_refuted.

(** Non-vacuity: a file with a kept resolver, a removed resolver and a helper. *)
Open Scope string_scope.
Example C19_nonvacuous :
  let m r n b := {| d_kind := KMethod r n; d_doc := ""; d_rawdoc := ""; d_body := b; d_src := "func (r *" ++ r ++ ") " ++ n ++ "() { " ++ b ++ " }" |} in
  let h := {| d_kind := KFunc "helper"; d_doc := ""; d_rawdoc := ""; d_body := ""; d_src := "func helper() {}" |} in
  let f := {| f_name := "a.resolvers.go"; f_imports := []; f_decls := [m "queryResolver" "Kept" "body one"; m "queryResolver" "Gone" "body two"; h]; f_remaining := None |} in
  let lv := [{| l_file := "a.resolvers.go"; l_methods := [("queryResolver", "Kept")]; l_structs := ["queryResolver"]; l_access := ["Query"]; l_root := false |}] in
  remaining_source lv f = "func (r *queryResolver) Gone() { body two }\nfunc helper() {}"
  /\ option_map d_body (prev_decl [f] "queryResolver" "Kept") = Some "body one".
Proof. vm_compute. split; reflexivity. Qed.
