(** C19 — regeneration never loses user-written resolver code. *)
From GV Require Import Base.Prelude Model.Rewrite Model.Regen Proofs.RewriteProofs Proofs.RegenProofs Corr.Corr_C19.
Open Scope list_scope.

(** Whatever the schema now calls for ([lv]) and whatever a resolver file contains: every top-level declaration
    of a regenerated file is either carried into the new files (a resolver method that still exists, a
    generated struct type, an accessor), or an import, or its source text is part of the file's remaining
    source - the text put into the trailing warning block. *)
Theorem C19_nothing_lost : forall lv f d,
  In d (f_decls f) ->
  copied lv d = true \/ is_import d = true \/ contains (d_src d) (remaining_source lv f) = true.
Proof. exact nothing_lost_lemma. Qed.
Print Assumptions C19_nothing_lost.

(** GetMethodBody: with Body.Pos() at the opening brace and Body.End() one past the closing brace (what go/parser
    gives), the slice is exactly the bytes between the braces, for any body - nested braces, strings, comments. *)
Theorem C19_method_body_slice : forall (A : Type) (pre body post : list A) (lb rb : A),
  method_body_bytes (pre ++ lb :: body ++ rb :: post) (List.length pre) (List.length pre + List.length body + 2) = body.
Proof. intros A. exact (@method_body_slice_lemma A). Qed.
Print Assumptions C19_method_body_slice.

(** TrimSpace, which is applied to the body and the doc comment on every regeneration, is idempotent and changes
    nothing inside: repeating regeneration does not erode a body. *)
Theorem C19_trim_idempotent : forall l, trim (trim l) = trim l.
Proof. exact trim_idempotent_lemma. Qed.
Print Assumptions C19_trim_idempotent.
Theorem C19_trim_keeps_inside : forall l, no_lead l = true -> no_lead (rev l) = true -> trim l = l.
Proof. exact trim_inside_lemma. Qed.
Print Assumptions C19_trim_keeps_inside.

(** The warning block of the repaired template lexes as comments only, for EVERY rescued text (so the
    regenerated file stays valid Go whatever the user's helpers contain). *)
Theorem C19_warning_block_is_comment : forall code, comments_only (warning_block true code) = true.
Proof. exact warning_block_is_comment_lemma. Qed.
Print Assumptions C19_warning_block_is_comment.

(** The pinned commit is refuted: a helper containing a block-comment end closes the block early. *)
Theorem C19_warning_block_legacy_refuted :
  comments_only (warning_block false [102; 40; 41; 32; 47; 42; 32; 120; 32; 42; 47; 32; 123; 125]%N) = false.
Proof. vm_compute. reflexivity. Qed.
Print Assumptions C19_warning_block_legacy_refuted.

(** However often regeneration is repeated: for every set of resolver files, every set of resolvers the schema
    calls for (each (receiver, method) in one file, no receiver called like the root type) and whatever text the
    templates render around them, after k+1 runs the resolver found for a field that still exists carries the
    body the user wrote, its result list as written (named results included), and the user's doc text when there was one. *)
Theorem C19_user_body_survives_repetition :
  forall method_src access_src struct_src stub_body default_doc lv before k l m p,
  wf_live lv = true -> In l lv -> In m (l_methods l) -> prev_decl before (fst m) (snd m) = Some p ->
  let after := regen_n method_src access_src struct_src stub_body default_doc copied (S k) lv before in
  option_map d_body (prev_decl after (fst m) (snd m)) = Some (d_body p) /\
  option_map d_results (prev_decl after (fst m) (snd m)) = Some (d_results p) /\
  (String.eqb (d_doc p) "" = false -> option_map d_doc (prev_decl after (fst m) (snd m)) = Some (d_doc p)).
Proof. exact user_body_survives_lemma. Qed.
Print Assumptions C19_user_body_survives_repetition.

(** A second run over the output of a run reproduces every regenerated file's declarations and imports, drops
    the warning block and leaves the files the generator does not write as they are: the rescued code is shown
    by the run that moved it, and nothing else ever changes. *)
Theorem C19_second_run_only_drops_the_block :
  forall method_src access_src struct_src stub_body default_doc lv before,
  wf_live lv = true ->
  regen method_src access_src struct_src stub_body default_doc copied lv
        (regen method_src access_src struct_src stub_body default_doc copied lv before)
  = map clear_remaining (map (regen_file method_src access_src struct_src stub_body default_doc copied lv before) lv)
    ++ stale lv before.
Proof. exact regen_twice_lemma. Qed.
Print Assumptions C19_second_run_only_drops_the_block.

(** Non-vacuity: a file with a kept resolver, a removed resolver and a helper. *)
Open Scope string_scope.
Example C19_nonvacuous :
  let m r n b := {| d_kind := KMethod r n; d_doc := ""; d_rawdoc := ""; d_body := b; d_results := ""; d_src := "func (r *" ++ r ++ ") " ++ n ++ "() { " ++ b ++ " }" |} in
  let h := {| d_kind := KFunc "helper"; d_doc := ""; d_rawdoc := ""; d_body := ""; d_results := ""; d_src := "func helper() {}" |} in
  let f := {| f_name := "a.resolvers.go"; f_imports := []; f_decls := [m "queryResolver" "Kept" "body one"; m "queryResolver" "Gone" "body two"; h]; f_remaining := None |} in
  let lv := [{| l_file := "a.resolvers.go"; l_methods := [("queryResolver", "Kept")]; l_structs := ["queryResolver"]; l_access := ["Query"]; l_root := false |}] in
  remaining_source lv f = "func (r *queryResolver) Gone() { body two }\nfunc helper() {}"
  /\ option_map d_body (prev_decl [f] "queryResolver" "Kept") = Some "body one".
Proof. vm_compute. split; reflexivity. Qed.
Example C19_regen_nonvacuous :
  let lv := [{| l_file := "a.resolvers.go"; l_methods := [("queryResolver", "Kept"); ("queryResolver", "New")]; l_structs := ["queryResolver"]; l_access := ["Query"]; l_root := false |}] in
  let m r n b := {| d_kind := KMethod r n; d_doc := "Kept does it."; d_rawdoc := "Kept does it."; d_body := b; d_results := ""; d_src := r ++ "." ++ n ++ "{" ++ b ++ "}" |} in
  let f := {| f_name := "a.resolvers.go"; f_imports := []; f_decls := [m "queryResolver" "Kept" "return 1"; m "queryResolver" "Gone" "return 2"]; f_remaining := None |} in
  let run := regen_n (fun r n b => r ++ "." ++ n ++ "{" ++ b ++ "}") (fun a => a) (fun s => s) (fun _ _ => "panic()") (fun _ n => n ++ " is the resolver.") copied in
  wf_live lv = true /\
  map f_remaining (run 1%nat lv [f]) = [Some "queryResolver.Gone{return 2}"] /\
  map f_remaining (run 2%nat lv [f]) = [None] /\
  map (fun f => map d_body (f_decls f)) (run 3%nat lv [f]) = [["return 1"; "panic()"; ""; ""]].
Proof. vm_compute. repeat split; reflexivity. Qed.
