(** C07 — a response depends only on its own request, not on earlier ones.  (Logical core: the only
    server state the pipeline carries between requests is the query cache and the APQ cache; the POST
    parameter pool is modelled in Model/ParamPool.v; concurrent requests are covered by the correspondence, see DESIGN.) *)
From GV Require Import Base.Prelude Model.Pipeline Proofs.PipelineProofs Model.Apq Proofs.ApqProofs Model.ParamPool Proofs.ParamPoolProofs.
From GV Require Import Base.Threads Model.PoolConc Proofs.PoolConcProofs.
Open Scope list_scope.

(** After ANY finite history of requests (any transports, valid or invalid, any cache kind) the
    response to a request - status, events, body class - is the response of a freshly constructed
    server to that request alone. *)
Theorem C07_history_independent : forall docs exts k hs h,
  snd (serve docs exts (fst (serve_all docs exts (empty_qcache k) hs)) h) = snd (serve docs exts (empty_qcache k) h).
Proof. exact history_independent_lemma. Qed.
Print Assumptions C07_history_independent.

(** A cached document gives the same verdict as an uncached one, for every cache satisfying the invariant. *)
Theorem C07_cached_equals_uncached : forall docs exts c h,
  cache_ok docs c -> snd (serve docs exts c h) = snd (serve docs exts (empty_qcache (qc_kind c)) h).
Proof. exact serve_verdict. Qed.
Print Assumptions C07_cached_equals_uncached.

(** The only permitted memory: an automatic-persisted-query registration - whatever a hash resolves to
    after any history was sent earlier with exactly that hash (C15's invariant). *)
Theorem C07_only_memory_is_apq_registration : forall H cap h sha q,
  In (sha, q) (c_items (fst (Apq.run H (empty_cache cap) h))) -> H q = sha /\ registered H h sha q.
Proof. exact apq_inv_lemma. Qed.
Print Assumptions C07_only_memory_is_apq_registration.

(** The pooled parameter object of the POST transport: for EVERY history of request bodies (any members in any
    order, repeated, null, of the wrong JSON type, unknown, or not JSON at all) every request's executor is handed
    exactly what a freshly allocated object would give it - query text, operation name, variables, extensions and
    headers of one request never reach another. *)
Theorem C07_pooled_parameters_history_independent : forall hs,
  serve_pool [] true pzero hs = map (fun h => fill pzero (fst h) (snd h)) hs.
Proof. exact pool_history_independent_lemma. Qed.
Print Assumptions C07_pooled_parameters_history_independent.
Theorem C07_pooled_request_as_if_alone : forall pre hdr body post,
  nth_error (serve_pool [] true pzero (pre ++ (hdr, body) :: post)) (List.length pre) = Some (fill pzero hdr body).
Proof. exact pool_request_alone_lemma. Qed.
Print Assumptions C07_pooled_request_as_if_alone.
(** in particular a member the body does not carry is the zero value, whatever earlier requests carried *)
Theorem C07_absent_member_is_zero : forall hs n p ok f,
  nth_error (serve_pool [] true pzero hs) n = Some (p, ok) ->
  forall hdr body, nth_error hs n = Some (hdr, body) ->
  (forall m, In m body -> match m with MText g _ | MObject g _ | MNull g | MWrongType g => pfield_eqb g f = false | _ => True end) ->
  f <> FHeaders -> f <> FReadTime -> pget p f = PZero.
Proof. exact pool_absent_member_is_zero_lemma. Qed.
Print Assumptions C07_absent_member_is_zero.
(** The statement is false for a clean-up that forgets a field, and for one that is skipped when decoding failed
    (encoding/json has stored the members before a type error by then). *)
Theorem C07_forgetful_cleanup_refuted :
  map (fun r => p_opname (fst r)) (serve_pool [FOpName] true pzero [("h", body_qb); ("h", body_q)]%string) = [PText "B"; PText "B"]%string.
Proof. exact forgetful_cleanup_witness. Qed.
Print Assumptions C07_forgetful_cleanup_refuted.
Theorem C07_no_cleanup_on_error_refuted :
  map (fun r => (p_opname (fst r), snd r))
      (serve_pool [] false pzero [("h", [MText FOpName "B"; MWrongType FVariables]); ("h", body_q)]%string)
  = [(PText "B", false); (PText "B", true)]%string.
Proof. exact no_cleanup_on_error_witness. Qed.
Print Assumptions C07_no_cleanup_on_error_refuted.

(** ** "... or are in flight beside it": the pooled parameter objects with requests in flight together
    (Model.PoolConc).  For ANY number of requests, EVERY interleaving of their steps (Get, decode into the object, the
    executor's read, the deferred clean-up, Put) and EVERY choice sync.Pool makes (any object that is in the pool, or
    a new one): *)

(** every executor is handed what its request decodes to on a fresh object *)
Theorem C07_in_flight_as_alone : forall reqs tr s,
  prun_pool as_written_pool (pinit reqs) tr = Some s ->
  Forall2 (fun r v => v = None \/ v = Some (alone_sees (fst r) (snd r))) reqs (seen_by s).
Proof. exact pool_in_flight_as_alone_lemma. Qed.
Print Assumptions C07_in_flight_as_alone.

(** the same when operations panic (the clean-up is a deferred call, so it runs on that path too): each request,
    given with "its operation panics", is still handed what it decodes to on a fresh object *)
Theorem C07_in_flight_as_alone_with_panics : forall (reqs : list ((string * list member) * bool)) tr s,
  prun_pool as_written_pool (pinit_f reqs) tr = Some s ->
  Forall2 (fun r v => v = None \/ v = Some (alone_sees (fst (fst r)) (snd (fst r)))) reqs (seen_by s).
Proof. exact pool_in_flight_as_alone_f_lemma. Qed.
Print Assumptions C07_in_flight_as_alone_with_panics.

(** and no request is ever stuck *)
Theorem C07_in_flight_progress : forall reqs tr s i t,
  prun_pool as_written_pool (pinit reqs) tr = Some s -> nth_error (ps_thr s) i = Some t -> pt_pc t <> PDone ->
  pstep as_written_pool s i None <> None.
Proof. exact pool_in_flight_progress_lemma. Qed.
Print Assumptions C07_in_flight_progress.

(** returning the object to the pool before its last use lets another request decode into it *)
Theorem C07_put_before_last_use_refuted :
  exists s, prun_pool {| v_early_put := true; v_clean_on_panic := true; v_clean_on_decode_error := true |} (pinit [("h1", [MText FQuery "{ a }"]); ("h2", [MText FQuery "{ b }"; MText FOpName "B"])])
              [(0, None); (0, None); (1, Some 0); (1, None); (0, None)]%nat = Some s /\
            nth_error (seen_by s) 0 <> Some (Some (alone_sees "h1" [MText FQuery "{ a }"])).
Proof. exact early_put_witness. Qed.
Print Assumptions C07_put_before_last_use_refuted.

(** a clean-up that is no deferred call is skipped when the operation panics: the next request inherits the failed
    one's operation name *)
Theorem C07_cleanup_skipped_on_panic_refuted :
  exists s, prun_pool {| v_early_put := false; v_clean_on_panic := false; v_clean_on_decode_error := true |}
              (pinit_f [(("h1", [MText FQuery "query Boom { a }"; MText FOpName "Boom"]), true); (("h2", [MText FQuery "{ a }"]), false)])
              [(0, None); (0, None); (0, None); (0, None); (0, None); (1, Some 0); (1, None); (1, None)]%nat = Some s /\
            nth_error (seen_by s) 1 <> Some (Some (alone_sees "h2" [MText FQuery "{ a }"])).
Proof. exact cleanup_skipped_on_panic_witness. Qed.
Print Assumptions C07_cleanup_skipped_on_panic_refuted.

(** a clean-up skipped on the early return for a body that does not decode: a member of the wrong type is reported
    only after the other members were stored, and the next request inherits them *)
Theorem C07_cleanup_skipped_on_decode_error_refuted :
  exists s, prun_pool {| v_early_put := false; v_clean_on_panic := true; v_clean_on_decode_error := false |}
              (pinit [("h1", [MText FQuery "{ b }"; MWrongType FVariables]); ("h2", [MObject FExtensions [("k", "v")]])])
              [(0, None); (0, None); (0, None); (0, None); (0, None); (1, Some 0); (1, None); (1, None)]%nat = Some s /\
            nth_error (seen_by s) 1 <> Some (Some (alone_sees "h2" [MObject FExtensions [("k", "v")]])).
Proof. exact cleanup_skipped_on_decode_error_witness. Qed.
Print Assumptions C07_cleanup_skipped_on_decode_error_refuted.

Example C07_in_flight_nonvacuous :
  exists s, prun_pool as_written_pool (pinit [("h1", [MText FQuery "{ a }"]); ("h2", [MText FQuery "{ b }"; MText FOpName "B"])])
              [(0, None); (0, None); (1, None); (0, None); (0, None); (0, None); (1, None); (1, None); (1, None); (1, None)]%nat = Some s /\
            seen_by s = [Some (alone_sees "h1" [MText FQuery "{ a }"]); Some (alone_sees "h2" [MText FQuery "{ b }"; MText FOpName "B"])].
Proof. exact in_flight_runs. Qed.
