(** C07 — a response depends only on its own request, not on earlier ones.  (Logical core: the only
    server state the pipeline carries between requests is the query cache and the APQ cache; the POST
    parameter pool and concurrent requests are covered by the correspondence, see DESIGN.) *)
From GV Require Import Base.Prelude Model.Pipeline Proofs.PipelineProofs Model.Apq Proofs.ApqProofs.
Open Scope list_scope.

(** After ANY finite history of requests (any transports, valid or invalid, any cache kind) the
    response to a request - status, events, body class - is the response of a freshly constructed
    server to that request alone. *)
Theorem C07_history_independent : forall docs exts k hs h,
  snd (serve docs exts (fst (serve_all docs exts (empty_qcache k) hs)) h) = snd (serve docs exts (empty_qcache k) h).
Proof. exact history_independent_lemma. Qed.
Print Assumptions C07_history_independent.

(** A cached document gives the same verdict as an uncached one, for every cache satisfying the invariant. *)
Theorem C07_cached_equals_uncached : forall docs exts c h,
  cache_ok docs c -> snd (serve docs exts c h) = snd (serve docs exts (empty_qcache (qc_kind c)) h).
Proof. exact serve_verdict. Qed.
Print Assumptions C07_cached_equals_uncached.

(** The only permitted memory: an automatic-persisted-query registration - whatever a hash resolves to
    after any history was sent earlier with exactly that hash (C15's invariant). *)
Theorem C07_only_memory_is_apq_registration : forall H cap h sha q,
  In (sha, q) (c_items (fst (Apq.run H (empty_cache cap) h))) -> H q = sha /\ registered H h sha q.
Proof. exact apq_inv_lemma. Qed.
Print Assumptions C07_only_memory_is_apq_registration.
