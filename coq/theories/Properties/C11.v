(** C11 — websocket sessions follow the subscription protocol for every message sequence. *)
From GV Require Import Base.Prelude Model.WsProto Proofs.WsProofs Corr.Corr_C11.
Open Scope string_scope.
Open Scope list_scope.

(** For EVERY sequence of client frames and server events, under both subprotocols and any host configuration:
    no operation is executed and no result is sent before the init function has accepted the handshake. *)
Theorem C11_no_exec_before_ack : forall c ls, before_ack_ok (snd (run c ws0 ls)) = true.
Proof. exact no_exec_before_ack_lemma. Qed.
Print Assumptions C11_no_exec_before_ack.

(** For every session in which the client uses each operation id once: the frames of an operation are its
    results in order, then an error and/or a completion - at most one completion, nothing after it, no
    result after an error (whatever else happens on the connection: other operations, stops of unknown ids,
    pings, protocol violations, closes from either side, context cancellation). *)
Theorem C11_per_operation_frames : forall c id ls,
  NoDup (ids_of ls) -> op_frames_ok id (snd (run c ws0 ls)) = true.
Proof. exact per_operation_frames_lemma. Qed.
Print Assumptions C11_per_operation_frames.

(** The close callback fires at most once in every session, and exactly once in every session that ends
    closed (closed_b is 1 exactly for the Closed phase). *)
Theorem C11_close_callback_once : forall c ls,
  closed_b (ph (fst (run c ws0 ls))) = count_closefunc (snd (run c ws0 ls)).
Proof. intros c ls. exact (close_callback_once_lemma c ls ws0). Qed.
Print Assumptions C11_close_callback_once.

(** Closing the connection - by either side, by a protocol violation, by the init timeout or by cancellation of
    the server context - leaves no operation whose context is not cancelled. *)
Theorem C11_close_cancels_all : forall c ls,
  ph (fst (run c ws0 ls)) = Closed -> forallb op_cancelled (ops (fst (run c ws0 ls))) = true.
Proof. exact close_cancels_all_lemma. Qed.
Print Assumptions C11_close_cancels_all.

(** Stopping a running operation cancels its context (one step of the system). *)
Theorem C11_stop_cancels : forall c s id o,
  ph s = Running -> find_op (ops s) id = Some o -> op_cancelled o = false ->
  snd (step c s (LC (CStop id))) = [EvCancel id].
Proof. intros c s id o Hp Hf Hc. unfold step. now rewrite Hp, Hf, Hc. Qed.
Print Assumptions C11_stop_cancels.

(** Kept finding: a start whose id is still running is accepted; the per-operation grammar then fails for that
    id (a result after a completion). *)
Theorem C11_duplicate_id_refuted :
  let c := {| w_proto := GraphqlWs; w_init_accepts := true; w_tick := TKa |} in
  op_frames_ok "1" (snd (run c ws0 [LC (CInit PNone); LC (CStart "1" SOk); LC (CStart "1" SOk); LS (SEnd "1"); LS (SEmit "1")])) = false.
Proof. vm_compute. reflexivity. Qed.
Print Assumptions C11_duplicate_id_refuted.

(** Non-vacuity: a session with two operations, a stop, a panic, and a close from the client. *)
Example C11_nonvacuous :
  let c := {| w_proto := TransportWs; w_init_accepts := true; w_tick := TPong |} in
  let ls := [LC (CInit PObject); LC (CStart "1" SOk); LC (CStart "2" SOk); LS (SEmit "1"); LC (CStop "1"); LS (SEnd "1");
             LS (SPanic "2"); LC CPing; LC CAbruptClose] in
  filter (visible TransportWs) (snd (run c ws0 ls)) =
  [OAck; EvExec "1"; EvExec "2"; OData "1"; EvCancel "1"; OComplete "1"; OError "2"; OComplete "2"; EvCancel "2"; OPong;
   OCloseFrame 1000; EvSocketClosed; EvCloseFunc 1000] /\ NoDup (ids_of ls).
Proof. split; [vm_compute; reflexivity|]. cbn. repeat constructor; cbn; intuition discriminate. Qed.
