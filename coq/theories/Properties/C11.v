(** C11 — websocket sessions follow the subscription protocol for every message sequence. *)
From GV Require Import Base.Prelude Model.WsProto Proofs.WsProofs Model.WsLock Proofs.WsLockProofs Corr.Corr_C11.
Open Scope string_scope.
Open Scope list_scope.

(** For EVERY sequence of client frames and server events, under both subprotocols and any host configuration:
    no operation is executed and no result is sent before the init function has accepted the handshake. *)
Theorem C11_no_exec_before_ack : forall c ls, before_ack_ok (snd (run c ws0 ls)) = true.
Proof. exact no_exec_before_ack_lemma. Qed.
Print Assumptions C11_no_exec_before_ack.

(** For every session in which the client uses each operation id once: the frames of an operation are its
    results in order, then an error and/or a completion - at most one completion, nothing after it, no
    result after an error (whatever else happens on the connection: other operations, stops of unknown ids,
    pings, protocol violations, closes from either side, context cancellation). *)
Theorem C11_per_operation_frames : forall c id ls,
  NoDup (ids_of ls) -> op_frames_ok id (snd (run c ws0 ls)) = true.
Proof. exact per_operation_frames_lemma. Qed.
Print Assumptions C11_per_operation_frames.

(** The close callback fires at most once in every session, and exactly once in every session that ends
    closed (closed_b is 1 exactly for the Closed phase). *)
Theorem C11_close_callback_once : forall c ls,
  closed_b (ph (fst (run c ws0 ls))) = count_closefunc (snd (run c ws0 ls)).
Proof. intros c ls. exact (close_callback_once_lemma c ls ws0). Qed.
Print Assumptions C11_close_callback_once.

(** Closing the connection - by either side, by a protocol violation, by the init timeout or by cancellation of
    the server context - leaves no operation whose context is not cancelled. *)
Theorem C11_close_cancels_all : forall c ls,
  ph (fst (run c ws0 ls)) = Closed -> forallb op_cancelled (ops (fst (run c ws0 ls))) = true.
Proof. exact close_cancels_all_lemma. Qed.
Print Assumptions C11_close_cancels_all.

(** Stopping a running operation cancels its context (one step of the system). *)
Theorem C11_stop_cancels : forall c s id o,
  ph s = Running -> find_op (ops s) id = Some o -> op_cancelled o = false ->
  snd (step c s (LC (CStop id))) = [EvCancel id].
Proof. intros c s id o Hp Hf Hc. unfold step. now rewrite Hp, Hf, Hc. Qed.
Print Assumptions C11_stop_cancels.

(** Kept finding: a start whose id is still running is accepted; the per-operation grammar then fails for that
    id (a result after a completion). *)
Theorem C11_duplicate_id_refuted :
  let c := {| w_proto := GraphqlWs; w_init_accepts := true; w_tick := TKa |} in
  op_frames_ok "1" (snd (run c ws0 [LC (CInit PNone); LC (CStart "1" SOk); LC (CStart "1" SOk); LS (SEnd "1"); LS (SEmit "1")])) = false.
Proof. vm_compute. reflexivity. Qed.
Print Assumptions C11_duplicate_id_refuted.

(** Non-vacuity: a session with two operations, a stop, a panic, and a close from the client. *)
Example C11_nonvacuous :
  let c := {| w_proto := TransportWs; w_init_accepts := true; w_tick := TPong |} in
  let ls := [LC (CInit PObject); LC (CStart "1" SOk); LC (CStart "2" SOk); LS (SEmit "1"); LC (CStop "1"); LS (SEnd "1");
             LS (SPanic "2"); LC CPing; LC CAbruptClose] in
  filter (visible TransportWs) (snd (run c ws0 ls)) =
  [OAck; EvExec "1"; EvExec "2"; OData "1"; EvCancel "1"; OComplete "1"; OError "2"; OComplete "2"; EvCancel "2"; OPong;
   OCloseFrame 1000; EvSocketClosed; EvCloseFunc 1000] /\ NoDup (ids_of ls).
Proof. split; [vm_compute; reflexivity|]. cbn. repeat constructor; cbn; intuition discriminate. Qed.

(** ** "frames are never written concurrently ... the close callback fires once ... results in order": the write
    discipline (Model.WsLock).  Any number of goroutines of one connection, each with any program of [c.write], [c.close]
    and lock-look-up-unlock calls as the code makes them (every frame sent under the mutex, [closed] read under it), over EVERY
    interleaving of their lock / begin-write / end-write / unlock steps: *)

(** at most one goroutine is inside a write, the close frame is written at most once and CloseFunc is called exactly
    as often as the close frame is written *)
Theorem C11_writes_exclusive_close_once : forall progs tr s,
  progs_as_written progs = true -> wsrun (wsinit progs) tr = Some s ->
  (writers_inside s <= 1 /\ close_frames s <= 1 /\ ws_cb s = close_frames s)%nat.
Proof. exact ws_lock_safety_lemma. Qed.
Print Assumptions C11_writes_exclusive_close_once.

(** what a goroutine has put on the wire so far, followed by what it still has to write, is its program: each
    operation's results are on the wire in the order its goroutine produced them, none lost, none repeated *)
Theorem C11_each_writer_in_program_order : forall progs tr s i t,
  progs_as_written progs = true -> wsrun (wsinit progs) tr = Some s -> nth_error (ws_thr s) i = Some t ->
  exists p, nth_error progs i = Some p /\ msgs (proj i (ws_out s)) ++ wmsgs (t_prog t) = wmsgs p.
Proof. exact ws_writer_order_lemma. Qed.
Print Assumptions C11_each_writer_in_program_order.

(** the mutex never deadlocks the connection, and every schedule ends within four steps per call: all connection
    goroutines finish their writes *)
Theorem C11_writers_never_deadlocked : forall progs tr s,
  progs_as_written progs = true -> wsrun (wsinit progs) tr = Some s ->
  (exists i t, nth_error (ws_thr s) i = Some t /\ unfinished t = true) -> exists j, wsstep s j <> None.
Proof. exact ws_lock_progress_lemma. Qed.
Print Assumptions C11_writers_never_deadlocked.

Theorem C11_writers_finish_within_bound : forall progs tr s,
  progs_as_written progs = true -> wsrun (wsinit progs) tr = Some s ->
  (List.length tr + weight s <= 4 * list_sum (map (@List.length wop) progs))%nat.
Proof. exact ws_lock_bounded_lemma. Qed.
Print Assumptions C11_writers_finish_within_bound.

(** the two slips the discipline excludes: a frame sent without the mutex puts two goroutines inside a write; reading
    [closed] before taking the mutex writes the close frame and calls CloseFunc twice *)
Theorem C11_unlocked_write_refuted :
  exists s, (wsrun (wsinit [[WWrite "pong" 1%Z false]; [WWrite "next" 1%Z true]]) [1; 1; 0] = Some s /\ writers_inside s = 2)%nat.
Proof. exact ws_unlocked_write_witness. Qed.
Print Assumptions C11_unlocked_write_refuted.

Theorem C11_close_check_outside_lock_refuted :
  exists s, (wsrun (wsinit [[WClose false]; [WClose false]]) [0; 1; 0; 0; 0; 0; 1; 1; 1] = Some s /\ close_frames s = 2 /\ ws_cb s = 2)%nat.
Proof. exact ws_close_check_outside_lock_witness. Qed.
Print Assumptions C11_close_check_outside_lock_refuted.

(** ... and a call that returns without unlocking (a stop for an id under which nothing runs, say) blocks every other
    goroutine of the connection for good: the next result, the tickers, the close *)
Theorem C11_mutex_left_locked_refuted :
  exists s, (wsrun (wsinit [[WLook false; WLook true]; [WWrite "next" 1%Z true]; [WClose true]]) [0; 0] = Some s /\
             wsstep s 0 = None /\ wsstep s 1 = None /\ wsstep s 2 = None /\
             existsb unfinished (ws_thr s) = true)%nat.
Proof. exact ws_lock_left_locked_witness. Qed.
Print Assumptions C11_mutex_left_locked_refuted.

Example C11_lock_nonvacuous :
  progs_as_written sample_progs = true /\
  exists s, (wsrun (wsinit sample_progs) sample_trace = Some s /\ close_frames s = 1 /\ ws_cb s = 1 /\
             forallb (fun t => negb (unfinished t)) (ws_thr s) = true)%nat.
Proof. exact ws_sample_runs. Qed.
