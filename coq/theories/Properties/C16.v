(** C16 — introspection mirrors the schema exactly, and reveals nothing when disabled. *)
From GV Require Import Base.Prelude Model.Introspect Model.IntroQuery Proofs.IntrospectProofs Proofs.IntroQueryProofs Corr.Corr_C16.
Open Scope string_scope.
Open Scope list_scope.

(** For every schema of the shape gqlparser's loader produces (any number of types, fields, arguments, input
    fields, enum values, directives; any nesting of list / non-null; any descriptions, defaults, deprecations):
    the schema a client reconstructs from the answer to the full standard introspection query is the schema
    itself in its presentation-only normal form (types and directives by name, the implicit [__schema]/[__type]
    entry fields left out, a bare [@deprecated] read with the directive's declared default reason). *)
Theorem C16_introspection_roundtrip : forall s, wf_schema s = true -> rebuild (introspect fixed s) = normalise s.
Proof. exact introspection_roundtrip. Qed.
Print Assumptions C16_introspection_roundtrip.

(** the normal form changes nothing else: it is idempotent on every definition *)
Theorem C16_normal_form_idempotent : forall d, norm_type (norm_type d) = norm_type d.
Proof. exact normalise_idempotent_types. Qed.
Print Assumptions C16_normal_form_idempotent.

(** Each element's own deprecation status: an argument reports its own directive, a field its own. *)
Theorem C16_own_deprecation_args : forall s f,
  map (fun a => (ri_name a, ri_isdep a)) (rf_args (intro_field fixed s f)) = map (fun a => (iv_name a, is_dep (iv_depr a))) (fl_args f).
Proof. exact own_deprecation_args. Qed.
Print Assumptions C16_own_deprecation_args.

(** The possible types reported for an interface are exactly the object types that declare it. *)
Theorem C16_possible_types_of_interface : forall s d,
  NoDup (map td_name (sc_types s)) -> td_kind d = KIface ->
  rt_possible (intro_type fixed s d) =
  map (fun o => RNamed KObj (td_name o))
      (filter (fun o => match td_kind o with KObj => existsb (String.eqb (td_name d)) (td_ifaces o) | _ => false end) (sc_types s)).
Proof. exact possible_of_interface_are_its_objects. Qed.
Print Assumptions C16_possible_types_of_interface.

(** When every mentioned type name is defined, no reference dangles (in Go: Kind() never dereferences nil). *)
Theorem C16_no_dangling_reference : forall v s, closed_schema s = true -> dangling_schema (introspect v s) = false.
Proof. exact no_dangling. Qed.
Print Assumptions C16_no_dangling_reference.

(** Introspection disabled: for every query - any aliases, any merging of fragments, any arguments - every
    response key whose field is [__schema], [__type] or the federation [_service] is null (or the whole data
    is) and is named by an error ... *)
Theorem C16_disabled_reveals_nothing : forall v s qn roots,
  NoDup (map q_alias roots) ->
  let r := exec_roots v false s qn roots in monitor_disabled roots (rr_data r) (rr_errors r) = true.
Proof. exact disabled_reveals_nothing. Qed.
Print Assumptions C16_disabled_reveals_nothing.

(** ... the errors are exactly those keys ... *)
Theorem C16_disabled_errors_exact : forall v s qn roots,
  rr_errors (exec_roots v false s qn roots) = map q_alias (filter (fun q => is_intro_root (q_name q)) roots).
Proof. exact disabled_errors_exact. Qed.
Print Assumptions C16_disabled_errors_exact.

(** ... and the whole response is the same for every schema value: nothing of the schema is obtained. *)
Theorem C16_disabled_noninterference : forall v1 v2 s1 s2 qn roots,
  exec_roots v1 false s1 qn roots = exec_roots v2 false s2 qn roots.
Proof. exact disabled_noninterference. Qed.
Print Assumptions C16_disabled_noninterference.

(** The pinned commit is refuted on each of its four deviations (witness schemas; replayed on the implementation
    by the pinned cases of the correspondence run). *)
Definition ty_int := TyNamed "Int" false.
Definition t_int : tdefn := {| td_kind := KScalar; td_name := "Int"; td_desc := ""; td_fields := []; td_ifaces := [];
                               td_members := []; td_enums := []; td_specified := None; td_oneof := false |}.
Definition mk_schema (ts : list tdefn) : sch :=
  {| sc_desc := ""; sc_types := ts; sc_query := Some "Query"; sc_mutation := None; sc_subscription := None; sc_dirs := [] |}.
Definition obj (k : kind) (n : string) (fs : list fld) (ifs : list string) : tdefn :=
  {| td_kind := k; td_name := n; td_desc := ""; td_fields := fs; td_ifaces := ifs; td_members := []; td_enums := [];
     td_specified := None; td_oneof := false |}.
Definition fld0 (n : string) (args : list inval) (d : depr) : fld :=
  {| fl_name := n; fl_desc := ""; fl_args := args; fl_type := ty_int; fl_default := None; fl_depr := d |}.

(** `type Query { live(old: Int @deprecated(reason: "use new")): Int }` *)
Definition w_arg : sch :=
  mk_schema [t_int; obj KObj "Query" [fld0 "live" [{| iv_name := "old"; iv_desc := ""; iv_type := ty_int; iv_default := None;
                                                      iv_depr := Some (Some "use new") |}] None] []].
Theorem C16_legacy_argument_deprecation_refuted :
  wf_schema w_arg = true /\
  rebuild (introspect {| v_arg_own_depr := false; v_iface_ifaces := true; v_default_reason := true; v_possible_objects := true |} w_arg)
  <> normalise w_arg.
Proof. split; [reflexivity|]. vm_compute. discriminate. Qed.
Print Assumptions C16_legacy_argument_deprecation_refuted.

(** `interface Node { id: Int } interface Res implements Node { id: Int } type Query { id: Int }` *)
Definition w_iface : sch :=
  mk_schema [t_int; obj KIface "Node" [fld0 "id" [] None] []; obj KIface "Res" [fld0 "id" [] None] ["Node"];
             obj KObj "Query" [fld0 "id" [] None] []].
Theorem C16_legacy_interface_interfaces_refuted :
  wf_schema w_iface = true /\
  rebuild (introspect {| v_arg_own_depr := true; v_iface_ifaces := false; v_default_reason := true; v_possible_objects := true |} w_iface)
  <> normalise w_iface.
Proof. split; [reflexivity|]. vm_compute. discriminate. Qed.
Print Assumptions C16_legacy_interface_interfaces_refuted.

(** `enum E { A @deprecated }`: the pinned commit reports isDeprecated with a null reason, so the rebuilt
    directive has no reason where the schema's directive carries its declared default *)
Definition w_enum : sch :=
  mk_schema [t_int; {| td_kind := KEnum; td_name := "E"; td_desc := ""; td_fields := []; td_ifaces := []; td_members := [];
                       td_enums := [{| en_name := "A"; en_desc := ""; en_depr := Some None |}]; td_specified := None; td_oneof := false |};
             obj KObj "Query" [fld0 "id" [] None] []].
Theorem C16_legacy_default_reason_refuted :
  wf_schema w_enum = true /\
  rebuild (introspect {| v_arg_own_depr := true; v_iface_ifaces := true; v_default_reason := false; v_possible_objects := true |} w_enum)
  <> normalise w_enum.
Proof. split; [reflexivity|]. vm_compute. discriminate. Qed.
Print Assumptions C16_legacy_default_reason_refuted.

(** with the interface hierarchy above the pinned commit lists the interface Res among the possible types of Node *)
Theorem C16_legacy_possible_types_refuted :
  possible_consistent (introspect {| v_arg_own_depr := true; v_iface_ifaces := true; v_default_reason := true; v_possible_objects := false |} w_iface) = false
  /\ possible_consistent (introspect fixed w_iface) = true.
Proof. split; vm_compute; reflexivity. Qed.
Print Assumptions C16_legacy_possible_types_refuted.

(** Non-vacuity: the witnesses are well-formed and closed, the repaired code round-trips them, and a query that
    hides [__schema] behind an alias next to a user field gets nothing with the gate closed. *)
Example C16_nonvacuous :
  wf_schema w_iface = true /\ closed_schema w_iface = true /\ sch_eqb (rebuild (introspect fixed w_arg)) (normalise w_arg) = true /\
  exec_roots fixed false w_iface "Query" [Q "x" "__schema" false "" [Q "types" "types" false "" [Q "name" "name" false "" []]]; Q "id" "id" false "" []]
  = {| rr_data := JO [("x", JN); ("id", opaque)]; rr_errors := ["x"] |} /\
  rr_data (exec_roots fixed true w_iface "Query" [Q "x" "__type" false "Res" [Q "interfaces" "interfaces" false "" [Q "name" "name" false "" []]]])
  = JO [("x", JO [("interfaces", JA [JO [("name", JS "Node")]])])].
Proof. vm_compute. repeat split; reflexivity. Qed.
