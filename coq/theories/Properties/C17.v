(** C17 — generation succeeds and compiles for every supported schema and config (PARTIAL: the theorems carry the
    collision-free naming registry; that generation finishes and its output type-checks is exercised, not proved). *)
From GV Require Import Base.Prelude Model.Naming Model.ToGo Proofs.NamingProofs Proofs.ToGoProofs Corr.Corr_C17.
Open Scope string_scope.
Open Scope list_scope.

(** For ANY word-level naming functions (ToGo, ToGoPrivate, character replacement) and every history of
    ToGoModelName / ToGoPrivateModelName calls: the names handed out are pairwise distinct, and so are the keys. *)
Theorem C17_registry_injective : forall to_go to_go_private valid num calls,
  inv (fst (run_calls to_go to_go_private valid num [] calls)).
Proof. intros. apply registry_injective_lemma. split; constructor. Qed.
Print Assumptions C17_registry_injective.

(** Two different entities (type names, enum values, ... that may normalise to the same Go identifier) never
    share a Go name. *)
Theorem C17_distinct_entities_distinct_names : forall (reg : registry) k1 k2 n1 n2,
  inv reg -> lookup reg k1 = Some n1 -> lookup reg k2 = Some n2 -> k1 <> k2 -> n1 <> n2.
Proof. exact distinct_keys_distinct_names_lemma. Qed.
Print Assumptions C17_distinct_entities_distinct_names.

(** An entity keeps the name it was given, whatever is allocated later. *)
Theorem C17_name_stable : forall to_go to_go_private valid num calls reg k v,
  inv reg -> lookup reg k = Some v -> lookup (fst (run_calls to_go to_go_private valid num reg calls)) k = Some v.
Proof. intros. now apply name_stable_lemma. Qed.
Print Assumptions C17_name_stable.

(** The numbering fallback always finds a free name (so allocation never fails or loops): among
    length(registry)+1 numbered candidates one is unused - for any injective rendering of numbers. *)
Theorem C17_numbering_total : forall num, (forall i j, num i = num j -> i = j) ->
  forall (reg : registry) base, first_free num reg base 0 (S (List.length reg)) <> None.
Proof. intros num Hinj reg base. now apply numbering_total_lemma. Qed.
Print Assumptions C17_numbering_total.

(** The word-level functions (wordWalker, ToGo, ToGoPrivate, sanitizeKeywords, modelled on ASCII text): for EVERY
    name made of letters, digits and underscores - Go keywords and predeclared names, initialisms, leading, trailing
    and embedded underscores included - whose first character that is not an underscore is a letter, ToGo returns an
    exported Go identifier and ToGoPrivate a Go identifier that is not a keyword. *)
Theorem C17_to_go_valid : forall s,
  forallb name_char s = true -> letter_first s = true -> go_ident (to_go_c s) = true /\ exported (to_go_c s) = true.
Proof. exact to_go_valid_lemma. Qed.
Print Assumptions C17_to_go_valid.
Theorem C17_to_go_private_valid : forall s,
  forallb name_char s = true -> letter_first s = true ->
  go_ident (to_go_private_c s) = true /\ is_keyword (to_go_private_c s) = false.
Proof. exact to_go_private_valid_lemma. Qed.
Print Assumptions C17_to_go_private_valid.
(** and for every such text at all, the results contain nothing but letters, digits and underscores *)
Theorem C17_to_go_chars : forall s, forallb name_char s = true ->
  forallb name_char (to_go_c s) = true /\ forallb name_char (to_go_private_c s) = true.
Proof. intros s H. split; [now apply to_go_chars_lemma|now apply to_go_private_chars_lemma]. Qed.
Print Assumptions C17_to_go_chars.
(** Without the side condition the statement is false of the code (kept finding): the GraphQL name _1 *)
Theorem C17_to_go_digit_first_refuted :
  graphql_name (cs "_1") = true /\ to_go "_1" = "1" /\ to_go_private "_1" = "1" /\ go_ident (cs "1") = false.
Proof. vm_compute. repeat split; reflexivity. Qed.
Print Assumptions C17_to_go_digit_first_refuted.

(** Non-vacuity: three entities normalising to FooBar get three names; asking again returns the same one. *)
Example C17_nonvacuous :
  let go (s : string) := if String.eqb s "foo_bar" || String.eqb s "fooBar" || String.eqb s "FooBar" then "FooBar" else s in
  snd (run_calls go go (fun s => s) num [] [(false, ["foo_bar"]); (false, ["fooBar"]); (false, ["FooBar"]); (false, ["fooBar"])])
  = [Some "FooBar"; Some "FooBar0"; Some "FooBar1"; Some "FooBar0"].
Proof. vm_compute. reflexivity. Qed.
Example C17_to_go_nonvacuous :
  map (fun s => (to_go s, to_go_private s)) ["type"; "user_id"; "HTTPServer"; "_leading"; "a_1_2"; "IDFoo"]
  = [("Type", "typeArg"); ("UserID", "userID"); ("HTTPServer", "httpServer"); ("Leading", "leading"); ("A1_2", "a1_2"); ("IDFoo", "idFoo")]
  /\ forallb (fun s => forallb name_char (cs s) && letter_first (cs s)) ["type"; "user_id"; "HTTPServer"; "_leading"; "a_1_2"; "IDFoo"] = true.
Proof. vm_compute. split; reflexivity. Qed.
