(** C17 — generation succeeds and compiles for every supported schema and config (PARTIAL: the theorems carry the
    collision-free naming registry; that generation finishes and its output type-checks is exercised, not proved). *)
From GV Require Import Base.Prelude Model.Naming Proofs.NamingProofs Corr.Corr_C17.
Open Scope string_scope.
Open Scope list_scope.

(** For ANY word-level naming functions (ToGo, ToGoPrivate, character replacement) and every history of
    ToGoModelName / ToGoPrivateModelName calls: the names handed out are pairwise distinct, and so are the keys. *)
Theorem C17_registry_injective : forall to_go to_go_private valid num calls,
  inv (fst (run_calls to_go to_go_private valid num [] calls)).
Proof. intros. apply registry_injective_lemma. split; constructor. Qed.
Print Assumptions C17_registry_injective.

(** Two different entities (type names, enum values, ... that may normalise to the same Go identifier) never
    share a Go name. *)
Theorem C17_distinct_entities_distinct_names : forall (reg : registry) k1 k2 n1 n2,
  inv reg -> lookup reg k1 = Some n1 -> lookup reg k2 = Some n2 -> k1 <> k2 -> n1 <> n2.
Proof. exact distinct_keys_distinct_names_lemma. Qed.
Print Assumptions C17_distinct_entities_distinct_names.

(** An entity keeps the name it was given, whatever is allocated later. *)
Theorem C17_name_stable : forall to_go to_go_private valid num calls reg k v,
  inv reg -> lookup reg k = Some v -> lookup (fst (run_calls to_go to_go_private valid num reg calls)) k = Some v.
Proof. intros. now apply name_stable_lemma. Qed.
Print Assumptions C17_name_stable.

(** The numbering fallback always finds a free name (so allocation never fails or loops): among
    length(registry)+1 numbered candidates one is unused - for any injective rendering of numbers. *)
Theorem C17_numbering_total : forall num, (forall i j, num i = num j -> i = j) ->
  forall (reg : registry) base, first_free num reg base 0 (S (List.length reg)) <> None.
Proof. intros num Hinj reg base. now apply numbering_total_lemma. Qed.
Print Assumptions C17_numbering_total.

(** Non-vacuity: three entities normalising to FooBar get three names; asking again returns the same one. *)
Example C17_nonvacuous :
  let go (s : string) := if String.eqb s "foo_bar" || String.eqb s "fooBar" || String.eqb s "FooBar" then "FooBar" else s in
  snd (run_calls go go (fun s => s) num [] [(false, ["foo_bar"]); (false, ["fooBar"]); (false, ["FooBar"]); (false, ["fooBar"])])
  = [Some "FooBar"; Some "FooBar0"; Some "FooBar1"; Some "FooBar0"].
Proof. vm_compute. reflexivity. Qed.
