(** C06 — results are independent of resolver scheduling; mutation roots run serially. *)
From GV Require Import Base.Prelude Base.Interleave Model.Exec Model.Conc Proofs.ExecProofs Proofs.ConcProofs.
Open Scope list_scope.

(** For ANY interleaving of the atomic actions (append an error under the mutex, publish a slot, bump the
    Invalids counter) of any set of tasks that publish pairwise distinct slots: every slot reads as under
    the sequential schedule, the Invalids counter is the same (hence the same data, including null
    bubbling), and the errors are a permutation (the same multiset). *)
Theorem C06_schedule_independent : forall (tasks : list (list action)) trace,
  interleave tasks trace ->
  NoDup (map fst (slots_of (List.concat tasks))) ->
  let s := run_trace trace in let s0 := run_trace (List.concat tasks) in
  (forall i, slot_get (cs_slots s) i = slot_get (cs_slots s0) i)
  /\ cs_invalids s = cs_invalids s0
  /\ Permutation (cs_errs s) (cs_errs s0).
Proof. exact schedule_independent_lemma. Qed.
Print Assumptions C06_schedule_independent.

(** The tasks FieldSet.Dispatch runs for the fields of an object do publish pairwise distinct slots ... *)
Theorem C06_footprint_disjoint : forall p fs, NoDup (map fst (slots_of (List.concat (field_tasks p 0 fs)))).
Proof. exact field_tasks_disjoint. Qed.
Print Assumptions C06_footprint_disjoint.

(** ... and their sequential schedule is the completion function the other properties are proved about. *)
Theorem C06_sequential_is_completion : forall p fs i,
  errs_of (List.concat (field_tasks p i fs)) = snd (impl_obj p fs)
  /\ invalids_of (List.concat (field_tasks p i fs)) = snd (fst (impl_obj p fs)).
Proof. exact field_tasks_sequential. Qed.
Print Assumptions C06_sequential_is_completion.

(** every schedule is reachable in the model, the sequential one included (non-vacuity) *)
Theorem C06_sequential_is_an_interleaving : forall (tasks : list (list action)), interleave tasks (List.concat tasks).
Proof. intros tasks. apply interleave_sequential. Qed.
Print Assumptions C06_sequential_is_an_interleaving.
