(** C06 — results are independent of resolver scheduling; mutation roots run serially. *)
From GV Require Import Base.Prelude Base.Interleave Model.Exec Model.Conc Model.MutSerial Proofs.ExecProofs Proofs.ConcProofs Proofs.MutSerialProofs Base.Threads Model.ElemPanic Proofs.ElemPanicProofs.
Open Scope list_scope.

(** For ANY interleaving of the atomic actions (append an error under the mutex, publish a slot, bump the
    Invalids counter) of any set of tasks that publish pairwise distinct slots: every slot reads as under
    the sequential schedule, the Invalids counter is the same (hence the same data, including null
    bubbling), and the errors are a permutation (the same multiset). *)
Theorem C06_schedule_independent : forall (tasks : list (list action)) trace,
  interleave tasks trace ->
  NoDup (map fst (slots_of (List.concat tasks))) ->
  let s := run_trace trace in let s0 := run_trace (List.concat tasks) in
  (forall i, slot_get (cs_slots s) i = slot_get (cs_slots s0) i)
  /\ cs_invalids s = cs_invalids s0
  /\ Permutation (cs_errs s) (cs_errs s0).
Proof. exact schedule_independent_lemma. Qed.
Print Assumptions C06_schedule_independent.

(** The tasks FieldSet.Dispatch runs for the fields of an object do publish pairwise distinct slots ... *)
Theorem C06_footprint_disjoint : forall p fs, NoDup (map fst (slots_of (List.concat (field_tasks p 0 fs)))).
Proof. exact field_tasks_disjoint. Qed.
Print Assumptions C06_footprint_disjoint.

(** ... and their sequential schedule is the completion function the other properties are proved about. *)
Theorem C06_sequential_is_completion : forall p fs i,
  errs_of (List.concat (field_tasks p i fs)) = snd (impl_obj p fs)
  /\ invalids_of (List.concat (field_tasks p i fs)) = snd (fst (impl_obj p fs)).
Proof. exact field_tasks_sequential. Qed.
Print Assumptions C06_sequential_is_completion.

(** every schedule is reachable in the model, the sequential one included (non-vacuity) *)
Theorem C06_sequential_is_an_interleaving : forall (tasks : list (list action)), interleave tasks (List.concat tasks).
Proof. intros tasks. apply interleave_sequential. Qed.
Print Assumptions C06_sequential_is_an_interleaving.

(** Mutation root fields: the generated root marshaller runs them inline, one after another in collection order.
    Whatever events each root field produces - in whatever order its own sub-selection is scheduled - the trace of
    the operation shows every root field as one block, the blocks in document order: a field starts only after the
    previous one has ended, sub-selection included.  (This is what the observer in Corr_C01.serial_ok checks on the
    start / end events of every mutation.) *)
Theorem C06_mutation_roots_serial : forall (A : Type) (bodies : list (list (nat * A))),
  (forall i b, nth_error bodies i = Some b -> body_of A i b) ->
  grouped A (List.length bodies) (serial_trace A bodies) = true.
Proof. exact serial_grouped_lemma. Qed.
Print Assumptions C06_mutation_roots_serial.

(** Dispatching the same root fields the way a query's are (goroutines) admits schedules that are not serial. *)
Theorem C06_concurrent_roots_refuted :
  let bodies := [[(0, "start"); (0, "end")]; [(1, "start"); (1, "end")]]%string in
  let tr := [(0, "start"); (1, "start"); (0, "end"); (1, "end")]%string in
  concurrent_trace string bodies tr /\ grouped string 2 tr = false.
Proof. exact concurrent_not_grouped_witness. Qed.
Print Assumptions C06_concurrent_roots_refuted.


(** ** list element goroutines, some of which panic inside generated code (Model.ElemPanic): any two interleavings
    that reach the join leave the same array, the same errors per element and the same number of recover-hook calls *)
Theorem C06_list_element_panics_schedule_independent : forall plan tr1 tr2 s1 s2 j1 j2,
  erun as_written_elems (einit plan) tr1 = Some s1 -> e_joined s1 = Some j1 ->
  erun as_written_elems (einit plan) tr2 = Some s2 -> e_joined s2 = Some j2 ->
  j1 = j2 /\ map el_errs (e_els s1) = map el_errs (e_els s2) /\ e_recovers s1 = e_recovers s2.
Proof.
  intros plan tr1 tr2 s1 s2 [r1 sl1] [r2 sl2] R1 J1 R2 J2.
  destruct (elems_contained_lemma _ _ _ _ _ R1 J1) as (-> & -> & E1 & C1 & _).
  destruct (elems_contained_lemma _ _ _ _ _ R2 J2) as (-> & -> & E2 & C2 & _).
  repeat split; congruence.
Qed.
Print Assumptions C06_list_element_panics_schedule_independent.

(** Refuted for the closure of the pinned commit (recover handler registered before [Done], handler resets the whole
    result): one schedule passes the join with a slot unset, another answers an empty list with two errors. *)
Theorem C06_pinned_element_closure_refuted :
  let v := {| v_done_last := false; v_own_slot := false |} in
  (exists s sl, erun v (einit [true; false]) [EL 0; EL 0; EL 1; EL 1; EL 1; EJoin]%nat = Some s /\ e_joined s = Some (false, sl) /\ In Unset sl) /\
  (exists s sl, erun v (einit [true; false]) [EL 0; EL 0; EL 0; EL 1; EL 1; EL 1; EJoin]%nat = Some s /\ e_joined s = Some (true, sl) /\ e_recovers s = 2%nat).
Proof. split; [exact pinned_element_closure_witness|exact pinned_element_closure_witness2]. Qed.
Print Assumptions C06_pinned_element_closure_refuted.
