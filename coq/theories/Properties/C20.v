(** C20 — federation [_entities] answers each representation at its own index. *)
From GV Require Import Base.Prelude Base.Interleave Model.Entities Proofs.EntitiesProofs Corr.Corr_C20.
Open Scope string_scope.
Open Scope list_scope.

(** Grouping: every representation that carries a __typename is in exactly one group, under its own index
    (any list length, duplicates, interleaved types). *)
Theorem C20_groups_partition : forall reps : list (option string * rep),
  Permutation (flat_map group_idx (groups_of (index_from 0 reps) [])) (typed_idx (index_from 0 reps))
  /\ NoDup (typed_idx (index_from 0 reps)).
Proof. exact groups_partition_lemma. Qed.
Print Assumptions C20_groups_partition.

(** The tasks of a request (one per representation for per-entity resolvers, one per group for batch
    resolvers) write pairwise distinct indices of the result list ... *)
Theorem C20_tasks_write_disjoint_indices : forall es o reps,
  NoDup (W (no_typename_errors (index_from 0 reps) ++ List.concat (all_tasks es o reps))).
Proof. exact tasks_disjoint_lemma. Qed.
Print Assumptions C20_tasks_write_disjoint_indices.

(** ... hence for EVERY interleaving of the tasks' actions - however the per-type and per-entity goroutines are
    scheduled - every element, the multiset of errors and the multiset of resolver calls are those of the
    sequential schedule. *)
Theorem C20_schedule_independent : forall es o reps trace,
  interleave (all_tasks es o reps) trace ->
  let pre := no_typename_errors (index_from 0 reps) in
  let s := run_acts (pre ++ trace) in let s0 := entities_seq es o reps in
  (forall i, slot (st_slots s) i = slot (st_slots s0) i)
  /\ Permutation (st_errs s) (st_errs s0) /\ Permutation (st_calls s) (st_calls s0).
Proof.
  intros es o reps trace Hil. exact (schedule_independent_lemma _ _ _ Hil (tasks_disjoint_lemma es o reps)).
Qed.
Print Assumptions C20_schedule_independent.

(** Element i, for a type with per-entity resolvers (or an unknown type): under every schedule it is
    [spec_single] of representation i - the entity its own keys denote with the required fields of the same
    representation, or null when that resolution failed - whatever the other representations are. *)
Theorem C20_entities_by_index : forall es o reps trace i tn r,
  nth_error reps i = Some (Some tn, r) -> is_multi es tn = false ->
  interleave (all_tasks es o reps) trace ->
  slot (st_slots (run_acts (no_typename_errors (index_from 0 reps) ++ trace))) i = spec_single es o tn r.
Proof. exact single_by_index_lemma. Qed.
Print Assumptions C20_entities_by_index.

(** Fault isolation: that element depends on the user's resolvers only through the one call its own keys lead
    to; an error or panic anywhere else changes nothing. *)
Theorem C20_fault_isolated : forall es o o' tn r,
  (forall e, find_entity es tn = Some e -> forall echo, own_echo e r = Some echo -> plan_of o echo = plan_of o' echo) ->
  spec_single es o tn r = spec_single es o' tn r.
Proof. exact single_isolated_lemma. Qed.
Print Assumptions C20_fault_isolated.

(** Batch resolvers: whatever a group's task writes at an index is the entity of the representation AT THAT
    INDEX under the group's resolver, with the required fields populated from that same representation (the
    unit of failure is the batch: the task may write fewer elements, never someone else's). *)
Theorem C20_batch_writes_sound : forall e o reps idx el,
  In (idx, el) (writes (multi_task e o reps)) ->
  exists r0 rs r, first_rep reps = Some r0 /\ resolver_for (en_resolvers e) r0 = Some rs /\ In (idx, r) reps /\
    match el with
    | ElNull => en_requires e = []
    | ElEntity t echo reqs => t = en_name e /\ requires_of r (en_requires e) = Some reqs /\
                              exists keys, keys_multi r (rs_keys rs) = MKOk keys /\ echo = echo_multi rs keys
    end.
Proof. exact multi_writes_sound_lemma. Qed.
Print Assumptions C20_batch_writes_sound.

(** Kept finding: "under the group's resolver" is not "by its own keys".  With two keys on a batch type the
    second representation below is answered with the entity for a = "null", a key it never had, and no error. *)
Definition pair_entity : entity :=
  {| en_name := "Pair"; en_multi := true; en_requires := [];
     en_resolvers := [{| rs_name := "FindManyPairByAs"; rs_keys := [{| kf_path := ["a"]; kf_type := KId |}] |};
                      {| rs_name := "FindManyPairByBs"; rs_keys := [{| kf_path := ["b"]; kf_type := KId |}] |}] |}.
Definition mixed_reps : list (option string * rep) :=
  [(Some "Pair", [("__typename", VStr "Pair"); ("a", VStr "1")]); (Some "Pair", [("__typename", VStr "Pair"); ("b", VStr "2")])].
Theorem C20_multi_mixed_keys_refuted :
  let s := entities_seq [pair_entity] [] mixed_reps in
  result_list 2 s = [ElEntity "Pair" "FindManyPairByAs{""1""}" []; ElEntity "Pair" "FindManyPairByAs{""null""}" []]
  /\ st_errs s = []
  /\ own_echo pair_entity [("__typename", VStr "Pair"); ("b", VStr "2")] = Some "FindManyPairByBs{""2""}".
Proof. vm_compute. repeat split; reflexivity. Qed.
Print Assumptions C20_multi_mixed_keys_refuted.

(** Non-vacuity: a list mixing a per-entity type (one representation failing), an unknown type and a
    representation without __typename; every schedule is covered, the sequential one exists. *)
Definition user_entity : entity :=
  {| en_name := "User"; en_multi := false; en_requires := [];
     en_resolvers := [{| rs_name := "FindUserByID"; rs_keys := [{| kf_path := ["id"]; kf_type := KId |}] |}] |}.
Example C20_nonvacuous :
  let reps := [(Some "User", [("id", VStr "1")]); (Some "Ghost", [("id", VStr "1")]); (None, [("id", VStr "9")]); (Some "User", [("id", VStr "2")])] in
  let o := [("FindUserByID(""2"")", PPanic "boom")] in
  let s := entities_seq [user_entity] o reps in
  result_list 4 s = [ElEntity "User" "FindUserByID(""1"")" []; ElNull; ElNull; ElNull]
  /\ st_errs s = [ENoTypename; EPanic "boom"; EUnknownType]
  /\ interleave (all_tasks [user_entity] o reps) (List.concat (all_tasks [user_entity] o reps)).
Proof.
  cbv zeta. split; [vm_compute; reflexivity|]. split; [vm_compute; reflexivity|apply interleave_sequential].
Qed.
