(** C08 — everything gqlgen serialises is valid JSON that round-trips the value. *)
From GV Require Import Base.Prelude Base.Utf8 Base.Json Model.Scalars Proofs.Utf8Proofs Proofs.ScalarsProofs Corr.Corr_C08.

(** Strings / IDs.  For EVERY byte string (no validity hypothesis): the bytes written are valid UTF-8,
    are a JSON string literal, and that literal denotes the input with each offending byte replaced by
    U+FFFD; for valid UTF-8 input the denoted string is the input itself (so UnmarshalString, the
    identity on strings, gives the original back). *)
Theorem C08_quoted_string_json : forall s,
  is_json_string (write_quoted s) (runes s)
  /\ utf8_valid (write_quoted s)
  /\ encodes (runes s) (sanitize s)
  /\ (valid_utf8_input s = true -> sanitize s = s).
Proof. exact quoted_string_json_lemma. Qed.
Print Assumptions C08_quoted_string_json.

(** Go's decoder and RFC 3629 agree on what a well-formed multi-byte sequence is. *)
Theorem C08_go_decoder_is_rfc3629 : forall s cp raw rest,
  decode1 s = Some (CMulti cp raw, rest) -> utf8_encode cp = Some raw /\ (0x80 <= cp)%N.
Proof. exact decode1_multi. Qed.
Print Assumptions C08_go_decoder_is_rfc3629.

(** The escaper as it was at the pinned commit copied an offending byte verbatim: the full statement
    is false of it (witness: the one-byte string FF).  Repaired by a fix: commit; see known_findings. *)
Theorem C08_string_utf8_legacy_refuted : ~ utf8_valid (write_quoted_legacy [255%N]).
Proof. exact string_utf8_legacy_refuted_lemma. Qed.
Print Assumptions C08_string_utf8_legacy_refuted.

(** Integers of every width: the token is a JSON number, and decoding + unmarshaling gives the value
    back (bare tokens travel as json.Number, the ID forms as quoted strings). *)
Theorem C08_int_roundtrip : forall z,
  (minI64 <= z <= maxI64 -> unmarshal_int (GNumber (marshal_int z)) = Ok z /\ unmarshal_int_id (GString (format_Z z)) = Ok z)
  /\ (minI32 <= z <= maxI32 -> unmarshal_int32 (GNumber (marshal_int z)) = Ok z)
  /\ (0 <= z <= maxU64 -> unmarshal_uint64 (GNumber (marshal_int z)) = Ok z /\ unmarshal_uint_id (GString (format_Z z)) = Ok z)
  /\ (0 <= z <= maxU32 -> unmarshal_uint32 (GNumber (marshal_int z)) = Ok z)
  /\ (- pow20 < z < pow20 -> json_int_token (marshal_int z) = true).
Proof. exact int_roundtrip_lemma. Qed.
Print Assumptions C08_int_roundtrip.

(** Non-finite floats are refused by the context marshaler (decision logic). *)
Theorem C08_float_context_rejects_nonfinite : forall c, float_context_ok c = true <-> c = FFinite.
Proof. exact float_context_spec. Qed.
Print Assumptions C08_float_context_rejects_nonfinite.

(** Non-vacuity: a string mixing an escape, a control character, a 4-byte sequence, a literal U+FFFD and
    two offending bytes. *)
Example C08_nonvacuous :
  write_quoted [34; 1; 240; 159; 152; 128; 239; 191; 189; 255; 192]%N
  = [34; 92; 34; 92; 117; 48; 48; 48; 49; 240; 159; 152; 128; 239; 191; 189;
     92; 117; 102; 102; 102; 100; 92; 117; 102; 102; 102; 100; 34]%N
  /\ runes [34; 1; 240; 159; 152; 128; 239; 191; 189; 255; 192]%N = [34; 1; 128512; 65533; 65533; 65533]%N.
Proof. vm_compute. split; reflexivity. Qed.
