(** C10 — malformed client input gets a client error, never gqlgen's own panic path. *)
From GV Require Import Base.Prelude Model.Upload Proofs.UploadProofs Corr.Corr_C10.
Open Scope string_scope.
Open Scope list_scope.

(** For every variables value, every multipart map path (any segments: wrong container kind,
    out-of-range and negative indices, numeric-looking keys, missing variables) the repaired
    AddUpload never panics. *)
Theorem C10_add_upload_total : forall has_prefix vs path u p, add_upload true has_prefix vs path u <> Panic p.
Proof. exact add_upload_total_lemma. Qed.
Print Assumptions C10_add_upload_total.

(** On success the addressed position holds the upload ... *)
Theorem C10_add_upload_delivers : forall v path u v',
  path <> [] -> walk true v path u = Ok v' -> get v' path = JVUpload u.
Proof. intros v path u v'. exact (walk_delivers path v u v'). Qed.
Print Assumptions C10_add_upload_delivers.

(** ... and every position that leaves the path at some segment (a sibling key or index at any depth)
    reads exactly as before. *)
Theorem C10_add_upload_frame : forall path v u v' q pre s t r1 r2,
  walk true v path u = Ok v' -> path = pre ++ s :: r1 -> q = pre ++ t :: r2 -> seg_differs s t ->
  get v' q = get v q.
Proof. exact walk_frame. Qed.
Print Assumptions C10_add_upload_frame.

(** The walker at the pinned commit panics on five client-chosen shapes (nil-map write without
    variables, index into a scalar, index out of range, negative index, key into a list). Repaired by a
    fix: commit; see known_findings. *)
Theorem C10_add_upload_legacy_refuted :
  is_panic (add_upload false true VNilMap [SegKey "f"] 0) = true
  /\ is_panic (add_upload false true (VMap [("a", JVLeaf 0)]) [SegKey "a"; SegIdx "0" 0] 0) = true
  /\ is_panic (add_upload false true (VMap [("a", JVList [JVNil])]) [SegKey "a"; SegIdx "5" 5] 0) = true
  /\ is_panic (add_upload false true (VMap [("a", JVList [JVNil])]) [SegKey "a"; SegIdx "-1" (-1)] 0) = true
  /\ is_panic (add_upload false true (VMap [("a", JVList [JVNil])]) [SegKey "a"; SegKey "x"] 0) = true.
Proof. exact add_upload_legacy_refuted_lemma. Qed.
Print Assumptions C10_add_upload_legacy_refuted.

Example C10_nonvacuous :
  add_upload true true (VMap [("files", JVList [JVNil; JVNil]); ("x", JVLeaf 1)]) [SegKey "files"; SegIdx "1" 1] 7
  = Ok (VMap [("files", JVList [JVNil; JVUpload 7]); ("x", JVLeaf 1)]).
Proof. vm_compute. reflexivity. Qed.
