(** C10 — malformed client input gets a client error, never gqlgen's own panic path. *)
From GV Require Import Base.Prelude Model.Upload Model.UploadForm Proofs.UploadProofs Proofs.UploadFormProofs Corr.Corr_C10.
Open Scope string_scope.
Open Scope list_scope.

(** For every variables value, every multipart map path (any segments: wrong container kind,
    out-of-range and negative indices, numeric-looking keys, missing variables) the repaired
    AddUpload never panics. *)
Theorem C10_add_upload_total : forall has_prefix vs path u p, add_upload true has_prefix vs path u <> Panic p.
Proof. exact add_upload_total_lemma. Qed.
Print Assumptions C10_add_upload_total.

(** On success the addressed position holds the upload ... *)
Theorem C10_add_upload_delivers : forall v path u v',
  path <> [] -> walk true v path u = Ok v' -> get v' path = JVUpload u.
Proof. intros v path u v'. exact (walk_delivers path v u v'). Qed.
Print Assumptions C10_add_upload_delivers.

(** ... and every position that leaves the path at some segment (a sibling key or index at any depth)
    reads exactly as before. *)
Theorem C10_add_upload_frame : forall path v u v' q pre s t r1 r2,
  walk true v path u = Ok v' -> path = pre ++ s :: r1 -> q = pre ++ t :: r2 -> seg_differs s t ->
  get v' q = get v q.
Proof. exact walk_frame. Qed.
Print Assumptions C10_add_upload_frame.

(** The walker at the pinned commit panics on five client-chosen shapes (nil-map write without
    variables, index into a scalar, index out of range, negative index, key into a list). Repaired by a
    fix: commit; see known_findings. *)
Theorem C10_add_upload_legacy_refuted :
  is_panic (add_upload false true VNilMap [SegKey "f"] 0) = true
  /\ is_panic (add_upload false true (VMap [("a", JVLeaf 0)]) [SegKey "a"; SegIdx "0" 0] 0) = true
  /\ is_panic (add_upload false true (VMap [("a", JVList [JVNil])]) [SegKey "a"; SegIdx "5" 5] 0) = true
  /\ is_panic (add_upload false true (VMap [("a", JVList [JVNil])]) [SegKey "a"; SegIdx "-1" (-1)] 0) = true
  /\ is_panic (add_upload false true (VMap [("a", JVList [JVNil])]) [SegKey "a"; SegKey "x"] 0) = true.
Proof. exact add_upload_legacy_refuted_lemma. Qed.
Print Assumptions C10_add_upload_legacy_refuted.

(** The upload form handler, for EVERY request as mime/multipart presents it (any operations / map parts, any
    sequence of complete, cut-off and unreadable file parts, any map paths over any variables, in memory or
    spilled to disk): every temporary file it created is removed when it returns ... *)
Theorem C10_form_no_temp_file_left : forall f,
  fo_removed (run_form false f) = fo_created (run_form false f) /\ leaked (run_form false f) = [].
Proof. exact form_no_leak_lemma. Qed.
Print Assumptions C10_form_no_temp_file_left.

(** ... which is false as soon as the removal is registered only after the part was copied (a cut-off part) *)
Theorem C10_form_late_defer_refuted :
  leaked (run_form true {| fm_over := false; fm_spill := true; fm_ops := Some (VMap [("f", JVNil)]);
                           fm_map := Some [("0", [(true, [SegKey "f"])])]; fm_parts := [PCut "0"] |}) = [0%nat].
Proof. vm_compute. reflexivity. Qed.
Print Assumptions C10_form_late_defer_refuted.

(** ... it never takes the panic path, refuses an oversized request before anything is read or created ... *)
Theorem C10_form_never_panics : forall late f, fo_result (run_form late f) <> FPanicked.
Proof. exact form_never_panics_lemma. Qed.
Print Assumptions C10_form_never_panics.
Theorem C10_form_size_limit : forall late f, fm_over f = true ->
  accepted (run_form late f) = false /\ fo_created (run_form late f) = [] /\ fo_readers (run_form late f) = [].
Proof. exact form_over_limit_lemma. Qed.
Print Assumptions C10_form_size_limit.

(** ... hands every mapped path a reader of its own (pairwise distinct), each on a complete file part of the
    request; and it accepts only requests all of whose parts are complete files. *)
Theorem C10_form_readers_independent : forall late f,
  let o := run_form late f in
  NoDup (map fst (fo_readers o)) /\ (forall r fid, In (r, fid) (fo_readers o) -> exists key, In (PFile key fid) (fm_parts f)).
Proof. exact form_readers_lemma. Qed.
Print Assumptions C10_form_readers_independent.
Theorem C10_form_accepts_only_complete : forall late f, accepted (run_form late f) = true ->
  fm_over f = false /\ fm_ops f <> None /\ fm_map f <> None /\ forallb is_file (fm_parts f) = true.
Proof. exact form_accepted_lemma. Qed.
Print Assumptions C10_form_accepts_only_complete.

Example C10_form_nonvacuous :
  let f := {| fm_over := false; fm_spill := true; fm_ops := Some (VMap [("fs", JVList [JVNil; JVNil])]);
              fm_map := Some [("0", [(true, [SegKey "fs"; SegIdx "0" 0]); (true, [SegKey "fs"; SegIdx "1" 1])])];
              fm_parts := [PFile "0" 5] |} in
  fo_result (run_form false f) = FAccepted (VMap [("fs", JVList [JVUpload 0; JVUpload 1])]) /\
  fo_readers (run_form false f) = [(0, 5); (1, 5)]%nat /\ fo_created (run_form false f) = [0%nat] /\ fo_removed (run_form false f) = [0%nat].
Proof. vm_compute. repeat split; reflexivity. Qed.

Example C10_nonvacuous :
  add_upload true true (VMap [("files", JVList [JVNil; JVNil]); ("x", JVLeaf 1)]) [SegKey "files"; SegIdx "1" 1] 7
  = Ok (VMap [("files", JVList [JVNil; JVUpload 7]); ("x", JVLeaf 1)]).
Proof. vm_compute. reflexivity. Qed.
