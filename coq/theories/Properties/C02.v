(** C02 (scalar layer) — no numeric input is silently changed to a different number.
    The argument/input-object layer of C02 is added in Properties/C02 as the Args model grows. *)
From GV Require Import Base.Prelude Base.Utf8 Base.Json Model.Scalars Proofs.ScalarsProofs.

(** For every integer unmarshaler (after the UintID repair), every non-nil dynamic value whose typed
    payload lies in its Go type's range: if the unmarshaler accepts, the result is the mathematical
    value of the input and lies in the target type's range. *)
Theorem C02_no_silent_numeric_change : forall v n, wf_goval v -> v <> GNil ->
  (unmarshal_int v = Ok n -> num_of v = Some n /\ minI64 <= n <= maxI64)
  /\ (unmarshal_int32 v = Ok n -> num_of v = Some n /\ minI32 <= n <= maxI32)
  /\ (unmarshal_uint64 v = Ok n -> num_of v = Some n /\ 0 <= n <= maxU64)
  /\ (unmarshal_uint32 v = Ok n -> num_of v = Some n /\ 0 <= n <= maxU32)
  /\ (unmarshal_int_id v = Ok n -> num_of v = Some n /\ minI64 <= n <= maxI64)
  /\ (unmarshal_uint_id v = Ok n -> num_of v = Some n /\ 0 <= n <= maxU64).
Proof. exact no_silent_numeric_change_lemma. Qed.
Print Assumptions C02_no_silent_numeric_change.

(** UnmarshalUintID as it was at the pinned commit: uint(v) on int(-1) gives 18446744073709551615
    without an error.  Repaired by a fix: commit; see known_findings. *)
Theorem C02_uint_id_legacy_refuted :
  unmarshal_uint_id_legacy (GInt (-1)) = Ok 18446744073709551615 /\ num_of (GInt (-1)) = Some (-1).
Proof. exact uint_id_legacy_refuted_lemma. Qed.
Print Assumptions C02_uint_id_legacy_refuted.
