(** C02 (scalar layer) — no numeric input is silently changed to a different number.
    The argument/input-object layer of C02 is added in Properties/C02 as the Args model grows. *)
From GV Require Import Base.Prelude Base.Utf8 Base.Json Model.Scalars Proofs.ScalarsProofs.

(** For every integer unmarshaler (after the UintID repair), every non-nil dynamic value whose typed
    payload lies in its Go type's range: if the unmarshaler accepts, the result is the mathematical
    value of the input and lies in the target type's range. *)
Theorem C02_no_silent_numeric_change : forall v n, wf_goval v -> v <> GNil ->
  (unmarshal_int v = Ok n -> num_of v = Some n /\ minI64 <= n <= maxI64)
  /\ (unmarshal_int32 v = Ok n -> num_of v = Some n /\ minI32 <= n <= maxI32)
  /\ (unmarshal_uint64 v = Ok n -> num_of v = Some n /\ 0 <= n <= maxU64)
  /\ (unmarshal_uint32 v = Ok n -> num_of v = Some n /\ 0 <= n <= maxU32)
  /\ (unmarshal_int_id v = Ok n -> num_of v = Some n /\ minI64 <= n <= maxI64)
  /\ (unmarshal_uint_id v = Ok n -> num_of v = Some n /\ 0 <= n <= maxU64).
Proof. exact no_silent_numeric_change_lemma. Qed.
Print Assumptions C02_no_silent_numeric_change.

(** UnmarshalUintID as it was at the pinned commit: uint(v) on int(-1) gives 18446744073709551615
    without an error.  Repaired by a fix: commit; see known_findings. *)
Theorem C02_uint_id_legacy_refuted :
  unmarshal_uint_id_legacy (GInt (-1)) = Ok 18446744073709551615 /\ num_of (GInt (-1)) = Some (-1).
Proof. exact uint_id_legacy_refuted_lemma. Qed.
Print Assumptions C02_uint_id_legacy_refuted.

(** * The argument / input-object layer *)
From GV Require Import Model.Args Proofs.ArgsProofs.

(** For every input schema, every type, every value gqlparser hands over after validation and every
    nesting depth: gqlgen's coercion (args.gotpl, input.gotpl, type.gotpl, CoerceList) agrees with the
    specification's input coercion - the same error path, or a received value that shows the coerced value:
    field defaults applied exactly for absent keys, explicit null kept, single values wrapped into lists at
    every list level, nested input objects, enums, ID from integers. *)
Theorem C02_args_equiv : forall sch fuel t v, valid_in sch fuel t v = true ->
  agree (coerce_spec sch fuel t v) (coerce_impl sch fuel t v).
Proof. exact args_equiv_lemma. Qed.
Print Assumptions C02_args_equiv.

(** Omitted versus explicit null is observable exactly through Omittable: "not set" iff the key is absent,
    null iff null was given; a plain pointer shows nil for both. *)
Theorem C02_omitted_vs_null : forall c fd provided rest,
  if_default fd = None ->
  match impl_obj_go c provided rest with
  | COk (AObj b) =>
      (lookup_val provided (if_name fd) = None ->
       impl_obj_go c provided (fd :: rest) = COk (AObj ((if_name fd, if if_omittable fd then AOmitted else ANull) :: b)))
      /\ (lookup_val provided (if_name fd) = Some VNull -> c (if_type fd) VNull = COk ANull ->
          impl_obj_go c provided (fd :: rest) = COk (AObj ((if_name fd, ANull) :: b)))
  | _ => True
  end.
Proof. exact omitted_vs_null_lemma. Qed.
Print Assumptions C02_omitted_vs_null.

Example C02_nonvacuous :
  let sch := [("In", NInput [{| if_name := "a"; if_type := TyNamed "Int" false; if_default := None; if_omittable := true |};
                             {| if_name := "wd"; if_type := TyNamed "Int" false; if_default := Some (VInt 7); if_omittable := true |};
                             {| if_name := "l"; if_type := TyList (TyList (TyNamed "Int" true) true) false; if_default := None; if_omittable := false |}])] in
  let v := VObj [("l", VInt 3); ("wd", VNull)] in
  valid_in sch 9 (TyNamed "In" true) v = true
  /\ coerce_impl sch 9 (TyNamed "In" true) v = COk (AObj [("a", AOmitted); ("wd", ANull); ("l", AList [AList [AInt 3]])])
  /\ coerce_spec sch 9 (TyNamed "In" true) v = COk (AObj [("a", AOmitted); ("wd", ANull); ("l", AList [AList [AInt 3]])]).
Proof. vm_compute. repeat split. Qed.
