(** C13 — @defer changes delivery, not content.  PARTIAL (see level text): the executable model of
    delivery and of the client's merge is tied to the implementation by the correspondence; proved here
    are the content function's agreement with the specification, the commutation of one object's group
    payloads, and the kept findings. *)
From GV Require Import Base.Prelude Model.Exec Model.Defer Proofs.ExecProofs Proofs.DeferProofs.
Open Scope string_scope.
Open Scope list_scope.

(** The content that deferral must preserve is, when nothing is deferred, exactly the specification's
    completed data (for every outcome tree, path and nullability). *)
Theorem C13_content_is_plain_result : forall n p nn, assemble [] p nn n = fst (complete_spec nn p n).
Proof. exact assemble_nomarks. Qed.
Print Assumptions C13_content_is_plain_result.

(** The group payloads of one object write distinct keys the initial payload already holds: merging two of
    them commutes, whatever their completion order. *)
Theorem C13_group_payloads_commute : forall l k1 v1 k2 v2,
  k1 <> k2 -> In k1 (map fst l) -> In k2 (map fst l) ->
  set_key (set_key l k1 v1) k2 v2 = set_key (set_key l k2 v2) k1 v1.
Proof. exact set_key_comm. Qed.
Print Assumptions C13_group_payloads_commute.

(** KEPT FINDING: for a group nested in a deferred group, parent-first delivery merges to the content, but
    the child-first delivery the implementation admits loses the child's data. *)
Theorem C13_nested_defer_order_refuted :
  let pls := all_payloads m_nested t_nested in
  match pls with
  | [init; outer; inner] =>
      merge_payloads [init; outer; inner] = match assemble m_nested [] false t_nested with Some j => j | None => TNull end
      /\ merge_payloads [init; inner; outer] <> merge_payloads [init; outer; inner]
  | _ => False
  end.
Proof. exact nested_order_witness. Qed.
Print Assumptions C13_nested_defer_order_refuted.
