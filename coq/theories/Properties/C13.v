(** C13 — @defer changes delivery, not content.  PARTIAL (see level text): the executable model of
    delivery and of the client's merge is tied to the implementation by the correspondence; proved here
    are the content function's agreement with the specification, the commutation of one object's group
    payloads, and the kept findings. *)
From GV Require Import Base.Prelude Model.Exec Model.Defer Model.DeferProto Proofs.ExecProofs Proofs.DeferProofs Proofs.DeferProtoProofs Proofs.DeferMergeProofs Proofs.DeferSplitProofs.
From Coq Require Import Permutation.
Open Scope string_scope.
Open Scope list_scope.

(** The content that deferral must preserve is, when nothing is deferred, exactly the specification's
    completed data (for every outcome tree, path and nullability). *)
Theorem C13_content_is_plain_result : forall n p nn, assemble [] p nn n = fst (complete_spec nn p n).
Proof. exact assemble_nomarks. Qed.
Print Assumptions C13_content_is_plain_result.

(** The group payloads of one object write distinct keys the initial payload already holds: merging two of
    them commutes, whatever their completion order. *)
Theorem C13_group_payloads_commute : forall l k1 v1 k2 v2,
  k1 <> k2 -> In k1 (map fst l) -> In k2 (map fst l) ->
  set_key (set_key l k1 v1) k2 v2 = set_key (set_key l k2 v2) k1 v1.
Proof. exact set_key_comm. Qed.
Print Assumptions C13_group_payloads_commute.

(** KEPT FINDING: for a group nested in a deferred group, parent-first delivery merges to the content, but
    the child-first delivery the implementation admits loses the child's data. *)
Theorem C13_nested_defer_order_refuted :
  let pls := all_payloads m_nested t_nested in
  match pls with
  | [init; outer; inner] =>
      merge_payloads [init; outer; inner] = match assemble m_nested [] false t_nested with Some j => j | None => TNull end
      /\ merge_payloads [init; inner; outer] <> merge_payloads [init; outer; inner]
  | _ => False
  end.
Proof. exact nested_order_witness. Qed.
Print Assumptions C13_nested_defer_order_refuted.

(** The delivery clauses, over EVERY interleaving of group goroutines (started by the initial execution or by a
    running group, any number, any nesting) and the consumer: when the response function has returned nil, hasNext
    was true on every payload but the last, every group that was started has been delivered exactly once, and no
    goroutine is left dispatching or blocked in its send. *)
Theorem C13_delivery_complete : forall tr s,
  prun pinit tr = Some s -> ps_phase s = PDone ->
  has_next_shape (ps_out s) = true /\ Permutation (delivered s) (ps_started s) /\ NoDup (delivered s) /\
  ps_running s = [] /\ ps_ready s = [].
Proof. exact delivery_complete_lemma. Qed.
Print Assumptions C13_delivery_complete.

(** The payload sequence ends: in every reachable state that is not finished a step other than starting a new
    group is enabled (the consumer is never stuck waiting for a result nobody will send), and once no further
    group is started at most 2 * running + blocked + 2 steps remain. *)
Theorem C13_delivery_progress : forall tr s,
  prun pinit tr = Some s -> ps_phase s <> PDone -> exists l, non_start l = true /\ pstep s l <> None.
Proof. intros tr s R. apply progress_lemma. exact (prun_inv tr _ _ pinv_init R). Qed.
Print Assumptions C13_delivery_progress.
Theorem C13_delivery_bounded : forall tr s s',
  forallb non_start tr = true -> prun s tr = Some s' -> (List.length tr + measure s' <= measure s)%nat.
Proof. exact bounded_lemma. Qed.
Print Assumptions C13_delivery_bounded.

(** What the protocol does NOT enforce (the kept finding above, at protocol level): a nested group can be received
    before the group that delivers its object. *)
Theorem C13_child_before_parent_reachable :
  option_map (fun s => (ps_phase s, ps_out s))
    (prun pinit [LStartRoot 1; LInitDone; LStartNested 1 2; LFinish 2; LReceive 2; LFinish 1; LReceive 1; LEnd])
  = Some (PDone, [(None, true); (Some 2, true); (Some 1, false)])%nat.
Proof. vm_compute. reflexivity. Qed.
Print Assumptions C13_child_before_parent_reachable.

(** Content, for the deferred fields of ONE object when nothing fails: the initial payload holds the object with null
    placeholders at the deferred keys, each label's group delivers its keys; merging the group payloads into the
    initial object in ANY arrival order (repeats allowed), as long as every group arrives, gives exactly the object a
    plain execution returns - whatever the values are (nested objects, lists ...).  Before all have arrived the object
    holds exactly the delivered groups. *)
Theorem C13_groups_of_one_object_any_order : forall (mark : string -> option string) (fields : list (string * jt)) (order : list string),
  NoDup (map fst fields) ->
  (forall kv l, In kv fields -> mark (fst kv) = Some l -> In l order) ->
  fold_left (fun acc lab => obj_merge acc (TObj (group_obj mark fields lab))) order (TObj (initial_obj mark fields)) = TObj fields.
Proof. exact groups_of_one_object_any_order_lemma. Qed.
Print Assumptions C13_groups_of_one_object_any_order.
Theorem C13_partial_delivery : forall (mark : string -> option string) (fields : list (string * jt)) (order : list string),
  NoDup (map fst fields) ->
  fold_left (fun acc lab => merge_keys acc (group_obj mark fields lab)) order (initial_obj mark fields)
  = map (partial_val mark (rev order)) fields.
Proof. intros mark fields order N. now apply partial_delivery_lemma. Qed.
Print Assumptions C13_partial_delivery.
(** ... and with failures: a group that failed delivers null and leaves its placeholders, so the object holds the keys
    of exactly the groups that arrived alive and null at every other deferred key - null propagation from a failure
    inside a group stops at the object the group belongs to. *)
Theorem C13_groups_with_failures : forall (mark : string -> option string) (fields : list (string * jt)) (order : list (string * bool)),
  NoDup (map fst fields) ->
  fold_left (fun acc p => obj_merge acc (group_payload mark fields p)) order (TObj (initial_obj mark fields))
  = TObj (map (partial_val mark (rev (map fst (filter snd order)))) fields).
Proof. exact groups_with_failures_lemma. Qed.
Print Assumptions C13_groups_with_failures.
Example C13_one_object_nonvacuous :
  let mark := fun k => if String.eqb k "name" then Some "x" else if String.eqb k "a2" then Some "y" else None in
  let fields := [("a1", TStr "a1"); ("name", TStr "n"); ("a2", TInt 2)] in
  initial_obj mark fields = [("a1", TStr "a1"); ("name", TNull); ("a2", TNull)] /\
  group_obj mark fields "y" = [("a2", TInt 2)] /\
  fold_left (fun acc lab => obj_merge acc (TObj (group_obj mark fields lab))) ["y"; "x"] (TObj (initial_obj mark fields)) = TObj fields.
Proof. vm_compute. repeat split; reflexivity. Qed.

(** The executable delivery model (what the correspondence runs against the generated servers) agrees with that
    picture at its starting point: for an object whose deferred fields are its own (no deferral below them) and whose
    immediate fields do not fail, the initial payload the model computes is the object with null placeholders at
    exactly the deferred keys. *)
Theorem C13_initial_payload_is_initial_obj : forall m p tn fs,
  flat m p fs -> clean m p fs ->
  mval_json (fst (complete_impl false p (fst (split m p (NObj tn fs))))) = TObj (initial_obj (mark_at m p) (map (field_json p) fs)).
Proof. exact initial_payload_is_initial_obj_lemma. Qed.
Print Assumptions C13_initial_payload_is_initial_obj.

(** ... and at each group: when a group's fields run (their marks removed, nothing deferred below them, none failing) the
    model delivers exactly the object of the group's keys. *)
Theorem C13_group_payload_is_group_obj : forall m' p tn (fs : list (string * bool * rnode)) (lab : string) (mark : string -> option string),
  let gfs := filter (fun f => match mark (fst (fst f)) with Some l => String.eqb l lab | None => false end) fs in
  flat m' p gfs -> clean m' p gfs -> (forall f, In f gfs -> mark_at m' p (fst (fst f)) = None) ->
  mval_json (fst (complete_impl false p (fst (split m' p (NObj tn gfs))))) = TObj (group_obj mark (map (field_json p) fs) lab).
Proof. exact group_payload_is_group_obj_lemma. Qed.
Print Assumptions C13_group_payload_is_group_obj.
