(** C09 — HTTP: GET never mutates; status and content type follow the request outcome. *)
From GV Require Import Base.Prelude Model.Pipeline Proofs.PipelineProofs.
Open Scope list_scope.

(** Over GET, for every document (any number of operations of any kinds) and every operationName:
    either nothing executes, or the operation the request names exists, is a query, and the answer is 200. *)
Theorem C09_get_only_queries : forall docs exts c h,
  h_transport h = Some TGet ->
  quiet (s_events (snd (serve docs exts c h))) \/
  exists op, for_name (d_ops (docs (r_q (h_req h)))) (r_opname (h_req h)) = Some op /\ o_kind op = KQuery
             /\ s_status (snd (serve docs exts c h)) = 200%nat.
Proof. exact get_only_queries_lemma. Qed.
Print Assumptions C09_get_only_queries.

(** No resolver (nor anything else that executes) has run for a request answered with a status other
    than 200; a request whose execution started is answered 200. *)
Theorem C09_status_by_outcome : forall docs exts c h,
  let resp := snd (serve docs exts c h) in
  (s_status resp <> 200%nat -> quiet (s_events resp)) /\ (s_body resp = BData -> s_status resp = 200%nat).
Proof. intros docs exts c h. destruct (gate_lemma docs exts c h) as [_ [H2 [H3 _]]]. split; assumption. Qed.
Print Assumptions C09_status_by_outcome.

(** A refused request gets the client-error status of the media type in force: parse / validation /
    operation-selection / variable failures are 422, or 400 over GET and POST when the response type is
    application/graphql-response+json; rejections by extensions are user errors (200). *)
Theorem C09_refusal_status : forall docs exts c h t ref,
  h_transport h = Some t -> s_refusal (snd (serve docs exts c h)) = Some ref ->
  s_status (snd (serve docs exts c h)) = if protocol_error ref then status_protocol t (h_negotiated h) else 200%nat.
Proof. exact status_lemma. Qed.
Print Assumptions C09_refusal_status.

(** Negotiation: the response type is decided by the first Accept part gqlgen understands. *)
Theorem C09_negotiate_first_supported : forall pre p rest,
  Forall (fun x => x = AOtherPart) pre -> p <> AOtherPart ->
  negotiate (Some (pre ++ p :: rest)) = match p with AJson => MJson | _ => MGraphqlResponse end.
Proof.
  intros pre p rest Hpre Hp. cbn [negotiate]. induction Hpre as [|x l -> _ IH]; cbn [app negotiate_parts].
  - destruct p; try reflexivity. contradiction.
  - exact IH.
Qed.
Print Assumptions C09_negotiate_first_supported.

(** With the repaired code every routed or unrouted JSON answer has a Content-Type (the pinned commit
    left three paths without one: [content_type false] yields OutMissing there). *)
Theorem C09_content_type_present : forall rt cfg accept qs,
  rt <> Some ROptions -> content_type true rt cfg accept qs <> OutMissing.
Proof.
  intros rt cfg accept qs Hrt. destruct rt as [[t|]|]; [| exfalso; apply Hrt; reflexivity | cbn; discriminate].
  destruct t; destruct cfg; cbn; rewrite ?andb_false_r; try discriminate; destruct (negotiate accept); discriminate.
Qed.
Print Assumptions C09_content_type_present.

Theorem C09_content_type_legacy_refuted :
  content_type false None HdrNone None true = OutMissing
  /\ content_type false (Some (RT TGet)) HdrNone None false = OutMissing
  /\ content_type false (Some (RT TGraphql)) HdrWithoutContentType None true = OutMissing.
Proof. vm_compute. repeat split. Qed.
Print Assumptions C09_content_type_legacy_refuted.
