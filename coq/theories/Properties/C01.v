(** C01 — generated executors implement GraphQL execution semantics (data and errors). *)
From GV Require Import Base.Prelude Model.Exec Proofs.ExecProofs Proofs.CollectProofs Model.DirChain Proofs.DirChainProofs.
Open Scope string_scope.
Open Scope list_scope.

(** Value completion.  For EVERY tree of resolver/directive outcomes (any nesting of lists and objects, any
    nullability, any set of failing positions) that contains no typed-nil pointer hidden in an interface
    value: gqlgen's completion (graphql.Null marker compared by identity, Invalids counters, errors
    appended where they occur) yields exactly the specification's CompleteValue - the same errors in the
    same order, and a marshaler that denotes the specified value, Null exactly where the specification
    propagates to the nearest nullable ancestor. *)
Theorem C01_complete_equiv : forall n nn p, no_silent n = true ->
  snd (complete_impl nn p n) = snd (complete_spec nn p n)
  /\ R nn (fst (complete_impl nn p n)) (fst (complete_spec nn p n)).
Proof. exact complete_equiv_spec_lemma. Qed.
Print Assumptions C01_complete_equiv.

(** Without the side condition: gqlgen computes the specification with one exception, the typed-nil rule. *)
Theorem C01_complete_equiv_typed_nil_rule : forall n nn p,
  snd (complete_impl nn p n) = snd (complete_spec_gen true nn p n)
  /\ R nn (fst (complete_impl nn p n)) (fst (complete_spec_gen true nn p n)).
Proof. exact complete_equiv_lemma. Qed.
Print Assumptions C01_complete_equiv_typed_nil_rule.

(** KEPT FINDING.  The full statement is false of the faithful model: a typed nil pointer inside an
    interface value at a non-null position nulls its ancestors and reports no error at all. *)
Theorem C01_typed_nil_refuted :
  let n := NObj "Query" [("a", false, NObj "A" [("kids", true, NList true [NLeaf KLeafString "x"; NNil true])])] in
  complete_impl false [] n = (MObj [("a", MNullMark)], [])
  /\ snd (complete_spec false [] n) = [([PKey "a"; PKey "kids"; PIdx 1], ENullNonNull)].
Proof. exact typed_nil_refuted_witness. Qed.
Print Assumptions C01_typed_nil_refuted.

(** The errors list: exactly one entry per originating failure (resolver error, panic, directive error, or
    nil in a non-null position), each carrying the response path of the position that failed. *)
Theorem C01_one_error_per_failure : forall n nn p, snd (complete_spec nn p n) = failures nn p n.
Proof. exact one_error_per_failure_lemma. Qed.
Print Assumptions C01_one_error_per_failure.

(** Field collection: for the selections of one concrete object in a validated document (every
    selectable field sits under one of the object's implementor definitions, and equal response keys
    name equal fields - what validation establishes), the repaired collectFields produces every response
    key exactly once. *)
Theorem C01_collect_keys_unique : forall interfaces abstract P sels,
  P <> [] ->
  (forall p1 p2, In p1 P -> In p2 P -> p1 = p2 \/ abstract p1 = true \/ abstract p2 = true) ->
  forallb (parents_ok P) sels = true ->
  functional (flat_map (level_fields P) sels) ->
  NoDup (map c_alias (collect interfaces abstract true P sels)).
Proof. exact collect_keys_unique_lemma. Qed.
Print Assumptions C01_collect_keys_unique.

(** A spread excluded by @skip/@include does not count as a visit of its fragment. *)
Theorem C01_skipped_spread_noop : forall interfaces abstract P f tc d body st,
  should_include d = false -> collect1 interfaces abstract true P (SSpread f tc d body) st = st.
Proof. exact skipped_spread_noop. Qed.
Print Assumptions C01_skipped_spread_noop.

(** The collectFields of the pinned commit: both statements fail (repaired by two fix: commits). *)
Theorem C01_collect_legacy_refuted :
  let ifs := fun n => if String.eqb n "A" then ["Node"; "Named"] else [] in
  let abs := fun n => String.eqb n "Node" || String.eqb n "Named" in
  let P := ["A"; "Node"; "Named"] in
  map c_alias (collect ifs abs false P [SSpread "F" "A" skipT [SField "a1" "a1" "A" no_dirs []];
                                          SSpread "F" "A" no_dirs [SField "a1" "a1" "A" no_dirs []]]) = []
  /\ map c_alias (collect ifs abs true P [SSpread "F" "A" skipT [SField "a1" "a1" "A" no_dirs []];
                                          SSpread "F" "A" no_dirs [SField "a1" "a1" "A" no_dirs []]]) = ["a1"]
  /\ map c_alias (collect ifs abs false P [SInline "Node" no_dirs [SField "name" "name" "Node" no_dirs []];
                                           SInline "Named" no_dirs [SField "name" "name" "Named" no_dirs []]]) = ["name"; "name"]
  /\ map c_alias (collect ifs abs true P [SInline "Node" no_dirs [SField "name" "name" "Node" no_dirs []];
                                          SInline "Named" no_dirs [SField "name" "name" "Named" no_dirs []]]) = ["name"].
Proof. exact collect_legacy_refuted. Qed.
Print Assumptions C01_collect_legacy_refuted.


(** ** schema-directive chains (Model.DirChain): the links around one field's resolver - the field's own directives
    outside those of its return type.  When every link calls [next], every link runs once, outermost first, then the
    resolver, and the field is completed from the resolver's outcome. *)
Theorem C01_directive_chain_all_next : forall ds r,
  forallb (fun x => is_next (snd x)) ds = true -> run_chain ds r = (map fst ds ++ ["resolver"]%string, res_of_resolver r).
Proof. exact chain_all_next_lemma. Qed.
Print Assumptions C01_directive_chain_all_next.

(** A link that answers without calling [next] keeps everything further in - the remaining directives and the
    resolver - from running, and the field is completed from that link's outcome alone (null without an error, or the
    one error / recovered panic it raised). *)
Theorem C01_directive_chain_stops : forall pre n b post r,
  forallb (fun x => is_next (snd x)) pre = true -> is_next b = false ->
  run_chain (pre ++ (n, b) :: post) r = (map fst pre ++ [n], res_of_directive n b).
Proof. exact chain_stops_lemma. Qed.
Print Assumptions C01_directive_chain_stops.

(** ... and every chain is of one of these two shapes; no link runs twice *)
Theorem C01_directive_chain_shapes : forall (ds : list (string * dbeh)) r,
  (forallb (fun x => is_next (snd x)) ds = true \/
   exists pre n b post, ds = pre ++ (n, b) :: post /\ forallb (fun x => is_next (snd x)) pre = true /\ is_next b = false) /\
  (List.length (fst (run_chain ds r)) <= S (List.length ds))%nat.
Proof. intros ds r. split; [exact (chain_shape_lemma ds)|exact (chain_log_bound_lemma ds r)]. Qed.
Print Assumptions C01_directive_chain_shapes.

(** the nesting gqlgen generates: the field's directives outside the return type's, each group last-written first *)
Theorem C01_field_directives_wrap_type_directives : forall tdirs fdirs, chain_order tdirs fdirs = rev fdirs ++ rev tdirs.
Proof. exact chain_order_lemma. Qed.
Print Assumptions C01_field_directives_wrap_type_directives.

(** Refuted for the other nesting: with the type's directive outside, a field directive that answers null no longer
    keeps a failing type directive from running. *)
Theorem C01_type_directives_outside_refuted :
  let swapped := map (fun n => (n, lookup_beh [("onField", DBlock); ("onType", DError)]%string n)) (rev (["onField"] ++ ["onType"]))%string in
  run_chain swapped ROk = (["onType"], RErr "onType")%string /\
  run_chain (field_chain ["onType"] ["onField"] [("onField", DBlock); ("onType", DError)])%string ROk = (["onField"]%string, RNull).
Proof. exact type_outside_field_witness. Qed.
Print Assumptions C01_type_directives_outside_refuted.

Example C01_directive_chain_nonvacuous :
  run_chain (field_chain ["t1"; "t2"] ["f1"; "f2"] [])%string RFail = (["f2"; "f1"; "t2"; "t1"; "resolver"], RErr "resolver")%string.
Proof. reflexivity. Qed.
