(** C04 — user-code failures are contained: null plus error at the field, never a crash. *)
From GV Require Import Base.Prelude Model.Exec Proofs.ExecProofs Proofs.ContainProofs Base.Threads Model.ElemPanic Proofs.ElemPanicProofs.
Open Scope string_scope.
Open Scope list_scope.

(** Containment, for every response tree (context [co] with any siblings, any depth), every chain [ci] of
    non-null positions below a nullable ancestor, and every failure [e] (resolver error, panic, directive
    error, on any field at any depth): the data is exactly the data in which that nearest nullable
    ancestor resolved to null - every position outside it keeps its value - and the errors are the
    errors of the surroundings plus exactly one entry for the failure, carrying its path. *)
Theorem C04_containment : forall co ci nn p e,
  hole_nn co nn = false -> chain ci = true -> hole_nn ci false = true ->
  fst (complete_spec nn p (plug co (plug ci (NFail e)))) = fst (complete_spec nn p (plug co (NNil false)))
  /\ exists eb ea, snd (complete_spec nn p (plug co (plug ci (NFail e))))
                   = eb ++ [(hole_path ci (hole_path co p), e)] ++ ea.
Proof. exact containment_lemma. Qed.
Print Assumptions C04_containment.

(** A nullable position never propagates a failure further up. *)
Theorem C04_nullable_absorbs : forall n p, fst (complete_spec false p n) <> None.
Proof. exact nullable_absorbs_lemma. Qed.
Print Assumptions C04_nullable_absorbs.

(** Everything outside a subtree depends on the subtree only through its completed value. *)
Theorem C04_outside_keeps_value : forall c nn p n1 n2,
  fst (complete_spec (hole_nn c nn) (hole_path c p) n1) = fst (complete_spec (hole_nn c nn) (hole_path c p) n2) ->
  fst (complete_spec nn p (plug c n1)) = fst (complete_spec nn p (plug c n2)).
Proof. exact congruence_lemma. Qed.
Print Assumptions C04_outside_keeps_value.

(** Multi-fault: whatever set of positions fails, the errors are the concatenation of each subtree's own. *)
Theorem C04_errors_compositional : forall c nn p, exists eb ea, forall n,
  snd (complete_spec nn p (plug c n)) = eb ++ snd (complete_spec (hole_nn c nn) (hole_path c p) n) ++ ea.
Proof. exact errors_compositional_lemma. Qed.
Print Assumptions C04_errors_compositional.

(** The recover hook runs once per panic reached: the panic entries of the errors list are exactly the
    panicking positions of the outcome tree (and gqlgen's errors are the specification's, C01). *)
Theorem C04_recover_once : forall n nn p,
  List.length (filter is_panic_e (snd (complete_spec nn p n))) = count_panics n.
Proof. exact recover_once_lemma. Qed.
Print Assumptions C04_recover_once.

Example C04_nonvacuous :
  let co := CField "Query" [("x", false, NLeaf KLeafString "x")] "a" false CHole [("y", true, NLeaf KLeafString "y")] in
  let ci := CField "A" [] "kids" true (CElem true [NLeaf KLeafString "k"] CHole []) [] in
  hole_nn co false = false /\ chain ci = true /\ hole_nn ci false = true
  /\ complete_spec false [] (plug co (plug ci (NFail (EPanic "boom"))))
     = (Some (TObj [("x", TStr "x"); ("a", TNull); ("y", TStr "y")]), [([PKey "a"; PKey "kids"; PIdx 1], EPanic "boom")]).
Proof. vm_compute. repeat split. Qed.


(** ** a list element whose goroutine panics inside generated code (Model.ElemPanic: the element closures of the list
    marshaller, every interleaving of the element goroutines and the join).  Whoever waited on the group goes on with
    the array the slice was made with, in which exactly the panicking elements are null and every other element has
    its value - no slot is still unset, so serialising cannot crash; one error at the path of each panicking element
    and none elsewhere; the recover hook ran once per panic. *)
Theorem C04_list_element_panics_contained : forall plan tr s r sl,
  erun as_written_elems (einit plan) tr = Some s -> e_joined s = Some (r, sl) ->
  r = false /\ sl = map final_slot plan /\ map el_errs (e_els s) = map final_errs plan /\
  e_recovers s = count (fun p => p) plan /\ count unfinished (e_els s) = 0.
Proof. exact elems_contained_lemma. Qed.
Print Assumptions C04_list_element_panics_contained.

(** Refuted for the closure that registers the recover handler before [wg.Done()] (deferred calls run
    last-in-first-out, so [Done] runs first): the join is passed with the panicking element's slot still unset. *)
Theorem C04_done_before_handler_refuted :
  exists s sl, erun {| v_done_last := false; v_own_slot := true |} (einit [true; false]) [EL 0; EL 0; EL 1; EL 1; EL 1; EJoin] = Some s /\
               e_joined s = Some (false, sl) /\ In Unset sl.
Proof. exact done_before_handler_witness. Qed.
Print Assumptions C04_done_before_handler_refuted.

(** Refuted for the handler that resets the whole result: a sibling's store then panics - the hook runs twice for one
    panic, the sibling gets an error of its own, the list comes back empty. *)
Theorem C04_handler_resets_list_refuted :
  exists s sl, erun {| v_done_last := true; v_own_slot := false |} (einit [true; false]) [EL 0; EL 0; EL 1; EL 1; EL 0; EL 1; EJoin] = Some s /\
               e_joined s = Some (true, sl) /\ e_recovers s = 2%nat /\ map el_errs (e_els s) = [1; 1]%nat.
Proof. exact handler_resets_list_witness. Qed.
Print Assumptions C04_handler_resets_list_refuted.

Example C04_list_element_nonvacuous :
  exists s, erun as_written_elems (einit [true; false; true; false])
              [EL 1; EL 0; EL 2; EL 3; EL 0; EL 1; EL 1; EL 2; EL 3; EL 2; EL 0; EL 3; EJoin]%nat = Some s /\
            e_joined s = Some (false, [Null; Val; Null; Val]) /\ e_recovers s = 2%nat.
Proof. exact elems_sample_run. Qed.
