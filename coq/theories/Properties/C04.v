(** C04 — user-code failures are contained: null plus error at the field, never a crash. *)
From GV Require Import Base.Prelude Model.Exec Proofs.ExecProofs Proofs.ContainProofs.
Open Scope string_scope.
Open Scope list_scope.

(** Containment, for every response tree (context [co] with any siblings, any depth), every chain [ci] of
    non-null positions below a nullable ancestor, and every failure [e] (resolver error, panic, directive
    error, on any field at any depth): the data is exactly the data in which that nearest nullable
    ancestor resolved to null - every position outside it keeps its value - and the errors are the
    errors of the surroundings plus exactly one entry for the failure, carrying its path. *)
Theorem C04_containment : forall co ci nn p e,
  hole_nn co nn = false -> chain ci = true -> hole_nn ci false = true ->
  fst (complete_spec nn p (plug co (plug ci (NFail e)))) = fst (complete_spec nn p (plug co (NNil false)))
  /\ exists eb ea, snd (complete_spec nn p (plug co (plug ci (NFail e))))
                   = eb ++ [(hole_path ci (hole_path co p), e)] ++ ea.
Proof. exact containment_lemma. Qed.
Print Assumptions C04_containment.

(** A nullable position never propagates a failure further up. *)
Theorem C04_nullable_absorbs : forall n p, fst (complete_spec false p n) <> None.
Proof. exact nullable_absorbs_lemma. Qed.
Print Assumptions C04_nullable_absorbs.

(** Everything outside a subtree depends on the subtree only through its completed value. *)
Theorem C04_outside_keeps_value : forall c nn p n1 n2,
  fst (complete_spec (hole_nn c nn) (hole_path c p) n1) = fst (complete_spec (hole_nn c nn) (hole_path c p) n2) ->
  fst (complete_spec nn p (plug c n1)) = fst (complete_spec nn p (plug c n2)).
Proof. exact congruence_lemma. Qed.
Print Assumptions C04_outside_keeps_value.

(** Multi-fault: whatever set of positions fails, the errors are the concatenation of each subtree's own. *)
Theorem C04_errors_compositional : forall c nn p, exists eb ea, forall n,
  snd (complete_spec nn p (plug c n)) = eb ++ snd (complete_spec (hole_nn c nn) (hole_path c p) n) ++ ea.
Proof. exact errors_compositional_lemma. Qed.
Print Assumptions C04_errors_compositional.

(** The recover hook runs once per panic reached: the panic entries of the errors list are exactly the
    panicking positions of the outcome tree (and gqlgen's errors are the specification's, C01). *)
Theorem C04_recover_once : forall n nn p,
  List.length (filter is_panic_e (snd (complete_spec nn p n))) = count_panics n.
Proof. exact recover_once_lemma. Qed.
Print Assumptions C04_recover_once.

Example C04_nonvacuous :
  let co := CField "Query" [("x", false, NLeaf KLeafString "x")] "a" false CHole [("y", true, NLeaf KLeafString "y")] in
  let ci := CField "A" [] "kids" true (CElem true [NLeaf KLeafString "k"] CHole []) [] in
  hole_nn co false = false /\ chain ci = true /\ hole_nn ci false = true
  /\ complete_spec false [] (plug co (plug ci (NFail (EPanic "boom"))))
     = (Some (TObj [("x", TStr "x"); ("a", TNull); ("y", TStr "y")]), [([PKey "a"; PKey "kids"; PIdx 1], EPanic "boom")]).
Proof. vm_compute. repeat split. Qed.
