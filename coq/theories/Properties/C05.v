(** C05 — operations terminate and leave nothing running, even when cancelled mid-flight.
    PARTIAL: the theorems are about the accounting models of the two joins; real time and real goroutine
    liveness are observed by the correspondence harness. *)
From GV Require Import Base.Prelude Model.Join Proofs.JoinProofs.
Open Scope nat_scope.

Theorem C05_list_join_terminates : forall n limit tr s,
  lrun true (linit n limit) tr = Some s -> all_returned s = true -> wait_enabled s = true.
Proof. exact list_join_terminates_lemma. Qed.
Print Assumptions C05_list_join_terminates.

Theorem C05_list_join_progress : forall n limit tr s,
  0 < limit -> lrun true (linit n limit) tr = Some s -> all_returned s = false ->
  lstep true s LDispatch <> None \/ lstep true s LFinish <> None.
Proof. exact list_join_progress_lemma. Qed.
Print Assumptions C05_list_join_progress.

Theorem C05_list_join_legacy_refuted :
  exists s, lrun false (linit 2 2) [LCancel; LDispatch; LDispatch] = Some s
            /\ all_returned s = true /\ wait_enabled s = false
            /\ lstep false s LDispatch = None /\ lstep false s LFinish = None.
Proof. exact list_join_legacy_refuted_lemma. Qed.
Print Assumptions C05_list_join_legacy_refuted.

Theorem C05_deferred_no_leak : forall groups budget tr s,
  drun true (dinit groups budget) tr = Some s -> d_cancelled s = true -> dquiescent true s = true ->
  d_running s = 0 /\ d_blocked s = 0.
Proof. exact deferred_no_leak_lemma. Qed.
Print Assumptions C05_deferred_no_leak.

Theorem C05_deferred_legacy_refuted :
  exists s, drun false (dinit 2 0) [DFinish; DFinish; DCancel] = Some s
            /\ d_cancelled s = true /\ dquiescent false s = true /\ d_blocked s = 2.
Proof. exact deferred_legacy_refuted_lemma. Qed.
Print Assumptions C05_deferred_legacy_refuted.

(** non-vacuity: a cancelled run of the repaired loop that ends with Wait enabled *)
Example C05_nonvacuous :
  exists s, lrun true (linit 3 1) [LDispatch; LCancel; LDispatch; LFinish; LDispatch] = Some s
            /\ all_returned s = true /\ wait_enabled s = true.
Proof. eexists. vm_compute. repeat split. Qed.
