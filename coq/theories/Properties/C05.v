(** C05 — operations terminate and leave nothing running, even when cancelled mid-flight.
    PARTIAL: the theorems are about the accounting models of the two joins; real time and real goroutine
    liveness are observed by the correspondence harness. *)
From GV Require Import Base.Prelude Model.Join Proofs.JoinProofs Model.SseLock Proofs.SseLockProofs Model.ElemPanic Proofs.ElemPanicProofs Model.JoinPanic Proofs.JoinPanicProofs.
From GV Require Import Model.MpLock Proofs.MpLockInv Proofs.MpLockProofs.
Open Scope nat_scope.

Theorem C05_list_join_terminates : forall n limit tr s,
  lrun true (linit n limit) tr = Some s -> all_returned s = true -> wait_enabled s = true.
Proof. exact list_join_terminates_lemma. Qed.
Print Assumptions C05_list_join_terminates.

Theorem C05_list_join_progress : forall n limit tr s,
  0 < limit -> lrun true (linit n limit) tr = Some s -> all_returned s = false ->
  lstep true s LDispatch <> None \/ lstep true s LFinish <> None.
Proof. exact list_join_progress_lemma. Qed.
Print Assumptions C05_list_join_progress.

Theorem C05_list_join_legacy_refuted :
  exists s, lrun false (linit 2 2) [LCancel; LDispatch; LDispatch] = Some s
            /\ all_returned s = true /\ wait_enabled s = false
            /\ lstep false s LDispatch = None /\ lstep false s LFinish = None.
Proof. exact list_join_legacy_refuted_lemma. Qed.
Print Assumptions C05_list_join_legacy_refuted.

Theorem C05_deferred_no_leak : forall groups budget tr s,
  drun true (dinit groups budget) tr = Some s -> d_cancelled s = true -> dquiescent true s = true ->
  d_running s = 0 /\ d_blocked s = 0.
Proof. exact deferred_no_leak_lemma. Qed.
Print Assumptions C05_deferred_no_leak.

Theorem C05_deferred_legacy_refuted :
  exists s, drun false (dinit 2 0) [DFinish; DFinish; DCancel] = Some s
            /\ d_cancelled s = true /\ dquiescent false s = true /\ d_blocked s = 2.
Proof. exact deferred_legacy_refuted_lemma. Qed.
Print Assumptions C05_deferred_legacy_refuted.

(** non-vacuity: a cancelled run of the repaired loop that ends with Wait enabled *)
Example C05_nonvacuous :
  exists s, lrun true (linit 3 1) [LDispatch; LCancel; LDispatch; LFinish; LDispatch] = Some s
            /\ all_returned s = true /\ wait_enabled s = true.
Proof. eexists. vm_compute. repeat split. Qed.

(** The SSE transport in front of an operation that ends: over every interleaving of the handler and the keep-alive
    goroutine the handler is never blocked for good - it can take its next step, or the keep-alive (which then holds
    the lock) can take one and the handler can afterwards - so the request ends. *)
Theorem C05_sse_handler_never_blocked : forall n tr s,
  skrun as_written (skinit n) tr = Some s -> handler_finished s = false ->
  skstep as_written s LHandler <> None \/
  exists s', skstep as_written s LKeepAlive = Some s' /\ skstep as_written s' LHandler <> None.
Proof. exact sse_lock_progress_lemma. Qed.
Print Assumptions C05_sse_handler_never_blocked.

(** Refuted for the variant whose "stream already completed" branch returns without unlocking: the handler's final
    flush waits for a lock nobody will release, and no step of any kind is enabled any more. *)
Theorem C05_sse_missing_unlock_refuted :
  let v := {| v_done_unlocks := false; v_check_under_lock := true; v_events_locked := true |} in
  match skrun v (skinit 0) [LTick; LHandler; LHandler; LKeepAlive; LKeepAlive] with
  | Some s => handler_finished s = false /\ sk_k s = KEnd /\ skstep v s LHandler = None /\ skstep v s LKeepAlive = None
              /\ skstep v s LTick = None /\ skstep v s LCtxDone = None
  | None => False
  end.
Proof. exact no_unlock_deadlock_witness. Qed.
Print Assumptions C05_sse_missing_unlock_refuted.

(** ** multipart/mixed: neither the handler nor the ticker goroutine is ever stuck (Model.MpLock, every interleaving):
    until the handler has returned it or the ticker can step; a ticker inside a flush can continue unless the handler
    holds the mutex, and then the handler can; a ticker between flushes can see the signal as soon as it is sent - so
    the handler returns and the ticker goroutine ends *)
Theorem C05_multipart_goroutines_never_stuck : forall rs o tr s,
  mprun true (mpinit_open rs o) tr = Some s ->
  (returned s = false -> mpstep true s MLHandler <> None \/ mpstep true s MLTicker <> None) /\
  (m_k s = MKFlush -> mpstep true s MLTicker <> None \/ mpstep true s MLHandler <> None) /\
  (m_k s = MKSelect -> m_done s = true -> mpstep true s MLSeeDone <> None).
Proof. exact mp_progress_lemma. Qed.
Print Assumptions C05_multipart_goroutines_never_stuck.

Example C05_multipart_nonvacuous :
  exists s, mprun true (mpinit [1; 2; 3]%nat)
              [MLHandler; MLTick; MLTicker; MLTicker; MLTicker; MLTicker; MLTicker; MLTicker; MLTicker; MLHandler; MLHandler; MLHandler;
               MLHandler; MLHandler; MLHandler; MLHandler; MLHandler; MLHandler; MLHandler; MLHandler; MLHandler; MLHandler; MLHandler; MLHandler; MLTick; MLTicker; MLTicker; MLTicker; MLSeeDone] = Some s /\
            returned s = true /\ m_k s = MKEnd /\ m_out s = [(MK, [1]); (MH, [2; 3])]%nat.
Proof. exact mp_sample_runs. Qed.


(** ** list element goroutines that panic inside generated code (Model.ElemPanic): the join is reached - short of it
    some goroutine can always step, and a run of n elements has exactly 3n + 1 steps whatever the interleaving (each
    step takes one unit of the work that is left), for the code as written and for both slips alike *)
Theorem C05_list_element_panics_join_reached : forall plan tr s,
  erun as_written_elems (einit plan) tr = Some s ->
  (e_joined s = None -> exists l, estep as_written_elems s l <> None) /\
  (List.length tr + etodo s = 3 * List.length plan + 1)%nat.
Proof. intros plan tr s R. split; [exact (elems_progress_lemma plan tr s R)|exact (elems_bounded_lemma _ plan tr s R)]. Qed.
Print Assumptions C05_list_element_panics_join_reached.


(** ** the worker-limit list join when element closures end in a recovered panic (Model.JoinPanic), over every
    interleaving and cancellation instant: the semaphore holds exactly one slot per running closure - none is lost to
    a panic; short of the join the loop can dispatch or a running closure can finish (the response function is never
    stuck for good); once nothing runs and nothing is left, [wg.Wait()] returns *)
Theorem C05_list_join_with_panics : forall plan limit tr s,
  (0 < limit)%nat -> jrun true (jinit plan limit) tr = Some s ->
  (j_sem s = j_norm s + j_pan s)%nat /\
  (jwait_enabled s = false -> jstep true s JDispatch <> None \/ jstep true s JReturn <> None \/ jstep true s JPanic <> None) /\
  (j_plan s = [] -> (j_norm s + j_pan s = 0)%nat -> jwait_enabled s = true).
Proof. exact join_with_panics_lemma. Qed.
Print Assumptions C05_list_join_with_panics.

(** ... and every run is bounded: each step takes a unit of the work that is left *)
Theorem C05_list_join_with_panics_bounded : forall rd plan limit tr s,
  jrun rd (jinit plan limit) tr = Some s -> (List.length tr + jtodo s <= 2 * List.length plan + 1)%nat.
Proof. exact join_with_panics_bounded_lemma. Qed.
Print Assumptions C05_list_join_with_panics_bounded.

(** Refuted for the closure that hands its slot back after the element store instead of in a deferred call: with one
    worker the first element panics and keeps the slot - the loop waits in Acquire, nothing runs, nothing but a
    cancellation of the request can happen any more. *)
Theorem C05_release_after_store_refuted :
  exists s, jrun false (jinit [true; false] 1) [JDispatch; JPanic] = Some s /\
            jwait_enabled s = false /\ jstep false s JDispatch = None /\ jstep false s JReturn = None /\ jstep false s JPanic = None.
Proof. exact release_after_store_witness. Qed.
Print Assumptions C05_release_after_store_refuted.

Example C05_list_join_with_panics_nonvacuous :
  exists s, jrun true (jinit [true; false; false] 2) [JDispatch; JDispatch; JPanic; JCancel; JDispatch; JReturn] = Some s /\ jwait_enabled s = true.
Proof. exact join_with_panics_sample. Qed.
