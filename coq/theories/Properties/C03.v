(** C03 — nothing executes unless the operation passed parsing, validation and every gate; hooks run in
    lifecycle order with the first-registered extension outermost. *)
From GV Require Import Base.Prelude Model.Pipeline Proofs.PipelineProofs.
From GV Require Import Base.Threads Model.RuleSwap Proofs.RuleSwapProofs.
From Coq Require Import Sorted.
Open Scope list_scope.

(** For every parse/validate oracle, every list of extensions, every cache state (hence after any
    history) and every request on any single-response transport: a response that carries no data, or
    whose status is not 200, or that was refused by any gate (parameter mutator, parse, no operation,
    validation, operation lookup, variable coercion, context mutator) contains no operation-interceptor,
    root-field, field-interceptor, Exec or resolver event, and a refusal is answered with errors only. *)
Theorem C03_gate : forall docs exts c h,
  let resp := snd (serve docs exts c h) in
  (s_body resp <> BData -> quiet (s_events resp))
  /\ (s_body resp = BData -> s_status resp = 200%nat)
  /\ (s_status resp <> 200%nat -> quiet (s_events resp))
  /\ (forall ref, s_refusal resp = Some ref -> s_body resp = BErrors /\ quiet (s_events resp)).
Proof. exact gate_lemma. Qed.
Print Assumptions C03_gate.

(** Everything CreateOperationContext itself logs is parameter and context mutators. *)
Theorem C03_create_is_quiet : forall docs exts c r, quiet (snd (fst (create_op_ctx docs exts c r))).
Proof. exact create_quiet. Qed.
Print Assumptions C03_create_is_quiet.

(** Hook order (processExtensions), for every list of extensions: around any core, the extensions that
    implement a hook are entered in registration order and left in reverse order, the first registered
    outermost; each implementing extension occurs exactly once (strictly increasing indices), and an
    index occurs iff that extension implements the hook. *)
Theorem C03_hook_order : forall (enter exit : nat -> event) (h : ext -> bool) exts core,
  (forall i r, wrap enter exit (i :: r) core = enter i :: wrap enter exit r core ++ [exit i])
  /\ wrap enter exit [] core = core
  /\ StronglySorted lt (with_hook h 0 exts)
  /\ NoDup (with_hook h 0 exts)
  /\ (forall i, In i (with_hook h 0 exts) <-> exists e, nth_error exts i = Some e /\ h e = true).
Proof.
  intros enter exit h exts core. split; [intros i r; apply wrap_cons|]. split; [apply wrap_nil|].
  split; [apply with_hook_sorted|]. split; [apply sorted_nodup, with_hook_sorted|].
  intros i. rewrite with_hook_spec. rewrite Nat.sub_0_r. split.
  - intros [e [H1 [H2 _]]]. exists e. auto.
  - intros [e [H1 H2]]. exists e. repeat split; try assumption. lia.
Qed.
Print Assumptions C03_hook_order.

(** The query cache only ever holds documents that parsed, define an operation and validated - with any
    cache (none, map, LRU of any size) after any history - so a cache hit never bypasses a gate ... *)
Theorem C03_cache_only_validated : forall docs exts k hs q,
  In q (qc_keys (fst (serve_all docs exts (empty_qcache k) hs))) ->
  d_parses (docs q) = true /\ d_ops (docs q) <> [] /\ d_valid (docs q) = true.
Proof. intros docs exts k hs q. exact (cache_only_validated_lemma docs exts k hs q). Qed.
Print Assumptions C03_cache_only_validated.

(** ... and after any history a request is answered exactly as by a fresh server. *)
Theorem C03_history_independent : forall docs exts k hs h,
  snd (serve docs exts (fst (serve_all docs exts (empty_qcache k) hs)) h) = snd (serve docs exts (empty_qcache k) h).
Proof. exact history_independent_lemma. Qed.
Print Assumptions C03_history_independent.

Example C03_nonvacuous :
  let docs := fun q : nat => {| d_parses := true; d_valid := Nat.eqb q 0;
                                d_ops := [{| o_name := "Q"; o_kind := KQuery; o_fields := ["a"%string] |}] |} in
  let exts := [{| e_param := true; e_ctx := false; e_op := true; e_resp := true; e_root := false; e_field := true |};
               {| e_param := false; e_ctx := true; e_op := true; e_resp := false; e_root := true; e_field := true |}] in
  let req q := {| h_transport := Some TPost; h_negotiated := MJson; h_body_ok := true;
                  h_req := {| r_q := q; r_opname := "Q"; r_vars_ok := true; r_reject_param := None; r_reject_ctx := None |} |} in
  s_events (snd (serve docs exts (empty_qcache MapCache) (req 0%nat)))
  = [EvParam 0; EvCtx 1; EvOpEnter 0; EvOpEnter 1; EvExec; EvOpExit 1; EvOpExit 0; EvRespEnter 0;
     EvRootEnter 1 "a"; EvFieldEnter 0 "a"; EvFieldEnter 1 "a"; EvResolver "a"; EvFieldExit 1 "a"; EvFieldExit 0 "a";
     EvRootExit 1 "a"; EvRespExit 0]
  /\ s_events (snd (serve docs exts (empty_qcache MapCache) (req 1%nat))) = [EvParam 0; EvRespEnter 0; EvRespExit 0].
Proof. vm_compute. split; reflexivity. Qed.

(** ** "... with suggestions disabled, and under concurrent requests": gqlparser's rule set is one variable of the
    process, and an executor with suggestions disabled swaps a rule in it before validating (Model.RuleSwap).  With
    the swap under the write half and every validation under the read half of one lock, for ANY number of requests
    of executors with and without suggestions and over EVERY interleaving of their steps (lock, the read and the
    write of RemoveRule, the read and the write of ReplaceRule, unlock, lock, Validate's read, unlock): *)

(** every request gets the verdict validation gives it alone - a document that fails validation is refused *)
Theorem C03_concurrent_validation_as_alone : forall reqs tr s,
  qrun true (qinit reqs) tr = Some s ->
  Forall2 (fun r v => v = None \/ v = Some (alone (snd r))) reqs (verdicts s).
Proof. exact concurrent_verdicts_lemma. Qed.
Print Assumptions C03_concurrent_validation_as_alone.

(** and the lock never blocks the requests for good *)
Theorem C03_concurrent_validation_progress : forall reqs tr s,
  qrun true (qinit reqs) tr = Some s ->
  (exists i t, nth_error (g_thr s) i = Some t /\ qdone t = false) -> exists j, qstep true s j <> None.
Proof. exact concurrent_progress_lemma. Qed.
Print Assumptions C03_concurrent_validation_progress.

(** The pinned commit swapped and validated without a lock: among the first requests of a process a document
    selecting a field that does not exist passes validation - the second request's swap is undone by the first
    request's RemoveRule writing back the copy it read earlier (found by the concurrent-requests check, repaired). *)
Theorem C03_unlocked_rule_swap_refuted :
  exists s, (qrun false (qinit [(true, DValid); (true, DUnknownField)]) [0; 0; 1; 1; 1; 1; 1; 1; 0; 1; 1] = Some s /\
             nth_error (verdicts s) 1 = Some (Some false))%nat.
Proof. exact unlocked_swap_lost_update_witness. Qed.
Print Assumptions C03_unlocked_rule_swap_refuted.

(** ... and an executor with suggestions enabled validates while another executor's swap is half done *)
Theorem C03_unlocked_rule_swap_window_refuted :
  exists s, (qrun false (qinit [(true, DValid); (false, DUnknownField)]) [0; 0; 0; 1; 1] = Some s /\
             nth_error (verdicts s) 1 = Some (Some false))%nat.
Proof. exact unlocked_swap_window_witness. Qed.
Print Assumptions C03_unlocked_rule_swap_window_refuted.

Example C03_concurrent_nonvacuous :
  exists s, (qrun true (qinit [(true, DValid); (true, DUnknownField); (false, DOtherInvalid)])
               [0; 0; 0; 0; 0; 0; 0; 0; 2; 2; 2; 0; 1; 1; 1; 1; 1; 1; 1; 1; 1] = Some s /\
             verdicts s = [Some false; Some true; Some true] /\ forallb qdone (g_thr s) = true)%nat.
Proof. exact locked_swap_runs. Qed.
