(** C03 — nothing executes unless the operation passed parsing, validation and every gate; hooks run in
    lifecycle order with the first-registered extension outermost. *)
From GV Require Import Base.Prelude Model.Pipeline Proofs.PipelineProofs.
From Coq Require Import Sorted.
Open Scope list_scope.

(** For every parse/validate oracle, every list of extensions, every cache state (hence after any
    history) and every request on any single-response transport: a response that carries no data, or
    whose status is not 200, or that was refused by any gate (parameter mutator, parse, no operation,
    validation, operation lookup, variable coercion, context mutator) contains no operation-interceptor,
    root-field, field-interceptor, Exec or resolver event, and a refusal is answered with errors only. *)
Theorem C03_gate : forall docs exts c h,
  let resp := snd (serve docs exts c h) in
  (s_body resp <> BData -> quiet (s_events resp))
  /\ (s_body resp = BData -> s_status resp = 200%nat)
  /\ (s_status resp <> 200%nat -> quiet (s_events resp))
  /\ (forall ref, s_refusal resp = Some ref -> s_body resp = BErrors /\ quiet (s_events resp)).
Proof. exact gate_lemma. Qed.
Print Assumptions C03_gate.

(** Everything CreateOperationContext itself logs is parameter and context mutators. *)
Theorem C03_create_is_quiet : forall docs exts c r, quiet (snd (fst (create_op_ctx docs exts c r))).
Proof. exact create_quiet. Qed.
Print Assumptions C03_create_is_quiet.

(** Hook order (processExtensions), for every list of extensions: around any core, the extensions that
    implement a hook are entered in registration order and left in reverse order, the first registered
    outermost; each implementing extension occurs exactly once (strictly increasing indices), and an
    index occurs iff that extension implements the hook. *)
Theorem C03_hook_order : forall (enter exit : nat -> event) (h : ext -> bool) exts core,
  (forall i r, wrap enter exit (i :: r) core = enter i :: wrap enter exit r core ++ [exit i])
  /\ wrap enter exit [] core = core
  /\ StronglySorted lt (with_hook h 0 exts)
  /\ NoDup (with_hook h 0 exts)
  /\ (forall i, In i (with_hook h 0 exts) <-> exists e, nth_error exts i = Some e /\ h e = true).
Proof.
  intros enter exit h exts core. split; [intros i r; apply wrap_cons|]. split; [apply wrap_nil|].
  split; [apply with_hook_sorted|]. split; [apply sorted_nodup, with_hook_sorted|].
  intros i. rewrite with_hook_spec. rewrite Nat.sub_0_r. split.
  - intros [e [H1 [H2 _]]]. exists e. auto.
  - intros [e [H1 H2]]. exists e. repeat split; try assumption. lia.
Qed.
Print Assumptions C03_hook_order.

(** The query cache only ever holds documents that parsed, define an operation and validated - with any
    cache (none, map, LRU of any size) after any history - so a cache hit never bypasses a gate ... *)
Theorem C03_cache_only_validated : forall docs exts k hs q,
  In q (qc_keys (fst (serve_all docs exts (empty_qcache k) hs))) ->
  d_parses (docs q) = true /\ d_ops (docs q) <> [] /\ d_valid (docs q) = true.
Proof. intros docs exts k hs q. exact (cache_only_validated_lemma docs exts k hs q). Qed.
Print Assumptions C03_cache_only_validated.

(** ... and after any history a request is answered exactly as by a fresh server. *)
Theorem C03_history_independent : forall docs exts k hs h,
  snd (serve docs exts (fst (serve_all docs exts (empty_qcache k) hs)) h) = snd (serve docs exts (empty_qcache k) h).
Proof. exact history_independent_lemma. Qed.
Print Assumptions C03_history_independent.

Example C03_nonvacuous :
  let docs := fun q : nat => {| d_parses := true; d_valid := Nat.eqb q 0;
                                d_ops := [{| o_name := "Q"; o_kind := KQuery; o_fields := ["a"%string] |}] |} in
  let exts := [{| e_param := true; e_ctx := false; e_op := true; e_resp := true; e_root := false; e_field := true |};
               {| e_param := false; e_ctx := true; e_op := true; e_resp := false; e_root := true; e_field := true |}] in
  let req q := {| h_transport := Some TPost; h_negotiated := MJson; h_body_ok := true;
                  h_req := {| r_q := q; r_opname := "Q"; r_vars_ok := true; r_reject_param := None; r_reject_ctx := None |} |} in
  s_events (snd (serve docs exts (empty_qcache MapCache) (req 0%nat)))
  = [EvParam 0; EvCtx 1; EvOpEnter 0; EvOpEnter 1; EvExec; EvOpExit 1; EvOpExit 0; EvRespEnter 0;
     EvRootEnter 1 "a"; EvFieldEnter 0 "a"; EvFieldEnter 1 "a"; EvResolver "a"; EvFieldExit 1 "a"; EvFieldExit 0 "a";
     EvRootExit 1 "a"; EvRespExit 0]
  /\ s_events (snd (serve docs exts (empty_qcache MapCache) (req 1%nat))) = [EvParam 0; EvRespEnter 0; EvRespExit 0].
Proof. vm_compute. split; reflexivity. Qed.
