(** C14 — the complexity limit is a sound gate.  Property theorems only; proofs are in
    Proofs/ComplexityProofs.v.  Each theorem is closed by [exact] and followed by Print Assumptions. *)
From GV Require Import Base.Prelude Model.Complexity Proofs.ComplexityProofs Corr.Corr_C14.

(** safeAdd never wraps: on Go ints it is the saturating sum of the non-negative operands
    (with the documented (negative, negative) |-> 1). *)
Theorem C14_safe_add_spec : forall a b, in_int a -> in_int b ->
  safe_add a b = (if a <? 0 then (if b <? 0 then 1 else b) else if b <? 0 then a else Z.min maxInt (a + b))
  /\ in_int (safe_add a b).
Proof. intros a b Ha Hb. split; [exact (safe_add_full a b Ha Hb) | exact (safe_add_range a b Ha Hb)]. Qed.
Print Assumptions C14_safe_add_spec.

(** For every operation, every custom function returning Go ints (huge and negative included) and every
    implementor relation: Calculate equals the documented definition and is a saturated non-negative int
    (so the negative branches of safeAdd are unreachable and nothing overflows). *)
Theorem C14_complexity_definition :
  forall custom impls, (forall o f c a v, custom o f c a = Some v -> in_int v) ->
  forall sels, sels_cx custom impls sels = spec_sels custom impls sels
            /\ 0 <= sels_cx custom impls sels <= maxInt.
Proof. exact complexity_definition_lemma. Qed.
Print Assumptions C14_complexity_definition.

Theorem C14_negative_custom_ignored :
  forall custom, (forall o f c a v, custom o f c a = Some v -> in_int v) ->
  forall o f child a v,
  0 <= child <= maxInt -> custom o f child a = Some v -> v < 0 ->
  field_cx custom o f child a = sat_add 1 child.
Proof. intros custom. exact (negative_custom_ignored_lemma custom (fun _ => [])). Qed.
Print Assumptions C14_negative_custom_ignored.

(** Adding selections anywhere (any depth) never decreases the result, provided custom functions are
    monotone in the child cost (hypothesis [custom_mono]); the hypothesis is necessary
    ([C14_monotone_needs_hyp_refuted]). *)
Theorem C14_monotone :
  forall custom impls, (forall o f c a v, custom o f c a = Some v -> in_int v) ->
  (forall o f a c c' v, 0 <= c <= c' -> c' <= maxInt -> custom o f c a = Some v -> v >= c ->
     exists v', custom o f c' a = Some v' /\ v <= v') ->
  forall l l', ext l l' -> sels_cx custom impls l <= sels_cx custom impls l'.
Proof. exact monotone_lemma. Qed.
Print Assumptions C14_monotone.

Theorem C14_monotone_needs_hyp_refuted :
  exists custom impls l l', ext l l' /\ sels_cx custom impls l' < sels_cx custom impls l.
Proof.
  exists bad_custom, (fun _ => []),
    [CField false "Q" "a" false true None []],
    [CField false "Q" "a" false true None [CField false "A" "x" false false None []]].
  split.
  - apply ext_keep; [|apply ext_nil]. apply ext_field. apply ext_add. apply ext_nil.
  - destruct monotone_needs_hyp_witness as [H1 H2]. rewrite H1, H2. reflexivity.
Qed.
Print Assumptions C14_monotone_needs_hyp_refuted.

(** The gate rejects exactly the operations above the limit. *)
Theorem C14_gate_sound : forall cx limit,
  (limit_gate cx limit = Reject <-> cx > limit) /\ (limit_gate cx limit = Accept <-> cx <= limit).
Proof. exact limit_gate_spec. Qed.
Print Assumptions C14_gate_sound.

(** The monitors evaluated on the implementation's outputs are satisfied by the model (boolean form
    of the theorems above, for the harness's table family of custom functions). *)
Theorem C14_add_monitor_model : forall a b, in_int a -> in_int b -> add_monitor (a, b, safe_add a b) = true.
Proof.
  intros a b Ha Hb. unfold add_monitor. rewrite (safe_add_full a b Ha Hb). unfold sat_add.
  destruct (a <? 0); destruct (b <? 0); apply Z.eqb_refl.
Qed.
Print Assumptions C14_add_monitor_model.

(** Non-vacuity: a concrete operation with an interface, a fragment, a huge custom cost and a negative
    one meets the hypotheses and saturates. *)
Example C14_nonvacuous :
  let tbl := [("A", "kids", CConst maxInt); ("B", "kids", CConst (-7)); ("Q", "node", CAddChild 5)]%string in
  let sels := [CField false "Q" "node" false true None
                 [CFrag [CField true "Node" "kids" false true (Some 3) [CField true "Node" "id" false false None []]];
                  CField true "Node" "id" false false None []]]%string in
  sels_cx (table_custom tbl) (table_impls [("Node", ["A"; "B"])]%string) sels = maxInt.
Proof. vm_compute. reflexivity. Qed.
