(** C15 — the persisted-query cache binds a hash only to the text that hashes to it. *)
From GV Require Import Base.Prelude Model.Apq Proofs.ApqProofs Corr.Corr_C15.
Open Scope string_scope.
Open Scope list_scope.

(** For every hash function [H], every cache policy (map cache or LRU of any size) and every request
    history: whatever the cache holds was sent earlier, as text together with exactly that hash, and the
    text hashes to it. *)
Theorem C15_apq_inv : forall H cap h sha q,
  In (sha, q) (c_items (fst (run H (empty_cache cap) h))) -> H q = sha /\ registered H h sha q.
Proof. exact apq_inv_lemma. Qed.
Print Assumptions C15_apq_inv.

(** After any history a hash-only request executes exactly such a text (and adds no binding), or is
    answered PersistedQueryNotFound with the cache unchanged; no other outcome exists. *)
Theorem C15_hash_only_sound : forall H cap h sha,
  let c := fst (run H (empty_cache cap) h) in
  match apq_step H c {| q_text := ""; q_ext := ExtOk sha 1 |} with
  | (c', Pass q) => H q = sha /\ registered H h sha q /\ (forall x, In x (c_items c') -> In x (c_items c))
  | (c', RejNotFound) => c' = c
  | _ => False
  end.
Proof. exact hash_only_sound_lemma. Qed.
Print Assumptions C15_hash_only_sound.

(** A request whose text does not match its hash is rejected, executes nothing and registers nothing
    (the cache is returned unchanged), in every state. *)
Theorem C15_mismatch_inert : forall H c q sha,
  q <> "" -> H q <> sha -> apq_step H c {| q_text := q; q_ext := ExtOk sha 1 |} = (c, RejMismatch).
Proof. exact mismatch_inert_lemma. Qed.
Print Assumptions C15_mismatch_inert.

(** No client can make another client's hash resolve to different text: across any two histories the
    texts a hash resolves to all hash to it (so they are equal unless SHA-256 itself collides). *)
Theorem C15_no_cross_client_rebinding : forall H cap1 cap2 h1 h2 sha c1 c2 q1 q2,
  apq_step H (fst (run H (empty_cache cap1) h1)) {| q_text := ""; q_ext := ExtOk sha 1 |} = (c1, Pass q1) ->
  apq_step H (fst (run H (empty_cache cap2) h2)) {| q_text := ""; q_ext := ExtOk sha 1 |} = (c2, Pass q2) ->
  H q1 = sha /\ H q2 = sha.
Proof. exact no_rebinding_lemma. Qed.
Print Assumptions C15_no_cross_client_rebinding.

(** Non-vacuity: a history that registers, evicts (LRU 1), re-registers and resolves. *)
Example C15_nonvacuous :
  let H := table_hash [("{ a }", "ha"); ("{ b }", "hb")] in
  let reg q s := {| q_text := q; q_ext := ExtOk s 1 |} in
  snd (run H (empty_cache (Some 1%nat))
         [reg "{ a }" "ha"; reg "" "ha"; reg "{ b }" "hb"; reg "" "ha"; reg "{ b }" "ha"; reg "" "hb"])
  = [Pass "{ a }"; Pass "{ a }"; Pass "{ b }"; RejNotFound; RejMismatch; Pass "{ b }"].
Proof. vm_compute. reflexivity. Qed.
