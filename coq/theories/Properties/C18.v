(** C18 — generation is deterministic and idempotent (PARTIAL: the theorems carry ordering and naming; byte
    identity of whole files across processes is observed, not proved). *)
From GV Require Import Base.Prelude Model.GenOrder Model.Naming Proofs.GenOrderProofs Proofs.NamingProofs Corr.Corr_C17 Corr.Corr_C18.
Open Scope list_scope.

(** A sorted permutation of items whose keys are pairwise distinct is unique. *)
Theorem C18_sorted_perm_unique : forall (A : Type) (key : A -> string) l1 l2,
  Permutation l1 l2 -> StronglySorted (le key) l1 -> StronglySorted (le key) l2 -> NoDup (map key l1) -> l1 = l2.
Proof. intros A key. exact (sorted_perm_unique_lemma key). Qed.
Print Assumptions C18_sorted_perm_unique.

(** Two runs collect the same items in two arbitrary orders (Go map iteration) and sort them with a sort that
    only promises a sorted permutation (sort.Slice is not stable): they emit the same list - provided the keys
    are pairwise distinct, which is the side condition every sorted collection of the generator relies on. *)
Theorem C18_render_order_independent : forall (A : Type) (key : A -> string) items1 items2 out1 out2,
  Permutation items1 items2 -> NoDup (map key items1) ->
  sorted_perm_of key items1 out1 -> sorted_perm_of key items2 out2 -> out1 = out2.
Proof. intros A key. exact (order_independent_lemma key). Qed.
Print Assumptions C18_render_order_independent.

(** and such sorts exist (the executable one used by the correspondence) *)
Theorem C18_sort_exists : forall (A : Type) (key : A -> string) l, sorted_perm_of key l (isort key l).
Proof. intros A key. exact (isort_is_a_sort key). Qed.
Print Assumptions C18_sort_exists.

(** The name registry, in contrast, IS sensitive to call order: every caller must therefore sit downstream of a
    sort (the obligation the determinism runs check). *)
Open Scope string_scope.
Theorem C18_registry_order_sensitive_refuted :
  let go (s : string) := if String.eqb s "foo_bar" || String.eqb s "fooBar" then "FooBar" else s in
  lookup (fst (run_calls go go (fun s => s) num [] [(false, ["foo_bar"]); (false, ["fooBar"])])) "foo_bar" = Some "FooBar" /\
  lookup (fst (run_calls go go (fun s => s) num [] [(false, ["fooBar"]); (false, ["foo_bar"])])) "foo_bar" = Some "FooBar0".
Proof. split; vm_compute; reflexivity. Qed.
Print Assumptions C18_registry_order_sensitive_refuted.

(** Non-vacuity *)
Example C18_nonvacuous : isort id_key ["b"; "a"; "C"] = ["C"; "a"; "b"] /\ sortedb id_key ["C"; "a"; "b"] = true.
Proof. vm_compute. split; reflexivity. Qed.
