(** C18 — generation is deterministic and idempotent (PARTIAL: the theorems carry ordering and naming; byte
    identity of whole files across processes is observed, not proved). *)
From GV Require Import Base.Prelude Model.GenOrder Model.Naming Model.Rewrite Model.Regen Proofs.GenOrderProofs Proofs.NamingProofs Proofs.RegenProofs Corr.Corr_C17 Corr.Corr_C18.
Open Scope list_scope.

(** A sorted permutation of items whose keys are pairwise distinct is unique. *)
Theorem C18_sorted_perm_unique : forall (A : Type) (key : A -> string) l1 l2,
  Permutation l1 l2 -> StronglySorted (le key) l1 -> StronglySorted (le key) l2 -> NoDup (map key l1) -> l1 = l2.
Proof. intros A key. exact (sorted_perm_unique_lemma key). Qed.
Print Assumptions C18_sorted_perm_unique.

(** Two runs collect the same items in two arbitrary orders (Go map iteration) and sort them with a sort that
    only promises a sorted permutation (sort.Slice is not stable): they emit the same list - provided the keys
    are pairwise distinct, which is the side condition every sorted collection of the generator relies on. *)
Theorem C18_render_order_independent : forall (A : Type) (key : A -> string) items1 items2 out1 out2,
  Permutation items1 items2 -> NoDup (map key items1) ->
  sorted_perm_of key items1 out1 -> sorted_perm_of key items2 out2 -> out1 = out2.
Proof. intros A key. exact (order_independent_lemma key). Qed.
Print Assumptions C18_render_order_independent.

(** and such sorts exist (the executable one used by the correspondence) *)
Theorem C18_sort_exists : forall (A : Type) (key : A -> string) l, sorted_perm_of key l (isort key l).
Proof. intros A key. exact (isort_is_a_sort key). Qed.
Print Assumptions C18_sort_exists.

(** The name registry, in contrast, IS sensitive to call order: every caller must therefore sit downstream of a
    sort (the obligation the determinism runs check). *)
Open Scope string_scope.
Theorem C18_registry_order_sensitive_refuted :
  let go (s : string) := if String.eqb s "foo_bar" || String.eqb s "fooBar" then "FooBar" else s in
  lookup (fst (run_calls go go (fun s => s) num [] [(false, ["foo_bar"]); (false, ["fooBar"])])) "foo_bar" = Some "FooBar" /\
  lookup (fst (run_calls go go (fun s => s) num [] [(false, ["fooBar"]); (false, ["foo_bar"])])) "foo_bar" = Some "FooBar0".
Proof. split; vm_compute; reflexivity. Qed.
Print Assumptions C18_registry_order_sensitive_refuted.

(** Running generation again on a freshly generated tree changes nothing - the resolver files, at declaration
    level: for every set of resolvers the schema calls for, in either layout (with or without the root type in
    the file), whatever text the templates render, regenerating over the output of a generation from no
    resolver files gives that output again. *)
Theorem C18_regen_fresh_tree_fixpoint :
  forall method_src access_src struct_src stub_body default_doc lv,
  wf_live lv = true ->
  regen method_src access_src struct_src stub_body default_doc copied lv
        (regen method_src access_src struct_src stub_body default_doc copied lv [])
  = regen method_src access_src struct_src stub_body default_doc copied lv [].
Proof. exact regen_fresh_fixpoint_lemma. Qed.
Print Assumptions C18_regen_fresh_tree_fixpoint.

(** and over ANY resolver files, hand-edited or not, nothing changes any more from the second run on *)
Theorem C18_regen_stable_from_second_run :
  forall method_src access_src struct_src stub_body default_doc lv before,
  wf_live lv = true ->
  let run := regen method_src access_src struct_src stub_body default_doc copied lv in
  run (run (run before)) = run (run before).
Proof. exact regen_fixpoint_lemma. Qed.
Print Assumptions C18_regen_stable_from_second_run.

(** The pinned commit is refuted: in the single-file layout the root resolver type, emitted again by every run,
    was also treated as left-over code, so the second run over a fresh tree added a warning block. *)
Theorem C18_regen_single_file_legacy_refuted :
  let lv := [{| l_file := "resolver.go"; l_methods := [("queryResolver", "Todos")]; l_structs := ["queryResolver"]; l_access := ["Query"]; l_root := true |}] in
  let run := regen (fun r n b => r ++ "." ++ n ++ "{" ++ b ++ "}") (fun a => a) (fun s => s) (fun _ _ => "panic()") (fun _ n => n) copied_legacy lv in
  wf_live lv = true /\ map f_remaining (run []) = [None] /\ map f_remaining (run (run [])) = [Some "type Resolver struct{}"].
Proof. vm_compute. repeat split; reflexivity. Qed.
Print Assumptions C18_regen_single_file_legacy_refuted.

(** Non-vacuity *)
Example C18_nonvacuous : isort id_key ["b"; "a"; "C"] = ["C"; "a"; "b"] /\ sortedb id_key ["C"; "a"; "b"] = true.
Proof. vm_compute. split; reflexivity. Qed.
Example C18_regen_nonvacuous :
  let lv := [{| l_file := "resolver.go"; l_methods := [("queryResolver", "Todos"); ("todoResolver", "User")]; l_structs := ["queryResolver"; "todoResolver"]; l_access := ["Query"; "Todo"]; l_root := true |}] in
  let run := regen (fun r n b => r ++ "." ++ n ++ "{" ++ b ++ "}") (fun a => a) (fun s => s) (fun _ _ => "panic()") (fun _ n => n) copied lv in
  wf_live lv = true /\ map (fun f => List.length (f_decls f)) (run []) = [7%nat] /\ map f_remaining (run (run [])) = [None].
Proof. vm_compute. repeat split; reflexivity. Qed.
