(** C12 — streamed HTTP responses (SSE, multipart/mixed) are well-framed under any timing. *)
From GV Require Import Base.Prelude Model.Sse Model.Multipart Model.SseLock Proofs.SseProofs Proofs.MultipartProofs Proofs.SseLockProofs Corr.Corr_C12.
From GV Require Import Model.MpLock Proofs.MpLockInv Proofs.MpLockProofs.
Open Scope list_scope.

(** SSE.  For every sequence of payloads (their JSON has no raw CR/LF, as encoding/json guarantees), every way
    the keep-alive ticks fall between them and any number of ticks after the last one: the bytes parse as
    complete items only - the opening comment, one 'next' event per payload carrying exactly its JSON, in order,
    pings only between events, and one 'complete', last. *)
Theorem C12_sse_framing : forall acts late,
  forallb act_ok acts = true -> parse_stream (sse_bytes acts late) = expected acts.
Proof. exact sse_framing_lemma. Qed.
Print Assumptions C12_sse_framing.

(** multipart/mixed.  For every operation whose payloads say hasNext on all but the last and every placement of
    flush ticks among them: the stream parses into parts; the first part is the initial payload, delivered
    once; the incremental batches concatenate to the remaining payloads, each once and in order; the closing
    boundary comes last and only there. *)
Theorem C12_multipart_framing : forall acts p0 ps,
  adds acts = p0 :: ps -> hn_pattern (p0 :: ps) = true ->
  exists bs, parse_toks ExpBoundary (mrun m0 (acts ++ [MDone])) = Some (BInitial p0 :: bs, PClosed)
             /\ initial_of bs = [] /\ incrementals_of bs = ps.
Proof. exact multipart_framing_lemma. Qed.
Print Assumptions C12_multipart_framing.

(** The pinned commit is refuted twice: its keep-alive keeps writing after the completion (one late tick suffices),
    and its ping is not ordered with the event writer's bytes (a ping landing inside an event). *)
Definition two_payloads : list sse_act := [APayload (bytes_of "{""data"":1}"); APayload (bytes_of "{""data"":2}")].
Theorem C12_sse_late_ping_refuted :
  parse_stream (sse_bytes_legacy two_payloads 1 None) <> expected two_payloads /\
  sse_monitor (payloads_of two_payloads) (sse_bytes_legacy two_payloads 1 None) = false.
Proof. split; [vm_compute; discriminate|vm_compute; reflexivity]. Qed.
Print Assumptions C12_sse_late_ping_refuted.

Theorem C12_sse_splice_refuted :
  sse_monitor (payloads_of two_payloads) (sse_bytes_legacy two_payloads 0 (Some (1%nat, 20%nat))) = false.
Proof. vm_compute. reflexivity. Qed.
Print Assumptions C12_sse_splice_refuted.

(** a closing boundary that came early is rejected by the parser: anything after it fails *)
Theorem C12_nothing_after_closing : forall t r, parse_toks PClosed (t :: r) = None.
Proof. intros t r. reflexivity. Qed.
Print Assumptions C12_nothing_after_closing.

(** Non-vacuity: three payloads with a tick after the first and a late batch; a ping between two events. *)
Example C12_nonvacuous :
  let p k h := {| p_id := k; p_hasnext := h |} in
  mrun m0 ([MAdd (p 0%nat true); MTick; MAdd (p 1%nat true); MAdd (p 2%nat false)] ++ [MDone]) =
  [TBoundary; THeader; TInitial (p 0%nat true); TCRLF; TBoundary; THeader; TIncremental [p 1%nat true; p 2%nat false] false; TCRLF; TClosing]
  /\ hn_pattern [p 0%nat true; p 1%nat true; p 2%nat false] = true
  /\ sse_monitor [bytes_of "{}"; bytes_of "[1]"] (sse_bytes [APayload (bytes_of "{}"); APing; APayload (bytes_of "[1]")] 3) = true.
Proof. vm_compute. repeat split; reflexivity. Qed.

(** Why the byte-level theorem may treat each write as atomic and place no ping after the completion: the lock
    discipline of the transport (handler and keep-alive goroutine, one mutex guarding the writer and the done flag),
    over EVERY interleaving and any number of events - every write happens while its writer holds the lock, and
    nothing is written after the completion. *)
Theorem C12_sse_writes_exclusive_nothing_after_completion : forall n tr s,
  skrun as_written (skinit n) tr = Some s -> forallb snd (sk_out s) = true /\ nothing_after_complete (sk_out s) = true.
Proof. exact sse_lock_safety_lemma. Qed.
Print Assumptions C12_sse_writes_exclusive_nothing_after_completion.

(** The two slips that break it, by witness: [done] read before the lock is taken (a ping after the completion), and
    an event written without the lock while the keep-alive holds it. *)
Theorem C12_sse_check_outside_lock_refuted :
  let v := {| v_done_unlocks := true; v_check_under_lock := false; v_events_locked := true |} in
  option_map (fun s => map fst (sk_out s)) (skrun v (skinit 0) [LTick; LHandler; LHandler; LKeepAlive; LKeepAlive]) = Some [IComplete; IPing].
Proof. exact check_outside_lock_witness. Qed.
Print Assumptions C12_sse_check_outside_lock_refuted.
Theorem C12_sse_unlocked_event_refuted :
  let v := {| v_done_unlocks := true; v_check_under_lock := true; v_events_locked := false |} in
  option_map (fun s => (sk_holder s, sk_out s)) (skrun v (skinit 1) [LTick; LKeepAlive; LHandler]) = Some (Some TK, [(IEv, false)]).
Proof. exact unlocked_event_witness. Qed.
Print Assumptions C12_sse_unlocked_event_refuted.

(** ** multipart/mixed: the aggregator's lock discipline (Model.MpLock), over EVERY interleaving of the handler
    goroutine (Add per response, then Done: signal and final flush, then the deferred Flush) and the ticker goroutine
    (a flush per tick until it sees the signal), every use of the response writer taking two steps: *)

(** the response writer is used by one goroutine at a time, and no use of it begins after the handler returned *)
Theorem C12_multipart_writer_exclusive_nothing_after_return : forall rs o tr s,
  mprun true (mpinit_open rs o) tr = Some s -> both_using s = false /\ m_late s = 0%nat.
Proof. exact mp_exclusive_lemma. Qed.
Print Assumptions C12_multipart_writer_exclusive_nothing_after_return.

(** every response is written exactly once and in order; once the handler has returned all of them are on the wire *)
Theorem C12_multipart_each_response_once_in_order : forall rs o tr s,
  mprun true (mpinit_open rs o) tr = Some s ->
  written s ++ m_pending s ++ m_todo s = rs /\ (returned s = true -> written s = rs).
Proof. exact mp_once_in_order_lemma. Qed.
Print Assumptions C12_multipart_each_response_once_in_order.

(** the slip that releases the mutex before the network flush: the ticker is still inside Flush() when the handler's
    final flush starts writing *)
Theorem C12_multipart_unlock_before_flush_refuted :
  exists s, mprun false (mpinit [1; 2]%nat) [MLHandler; MLTick; MLTicker; MLTicker; MLTicker; MLTicker; MLHandler; MLHandler; MLHandler; MLHandler; MLTicker] = Some s /\
            both_using s = true.
Proof. exact mp_unlock_before_flush_witness. Qed.
Print Assumptions C12_multipart_unlock_before_flush_refuted.

(** ** [Done] as it is since gqlgen's repair: after the last flush, a stream whose last delimiter was not the closing
    boundary gets one more part saying that nothing follows, and the closing boundary ([mrun_done]).  For an
    operation that runs to its end this adds nothing - the stream is the one the framing theorem is about. *)
Theorem C12_multipart_done_adds_nothing_when_complete : forall acts p0 ps,
  adds acts = p0 :: ps -> hn_pattern (p0 :: ps) = true -> mrun_done acts = mrun m0 (acts ++ [MDone]).
Proof. exact multipart_done_complete_lemma. Qed.
Print Assumptions C12_multipart_done_adds_nothing_when_complete.

(** An operation that ends after payloads that all announced more (its context ended while the client was still
    reading): wherever the flush ticks fall, the stream parses; the initial payload once and first, every incremental
    payload once and in order, then one part that says nothing follows, then the closing boundary - the last token,
    occurring only there.  Together with the framing theorem: every payload sequence in which nothing follows a
    payload that says hasNext false. *)
Theorem C12_multipart_left_open_stream_is_closed : forall acts p0 ps,
  adds acts = p0 :: ps -> forallb p_hasnext (p0 :: ps) = true ->
  exists bs, parse_toks ExpBoundary (mrun_done acts) = Some (BInitial p0 :: bs ++ [BFinal], PClosed)
             /\ initial_of bs = [] /\ incrementals_of bs = ps.
Proof. exact multipart_left_open_lemma. Qed.
Print Assumptions C12_multipart_left_open_stream_is_closed.

(** Refuted for [Done] as the pinned commit had it (the last flush and nothing else): the stream of an operation cut
    short ends with a plain boundary and never reaches the closing one. *)
Theorem C12_multipart_left_open_legacy_refuted :
  let p := fun n b => {| p_id := n; p_hasnext := b |} in
  parse_toks ExpBoundary (mrun m0 ([MAdd (p 0%nat true); MTick; MAdd (p 1%nat true)] ++ [MDone]))
  = Some ([BInitial (p 0%nat true); BIncr [p 1%nat true] true], ExpHeader).
Proof. reflexivity. Qed.
Print Assumptions C12_multipart_left_open_legacy_refuted.

Example C12_multipart_left_open_nonvacuous :
  let p := fun n b => {| p_id := n; p_hasnext := b |} in
  mrun_done [MAdd (p 0%nat true); MTick; MAdd (p 1%nat true)] =
  [TBoundary; THeader; TInitial (p 0%nat true); TCRLF; TBoundary; THeader; TIncremental [p 1%nat true] true; TCRLF; TBoundary;
   THeader; TFinal; TCRLF; TClosing].
Proof. reflexivity. Qed.
