(** Correspondence and monitors for C15 (automatic persisted queries). *)
From GV Require Import Base.Prelude Model.Apq.
Open Scope string_scope.
Open Scope list_scope.

Inductive obs := ObsExec (q : string) | ObsErr (cls : string).
Definition obs_eqb (a b : obs) : bool :=
  match a, b with
  | ObsExec x, ObsExec y => String.eqb x y
  | ObsErr x, ObsErr y => String.eqb x y
  | _, _ => false
  end.

Record apq_case := {
  ac_cap : option nat;
  ac_hash : list (string * string);             (* text -> sha256 hex, computed by the harness *)
  ac_reqs : list apq_req;
  ac_obs : list obs;                             (* observed, one per request *)
  ac_probe : list (string * option string) }.    (* after the history: cache.Get for each hash, in order *)

Definition out_obs (o : apq_out) : obs :=
  match o with
  | Pass q => if String.eqb q "" then ObsErr "other" else ObsExec q
  | RejMalformed => ObsErr "malformed"
  | RejVersion => ObsErr "version"
  | RejNotFound => ObsErr "notfound"
  | RejMismatch => ObsErr "mismatch"
  end.

Fixpoint probe (c : cache) (keys : list string) {struct keys} : list (string * option string) :=
  match keys with
  | [] => []
  | k :: r => let '(c', v) := cache_get c k in (k, v) :: probe c' r
  end.

Definition model_run (c : apq_case) : list obs * list (string * option string) :=
  let '(c', outs) := run (table_hash (ac_hash c)) (empty_cache (ac_cap c)) (ac_reqs c) in
  (map out_obs outs, probe c' (map fst (ac_probe c))).

Definition probe_eqb (a b : list (string * option string)) : bool :=
  list_eqb (fun x y => String.eqb (fst x) (fst y) && option_eqb String.eqb (snd x) (snd y)) a b.

Definition apq_corr (c : apq_case) : bool :=
  let '(o, p) := model_run c in list_eqb obs_eqb o (ac_obs c) && probe_eqb p (ac_probe c).

(** Monitor: the property, decided from the requests and the *observed* behaviour only. *)
Definition registersb (H : string -> string) (r : apq_req) (sha q : string) : bool :=
  String.eqb (q_text r) q && negb (String.eqb q "") &&
  match q_ext r with ExtOk s v => String.eqb s sha && (v =? 1)%Z | _ => false end &&
  String.eqb (H q) sha.

Fixpoint mon_hist (H : string -> string) (past : list apq_req) (rs : list apq_req) (os : list obs) {struct rs} : bool :=
  match rs, os with
  | [], [] => true
  | r :: rs', o :: os' =>
      (match q_ext r with
       | ExtOk sha ver =>
           if (ver =? 1)%Z then
             if String.eqb (q_text r) "" then
               (* hash only: the registered text, or NotFound *)
               match o with
               | ObsExec q => existsb (fun r0 => registersb H r0 sha q) past
               | ObsErr cls => String.eqb cls "notfound"
               end
             else if String.eqb (H (q_text r)) sha then true
             else match o with ObsExec _ => false | ObsErr _ => true end   (* mismatch executes nothing *)
           else true
       | _ => true
       end) && mon_hist H (past ++ [r]) rs' os'
  | _, _ => false
  end.

Definition apq_monitor (c : apq_case) : bool :=
  let H := table_hash (ac_hash c) in
  mon_hist H [] (ac_reqs c) (ac_obs c)
  && forallb (fun kv => match snd kv with
                        | Some q => existsb (fun r0 => registersb H r0 (fst kv) q) (ac_reqs c)
                        | None => true end) (ac_probe c).

(** The monitor evaluated on the model's own output (a test that monitor and model agree). *)
Definition apq_monitor_on_model (c : apq_case) : bool :=
  let '(o, p) := model_run c in
  apq_monitor {| ac_cap := ac_cap c; ac_hash := ac_hash c; ac_reqs := ac_reqs c; ac_obs := o; ac_probe := p |}.
