(** Correspondence and monitor for directive chains (C01, C04): a field whose definition has the directives
    [dc_fdirs] and whose return type has [dc_tdirs], a plan of what each does, what the resolver does; observed: who
    was invoked at the field's path, in order, what the field was completed from, how often the recover hook ran. *)
From GV Require Import Base.Prelude Model.DirChain.
Open Scope string_scope.
Open Scope list_scope.

Record dc_case := {
  dc_tdirs : list string; dc_fdirs : list string; dc_plan : list (string * dbeh); dc_res : rbeh;
  dc_log : list string; dc_out : dres; dc_recovers : nat }.

Definition dres_eqb (a b : dres) : bool :=
  match a, b with
  | RValue, RValue | RNull, RNull => true
  | RErr x, RErr y | RPanic x, RPanic y => String.eqb x y
  | _, _ => false
  end.
Definition panics_of (o : dres) : nat := match o with RPanic _ => 1 | _ => 0 end.

Definition dc_model (c : dc_case) : list string * dres := run_chain (field_chain (dc_tdirs c) (dc_fdirs c) (dc_plan c)) (dc_res c).
Definition dc_corr (c : dc_case) : bool :=
  let m := dc_model c in
  list_eqb String.eqb (fst m) (dc_log c) && dres_eqb (snd m) (dc_out c) && Nat.eqb (panics_of (snd m)) (dc_recovers c).

(** the property, said of the observation alone: the links invoked are an initial part of the chain (outermost first,
    the resolver last of all); every link but the last invoked called [next]; the last invoked did not, or is the
    resolver; the field is completed from the last invoked link's outcome, and the hook ran once iff that was a panic *)
Fixpoint prefix_of (a b : list string) {struct a} : bool :=
  match a, b with
  | [], _ => true
  | x :: a', y :: b' => String.eqb x y && prefix_of a' b'
  | _, [] => false
  end.
Definition dc_says (tdirs fdirs : list string) (plan : list (string * dbeh)) (r : rbeh) (log : list string) (out : dres) (recovers : nat) : bool :=
  let full := chain_order tdirs fdirs ++ ["resolver"] in
  prefix_of log full &&
  match rev log with
  | [] => false
  | lst :: before =>
      forallb (fun n => is_next (lookup_beh plan n)) before &&
      (if String.eqb lst "resolver" then dres_eqb out (res_of_resolver r)
       else negb (is_next (lookup_beh plan lst)) && dres_eqb out (res_of_directive lst (lookup_beh plan lst))) &&
      Nat.eqb recovers (panics_of out)
  end.
Definition dc_mon (c : dc_case) : bool := dc_says (dc_tdirs c) (dc_fdirs c) (dc_plan c) (dc_res c) (dc_log c) (dc_out c) (dc_recovers c).
Definition dc_monmodel (c : dc_case) : bool :=
  let m := dc_model c in dc_says (dc_tdirs c) (dc_fdirs c) (dc_plan c) (dc_res c) (fst m) (snd m) (panics_of (snd m)).
