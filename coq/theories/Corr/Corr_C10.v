(** Correspondence and monitors for C10 (malformed client input). *)
From GV Require Import Base.Prelude Model.Upload Proofs.UploadProofs.
Open Scope string_scope.
Open Scope list_scope.

(** Order-insensitive equality of decoded JSON (Go maps have no order). *)
Fixpoint jv_eqb (a b : jv) {struct a} : bool :=
  match a, b with
  | JVNil, JVNil => true
  | JVLeaf x, JVLeaf y => Nat.eqb x y
  | JVUpload x, JVUpload y => Nat.eqb x y
  | JVList la, JVList lb =>
      (fix go (la lb : list jv) {struct la} : bool :=
         match la, lb with
         | [], [] => true
         | x :: ra, y :: rb => jv_eqb x y && go ra rb
         | _, _ => false
         end) la lb
  | JVMap ma, JVMap mb =>
      Nat.eqb (List.length ma) (List.length mb) &&
      (fix go (ma : list (string * jv)) {struct ma} : bool :=
         match ma with
         | [] => true
         | (k, v) :: r => jv_eqb v (map_get mb k) && existsb (fun kv => String.eqb (fst kv) k) mb && go r
         end) ma
  | _, _ => false
  end.

Inductive up_obs := UOk (v : vars) | UErr | UPanic.

Record up_case := {
  uc_prefix : bool;          (* strings.HasPrefix(path, "variables.") *)
  uc_vars : vars;
  uc_path : list seg;        (* strings.Split(path, ".")[1:], each classified by strconv.Atoi *)
  uc_obs : up_obs }.

Definition vars_eqb (a b : vars) : bool :=
  match a, b with
  | VNilMap, VNilMap => true
  | VMap x, VMap y => jv_eqb (JVMap x) (JVMap y)
  | _, _ => false
  end.

Definition up_corr (c : up_case) : bool :=
  match add_upload true (uc_prefix c) (uc_vars c) (uc_path c) 7, uc_obs c with
  | Ok v, UOk v' => vars_eqb v v'
  | Err _, UErr => true
  | Panic _, UPanic => true
  | _, _ => false
  end.

(** Monitor: gqlgen's own code does not panic; on success the addressed position holds the upload. *)
Definition up_monitor (c : up_case) : bool :=
  match uc_obs c with
  | UPanic => false
  | UErr => true
  | UOk (VMap m) => match uc_path c with
                    | [] => true
                    | _ => jv_eqb (get (JVMap m) (uc_path c)) (JVUpload 7)
                    end
  | UOk VNilMap => match uc_path c with [] => true | _ => false end
  end.

(** What the pinned commit did on the same input (for classifying a failure as the known defect). *)
Definition up_legacy_panics (c : up_case) : bool :=
  is_panic (add_upload false (uc_prefix c) (uc_vars c) (uc_path c) 7).
