(** Correspondence and monitors for C10 (malformed client input). *)
From GV Require Import Base.Prelude Model.Upload Model.UploadForm Proofs.UploadProofs.
Open Scope string_scope.
Open Scope list_scope.

(** Order-insensitive equality of decoded JSON (Go maps have no order). *)
Fixpoint jv_eqb (a b : jv) {struct a} : bool :=
  match a, b with
  | JVNil, JVNil => true
  | JVLeaf x, JVLeaf y => Nat.eqb x y
  | JVUpload x, JVUpload y => Nat.eqb x y
  | JVList la, JVList lb =>
      (fix go (la lb : list jv) {struct la} : bool :=
         match la, lb with
         | [], [] => true
         | x :: ra, y :: rb => jv_eqb x y && go ra rb
         | _, _ => false
         end) la lb
  | JVMap ma, JVMap mb =>
      Nat.eqb (List.length ma) (List.length mb) &&
      (fix go (ma : list (string * jv)) {struct ma} : bool :=
         match ma with
         | [] => true
         | (k, v) :: r => jv_eqb v (map_get mb k) && existsb (fun kv => String.eqb (fst kv) k) mb && go r
         end) ma
  | _, _ => false
  end.

Inductive up_obs := UOk (v : vars) | UErr | UPanic.

Record up_case := {
  uc_prefix : bool;          (* strings.HasPrefix(path, "variables.") *)
  uc_vars : vars;
  uc_path : list seg;        (* strings.Split(path, ".")[1:], each classified by strconv.Atoi *)
  uc_obs : up_obs }.

Definition vars_eqb (a b : vars) : bool :=
  match a, b with
  | VNilMap, VNilMap => true
  | VMap x, VMap y => jv_eqb (JVMap x) (JVMap y)
  | _, _ => false
  end.

Definition up_corr (c : up_case) : bool :=
  match add_upload true (uc_prefix c) (uc_vars c) (uc_path c) 7, uc_obs c with
  | Ok v, UOk v' => vars_eqb v v'
  | Err _, UErr => true
  | Panic _, UPanic => true
  | _, _ => false
  end.

(** Monitor: gqlgen's own code does not panic; on success the addressed position holds the upload. *)
Definition up_monitor (c : up_case) : bool :=
  match uc_obs c with
  | UPanic => false
  | UErr => true
  | UOk (VMap m) => match uc_path c with
                    | [] => true
                    | _ => jv_eqb (get (JVMap m) (uc_path c)) (JVUpload 7)
                    end
  | UOk VNilMap => match uc_path c with [] => true | _ => false end
  end.

(** What the pinned commit did on the same input (for classifying a failure as the known defect). *)
Definition up_legacy_panics (c : up_case) : bool :=
  is_panic (add_upload false (uc_prefix c) (uc_vars c) (uc_path c) 7).

(** ---- the multipart form handler on real HTTP requests against Model.UploadForm ---- *)
Record form_case := {
  fc_form : form;                (* the request as mime/multipart presents it, classified by the harness *)
  fc_accepted : bool;            (* answered 200 with data, the operation ran *)
  fc_leftover : nat;             (* files left in the private temporary directory after the handler returned *)
  fc_delivered : list nat;       (* fids of the uploads found in the variables, in key / index order *)
  fc_recovered : bool }.         (* the recover hook ran *)

(** uploads in a value, in order *)
Fixpoint uploads_of (v : jv) {struct v} : list nat :=
  match v with
  | JVUpload u => [u]
  | JVList l => (fix go (l : list jv) : list nat := match l with [] => [] | x :: r => uploads_of x ++ go r end) l
  | JVMap m => (fix go (m : list (string * jv)) : list nat := match m with [] => [] | (_, x) :: r => uploads_of x ++ go r end) m
  | _ => []
  end.
Definition fid_of (rd : list (nat * nat)) (r : nat) : nat :=
  match find (fun p => Nat.eqb (fst p) r) rd with Some p => snd p | None => 0%nat end.
Definition delivered_fids (o : fout) : list nat :=
  match fo_result o with
  | FAccepted (VMap m) => map (fid_of (fo_readers o)) (uploads_of (JVMap m))
  | _ => []
  end.

Definition form_corr (c : form_case) : bool :=
  let o := run_form false (fc_form c) in
  Bool.eqb (accepted o) (fc_accepted c) && Nat.eqb (List.length (leaked o)) (fc_leftover c) &&
  (if accepted o then list_eqb Nat.eqb (delivered_fids o) (fc_delivered c) else true).

(** the property on what is observed: never the recover hook, no temporary file left, an oversized request is
    not executed, every delivered upload is a file part of the request *)
Definition part_fids (f : form) : list nat := flat_map (fun p => match p with PFile _ fid => [fid] | _ => [] end) (fm_parts f).
Definition form_mon (c : form_case) : bool :=
  negb (fc_recovered c) && Nat.eqb (fc_leftover c) 0 && negb (fm_over (fc_form c) && fc_accepted c) &&
  forallb (fun fid => existsb (Nat.eqb fid) (part_fids (fc_form c))) (fc_delivered c).
Definition form_monmodel (c : form_case) : bool :=
  let o := run_form false (fc_form c) in
  Nat.eqb (List.length (leaked o)) 0 && negb (fm_over (fc_form c) && accepted o) &&
  match fo_result o with FPanicked => false | _ => true end &&
  forallb (fun fid => existsb (Nat.eqb fid) (part_fids (fc_form c))) (delivered_fids o).
