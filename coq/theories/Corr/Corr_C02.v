(** Correspondence and monitor for C02 (argument coercion through generated servers). *)
From GV Require Import Base.Prelude Model.Args.
Open Scope string_scope.
Open Scope list_scope.

Fixpoint aval_eqb (a b : aval) {struct a} : bool :=
  match a, b with
  | AOmitted, AOmitted | ANull, ANull => true
  | AInt x, AInt y => Z.eqb x y
  | AStr x, AStr y | AEnum x, AEnum y | AFloat x, AFloat y => String.eqb x y
  | ABool x, ABool y => Bool.eqb x y
  | AList la, AList lb =>
      (fix go (la lb : list aval) {struct la} : bool :=
         match la, lb with [], [] => true | x :: ra, y :: rb => aval_eqb x y && go ra rb | _, _ => false end) la lb
  | AObj la, AObj lb =>
      (fix go (la lb : list (string * aval)) {struct la} : bool :=
         match la, lb with
         | [], [] => true
         | (k, x) :: ra, (k', y) :: rb => String.eqb k k' && aval_eqb x y && go ra rb
         | _, _ => false
         end) la lb
  | _, _ => false
  end.

Inductive arg_obs := ObsCalled (received : aval) | ObsError (path : list string) | ObsOther.

Record arg_case := {
  ac_schema : ischema;
  ac_type : ity;                 (* the argument's type *)
  ac_provided : option ival;     (* what gqlparser's ArgumentMap holds for it (None: key absent) *)
  ac_spec_provided : option ival; (* what the SPECIFICATION says was provided (argument default applied; a field of an object
                                     literal whose value is a variable without value is omitted) *)
  ac_obs : arg_obs }.            (* resolver called with this value / error at this argument path, resolver not called *)

Definition cres_matches (r : cres) (o : arg_obs) : bool :=
  match r, o with
  | COk a, ObsCalled b => aval_eqb a b
  | CErr p, ObsError q => list_eqb String.eqb p q
  | _, _ => false
  end.

Definition arg_corr (c : arg_case) : bool := cres_matches (arg_impl (ac_schema c) (ac_type c) (ac_provided c)) (ac_obs c).

(** monitor: the received value is the specification's coerced value as far as the Go types can show it *)
Definition arg_monitor (c : arg_case) : bool :=
  match arg_spec (ac_schema c) (ac_type c) (ac_spec_provided c) with
  | COk a => cres_matches (COk (repr (ac_schema c) 50 (ac_type c) false a)) (ac_obs c)
  | CErr p => cres_matches (CErr p) (ac_obs c)
  end.

(** the same monitor reading "provided" as gqlparser does: a case that fails [arg_monitor] but passes this
    one deviates only through gqlparser turning an unset variable inside a literal into an explicit null *)
Definition arg_monitor_gqlparser_view (c : arg_case) : bool :=
  match arg_spec (ac_schema c) (ac_type c) (ac_provided c) with
  | COk a => cres_matches (COk (repr (ac_schema c) 50 (ac_type c) false a)) (ac_obs c)
  | CErr p => cres_matches (CErr p) (ac_obs c)
  end.
