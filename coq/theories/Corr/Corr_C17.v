(** Correspondence and monitors for C17 (naming registry). *)
From GV Require Import Base.Prelude Model.Naming Model.ToGo.
Open Scope string_scope.
Open Scope list_scope.

Record c17_case := {
  n_table : list (string * (string * string * string));   (* part -> (ToGo, ToGoPrivate, replaceInvalidCharacters) as the real functions answer *)
  n_calls : list (bool * list string);                    (* private?, parts *)
  n_obs : list string }.                                  (* names the real registry returned *)

Definition tbl_get (t : list (string * (string * string * string))) (s : string) : string * string * string :=
  match find (fun p => String.eqb (fst p) s) t with Some p => snd p | None => ("", "", "") end.
Definition t_go t s := fst (fst (tbl_get t s)).
Definition t_private t s := snd (fst (tbl_get t s)).
Definition t_valid t s := snd (tbl_get t s).

(** decimal text of a counter *)
Definition digit (n : nat) : string := String (ascii_of_nat (48 + n)) "".
Fixpoint num_fuel (fuel n : nat) {struct fuel} : string :=
  match fuel with
  | O => ""
  | S f => if Nat.ltb n 10 then digit n else num_fuel f (Nat.div n 10) ++ digit (Nat.modulo n 10)
  end.
Definition num (n : nat) : string := num_fuel (S n) n.

Definition model_names (c : c17_case) : list (option string) :=
  snd (run_calls (t_go (n_table c)) (t_private (n_table c)) (t_valid (n_table c)) num [] (n_calls c)).

Definition c17_corr (c : c17_case) : bool :=
  list_eqb (option_eqb String.eqb) (model_names c) (map Some (n_obs c)).

(** the property on observed names: one entity, one name; two entities, two names *)
Definition keys (c : c17_case) : list string := map (fun cl => join_key (snd cl)) (n_calls c).
Fixpoint pairwise {A B} (f : A * B -> A * B -> bool) (l : list (A * B)) {struct l} : bool :=
  match l with [] => true | x :: r => forallb (f x) r && pairwise f r end.
Definition names_ok (ks ns : list string) : bool :=
  Nat.eqb (List.length ks) (List.length ns) &&
  pairwise (fun a b => Bool.eqb (String.eqb (fst a) (fst b)) (String.eqb (snd a) (snd b))) (combine ks ns).
Definition c17_mon (c : c17_case) : bool := names_ok (keys c) (n_obs c).

Definition c17_monmodel (c : c17_case) : bool :=
  forallb (fun o => match o with Some _ => true | None => false end) (model_names c) &&
  names_ok (keys c) (flat_map (fun o => match o with Some n => [n] | None => [] end) (model_names c)).

(** ---- the word-level functions themselves: templates.ToGo / ToGoPrivate against Model.ToGo ---- *)
Record togo_case := { tg_name : string; tg_go : string; tg_private : string }.

Definition togo_corr (c : togo_case) : bool :=
  String.eqb (to_go (tg_name c)) (tg_go c) && String.eqb (to_go_private (tg_name c)) (tg_private c).

Definition is_keyword_c (n : chars) : bool := existsb (chars_eqb n) keywords.
(** the property on a pair of names, for GraphQL names whose first character that is not an underscore is a
    letter: ToGo gives an exported Go identifier, ToGoPrivate a Go identifier that is not a keyword *)
Definition names_valid (name go priv : string) : bool :=
  if graphql_name (cs name) && letter_first (cs name)
  then go_ident (cs go) && exported (cs go) && go_ident (cs priv) && negb (is_keyword_c (cs priv))
  else true.
Definition togo_mon (c : togo_case) : bool := names_valid (tg_name c) (tg_go c) (tg_private c).
Definition togo_monmodel (c : togo_case) : bool := names_valid (tg_name c) (to_go (tg_name c)) (to_go_private (tg_name c)).
