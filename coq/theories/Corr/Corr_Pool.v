(** Correspondence and monitor for the pooled POST parameters (C07, C09). *)
From GV Require Import Base.Prelude Base.Threads Model.ParamPool Model.PoolConc.
Open Scope string_scope.
Open Scope list_scope.

(** what an OperationParameterMutator saw: query, operation name, variables, extensions *)
Record pview := { v_query : string; v_opname : string; v_vars : list (string * string); v_exts : list (string * string) }.

Record pool_case := {
  pc_hist : list (string * list member);   (* the bodies sent to ONE server, in order, as member lists *)
  pc_obs : list (option pview);            (* per request: what the executor was handed; None: refused as undecodable *)
  pc_alone : list (option pview) }.        (* the same body sent alone to a freshly built server *)

Definition text_of (v : pval) : string := match v with PText s => s | _ => "" end.
Definition keys_of (v : pval) : list (string * string) := match v with PMap k => k | _ => [] end.
Definition view_of (r : params * bool) : option pview :=
  if snd r then Some {| v_query := text_of (p_query (fst r)); v_opname := text_of (p_opname (fst r));
                        v_vars := keys_of (p_vars (fst r)); v_exts := keys_of (p_exts (fst r)) |}
  else None.

Definition kv_eqb (a b : string * string) : bool := String.eqb (fst a) (fst b) && String.eqb (snd a) (snd b).
Definition keys_eqb (a b : list (string * string)) : bool :=
  Nat.eqb (List.length a) (List.length b) && forallb (fun x => existsb (kv_eqb x) b) a && forallb (fun x => existsb (kv_eqb x) a) b.
Definition view_eqb (a b : pview) : bool :=
  String.eqb (v_query a) (v_query b) && String.eqb (v_opname a) (v_opname b) && keys_eqb (v_vars a) (v_vars b) && keys_eqb (v_exts a) (v_exts b).
Definition oview_eqb (a b : option pview) : bool :=
  match a, b with Some x, Some y => view_eqb x y | None, None => true | _, _ => false end.

Definition pool_corr (c : pool_case) : bool :=
  list_eqb oview_eqb (map view_of (serve_pool [] true pzero (pc_hist c))) (pc_obs c).
(** the property: every request is handled as if it were alone *)
Definition pool_mon (c : pool_case) : bool := list_eqb oview_eqb (pc_obs c) (pc_alone c).
Definition pool_monmodel (c : pool_case) : bool :=
  list_eqb oview_eqb (map view_of (serve_pool [] true pzero (pc_hist c)))
           (map (fun h => view_of (fill pzero (fst h) (snd h))) (pc_hist c)).

(** ** requests in flight together (Model.PoolConc): [pc_hist] is a batch sent at once, [pc_obs] what each
    request's executor was handed.  The model is run under a schedule that interleaves the requests step by step and
    lets every Get take an object out of the pool whenever one is there (the theorem [C07_in_flight_as_alone] says the
    schedule does not matter). *)
Fixpoint first_in_pool (heap : list (params * owner)) (k : nat) {struct heap} : option nat :=
  match heap with
  | [] => None
  | (_, InPool) :: _ => Some k
  | _ :: r => first_in_pool r (S k)
  end.
Definition auto_step (s : pstate) (i : nat) : pstate :=
  match pstep as_written_pool s i (first_in_pool (ps_heap s) 0) with Some s' => s' | None => s end.
(** request i gets its k-th turn at time 2*k + i: staggered, so that objects are taken from the pool by some and
    allocated by others *)
Definition stagger (n : nat) : list nat :=
  flat_map (fun t => filter (fun i => Nat.leb i t && Nat.ltb (t - i) 6) (seq 0 n)) (seq 0 (n + 8)).
Definition flight_model (c : pool_case) : list (option pview) :=
  let n := List.length (pc_hist c) in
  map (fun v => match v with Some r => view_of r | None => None end)
      (seen_by (fold_left auto_step (stagger n ++ stagger n) (pinit (pc_hist c)))).
Definition flight_corr (c : pool_case) : bool := list_eqb oview_eqb (flight_model c) (pc_obs c).
Definition flight_monmodel (c : pool_case) : bool :=
  list_eqb oview_eqb (flight_model c) (map (fun h => view_of (fill pzero (fst h) (snd h))) (pc_hist c)).
