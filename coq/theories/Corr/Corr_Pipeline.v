(** Correspondence and monitors over request histories against a real handler.Server:
    shared by C03 (gating, hook order), C07 (history independence), C09 (HTTP status / content type) and
    the transport part of C10 (malformed input). *)
From GV Require Import Base.Prelude Model.Pipeline.
Open Scope string_scope.
Open Scope list_scope.

Definition event_eqb (a b : event) : bool :=
  match a, b with
  | EvParam i, EvParam j | EvCtx i, EvCtx j | EvOpEnter i, EvOpEnter j | EvOpExit i, EvOpExit j
  | EvRespEnter i, EvRespEnter j | EvRespExit i, EvRespExit j => Nat.eqb i j
  | EvExec, EvExec => true
  | EvRootEnter i f, EvRootEnter j g | EvRootExit i f, EvRootExit j g
  | EvFieldEnter i f, EvFieldEnter j g | EvFieldExit i f, EvFieldExit j g => Nat.eqb i j && String.eqb f g
  | EvResolver f, EvResolver g => String.eqb f g
  | _, _ => false
  end.

(** The raw request as the harness sent it (classified headers), plus the pipeline view of it. *)
Record raw_req := {
  w_method : method;
  w_media : req_media;
  w_upgrade : bool;
  w_accept : option (list accept_part);
  w_body_ok : bool;              (* body / query string decodes into RawParams *)
  w_query_string_ok : bool;      (* url.ParseQuery succeeds (GET) *)
  w_req : request }.

Record obs_resp := {
  ob_status : nat;
  ob_events : list event;
  ob_has_data : bool;            (* body has a non-null "data" member *)
  ob_json_ok : bool;             (* body is a JSON object with data and/or errors (empty for OPTIONS/HEAD) *)
  ob_ctype : ctype_out;
  ob_recover : nat;              (* RecoverFunc invocations during the request *)
  ob_fresh_same : bool }.        (* status, Content-Type and body equal those of a fresh server given this request alone *)

Record pipe_case := {
  pc_docs : list doc;
  pc_exts : list ext;
  pc_cache : cache_kind;
  pc_transports : list route_t;
  pc_hdr : resp_headers_cfg;
  pc_reqs : list raw_req;
  pc_obs : list obs_resp }.

Definition bad_doc : doc := {| d_parses := false; d_valid := false; d_ops := [] |}.
Definition docs_of (c : pipe_case) : nat -> doc := fun q => nth q (pc_docs c) bad_doc.

Definition route (c : pipe_case) (w : raw_req) : option route_t :=
  get_transport (pc_transports c) (w_method w) (w_media w) (w_upgrade w).

(** The media type the status rule looks at is the response Content-Type actually chosen: a configured
    Content-Type overrides the Accept negotiation (and is then never the graphql-response type). *)
Definition effective_media (c : pipe_case) (w : raw_req) : media :=
  match pc_hdr c with HdrWithContentType => MJson | _ => negotiate (w_accept w) end.

Definition to_http (c : pipe_case) (w : raw_req) : http_req :=
  {| h_transport := match route c w with Some (RT t) => Some t | _ => None end;
     h_negotiated := effective_media c w;
     h_body_ok := w_body_ok w && w_query_string_ok w;
     h_req := w_req w |}.

(** The model's answer to one raw request. OPTIONS/HEAD never reach the pipeline. *)
Definition model_one (c : pipe_case) (qc : qcache) (w : raw_req) : qcache * (nat * list event * bool * ctype_out) :=
  let ct := content_type true (route c w) (pc_hdr c) (w_accept w) (w_query_string_ok w) in
  match route c w with
  | Some ROptions => (qc, (match w_method w with MOptions => 200%nat | _ => 405%nat end, [], false, ct))
  | _ =>
      let '(qc', r) := serve (docs_of c) (pc_exts c) qc (to_http c w) in
      (qc', (s_status r, s_events r, match s_body r with BData => true | _ => false end, ct))
  end.

Fixpoint model_all (c : pipe_case) (qc : qcache) (ws : list raw_req) {struct ws}
  : list (nat * list event * bool * ctype_out) :=
  match ws with
  | [] => []
  | w :: r => let '(qc', x) := model_one c qc w in x :: model_all c qc' r
  end.

Definition ctype_eqb (a b : ctype_out) : bool :=
  match a, b with OutJson, OutJson | OutGqlResp, OutGqlResp | OutConfigured, OutConfigured | OutMissing, OutMissing => true | _, _ => false end.

Definition resp_eqb (m : nat * list event * bool * ctype_out) (o : obs_resp) : bool :=
  let '(st, ev, dat, ct) := m in
  Nat.eqb st (ob_status o) && list_eqb event_eqb ev (ob_events o) && Bool.eqb dat (ob_has_data o) && ctype_eqb ct (ob_ctype o).

Fixpoint all2 {A B} (f : A -> B -> bool) (la : list A) (lb : list B) {struct la} : bool :=
  match la, lb with
  | [], [] => true
  | a :: ra, b :: rb => f a b && all2 f ra rb
  | _, _ => false
  end.

Definition pipe_corr (c : pipe_case) : bool :=
  all2 resp_eqb (model_all c (empty_qcache (pc_cache c)) (pc_reqs c)) (pc_obs c).

(** ** Monitors: the properties, decided from the requests, the oracle about the query text and the
    OBSERVED behaviour only. *)
Definition has_hook (exts : list ext) (h : ext -> bool) (i : nat) : bool :=
  match nth_error exts i with Some e => h e | None => false end.

(** Should the request be refused before execution? (property C03's list of gates) *)
Definition should_refuse (c : pipe_case) (w : raw_req) : bool :=
  let r := w_req w in
  let d := docs_of c (r_q r) in
  negb (d_parses d) || negb (d_valid d) ||
  match for_name (d_ops d) (r_opname r) with None => true | Some _ => false end ||
  negb (r_vars_ok r) ||
  match r_reject_param r with Some i => has_hook (pc_exts c) e_param i | None => false end ||
  match r_reject_ctx r with Some i => has_hook (pc_exts c) e_ctx i | None => false end.

Definition quietb (l : list event) : bool := forallb (fun e => negb (executes e)) l.

Definition phase (e : event) : nat :=
  match e with
  | EvParam _ => 0 | EvCtx _ => 1 | EvOpEnter _ | EvExec | EvOpExit _ => 2
  | EvRespEnter _ => 3 | EvRootEnter _ _ | EvRootExit _ _ | EvFieldEnter _ _ | EvFieldExit _ _ | EvResolver _ => 4
  | EvRespExit _ => 5
  end%nat.
Fixpoint nondecreasing (l : list nat) {struct l} : bool :=
  match l with
  | a :: ((b :: _) as r) => Nat.leb a b && nondecreasing r
  | _ => true
  end.

(** the sub-trace of one hook kind must be enter i1..in, exit in..i1 over exactly the implementing extensions *)
Definition nested_ok (enter exit : nat -> event) (idxs : list nat) (sub : list event) : bool :=
  list_eqb event_eqb sub (map enter idxs ++ map exit (rev idxs)).

Definition is_op (e : event) := match e with EvOpEnter _ | EvOpExit _ => true | _ => false end.
Definition is_resp (e : event) := match e with EvRespEnter _ | EvRespExit _ => true | _ => false end.
Definition is_root (f : string) (e : event) :=
  match e with EvRootEnter _ g | EvRootExit _ g => String.eqb f g | _ => false end.
Definition is_field (f : string) (e : event) :=
  match e with EvFieldEnter _ g | EvFieldExit _ g => String.eqb f g | _ => false end.

Definition hook_order_ok (c : pipe_case) (op : operation) (ev : list event) : bool :=
  let exts := pc_exts c in
  nondecreasing (map phase ev)
  && nested_ok EvOpEnter EvOpExit (with_hook e_op 0 exts) (filter is_op ev)
  && nested_ok EvRespEnter EvRespExit (with_hook e_resp 0 exts) (filter is_resp ev)
  && forallb (fun f =>
       nested_ok (fun i => EvRootEnter i f) (fun i => EvRootExit i f) (with_hook e_root 0 exts) (filter (is_root f) ev)
       && nested_ok (fun i => EvFieldEnter i f) (fun i => EvFieldExit i f) (with_hook e_field 0 exts) (filter (is_field f) ev)
       && Nat.eqb (List.length (filter (event_eqb (EvResolver f)) ev)) 1) (o_fields op)
  && Nat.eqb (List.length (filter (event_eqb EvExec) ev)) 1
  && list_eqb event_eqb (filter (fun e => match e with EvParam _ => true | _ => false end) ev) (map EvParam (with_hook e_param 0 exts))
  && list_eqb event_eqb (filter (fun e => match e with EvCtx _ => true | _ => false end) ev) (map EvCtx (with_hook e_ctx 0 exts)).

Definition reaches_pipeline (c : pipe_case) (w : raw_req) : bool :=
  match route c w with Some (RT _) => w_body_ok w && w_query_string_ok w | _ => false end.

(** C03 *)
Definition c03_one (c : pipe_case) (w : raw_req) (o : obs_resp) : bool :=
  if negb (reaches_pipeline c w) then quietb (ob_events o)
  else if should_refuse c w then quietb (ob_events o) && negb (ob_has_data o)
  else match route c w, for_name (d_ops (docs_of c (r_q (w_req w)))) (r_opname (w_req w)) with
       | Some (RT TGet), Some op => match o_kind op with KQuery => hook_order_ok c op (ob_events o) | _ => quietb (ob_events o) end
       | _, Some op => hook_order_ok c op (ob_events o)
       | _, None => false
       end.
Definition c03_monitor (c : pipe_case) : bool :=
  Nat.eqb (List.length (pc_reqs c)) (List.length (pc_obs c)) &&
  forallb (fun wo => c03_one c (fst wo) (snd wo)) (combine (pc_reqs c) (pc_obs c)).

(** C07 *)
Definition c07_monitor (c : pipe_case) : bool := forallb ob_fresh_same (pc_obs c).

(** C09 *)
Definition doc_failure (c : pipe_case) (w : raw_req) : bool :=
  let d := docs_of c (r_q (w_req w)) in negb (d_parses d) || negb (d_valid d).
Definition has_resolver (l : list event) : bool := existsb (fun e => match e with EvResolver _ => true | _ => false end) l.
Definition c09_one (c : pipe_case) (w : raw_req) (o : obs_resp) : bool :=
  ob_json_ok o
  (* non-2xx => no resolver *)
  && (Nat.ltb (ob_status o) 300 || negb (has_resolver (ob_events o)))
  (* execution started => 200 *)
  && (negb (negb (quietb (ob_events o))) || Nat.eqb (ob_status o) 200)
  (* GET executes only queries, and the operation the request names *)
  && match route c w, for_name (d_ops (docs_of c (r_q (w_req w)))) (r_opname (w_req w)) with
     | Some (RT TGet), Some op =>
         match o_kind op with
         | KQuery => true
         | _ => quietb (ob_events o) && negb (ob_has_data o)   (* refused: 406, or an earlier gate said no *)
         end
     | _, _ => true
     end
  && match for_name (d_ops (docs_of c (r_q (w_req w)))) (r_opname (w_req w)) with
     | Some op => forallb (fun e => match e with EvResolver f => existsb (String.eqb f) (o_fields op) | _ => true end) (ob_events o)
     | None => negb (has_resolver (ob_events o))
     end
  (* a document failing parsing or validation gets the client-error status of the negotiated media type *)
  && (if reaches_pipeline c w && doc_failure c w && negb (match r_reject_param (w_req w) with Some i => has_hook (pc_exts c) e_param i | None => false end)
      then match route c w with
           | Some (RT ((TGet | TPost) as t)) => Nat.eqb (ob_status o) (status_protocol t (effective_media c w))
           | _ => Nat.eqb (ob_status o) 422
           end
      else true)
  (* the Content-Type is the negotiated / configured one *)
  && match route c w with
     | Some ROptions => true
     | rt => ctype_eqb (ob_ctype o) (content_type true rt (pc_hdr c) (w_accept w) (w_query_string_ok w))
     end.
Definition c09_monitor (c : pipe_case) : bool :=
  forallb (fun wo => c09_one c (fst wo) (snd wo)) (combine (pc_reqs c) (pc_obs c)).

(** C10 (transports): no user code panics in these runs, so any recover-hook call is gqlgen's own; a
    malformed body gets a well-formed client error. *)
Definition c10_one (c : pipe_case) (w : raw_req) (o : obs_resp) : bool :=
  Nat.eqb (ob_recover o) 0 && ob_json_ok o &&
  (if negb (w_body_ok w && w_query_string_ok w)
   then match route c w with
        | Some ROptions => true
        | _ => Nat.leb 400 (ob_status o) && Nat.ltb (ob_status o) 500 && negb (ob_has_data o) && quietb (ob_events o)
        end
   else true)
  (* a request that reaches the pipeline with text that is no GraphQL document, or with no operation in it at
     all (an absent or empty query), is answered with an error only, whatever was served before it *)
  && (if reaches_pipeline c w && (let d := docs_of c (r_q (w_req w)) in negb (d_parses d) || match d_ops d with [] => true | _ => false end)
         && negb (match r_reject_param (w_req w) with Some i => has_hook (pc_exts c) e_param i | None => false end)
      then negb (ob_has_data o) && negb (has_resolver (ob_events o)) && Nat.leb 400 (ob_status o)
      else true).
Definition c10_monitor (c : pipe_case) : bool :=
  forallb (fun wo => c10_one c (fst wo) (snd wo)) (combine (pc_reqs c) (pc_obs c)).

(** monitors on the model's own answers (agreement test) *)
Definition model_obs (c : pipe_case) : list obs_resp :=
  map (fun m => let '(st, ev, dat, ct) := m in
                {| ob_status := st; ob_events := ev; ob_has_data := dat; ob_json_ok := true; ob_ctype := ct;
                   ob_recover := 0; ob_fresh_same := true |})
      (model_all c (empty_qcache (pc_cache c)) (pc_reqs c)).
Definition with_model_obs (c : pipe_case) : pipe_case :=
  {| pc_docs := pc_docs c; pc_exts := pc_exts c; pc_cache := pc_cache c; pc_transports := pc_transports c;
     pc_hdr := pc_hdr c; pc_reqs := pc_reqs c; pc_obs := model_obs c |}.
Definition monitors_on_model (c : pipe_case) : bool :=
  let m := with_model_obs c in c03_monitor m && c09_monitor m && c10_monitor m.

(** debugging aid: per request, which observable differs (status, events, data, content type) *)
Definition pipe_diffs (c : pipe_case) : list (bool * bool * bool * bool) :=
  map (fun mo => let '((st, ev, dat, ct), o) := mo in
                 (Nat.eqb st (ob_status o), list_eqb event_eqb ev (ob_events o), Bool.eqb dat (ob_has_data o), ctype_eqb ct (ob_ctype o)))
      (combine (model_all c (empty_qcache (pc_cache c)) (pc_reqs c)) (pc_obs c)).
