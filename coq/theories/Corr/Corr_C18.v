(** Correspondence and monitors for C18 (deterministic generation). *)
From GV Require Import Base.Prelude Model.GenOrder.
Open Scope string_scope.
Open Scope list_scope.

Record c18_case := {
  o_what : string;              (* which generated list: models, executor objects, enum constants of a type, ... *)
  o_names : list string }.      (* the names in the order they were emitted *)

Definition id_key (s : string) : string := s.
(** the emitted order is the sorted order (so it does not depend on map iteration) *)
Definition c18_mon (c : c18_case) : bool := sortedb id_key (o_names c).
Definition c18_corr (c : c18_case) : bool := list_eqb String.eqb (isort id_key (o_names c)) (o_names c).
Definition c18_monmodel (c : c18_case) : bool := sortedb id_key (isort id_key (o_names c)).
