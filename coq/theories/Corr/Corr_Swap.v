(** Correspondence and monitor for the concurrent-validation cases of C03 (Model.RuleSwap): requests sent at once
    to executors of one process.  The repaired code has one behaviour whatever the schedule (the theorem
    [C03_concurrent_validation_as_alone]), so the correspondence is equality with it. *)
From GV Require Import Base.Prelude Base.Threads Model.RuleSwap.
Open Scope nat_scope.
Open Scope list_scope.

Record swap_case := {
  sw_reqs : list (bool * doc);       (* executor has suggestions disabled, document *)
  sw_rejected : list bool }.         (* observed: answered 422, errors only, nothing reached *)

(** the model, run to the end under some schedule (disabled steps are skipped; each request gets nine turns) *)
Fixpoint run_skip (s : qstate) (tr : list nat) {struct tr} : qstate :=
  match tr with [] => s | i :: r => run_skip (match qstep true s i with Some s' => s' | None => s end) r end.
Definition one_after_the_other (n : nat) : list nat := flat_map (fun i => repeat i 9) (seq 0 n).
Definition round_robin (n : nat) : list nat := List.concat (repeat (seq 0 n) (9 * n)).
Definition model_rejected (c : swap_case) (sched : list nat) : list (option bool) :=
  verdicts (run_skip (qinit (sw_reqs c)) sched).

Definition obool_eqb (a : option bool) (b : bool) : bool := match a with Some x => Bool.eqb x b | None => false end.
Fixpoint all2 {A B} (f : A -> B -> bool) (a : list A) (b : list B) {struct a} : bool :=
  match a, b with [] , [] => true | x :: a', y :: b' => f x y && all2 f a' b' | _, _ => false end.

Definition swap_corr (c : swap_case) : bool :=
  all2 obool_eqb (model_rejected c (round_robin (List.length (sw_reqs c)))) (sw_rejected c).

(** the property: a document that fails validation is refused *)
Definition swap_judge (reqs : list (bool * doc)) (rej : list bool) : bool :=
  all2 (fun r o => if alone (snd r) then o else true) reqs rej.
Definition swap_mon (c : swap_case) : bool := swap_judge (sw_reqs c) (sw_rejected c).
Definition swap_monmodel (c : swap_case) : bool :=
  swap_judge (sw_reqs c) (map (fun v => match v with Some b => b | None => false end)
                              (model_rejected c (one_after_the_other (List.length (sw_reqs c))))).
