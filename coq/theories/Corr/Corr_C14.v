(** Correspondence and monitors for C14 (complexity). *)
From GV Require Import Base.Prelude Model.Complexity.

(** safeAdd on concrete operands: (a, b, observed result). *)
Definition add_case := (Z * Z * Z)%type.
Definition add_corr (c : add_case) : bool := let '(a, b, r) := c in safe_add a b =? r.
(** Monitor = the property on the implementation's output: saturating sum of the non-negative parts,
    with the documented (neg,neg) -> 1. *)
Definition add_monitor (c : add_case) : bool :=
  let '(a, b, r) := c in
  (if a <? 0 then (if b <? 0 then r =? 1 else r =? b)
   else if b <? 0 then r =? a else r =? Z.min maxInt (a + b)).

(** complexity.Calculate: custom table, implementor table, selections, observed. *)
Record calc_case := {
  cc_custom : list (string * string * cfun);
  cc_impls : list (string * list string);
  cc_sels : list csel;
  cc_observed : Z }.
Definition calc_model (c : calc_case) : Z :=
  sels_cx (table_custom (cc_custom c)) (table_impls (cc_impls c)) (cc_sels c).
Definition calc_corr (c : calc_case) : bool := calc_model c =? cc_observed c.
Definition calc_monitor (c : calc_case) : bool :=
  (spec_sels (table_custom (cc_custom c)) (table_impls (cc_impls c)) (cc_sels c) =? cc_observed c)
  && (0 <=? cc_observed c) && (cc_observed c <=? maxInt).

(** Gate through a real server: limit, observed (rejected?, Exec calls, complexity reported). *)
Record gate_case := {
  gc_calc : calc_case;   (* cc_observed = the complexity the server reported *)
  gc_limit : Z;
  gc_rejected : bool;
  gc_exec_calls : Z }.
Definition gate_corr (c : gate_case) : bool :=
  calc_corr (gc_calc c) &&
  match limit_gate (calc_model (gc_calc c)) (gc_limit c) with
  | Reject => gc_rejected c
  | Accept => negb (gc_rejected c)
  end.
Definition gate_monitor (c : gate_case) : bool :=
  let cx := spec_sels (table_custom (cc_custom (gc_calc c))) (table_impls (cc_impls (gc_calc c))) (cc_sels (gc_calc c)) in
  Bool.eqb (gc_rejected c) (cx >? gc_limit c)
  && (if gc_rejected c then gc_exec_calls c =? 0 else gc_exec_calls c =? 1).

(** Coverage function, evaluated in Coq: which branches of the walker a case exercises. *)
Fixpoint sel_features (s : csel) {struct s} : list nat :=
  match s with
  | CField i _ _ sc co a sels =>
      (if i then [1%nat] else []) ++ (if sc then [2%nat] else []) ++ (if co then [3%nat] else [])
      ++ (match a with Some _ => [4%nat] | None => [] end) ++ flat_map sel_features sels
  | CFrag sels => 5%nat :: flat_map sel_features sels
  end.
Definition saturated (c : calc_case) : bool := calc_model c =? maxInt.
