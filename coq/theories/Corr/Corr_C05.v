(** Correspondence and monitor for C05 (termination, nothing left running). *)
From GV Require Import Base.Prelude Model.Join.
Open Scope nat_scope.

Record c05_case := {
  cc_limit : nat;            (* exec.worker_limit of the probe server *)
  cc_cancel : Z;             (* 0 never, -1 before dispatch, k on entry of the k-th resolver *)
  cc_stop_after : nat;       (* 0: the consumer drains; 1: it stops after the first payload *)
  cc_defer_groups : nat;     (* @defer occurrences in the operation *)
  cc_hang : bool;            (* observed: the response function did not return *)
  cc_leaked : nat }.         (* observed: goroutines of generated code / gqlgen alive after cancellation *)

(** What the (repaired) accounting models predict for every input: the join is released once every
    closure has returned and no group goroutine survives the cancelled context - so: no hang, no leak. *)
Definition c05_corr (c : c05_case) : bool := negb (cc_hang c) && Nat.eqb (cc_leaked c) 0.
Definition c05_monitor (c : c05_case) : bool := negb (cc_hang c) && Nat.eqb (cc_leaked c) 0.

(** ** the worker-limit list join with panicking closures (Model.JoinPanic): [jp_plan] says which element closures
    panic (inside generated code, recovered), [jp_limit] is the worker limit (a server without one is run as a limit
    of one slot per element), [jp_returned] whether the response function returned.  The model is run greedily -
    dispatch whenever the loop can, otherwise let a running closure finish (the theorem
    [C05_list_join_with_panics] is about every schedule). *)
From GV Require Import Model.JoinPanic.
Record jp_case := { jp_plan : list bool; jp_limit : nat; jp_returned : bool }.
Fixpoint jgreedy (fuel : nat) (s : jstate) {struct fuel} : jstate :=
  match fuel with
  | O => s
  | S f =>
      match jstep true s JDispatch with
      | Some s' => jgreedy f s'
      | None => match jstep true s JReturn with
                | Some s' => jgreedy f s'
                | None => match jstep true s JPanic with Some s' => jgreedy f s' | None => s end
                end
      end
  end.
Definition jp_model (c : jp_case) : bool :=
  jwait_enabled (jgreedy (2 * List.length (jp_plan c) + 1) (jinit (jp_plan c) (jp_limit c))).
Definition jp_corr (c : jp_case) : bool := Bool.eqb (jp_model c) (jp_returned c).
Definition jp_mon (c : jp_case) : bool := jp_returned c.
Definition jp_monmodel (c : jp_case) : bool := jp_model c.
