(** Correspondence and monitor for C05 (termination, nothing left running). *)
From GV Require Import Base.Prelude Model.Join.
Open Scope nat_scope.

Record c05_case := {
  cc_limit : nat;            (* exec.worker_limit of the probe server *)
  cc_cancel : Z;             (* 0 never, -1 before dispatch, k on entry of the k-th resolver *)
  cc_stop_after : nat;       (* 0: the consumer drains; 1: it stops after the first payload *)
  cc_defer_groups : nat;     (* @defer occurrences in the operation *)
  cc_hang : bool;            (* observed: the response function did not return *)
  cc_leaked : nat }.         (* observed: goroutines of generated code / gqlgen alive after cancellation *)

(** What the (repaired) accounting models predict for every input: the join is released once every
    closure has returned and no group goroutine survives the cancelled context - so: no hang, no leak. *)
Definition c05_corr (c : c05_case) : bool := negb (cc_hang c) && Nat.eqb (cc_leaked c) 0.
Definition c05_monitor (c : c05_case) : bool := negb (cc_hang c) && Nat.eqb (cc_leaked c) 0.
