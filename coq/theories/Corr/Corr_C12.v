(** Correspondence and monitors for C12 (streamed HTTP responses). *)
From GV Require Import Base.Prelude Model.Sse Model.Multipart Model.SseLock Model.MpLock.
Open Scope list_scope.

Inductive c12_case :=
| KSse (payloads : list bytes) (body : bytes)
    (* JSON of each payload the operation produced, in order; the raw response body *)
| KMulti (sent : list payload) (toks : list tok).
    (* the payloads (identity, hasNext) the operation produced; the body split into boundary / header / JSON / CRLF tokens *)

Definition bytes_eqb : bytes -> bytes -> bool := list_eqb N.eqb.

(** ---- SSE ---- *)
Definition act_of_item (i : sse_item) : option sse_act :=
  match i with
  | IEvent t d => if bytes_eqb t (bytes_of "next") then Some (APayload d) else None
  | IComment c => if bytes_eqb c (bytes_of " ping") then Some APing else None
  end.
Fixpoint acts_of_items (l : list sse_item) {struct l} : option (list sse_act) :=
  match l with
  | [] => Some []
  | i :: r => match act_of_item i, acts_of_items r with Some a, Some l' => Some (a :: l') | _, _ => None end
  end.
Definition payloads_of (acts : list sse_act) : list bytes := flat_map (fun a => match a with APayload j => [j] | APing => [] end) acts.

(** the middle of a parsed stream: without the opening comment and the final completion *)
Definition middle (items : list sse_item) : option (list sse_item) :=
  match items with
  | IComment [] :: r =>
      match rev r with
      | IEvent t [] :: m => if bytes_eqb t (bytes_of "complete") then Some (rev m) else None
      | _ => None
      end
  | _ => None
  end.

(** the property: complete events only; every payload once, in order, as one 'next'; pings only between events;
    exactly one 'complete', last *)
Definition sse_monitor (payloads : list bytes) (body : bytes) : bool :=
  match middle (parse_stream body) with
  | Some m => match acts_of_items m with
              | Some acts => list_eqb bytes_eqb (payloads_of acts) payloads
              | None => false
              end
  | None => false
  end.

(** the order of writes the stream shows is a behaviour of the lock discipline (Model.SseLock): each event is the
    handler taking the lock, writing, unlocking, then resetting the ticker under the lock; each ping is a tick, the
    keep-alive taking the lock and writing; then the completion, the final flush, and a last tick that finds the
    stream done *)
Definition item_eqb (a b : item) : bool :=
  match a, b with IEv, IEv | IPing, IPing | IComplete, IComplete => true | _, _ => false end.
Definition lock_trace (acts : list sse_act) : list sklabel :=
  flat_map (fun a => match a with
                     | APayload _ => [LHandler; LHandler; LHandler; LHandler]
                     | APing => [LTick; LKeepAlive; LKeepAlive]
                     end) acts
  ++ [LHandler; LHandler; LHandler; LHandler; LTick; LKeepAlive; LKeepAlive].
Definition lock_accepts (acts : list sse_act) : bool :=
  match skrun as_written (skinit (List.length (payloads_of acts))) (lock_trace acts) with
  | Some s => handler_finished s &&
              list_eqb item_eqb (map fst (sk_out s)) (map (fun a => match a with APayload _ => IEv | APing => IPing end) acts ++ [IComplete])
  | None => false
  end.

(** the correspondence: the body is byte for byte what the model writes for the order of writes it shows, and that
    order is a behaviour of the lock discipline *)
Definition sse_corr (body : bytes) : bool :=
  match middle (parse_stream body) with
  | Some m => match acts_of_items m with
              | Some acts => bytes_eqb (sse_bytes acts 0) body && lock_accepts acts
              | None => false
              end
  | None => false
  end.

(** ---- multipart/mixed ---- *)
Definition payload_eqb (a b : payload) : bool := Nat.eqb (p_id a) (p_id b) && Bool.eqb (p_hasnext a) (p_hasnext b).
Definition tok_eqb (a b : tok) : bool :=
  match a, b with
  | TBoundary, TBoundary | TClosing, TClosing | THeader, THeader | TCRLF, TCRLF | TFinal, TFinal => true
  | TInitial p, TInitial q => payload_eqb p q
  | TIncremental ps h, TIncremental qs k => list_eqb payload_eqb ps qs && Bool.eqb h k
  | _, _ => false
  end.

Definition is_final (b : body) : bool := match b with BFinal => true | _ => false end.
(** the stream parses up to the closing boundary; the initial payload once and first, the incremental payloads once
    and in order; a part that only says "nothing follows" stands last, and is there exactly when the last payload
    sent announced more *)
Definition multi_monitor (sent : list payload) (toks : list tok) : bool :=
  match sent, parse_toks ExpBoundary toks with
  | p0 :: ps, Some (BInitial q :: bs, PClosed) =>
      payload_eqb p0 q && match initial_of bs with [] => true | _ => false end && list_eqb payload_eqb (incrementals_of bs) ps &&
      match rev bs with
      | BFinal :: before => negb (existsb is_final before) && p_hasnext (last sent p0)
      | _ => negb (existsb is_final bs) && negb (p_hasnext (last sent p0))
      end
  | _, _ => false
  end.

(** the flush schedule the parts reveal: the initial payload, then after each part a tick *)
Definition acts_of_bodies (bs : list body) : list mact :=
  flat_map (fun b => match b with
                     | BInitial p => [MAdd p]
                     | BIncr ps _ => map MAdd ps ++ [MTick]
                     | BFinal => []
                     end) bs.
(** an initial part directly followed by an incremental part in one flush has no tick in between; the model is
    asked for both readings *)
Definition acts_merged (bs : list body) : list mact :=
  match bs with
  | BInitial p :: BIncr ps _ :: r => MAdd p :: map MAdd ps ++ [MTick] ++ acts_of_bodies r
  | _ => acts_of_bodies bs
  end.
Definition acts_split (bs : list body) : list mact :=
  match bs with
  | BInitial p :: r => MAdd p :: MTick :: acts_of_bodies r
  | _ => acts_of_bodies bs
  end.

(** the parts the stream shows are a behaviour of the lock discipline (Model.MpLock): every flush but the last is
    replayed as the ticker's (lock, write, Flush, unlock), the last as the handler's final one, then the deferred
    Flush and the ticker seeing the signal; the parts written must be the ones observed, both goroutines must have
    ended and the response writer must never have been used by both at once *)
Definition ids_of_body (b : body) : list nat := match b with BInitial q => [p_id q] | BIncr ps _ => map p_id ps | BFinal => [] end.
(** the part that only says "nothing follows" carries no response: it is the closing write of [Done] (Model.MpLock's
    MHClose stage), told apart from the flushes *)
Definition no_final (bs : list body) : list body := filter (fun b => negb (is_final b)) bs.
Definition groups_split (bs : list body) : list (list nat) := map ids_of_body (no_final bs).
Definition groups_merged (bs : list body) : list (list nat) :=
  match no_final bs with
  | BInitial q :: BIncr ps _ :: r => (p_id q :: map p_id ps) :: map ids_of_body r
  | bs' => map ids_of_body bs'
  end.
(** [open]: the stream was left open by its last payload, so [Done]'s closing write (lock, last part and closing
    boundary, Flush, unlock) happens; otherwise that stage is lock, look, unlock *)
Fixpoint mp_schedule (open : bool) (groups : list (list nat)) {struct groups} : list mlabel :=
  match groups with
  | [] => repeat MLHandler 4 ++ repeat MLHandler (if open then 7 else 3) ++ [MLSeeDone]
  | [g] => repeat MLHandler (List.length g) ++ repeat MLHandler 10 ++ repeat MLHandler (if open then 7 else 3) ++ [MLSeeDone]
  | g :: r => repeat MLHandler (List.length g) ++ [MLTick] ++ repeat MLTicker 7 ++ mp_schedule open r
  end.
Definition mp_lock_accepts_open (open : bool) (groups : list (list nat)) : bool :=
  match mprun true (mpinit_open (List.concat groups) open) (mp_schedule open groups) with
  | Some s => list_eqb (list_eqb Nat.eqb) (map snd (m_out s)) (groups ++ (if open then [[]] else [])) && returned s
              && (match m_k s with MKEnd => true | _ => false end) && negb (both_using s) && Nat.eqb (m_late s) 0
              && negb (m_open s)
  | None => false
  end.
Definition mp_lock_accepts (groups : list (list nat)) : bool := mp_lock_accepts_open false groups.
Definition has_final (bs : list body) : bool := existsb is_final bs.

Definition multi_corr (toks : list tok) : bool :=
  match parse_toks ExpBoundary toks with
  | Some (bs, _) =>
      (list_eqb tok_eqb (mrun_done (acts_split bs)) toks && mp_lock_accepts_open (has_final bs) (groups_split bs))
      || (list_eqb tok_eqb (mrun_done (acts_merged bs)) toks && mp_lock_accepts_open (has_final bs) (groups_merged bs))
  | None => false
  end.

Definition c12_corr (c : c12_case) : bool :=
  match c with KSse _ body => sse_corr body | KMulti _ toks => multi_corr toks end.
Definition c12_mon (c : c12_case) : bool :=
  match c with KSse ps body => sse_monitor ps body | KMulti sent toks => multi_monitor sent toks end.

(** the monitors accept what the model writes for the same payloads with no tick at all *)
Definition c12_monmodel (c : c12_case) : bool :=
  match c with
  | KSse ps _ => sse_monitor ps (sse_bytes (map APayload ps) 0) || negb (forallb no_newline ps)
  | KMulti sent _ => multi_monitor sent (mrun_done (map MAdd sent)) || negb (hn_pattern sent || forallb p_hasnext sent)
  end.
