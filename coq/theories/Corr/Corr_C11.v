(** Correspondence and monitors for C11 (websocket sessions). *)
From GV Require Import Base.Prelude Model.WsProto Model.WsLock.
Open Scope string_scope.
Open Scope list_scope.

Record c11_case := {
  k_cfg : wcfg;
  k_det : bool;                          (* the script was driven step by step (each effect awaited): the model must be matched *)
  k_labels : list label;                 (* client frames and server events, in the order the harness issued them *)
  k_conn : list out;                     (* observed connection-level frames (ack, ka, errors, pong, ping, close), in order *)
  k_ops : list (string * list out);      (* observed frames per operation id, in order *)
  k_events : list out;                   (* observed EvExec / EvCancel / EvCloseFunc / EvSocketClosed (any order) *)
  k_server_order : list out;             (* OAck (init function accepted) and EvExec, in server order *)
  k_closed : bool }.                     (* the client saw the connection end *)

Definition out_eqb (a b : out) : bool :=
  match a, b with
  | OAck, OAck | OKa, OKa | OConnError, OConnError | OPong, OPong | OPing, OPing | EvSocketClosed, EvSocketClosed => true
  | OData x, OData y | OError x, OError y | OComplete x, OComplete y | EvExec x, EvExec y | EvCancel x, EvCancel y => String.eqb x y
  | OCloseFrame x, OCloseFrame y | EvCloseFunc x, EvCloseFunc y => Z.eqb x y
  | _, _ => false
  end.

Definition is_conn_frame (o : out) : bool :=
  match o with OAck | OKa | OConnError | OPong | OPing | OCloseFrame _ => true | _ => false end.
Definition is_event (o : out) : bool :=
  match o with EvExec _ | EvCancel _ | EvCloseFunc _ | EvSocketClosed => true | _ => false end.

Fixpoint remove1 (x : out) (l : list out) {struct l} : option (list out) :=
  match l with [] => None | y :: r => if out_eqb x y then Some r else option_map (cons y) (remove1 x r) end.
Fixpoint perm_eqb (a b : list out) {struct a} : bool :=
  match a with
  | [] => match b with [] => true | _ => false end
  | x :: r => match remove1 x b with Some b' => perm_eqb r b' | None => false end
  end.

Fixpoint dedup (l : list string) {struct l} : list string :=
  match l with [] => [] | x :: r => if existsb (String.eqb x) r then dedup r else x :: dedup r end.

Definition lookup_ops (id : string) (l : list (string * list out)) : list out :=
  match find (fun p => String.eqb (fst p) id) l with Some p => snd p | None => [] end.

(** the close frame is not always delivered when the peer is gone: compared only when observed *)
Definition conn_eqb (model obs : list out) : bool :=
  list_eqb out_eqb model obs ||
  list_eqb out_eqb (filter (fun o => match o with OCloseFrame _ => false | _ => true end) model) obs.

Definition c11_corr (c : c11_case) : bool :=
  if k_det c then
    let outs := filter (visible (w_proto (k_cfg c))) (snd (run (k_cfg c) ws0 (k_labels c))) in
    conn_eqb (filter is_conn_frame outs) (k_conn c) &&
    (* when the connection ends while an operation is running, the request context is cancelled as the handler
       returns and the operation's completion may still reach the client before the close frame: tolerated *)
    forallb (fun id => let m := filter (is_frame_of id) outs in let o := lookup_ops id (k_ops c) in
                       list_eqb out_eqb m o ||
                       (forallb (fun x => match x with OData _ => true | _ => false end) m && list_eqb out_eqb (m ++ [OComplete id]) o))
            (dedup (ids_of (k_labels c) ++ map fst (k_ops c))) &&
    perm_eqb (filter is_event outs) (k_events c)
  else true.

(** the property on what was observed *)
Definition count_of (x : out) (l : list out) : nat := List.length (filter (out_eqb x) l).
Definition execs (l : list out) : list string := flat_map (fun o => match o with EvExec i => [i] | _ => [] end) l.

(** "is then terminated by an error and/or a completion": wherever the verified session model terminates an
    operation while the connection is open, the observed frames of that id contain a terminator *)
Definition has_terminator (l : list out) : bool := existsb (fun o => match o with OError _ | OComplete _ => true | _ => false end) l.
Definition terminated_ok (c : c11_case) : bool :=
  if k_det c then
    let outs := snd (run (k_cfg c) ws0 (k_labels c)) in
    forallb (fun id => negb (has_terminator (filter (is_frame_of id) outs)) || has_terminator (lookup_ops id (k_ops c)))
            (dedup (ids_of (k_labels c)))
  else true.

Definition c11_mon (c : c11_case) : bool :=
  terminated_ok c &&
  forallb (fun p => frames_ok GData (snd p)) (k_ops c) &&
  before_ack_ok (k_server_order c) &&
  Nat.leb (count_closefunc (k_events c)) 1 &&
  (if k_closed c then
     Nat.eqb (count_closefunc (k_events c)) 1 &&
     forallb (fun id => Nat.eqb (count_of (EvExec id) (k_events c)) (count_of (EvCancel id) (k_events c))) (dedup (execs (k_events c)))
   else true).

(** the monitors accept the model's own session (ids used once) *)
Definition c11_monmodel (c : c11_case) : bool :=
  let outs := snd (run (k_cfg c) ws0 (k_labels c)) in
  let ids := dedup (ids_of (k_labels c)) in
  negb (Nat.eqb (List.length ids) (List.length (ids_of (k_labels c)))) ||
  (forallb (fun id => op_frames_ok id outs) ids && before_ack_ok outs && Nat.leb (count_closefunc outs) 1).

(** ** the write discipline (Model.WsLock): a session in which several goroutines of one connection write at the
    same time.  The harness attributes every received frame to the goroutine that writes it (read loop: the
    acknowledgement and the pongs; one goroutine per operation: its results and completion; the ping ticker) and
    states each writer's program; the observed order on the wire must be a behaviour of the lock LTS: replaying it
    (each frame: lock, begin, end, unlock by its writer) must be possible, reproduce the frames and finish every
    writer.  The monitor is the property's own clause: every operation's results arrive in order (payload numbers
    ascending from 1), then its single completion, and every ping is answered by its own pong, in order. *)
Record wslock_case := {
  wl_progs : list (list (string * Z));          (* per writer: kind and payload number of each frame, in program order *)
  wl_out : list (nat * (string * Z)) }.         (* observed: writer, kind, payload number, in order of arrival *)

Definition wl_ops (c : wslock_case) : list (list wop) := map (map (fun f => WWrite (fst f) (snd f) true)) (wl_progs c).
Definition wl_schedule (c : wslock_case) : list nat := flat_map (fun x => [fst x; fst x; fst x; fst x]) (wl_out c).
Definition obs_frame_eqb (a b : nat * (string * Z)) : bool :=
  Nat.eqb (fst a) (fst b) && String.eqb (fst (snd a)) (fst (snd b)) && Z.eqb (snd (snd a)) (snd (snd b)).
Definition wire (out : list (nat * wframe)) : list (nat * (string * Z)) :=
  map (fun x => match snd x with FMsg k n => (fst x, (k, n)) | FClose => (fst x, ("close", 0%Z)) end) out.
Definition wslock_accepts (c : wslock_case) : bool :=
  match wsrun (wsinit (wl_ops c)) (wl_schedule c) with
  | Some s => list_eqb obs_frame_eqb (wire (ws_out s)) (wl_out c) && forallb (fun t => negb (unfinished t)) (ws_thr s) && Nat.leb (writers_inside s) 1
  | None => false
  end.

Fixpoint ascending_from (k : Z) (l : list Z) {struct l} : bool :=
  match l with [] => true | x :: r => Z.eqb x k && ascending_from (k + 1) r end.
Definition of_kind (k : string) (l : list (nat * (string * Z))) : list Z :=
  flat_map (fun x => if String.eqb (fst (snd x)) k then [snd (snd x)] else []) l.
Definition by_writer (i : nat) (l : list (nat * (string * Z))) : list (nat * (string * Z)) := filter (fun x => Nat.eqb (fst x) i) l.
Fixpoint results_then_complete (l : list (nat * (string * Z))) {struct l} : bool :=
  match l with
  | [] => false
  | [x] => String.eqb (fst (snd x)) "complete"
  | x :: r => String.eqb (fst (snd x)) "next" && results_then_complete r
  end.
Definition wslock_judge (nwriters : nat) (out : list (nat * (string * Z))) : bool :=
  ascending_from 1 (of_kind "pong" out) &&
  forallb (fun i => let mine := by_writer i out in
                    match of_kind "next" mine with
                    | [] => true
                    | ns => ascending_from 1 ns && results_then_complete mine
                    end) (seq 0 nwriters).
Definition wslock_mon (c : wslock_case) : bool := wslock_judge (List.length (wl_progs c)) (wl_out c).
(** the monitor on the model's own behaviour: the writers run one after the other *)
Definition wslock_monmodel (c : wslock_case) : bool :=
  let sched := List.concat (map (fun ip => repeat (fst ip) (4 * List.length (snd ip))) (combine (seq 0 (List.length (wl_progs c))) (wl_progs c))) in
  match wsrun (wsinit (wl_ops c)) sched with
  | Some s => wslock_judge (List.length (wl_progs c)) (wire (ws_out s))
  | None => false
  end.
