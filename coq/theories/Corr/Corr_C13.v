(** Correspondence and monitors for C13 (@defer changes delivery, not content). *)
From GV Require Import Base.Prelude Model.Exec Model.Defer Model.DeferProto Corr.Corr_C01.
Open Scope string_scope.
Open Scope list_scope.

Record obs_payload := { op_path : path; op_label : string; op_data : jt; op_errors : list err; op_has_next : option bool }.

Record defer_case := {
  dc_exec : exec_case;                 (* schema, operation (with its @defer directives), oracle; the observed
                                          fields of this record are those of the INITIAL payload *)
  dc_payloads : list obs_payload }.    (* every payload in arrival order, the initial one first *)

Definition dc_tree (c : defer_case) : rnode * list logent :=
  build_obj (xc_schema (dc_exec c)) (mk_oracle (xc_oracle (dc_exec c))) (impl_collect (xc_schema (dc_exec c)) true)
            (fuel_of (dc_exec c)) (root_of (dc_exec c)) [] (xc_sels (dc_exec c)).

Definition model_payloads (c : defer_case) : list payload :=
  let '(tree, lg) := dc_tree c in all_payloads (dmarks lg) tree.

Definition payload_eqb (a : payload) (b : obs_payload) : bool :=
  Corr_C01.path_eqb (pl_path a) (op_path b) && String.eqb (pl_label a) (op_label b)
  && jt_eqb (pl_data a) (op_data b) && perm_eqb err_eqb (pl_errors a) (op_errors b).

Fixpoint remove_match (a : payload) (l : list obs_payload) {struct l} : option (list obs_payload) :=
  match l with
  | [] => None
  | b :: r => if payload_eqb a b then Some r else option_map (cons b) (remove_match a r)
  end.
Fixpoint multiset_match (ms : list payload) (os : list obs_payload) {struct ms} : bool :=
  match ms with
  | [] => match os with [] => true | _ => false end
  | a :: r => match remove_match a os with Some os' => multiset_match r os' | None => false end
  end.

(** correspondence: the initial payload is the model's, the incremental payloads are the model's as a
    multiset (arrival order is scheduling) *)
(** ---- the observed payload sequence is a behaviour of the delivery protocol (Model.DeferProto) ---- *)
Fixpoint is_proper_prefix (a b : path) {struct a} : bool :=
  match a, b with
  | [], _ :: _ => true
  | x :: a', y :: b' => pseg_eqb x y && is_proper_prefix a' b'
  | _, _ => false
  end.
(** groups in the model's (parents first) order, numbered from 1; a group whose path extends the path of an
    earlier group is started while that group runs, the others by the initial execution *)
Definition model_groups (c : defer_case) : list (path * string) :=
  match model_payloads c with _ :: r => map (fun p => (pl_path p, pl_label p)) r | [] => [] end.
Fixpoint start_labels (before : list (nat * path)) (i : nat) (gs : list (path * string)) {struct gs} : list plabel :=
  match gs with
  | [] => []
  | (p, _) :: r =>
      let l := match find (fun jp => is_proper_prefix (snd jp) p) before with
               | Some jp => LStartNested (fst jp) i
               | None => LStartRoot i
               end in
      l :: start_labels ((i, p) :: before) (S i) r
  end.
Fixpoint index_groups (i : nat) (gs : list (path * string)) {struct gs} : list (nat * (path * string)) :=
  match gs with [] => [] | g :: r => (i, g) :: index_groups (S i) r end.
(** each observed incremental payload is one of the groups, none twice *)
Fixpoint assign (gs : list (nat * (path * string))) (used : list nat) (obs : list obs_payload) {struct obs} : option (list nat) :=
  match obs with
  | [] => Some []
  | o :: r =>
      match find (fun g => negb (mem (fst g) used) && Corr_C01.path_eqb (fst (snd g)) (op_path o) && String.eqb (snd (snd g)) (op_label o)) gs with
      | Some g => option_map (cons (fst g)) (assign gs (fst g :: used) r)
      | None => None
      end
  end.
Definition obs_flag (o : obs_payload) : bool := match op_has_next o with Some true => true | _ => false end.
Definition proto_accepts (c : defer_case) : bool :=
  match dc_payloads c with
  | [] => false
  | _ :: orest =>
      let gs := model_groups c in
      match assign (index_groups 1 gs) [] orest with
      | None => false
      | Some order =>
          let tr := start_labels [] 1 gs ++ [LInitDone] ++ flat_map (fun g => [LFinish g; LReceive g]) order ++ [LEnd] in
          match prun pinit tr with
          | Some s => list_eqb Bool.eqb (map snd (ps_out s)) (map obs_flag (dc_payloads c))
          | None => false
          end
      end
  end.

Definition defer_corr (c : defer_case) : bool :=
  match model_payloads c, dc_payloads c with
  | mi :: mrest, oi :: orest => payload_eqb mi oi && multiset_match mrest orest && proto_accepts c
  | _, _ => false
  end.

Definition to_payload (o : obs_payload) (initial : bool) : payload :=
  {| pl_path := op_path o; pl_label := op_label o; pl_data := op_data o; pl_errors := op_errors o; pl_initial := initial |}.

(** does the path lead to an object in the data merged so far? *)
Fixpoint find_at (d : jt) (p : path) {struct p} : option jt :=
  match p with
  | [] => Some d
  | PKey k :: r => match d with
                   | TObj l => match find (fun kv => String.eqb (fst kv) k) l with Some kv => find_at (snd kv) r | None => None end
                   | _ => None end
  | PIdx i :: r => match d with TArr l => match nth_error l i with Some x => find_at x r | None => None end | _ => None end
  end.
Fixpoint arrival_ok (d : jt) (rest : list obs_payload) {struct rest} : bool :=
  match rest with
  | [] => true
  | o :: r => match find_at d (op_path o) with
              | Some (TObj _) => arrival_ok (apply_payload d (to_payload o false)) r
              | _ => false
              end
  end.

Fixpoint has_next_ok (l : list obs_payload) {struct l} : bool :=
  match l with
  | [] => true
  | [o] => match op_has_next o with Some true => false | _ => true end
  | o :: r => match op_has_next o with Some true => has_next_ok r | _ => false end
  end.

Fixpoint all_in (a b : list err) {struct a} : bool :=
  match a with [] => true | x :: r => match remove1 err_eqb x b with Some b' => all_in r b' | None => false end end.

(** the data the deferral must preserve *)
Definition expected_content (c : defer_case) : jt :=
  let '(tree, lg) := dc_tree c in
  match assemble (dmarks lg) [] false tree with Some j => j | None => TNull end.
Definition plain_errors (c : defer_case) : list err := r_errors (model_impl (dc_exec c)).

(** monitors *)
Definition m_groups_once (c : defer_case) : bool :=
  (* every started group delivered exactly once with its object's path and its label *)
  match model_payloads c, dc_payloads c with
  | _ :: mrest, _ :: orest =>
      perm_eqb (fun a b => Corr_C01.path_eqb (fst a) (fst b) && String.eqb (snd a) (snd b))
               (map (fun p => (pl_path p, pl_label p)) mrest) (map (fun o => (op_path o, op_label o)) orest)
  | _, _ => false
  end.
Definition m_order (c : defer_case) : bool :=
  match dc_payloads c with o :: r => arrival_ok (op_data o) r | [] => false end.
Definition m_merge (c : defer_case) : bool :=
  match dc_payloads c with
  | o :: r => jt_eqb (merge_payloads (to_payload o true :: map (fun x => to_payload x false) r)) (expected_content c)
  | [] => false
  end.
Definition m_errors (c : defer_case) : bool :=
  all_in (flat_map op_errors (dc_payloads c)) (plain_errors c).
Definition m_has_next (c : defer_case) : bool :=
  match dc_payloads c with
  | [o] => match op_has_next o with Some true => false | _ => true end
  | l => has_next_ok l
  end.

Definition defer_monitor (c : defer_case) : bool :=
  m_groups_once c && m_order c && m_merge c && m_errors c && m_has_next c.
(** everything except what the known nested-ordering finding breaks: the OBSERVED payloads are first put in
    parent-before-child order (stable insertion by path length), then the order and merge clauses are asked of
    that sequence - so a payload with wrong content still fails *)
Fixpoint insert_by_depth (o : obs_payload) (l : list obs_payload) {struct l} : list obs_payload :=
  match l with
  | [] => [o]
  | x :: r => if Nat.ltb (List.length (op_path o)) (List.length (op_path x)) then o :: x :: r else x :: insert_by_depth o r
  end.
Fixpoint parents_first (l : list obs_payload) {struct l} : list obs_payload :=
  match l with [] => [] | o :: r => insert_by_depth o (parents_first r) end.
Definition reordered (c : defer_case) : defer_case :=
  {| dc_exec := dc_exec c;
     dc_payloads := match dc_payloads c with o :: r => o :: parents_first r | [] => [] end |}.
Definition defer_monitor_modulo_order (c : defer_case) : bool :=
  m_groups_once c && m_errors c && m_has_next c && m_order (reordered c) && m_merge (reordered c).
(** KEPT FINDING "orphan group": a group is started when its object is marshalled; if an ancestor or sibling
    failure later nulls that object away, the group is delivered all the same, for a path no payload ever
    delivers.  [is_orphan]: the payload's path does not lead to an object in the final content. *)
Definition is_orphan (c : defer_case) (o : obs_payload) : bool :=
  match find_at (expected_content c) (op_path o) with Some (TObj _) => false | _ => true end.
Definition without_orphans (c : defer_case) : defer_case :=
  {| dc_exec := dc_exec c;
     dc_payloads := match dc_payloads c with
                    | o :: r => o :: filter (fun x => negb (is_orphan c x)) r
                    | [] => [] end |}.
(** everything the property asks, the orphan payloads set aside *)
Definition defer_monitor_no_orphans (c : defer_case) : bool :=
  let c' := without_orphans c in
  m_groups_once c && m_order c' && m_merge c' && m_errors c && m_has_next c.
(** ... and additionally modulo the arrival order of nested groups (KEPT FINDING "child before parent") *)
Definition defer_monitor_modulo_order_no_orphans (c : defer_case) : bool :=
  let c' := reordered (without_orphans c) in
  m_groups_once c && m_errors c && m_has_next c && m_order c' && m_merge c'.

(** C04 on deferred delivery: a failure inside a deferred group is contained exactly as null propagation says -
    judged on the observed payloads with the two kept C13 findings set aside (orphan payloads removed, parents
    first); errors must be plain errors *)
Definition defer_monitor_contain (c : defer_case) : bool :=
  let c' := reordered (without_orphans c) in
  m_errors c && m_has_next c && m_order c' && m_merge c'.

(** the model's own canonical (parent first) delivery satisfies the monitors *)
Definition defer_monitor_on_model (c : defer_case) : bool :=
  jt_eqb (merge_payloads (model_payloads c)) (expected_content c)
  && all_in (flat_map pl_errors (model_payloads c)) (plain_errors c).
