(** Correspondence and monitors for C19 (regeneration of resolver files). *)
From GV Require Import Base.Prelude Model.Rewrite Model.Regen.
Open Scope string_scope.
Open Scope list_scope.

Record c19_case := {
  c_before : list rfile;     (* the user's resolver files before regeneration *)
  c_live : list live;        (* what the changed schema calls for, per resolver file *)
  c_after : list rfile;      (* the resolver files after regeneration (all of them parse) *)
  c_refs : list (string * list string) }.   (* per regenerated file: package identifiers its code still refers to *)

Definition regenerated (c : c19_case) (n : string) : bool := existsb (fun l => String.eqb (l_file l) n) (c_live c).
Definition ostr_eqb := option_eqb String.eqb.

(** ---- correspondence: the after-files are what the model of the generator predicts ---- *)
Definition method_in (f : rfile) (recv name : string) : option decl := find (is_method recv name) (f_decls f).

Definition corr_live (c : c19_case) (l : live) : bool :=
  match find_file (c_after c) (l_file l) with
  | None => false
  | Some af =>
      forallb (fun m => match method_in af (fst m) (snd m) with
                        | None => false
                        | Some d => match prev_decl (c_before c) (fst m) (snd m) with
                                    | Some p => String.eqb (d_body d) (d_body p) && String.eqb (d_rawdoc d) (d_doc p)
                                                && String.eqb (d_results d) (d_results p)
                                                (* the doc comment is re-emitted from CommentGroup.Text() *)
                                    | None => true       (* a new resolver: generated stub *)
                                    end
                        end) (l_methods l) &&
      (* the rest of the previous file of that name, if any, is in the warning block, and nothing else is *)
      ostr_eqb (f_remaining af)
               (match find_file (c_before c) (l_file l) with
                | Some bf => match left_over (c_live c) bf with [] => None | _ => Some (remaining_source (c_live c) bf) end
                | None => None
                end)
  end.

(** the declarations of a regenerated file are exactly those of the model's run (Model.Regen), as a set of
    kinds and names: nothing else is emitted, nothing the schema calls for is missing *)
Definition kind_eqb (a b : dkind) : bool :=
  match a, b with
  | KMethod r n, KMethod r' n' => String.eqb r r' && String.eqb n n'
  | KFunc n, KFunc n' => String.eqb n n'
  | KType n, KType n' => String.eqb n n'
  | KImport, KImport => true
  | KOther, KOther => true
  | _, _ => false
  end.
Definition model_file (c : c19_case) (l : live) : rfile :=
  regen_file (fun _ _ _ => "") (fun _ => "") (fun _ => "") (fun _ _ => "") (fun _ _ => "") copied (c_live c) (c_before c) l.
Definition corr_decls (c : c19_case) (l : live) : bool :=
  match find_file (c_after c) (l_file l) with
  | None => false
  | Some af =>
      let mf := model_file c l in
      forallb (fun d => existsb (fun x => kind_eqb (d_kind d) (d_kind x)) (f_decls af)) (f_decls mf) &&
      forallb (fun x => is_import x || existsb (fun d => kind_eqb (d_kind d) (d_kind x)) (f_decls mf)) (f_decls af) &&
      ostr_eqb (f_remaining af) (f_remaining mf)
  end.

Definition decl_eqb (a b : decl) : bool := String.eqb (d_src a) (d_src b).
Definition corr_stale (c : c19_case) (bf : rfile) : bool :=
  regenerated c (f_name bf) ||
  match find_file (c_after c) (f_name bf) with
  | Some af => list_eqb decl_eqb (f_decls bf) (f_decls af)     (* a file the generator no longer writes is left alone *)
  | None => false
  end.

Definition c19_corr (c : c19_case) : bool :=
  forallb (corr_live c) (c_live c) && forallb (corr_decls c) (c_live c) && forallb (corr_stale c) (c_before c).

(** ---- the property on what is observed ---- *)
(** every resolver method present after regeneration that existed before has its body (and doc text) unchanged *)
Definition mon_bodies (with_doc : bool) (c : c19_case) : bool :=
  forallb (fun af =>
             forallb (fun d => match d_kind d with
                               | KMethod r n =>
                                   if String.eqb r "Resolver" then true else
                                   match prev_decl (c_before c) r n with
                                   | Some p => String.eqb (d_body d) (d_body p) && String.eqb (d_results d) (d_results p) &&
                                               (if with_doc then String.eqb (d_rawdoc d) (d_rawdoc p) else String.eqb (d_doc d) (d_doc p))
                                   | None => true
                                   end
                               | _ => true
                               end) (f_decls af)) (c_after c).

(** every other declaration of a regenerated file is still there: as a declaration somewhere, or as text in the
    warning block of that file *)
Definition still_declared (c : c19_case) (d : decl) : bool :=
  existsb (fun af => existsb (fun x => match d_kind d, d_kind x with
                                       | KMethod r n, KMethod r' n' => String.eqb r r' && String.eqb n n'
                                       | KType n, KType n' => String.eqb n n'
                                       | _, _ => false
                                       end || String.eqb (d_src d) (d_src x)) (f_decls af)) (c_after c).
Definition mon_nothing_lost (c : c19_case) : bool :=
  forallb (fun bf =>
             match find_file (c_after c) (f_name bf) with
             | None => false
             | Some af =>
                 forallb (fun d => is_import d || still_declared c d ||
                                   match f_remaining af with Some r => contains (d_src d) r | None => false end)
                         (f_decls bf)
             end) (c_before c).

(** user imports are kept: an import disappears only if nothing in the regenerated code refers to it any more *)
Fixpoint last_segment (acc s : string) {struct s} : string :=
  match s with
  | EmptyString => acc
  | String a r => if Ascii.eqb a "/"%char then last_segment "" r else last_segment (acc ++ String a "") r
  end.
Definition import_name (i : string * string) : string := if String.eqb (fst i) "" then last_segment "" (snd i) else fst i.
Definition import_eqb (a b : string * string) : bool := String.eqb (fst a) (fst b) && String.eqb (snd a) (snd b).
Definition mon_imports (c : c19_case) : bool :=
  forallb (fun bf =>
             match find_file (c_after c) (f_name bf) with
             | None => false
             | Some af =>
                 let refs := match find (fun p => String.eqb (fst p) (f_name bf)) (c_refs c) with Some p => snd p | None => [] end in
                 forallb (fun i => existsb (import_eqb i) (f_imports af) ||
                                   (negb (String.eqb (fst i) "_") && negb (String.eqb (fst i) ".") &&
                                    negb (existsb (String.eqb (import_name i)) refs)))
                         (f_imports bf)
             end) (c_before c).

(** the property; [c19_montol] is the same with doc comments compared as go/ast's CommentGroup.Text() gives them
    (directive-like lines are not part of that text) - the kept finding fails [c19_mon] and passes [c19_montol] *)
Definition c19_mon (c : c19_case) : bool := mon_bodies true c && mon_nothing_lost c && mon_imports c.
Definition c19_montol (c : c19_case) : bool := mon_bodies false c && mon_nothing_lost c && mon_imports c.

(** the model's own prediction satisfies the monitors: bodies and doc texts by construction *)
Definition c19_monmodel (c : c19_case) : bool :=
  forallb (fun l => forallb (fun m => match prev_decl (c_before c) (fst m) (snd m) with
                                      | Some p => copied (c_live c) p
                                      | None => true end) (l_methods l)) (c_live c).
