(** Correspondence and monitors for C20 (federation _entities). *)
From GV Require Import Base.Prelude Model.Entities.
Open Scope string_scope.
Open Scope list_scope.

Record c20_case := {
  c_ents : list entity;                       (* the entity table the probe was generated from *)
  c_reps : list (option string * rep);        (* the representations sent *)
  c_oracle : oracle;                          (* outcome of the user's resolvers, keyed by what they are called with *)
  c_list : list elem;                         (* observed: the _entities list *)
  c_errs : list ecls;                         (* observed: error classes (any order) *)
  c_calls : list string }.                    (* observed: resolver calls (any order) *)

Definition keyty_eqb (a b : keyty) : bool := match a, b with KId, KId | KString, KString => true | _, _ => false end.
Definition ecls_eqb (a b : ecls) : bool :=
  match a, b with
  | ENoTypename, ENoTypename | EUnknownType, EUnknownType | ENoResolver, ENoResolver | EKeyUnmarshal, EKeyUnmarshal
  | ENilDeref, ENilDeref | ETypeAssert, ETypeAssert | ERequires, ERequires => true
  | EResolver x, EResolver y | EPanic x, EPanic y => String.eqb x y
  | _, _ => false
  end.
Definition req_eqb (a b : string * option string) : bool :=
  String.eqb (fst a) (fst b) && option_eqb String.eqb (snd a) (snd b).
Definition elem_eqb (a b : elem) : bool :=
  match a, b with
  | ElNull, ElNull => true
  | ElEntity t e r, ElEntity t' e' r' => String.eqb t t' && String.eqb e e' && list_eqb req_eqb r r'
  | _, _ => false
  end.

(** multiset equality by removing one occurrence at a time *)
Fixpoint remove1 {A} (eqb : A -> A -> bool) (x : A) (l : list A) {struct l} : option (list A) :=
  match l with
  | [] => None
  | y :: r => if eqb x y then Some r else option_map (cons y) (remove1 eqb x r)
  end.
Fixpoint perm_eqb {A} (eqb : A -> A -> bool) (a b : list A) {struct a} : bool :=
  match a with
  | [] => match b with [] => true | _ => false end
  | x :: r => match remove1 eqb x b with Some b' => perm_eqb eqb r b' | None => false end
  end.

Definition c20_corr (c : c20_case) : bool :=
  let s := entities_seq (c_ents c) (c_oracle c) (c_reps c) in
  list_eqb elem_eqb (result_list (List.length (c_reps c)) s) (c_list c) &&
  perm_eqb ecls_eqb (st_errs s) (c_errs c) && perm_eqb String.eqb (st_calls s) (c_calls c).

(** ---- the property on an observed answer ---- *)
(** the representation that decides a batch group's resolver at the pinned commit: the first of its type *)
Fixpoint first_of_type (tn : string) (reps : list (option string * rep)) {struct reps} : option rep :=
  match reps with
  | [] => None
  | (Some t, r) :: rest => if String.eqb t tn then Some r else first_of_type tn rest
  | _ :: rest => first_of_type tn rest
  end.

(** element i against representation i.  [lenient]: accept, for batch types, the entity the group's resolver
    (chosen from the group's first representation) yields - the kept finding - instead of the one the
    representation's own keys denote. *)
Definition elem_ok (lenient : bool) (c : c20_case) (x : option string * rep) (obs : elem) : bool :=
  match fst x with
  | None => elem_eqb obs ElNull
  | Some tn =>
      match find_entity (c_ents c) tn with
      | None => elem_eqb obs ElNull
      | Some e =>
          if is_multi (c_ents c) tn then
            match obs with
            | ElNull => true      (* a batch fails or succeeds as a unit; a nil entity is a null element *)
            | ElEntity t echo reqs =>
                String.eqb t tn &&
                match requires_of (snd x) (en_requires e) with Some rq => list_eqb req_eqb reqs rq | None => false end &&
                (option_eqb String.eqb (own_echo e (snd x)) (Some echo) ||
                 (lenient &&
                  match first_of_type tn (c_reps c) with
                  | Some r0 => match resolver_for (en_resolvers e) r0 with
                               | Some rs => match keys_multi (snd x) (rs_keys rs) with
                                            | MKOk keys => String.eqb (echo_multi rs keys) echo
                                            | _ => false end
                               | None => false end
                  | None => false end))
            end
          else elem_eqb obs (spec_single (c_ents c) (c_oracle c) tn (snd x))
      end
  end.

Fixpoint all2 {A B} (f : A -> B -> bool) (a : list A) (b : list B) {struct a} : bool :=
  match a, b with
  | [], [] => true
  | x :: a', y :: b' => f x y && all2 f a' b'
  | _, _ => false
  end.

(** a null element is explained: the resolver said "no such entity" (nil, nil), or an error is reported *)
(** the call the kept finding makes for a representation of a batch type: the resolver its group's FIRST
    representation selects, with this representation's values for that resolver's keys *)
Definition group_echo (c : c20_case) (e : entity) (tn : string) (r : rep) : option string :=
  match first_of_type tn (c_reps c) with
  | Some r0 => match resolver_for (en_resolvers e) r0 with
               | Some rs => match keys_multi r (rs_keys rs) with
                            | MKOk keys => Some (echo_multi rs keys)
                            | _ => None end
               | None => None end
  | None => None end.

Definition null_explained (lenient : bool) (c : c20_case) (x : option string * rep) (obs : elem) : bool :=
  match obs with
  | ElEntity _ _ _ => true
  | ElNull =>
      match c_errs c with _ :: _ => true | [] =>
        match fst x with
        | Some tn => match find_entity (c_ents c) tn with
                     | Some e =>
                         match own_echo e (snd x) with
                         | Some echo => match plan_of (c_oracle c) echo with PNull => true | _ => false end
                         | None => false end
                         || (lenient && is_multi (c_ents c) tn &&
                             match group_echo c e tn (snd x) with
                             | Some echo => match plan_of (c_oracle c) echo with PNull => true | _ => false end
                             | None => false end)
                     | None => false end
        | None => false end
      end
  end.

Definition c20_mon_gen (lenient : bool) (c : c20_case) : bool :=
  all2 (elem_ok lenient c) (c_reps c) (c_list c) && all2 (null_explained lenient c) (c_reps c) (c_list c).
Definition c20_mon := c20_mon_gen false.
Definition c20_monmixed := c20_mon_gen true.

(** does the case have the input shape of the kept finding: a batch type whose representations do not all
    select the resolver their group's first representation selects *)
Definition mixed_keys_shape (c : c20_case) : bool :=
  existsb (fun x => match fst x with
                    | Some tn => is_multi (c_ents c) tn &&
                        match find_entity (c_ents c) tn, first_of_type tn (c_reps c) with
                        | Some e, Some r0 =>
                            negb (option_eqb String.eqb (option_map rs_name (resolver_for (en_resolvers e) (snd x)))
                                                        (option_map rs_name (resolver_for (en_resolvers e) r0)))
                        | _, _ => false end
                    | None => false end) (c_reps c).

(** machinery check: the monitors accept the model's own answer, unless the input has the finding's shape
    (there the faithful model reproduces the finding and only the lenient monitor accepts it) *)
Definition c20_monmodel (c : c20_case) : bool :=
  let s := entities_seq (c_ents c) (c_oracle c) (c_reps c) in
  let c' := {| c_ents := c_ents c; c_reps := c_reps c; c_oracle := c_oracle c;
               c_list := result_list (List.length (c_reps c)) s; c_errs := st_errs s; c_calls := st_calls s |} in
  c20_monmixed c' && (mixed_keys_shape c || c20_mon c').
