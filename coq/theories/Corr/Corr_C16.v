(** Correspondence and monitors for C16 (introspection). *)
From GV Require Import Base.Prelude Model.Introspect Model.IntroQuery.
Open Scope string_scope.
Open Scope list_scope.

Inductive c16_case :=
| CStd (s : sch) (obs : r_schema)
    (* the schema as gqlparser loaded it; what a client received for the full standard introspection query *)
| CShape (s : sch) (enabled : bool) (qname : string) (roots : list qsel) (data : jv) (errs : list string).
    (* an arbitrary query shape: collected root fields; observed data (user fields made opaque) and error keys *)

Definition sorted (l : list string) : list string := sort_by (fun x => x) l.

Definition c16_corr (c : c16_case) : bool :=
  match c with
  | CStd s obs => r_schema_eqb (introspect fixed s) obs
  | CShape s en qn roots data errs =>
      let r := exec_roots fixed en s qn roots in
      jv_eqb (rr_data r) data && strs_eqb (sorted (rr_errors r)) (sorted errs)
  end.

(** every named reference carries the kind of the type it names *)
Definition kind_of_name (r : r_schema) (n : string) : option kind :=
  option_map rt_kind (find (fun t => String.eqb (rt_name t) n) (rs_types r)).
Fixpoint ref_kinds_ok (r : r_schema) (t : tref) {struct t} : bool :=
  match t with
  | RNamed k n => match kind_of_name r n with Some k' => kind_eqb k k' | None => false end
  | RList e | RNonNull e => ref_kinds_ok r e
  | RDangling _ => false
  end.
Definition inval_kinds_ok (r : r_schema) (a : r_inval) : bool := ref_kinds_ok r (ri_type a).
Definition kinds_consistent (r : r_schema) : bool :=
  forallb (fun t =>
             forallb (fun f => ref_kinds_ok r (rf_type f) && forallb (inval_kinds_ok r) (rf_args f)) (rt_fields t) &&
             forallb (inval_kinds_ok r) (rt_inputs t) && forallb (ref_kinds_ok r) (rt_ifaces t) &&
             forallb (ref_kinds_ok r) (rt_possible t)) (rs_types r) &&
  forallb (fun d => forallb (inval_kinds_ok r) (rd_args d)) (rs_dirs r).

(** the possible types of an interface are exactly the object types that list it; those of a union are objects *)
Definition is_obj_ref (t : tref) : bool := match t with RNamed KObj _ => true | _ => false end.
Definition possible_consistent (r : r_schema) : bool :=
  forallb (fun t =>
             match rt_kind t with
             | KIface =>
                 strs_eqb (sorted (map ref_name (rt_possible t)))
                          (sorted (map rt_name (filter (fun u => kind_eqb (rt_kind u) KObj &&
                                                                   existsb (fun i => String.eqb (ref_name i) (rt_name t)) (rt_ifaces u))
                                                       (rs_types r))))
             | KUnion => forallb is_obj_ref (rt_possible t)
             | _ => nil_b (rt_possible t)
             end) (rs_types r).

(** The property on an observed description: the schema is rebuilt exactly; relations are consistent. *)
Definition c16_mon (c : c16_case) : bool :=
  match c with
  | CStd s obs => sch_eqb (rebuild obs) (normalise s) && negb (dangling_schema obs) && kinds_consistent obs &&
                  possible_consistent obs
  | CShape s en qn roots data errs =>
      (* enabled: the answer is the selection evaluated on the description of the schema (which mirrors the schema:
         C16_introspection_roundtrip), without errors; disabled: nothing is revealed *)
      if en then nil_b errs && jv_eqb data (rr_data (exec_roots fixed true s qn roots)) else monitor_disabled roots data errs
  end.

(** the monitors accept what the model itself answers (a check on the machinery, not on gqlgen) *)
Definition c16_monmodel (c : c16_case) : bool :=
  match c with
  | CStd s _ => wf_schema s && c16_mon (CStd s (introspect fixed s))
  | CShape s en qn roots _ _ =>
      let r := exec_roots fixed en s qn roots in c16_mon (CShape s en qn roots (rr_data r) (rr_errors r))
  end.
