(** Correspondence and monitors for the generated-executor properties (C01; reused by C04, C06, C13). *)
From GV Require Import Base.Prelude Model.Exec.
Open Scope string_scope.
Open Scope list_scope.

Definition pseg_eqb (a b : pseg) : bool :=
  match a, b with PKey x, PKey y => String.eqb x y | PIdx i, PIdx j => Nat.eqb i j | _, _ => false end.
Definition path_eqb : path -> path -> bool := list_eqb pseg_eqb.

Fixpoint assoc {A} (l : list (path * A)) (p : path) {struct l} : option A :=
  match l with [] => None | (q, a) :: r => if path_eqb p q then Some a else assoc r p end.

(** the oracle as the harness writes it: sparse tables with defaults *)
Record otables := {
  ot_fields : list (path * outcome_r);
  ot_elems : list (path * outcome_r);
  ot_lens : list (path * nat);
  ot_concretes : list (path * string);
  ot_guards : list (path * guard_r) }.
Definition mk_oracle (t : otables) : oracle :=
  {| o_field := fun p => match assoc (ot_fields t) p with Some o => o | None => RValue end;
     o_elem := fun p => match assoc (ot_elems t) p with Some o => o | None => RValue end;
     o_len := fun p => match assoc (ot_lens t) p with Some n => n | None => 2%nat end;
     o_concrete := fun p => assoc (ot_concretes t) p;
     o_guard := fun p => match assoc (ot_guards t) p with Some g => g | None => GNext end |}.

Fixpoint jt_eqb (a b : jt) {struct a} : bool :=
  match a, b with
  | TNull, TNull => true
  | TStr x, TStr y => String.eqb x y
  | TInt x, TInt y => Z.eqb x y
  | TBool x, TBool y => Bool.eqb x y
  | TArr la, TArr lb =>
      (fix go (la lb : list jt) {struct la} : bool :=
         match la, lb with [], [] => true | x :: ra, y :: rb => jt_eqb x y && go ra rb | _, _ => false end) la lb
  | TObj la, TObj lb =>
      (fix go (la lb : list (string * jt)) {struct la} : bool :=
         match la, lb with
         | [], [] => true
         | (k, x) :: ra, (k', y) :: rb => String.eqb k k' && jt_eqb x y && go ra rb
         | _, _ => false
         end) la lb
  | _, _ => false
  end.

Definition eclass_eqb (a b : eclass) : bool :=
  match a, b with
  | EResolver x, EResolver y | EPanic x, EPanic y | EDirective x, EDirective y => String.eqb x y
  | ENullNonNull, ENullNonNull => true
  | _, _ => false
  end.
Definition err_eqb (a b : err) : bool := path_eqb (fst a) (fst b) && eclass_eqb (snd a) (snd b).

(** multiset equality (errors and logs are compared up to order: sibling fields run concurrently) *)
Fixpoint remove1 {A} (eqb : A -> A -> bool) (x : A) (l : list A) {struct l} : option (list A) :=
  match l with
  | [] => None
  | y :: r => if eqb x y then Some r else option_map (cons y) (remove1 eqb x r)
  end.
Fixpoint perm_eqb {A} (eqb : A -> A -> bool) (a b : list A) {struct a} : bool :=
  match a with
  | [] => match b with [] => true | _ => false end
  | x :: r => match remove1 eqb x b with Some b' => perm_eqb eqb r b' | None => false end
  end.

Definition logent_eqb (a b : logent) : bool :=
  match a, b with
  | LResolver p, LResolver q | LGuard p, LGuard q => path_eqb p q
  | LDefer p l, LDefer q m => path_eqb p q && String.eqb l m
  | _, _ => false
  end.
Definition is_call (l : logent) : bool := match l with LDefer _ _ => false | _ => true end.

Record exec_case := {
  xc_schema : schema;
  xc_root : string;
  xc_sels : list sel;
  xc_oracle : otables;
  xc_data : jt;                 (* observed *)
  xc_errors : list err;
  xc_log : list logent;
  xc_recovers : nat;            (* RecoverFunc invocations during the operation *)
  xc_order : list (bool * path) }.   (* resolver start (true) / end (false) events in real-time order *)

Definition fuel_of (c : exec_case) : nat := 40%nat.

Definition root_of (c : exec_case) : tdef :=
  match find_type (xc_schema c) (xc_root c) with
  | Some t => t
  | None => {| t_name := ""; t_kind := KObject; t_fields := []; t_interfaces := []; t_implementors := []; t_possible := [] |}
  end.

Definition model_impl (c : exec_case) : response :=
  exec_impl (xc_schema c) true (mk_oracle (xc_oracle c)) (fuel_of c) (root_of c) (xc_sels c).
Definition model_spec (c : exec_case) : response :=
  exec_spec (xc_schema c) (mk_oracle (xc_oracle c)) (fuel_of c) (root_of c) (xc_sels c).

Definition resp_matches (r : response) (c : exec_case) (with_log : bool) : bool :=
  jt_eqb (r_data r) (xc_data c) && perm_eqb err_eqb (r_errors r) (xc_errors c)
  && (negb with_log || perm_eqb logent_eqb (filter is_call (r_log r)) (xc_log c)).

(** correspondence: the observed response and invocation log are what the model of gqlgen predicts *)
Definition exec_corr (c : exec_case) : bool := resp_matches (model_impl c) c true.
(** monitor (C01): the observed response is what the GraphQL execution algorithm prescribes *)
Definition exec_monitor (c : exec_case) : bool := resp_matches (model_spec c) c false.
(** the same, tolerating exactly the kept finding (silent typed nil): a case that fails [exec_monitor] but
    passes this one deviates from the specification in nothing else *)
Definition exec_monitor_tn (c : exec_case) : bool :=
  resp_matches (exec_spec_gen true (xc_schema c) (mk_oracle (xc_oracle c)) (fuel_of c) (root_of c) (xc_sels c)) c false.
(** does the model of gqlgen itself agree with the specification on this case? *)
Definition impl_is_spec (c : exec_case) : bool :=
  let a := model_impl c in let b := model_spec c in
  jt_eqb (r_data a) (r_data b) && perm_eqb err_eqb (r_errors a) (r_errors b).

(** symptom used to recognise the known finding: some object of the observed data has a duplicate key *)
Fixpoint has_dup_key (j : jt) {struct j} : bool :=
  match j with
  | TArr l => existsb has_dup_key l
  | TObj l =>
      (fix go (l : list (string * jt)) {struct l} : bool :=
         match l with
         | [] => false
         | (k, v) :: r => existsb (fun kv => String.eqb (fst kv) k) r || has_dup_key v || go r
         end) l
  | _ => false
  end.

(** C04 monitor: the specified response (or the kept typed-nil deviation), and the recover hook called
    exactly once per panic that execution reached (= the panic errors of the observed response). *)
Definition is_panic_err (e : err) : bool := match snd e with EPanic _ => true | _ => false end.
Definition c04_monitor (c : exec_case) : bool :=
  exec_monitor_tn c && Nat.eqb (xc_recovers c) (List.length (filter is_panic_err (xc_errors c))).

(** C06 monitor: the specified response whatever the schedule was, and for mutations the root fields run
    one after another in document order, each starting only after the previous one has completed
    including its sub-selection. *)
Definition first_key (p : path) : string := match p with PKey k :: _ => k | _ => "" end.
Fixpoint dedup_adjacent (l : list string) {struct l} : list string :=
  match l with
  | a :: ((b :: _) as r) => if String.eqb a b then dedup_adjacent r else a :: dedup_adjacent r
  | _ => l
  end.
Fixpoint subsequence (a b : list string) {struct b} : bool :=
  match a, b with
  | [], _ => true
  | _, [] => false
  | x :: ra, y :: rb => if String.eqb x y then subsequence ra rb else subsequence a rb
  end.
Definition root_keys (c : exec_case) : list string :=
  map c_alias (impl_collect (xc_schema c) true (root_of c) (xc_sels c)).
Definition serial_ok (c : exec_case) : bool :=
  subsequence (dedup_adjacent (map (fun e => first_key (snd e)) (xc_order c))) (root_keys c).
Definition c06_monitor (c : exec_case) : bool :=
  exec_monitor_tn c && (negb (String.eqb (xc_root c) "Mutation") || serial_ok c).
