(** Correspondence and monitor for lists whose element goroutines panic inside generated code (C04, C06):
    [ec_plan] says which elements panic, the rest is what the generated server answered - per element whether it is
    null and how many errors carry its path, and how often the recover hook ran. *)
From GV Require Import Base.Prelude Base.Threads Model.ElemPanic.
Open Scope nat_scope.
Open Scope list_scope.

Record elem_case := { ec_plan : list bool; ec_nulls : list bool; ec_errs : list nat; ec_recovers : nat }.

(** the model is run under one schedule - the element goroutines take turns, then the join (the theorem
    [C04_list_element_panics_contained] says the schedule does not matter) *)
Definition turns (n : nat) : list elabel := flat_map (fun _ : nat => map EL (seq 0 n)) [0; 1; 2] ++ [EJoin].
Definition elem_model (plan : list bool) : option (list (bool * nat) * nat) :=
  match erun as_written_elems (einit plan) (turns (List.length plan)) with
  | Some s =>
      match e_joined s with
      | Some (false, sl) => Some (combine (map (fun x => slot_eqb x Null) sl) (map el_errs (e_els s)), e_recovers s)
      | _ => None
      end
  | None => None
  end.

Definition obs_eqb (a b : bool * nat) : bool := Bool.eqb (fst a) (fst b) && Nat.eqb (snd a) (snd b).
Definition observed (c : elem_case) : list (bool * nat) := combine (ec_nulls c) (ec_errs c).
Definition well_shaped (c : elem_case) : bool :=
  Nat.eqb (List.length (ec_nulls c)) (List.length (ec_plan c)) && Nat.eqb (List.length (ec_errs c)) (List.length (ec_plan c)).

Definition elem_corr (c : elem_case) : bool :=
  well_shaped c &&
  match elem_model (ec_plan c) with
  | Some (o, r) => list_eqb obs_eqb o (observed c) && Nat.eqb r (ec_recovers c)
  | None => false
  end.

(** the property, said directly: exactly the panicking elements are null, each with one error at its path, nothing
    else has an error, and the recover hook ran once per panic *)
Definition elem_says (plan : list bool) (obs : list (bool * nat)) (recovers : nat) : bool :=
  Nat.eqb (List.length obs) (List.length plan) &&
  forallb (fun x => Bool.eqb (fst (snd x)) (fst x) && Nat.eqb (snd (snd x)) (if fst x then 1 else 0)) (combine plan obs) &&
  Nat.eqb recovers (count (fun p => p) plan).
Definition elem_mon (c : elem_case) : bool := well_shaped c && elem_says (ec_plan c) (observed c) (ec_recovers c).
Definition elem_monmodel (c : elem_case) : bool :=
  match elem_model (ec_plan c) with
  | Some (o, r) => elem_says (ec_plan c) o r
  | None => false
  end.
