(** Correspondence and monitors for C08 (serialisation) and the scalar part of C02. *)
From GV Require Import Base.Prelude Base.Utf8 Base.Json Model.Scalars.
Open Scope N_scope.

Definition bytes_eqb (a b : bytes) : bool := list_eqb N.eqb a b.

(** Executable recogniser used by the monitors: validity of UTF-8 by Go's own decoding rule. *)
Definition utf8_validb (bs : bytes) : bool := valid_utf8_input bs.

(** Executable JSON string-literal decoder (to code points; surrogate-pair escapes are combined). *)
Definition is_hi_sur (c : N) : bool := (0xD800 <=? c) && (c <=? 0xDBFF).
Definition is_lo_sur (c : N) : bool := (0xDC00 <=? c) && (c <=? 0xDFFF).

Fixpoint unquote_body (fuel : nat) (bs : bytes) {struct fuel} : option (list N) :=
  match fuel with
  | O => None
  | S f =>
      match bs with
      | [] => None
      | [34] => Some []
      | 34 :: _ => None
      | 92 :: 117 :: a :: b :: c :: d :: rest =>
          match hex4 a b c d with
          | None => None
          | Some cu =>
              if is_hi_sur cu then
                match rest with
                | 92 :: 117 :: a' :: b' :: c' :: d' :: rest' =>
                    match hex4 a' b' c' d' with
                    | Some lo => if is_lo_sur lo
                                 then option_map (cons (0x10000 + (cu - 0xD800) * 1024 + (lo - 0xDC00))) (unquote_body f rest')
                                 else option_map (cons cu) (unquote_body f rest)
                    | None => None
                    end
                | _ => option_map (cons cu) (unquote_body f rest)
                end
              else option_map (cons cu) (unquote_body f rest)
          end
      | 92 :: e :: rest =>
          match simple_escape e with
          | Some c => option_map (cons c) (unquote_body f rest)
          | None => None
          end
      | _ =>
          match decode1 bs with
          | Some (CAscii b, rest) => if b <? 0x20 then None else option_map (cons b) (unquote_body f rest)
          | Some (CMulti cp _, rest) => option_map (cons cp) (unquote_body f rest)
          | _ => None
          end
      end
  end.

Definition json_unquote (out : bytes) : option (list N) :=
  match out with
  | 34 :: body => unquote_body (S (List.length body)) body
  | _ => None
  end.

Definition runes_eqb (a b : list N) : bool := list_eqb N.eqb a b.

(** kind "str": MarshalString / MarshalID on a byte string. *)
Definition str_case := (bytes * bytes)%type.     (* input, observed output *)
Definition str_corr (c : str_case) : bool := bytes_eqb (write_quoted (fst c)) (snd c).
Definition str_monitor (c : str_case) : bool :=
  utf8_validb (snd c) &&
  match json_unquote (snd c) with
  | Some rs => runes_eqb rs (runes (fst c))
  | None => false
  end.
(** the same monitor on the model's own output (test that model and monitor agree) *)
Definition str_monitor_model (c : str_case) : bool := str_monitor (fst c, write_quoted (fst c)).
(** classification: does the case contain an offending byte? *)
Definition str_has_bad (c : str_case) : bool := negb (valid_utf8_input (fst c)).

(** kind "int": marshal of an integer of a given type. tag: 0 Int, 1 Int32, 2 Int64, 3 Uint, 4 Uint32,
    5 Uint64 (bare token); 6 IntID, 7 UintID (quoted).  Observed: bytes written, and the result of
    unmarshal(jsonDecode(bytes)) as the harness ran it. *)
Open Scope Z_scope.
Inductive oz := OOk (z : Z) | OErr.
Definition oz_eqb (a b : oz) : bool :=
  match a, b with OOk x, OOk y => x =? y | OErr, OErr => true | _, _ => false end.
Definition to_oz (o : outcome Z) : oz := match o with Ok z => OOk z | _ => OErr end.

Record int_case := { ic_tag : nat; ic_val : Z; ic_bytes : bytes; ic_back : oz }.
Definition int_model_bytes (c : int_case) : bytes :=
  match ic_tag c with
  | 6%nat | 7%nat => marshal_int_id (ic_val c)
  | _ => marshal_int (ic_val c)
  end.
Definition int_model_back (c : int_case) : oz :=
  to_oz (match ic_tag c with
         | 0%nat | 2%nat => unmarshal_int (GNumber (format_Z (ic_val c)))
         | 1%nat => unmarshal_int32 (GNumber (format_Z (ic_val c)))
         | 3%nat | 5%nat => unmarshal_uint64 (GNumber (format_Z (ic_val c)))
         | 4%nat => unmarshal_uint32 (GNumber (format_Z (ic_val c)))
         | 6%nat => unmarshal_int_id (GString (format_Z (ic_val c)))
         | _ => unmarshal_uint_id (GString (format_Z (ic_val c)))
         end).
Definition int_corr (c : int_case) : bool :=
  bytes_eqb (int_model_bytes c) (ic_bytes c) && oz_eqb (int_model_back c) (ic_back c).
Definition digits_of_token (bs : bytes) : option Z :=
  match parse_int (- (10 ^ 30)) (10 ^ 30) bs with Ok z => Some z | _ => None end.
Definition int_monitor (c : int_case) : bool :=
  oz_eqb (ic_back c) (OOk (ic_val c)) &&
  match ic_tag c with
  | 6%nat | 7%nat =>
      match json_unquote (ic_bytes c) with
      | Some rs => json_int_token rs && option_eqb Z.eqb (digits_of_token rs) (Some (ic_val c))
      | None => false
      end
  | _ => json_int_token (ic_bytes c) && option_eqb Z.eqb (digits_of_token (ic_bytes c)) (Some (ic_val c))
  end.

(** kind "unm": an unmarshaler applied to a dynamic value. fn: 0 Int,1 Int32,2 Int64,3 Uint,4 Uint32,
    5 Uint64, 6 IntID, 7 UintID. *)
Record unm_case := { uc_fn : nat; uc_in : goval; uc_obs : oz }.
Definition unm_model (c : unm_case) : oz :=
  to_oz (match uc_fn c with
         | 0%nat | 2%nat => unmarshal_int (uc_in c)
         | 1%nat => unmarshal_int32 (uc_in c)
         | 3%nat | 5%nat => unmarshal_uint64 (uc_in c)
         | 4%nat => unmarshal_uint32 (uc_in c)
         | 6%nat => unmarshal_int_id (uc_in c)
         | _ => unmarshal_uint_id (uc_in c)
         end).
Definition unm_corr (c : unm_case) : bool := oz_eqb (unm_model c) (uc_obs c).
Definition is_nil (v : goval) : bool := match v with GNil => true | _ => false end.
(** no numeric input is silently changed to a different number *)
Definition unm_monitor (c : unm_case) : bool :=
  match uc_obs c with
  | OErr => true
  | OOk n => is_nil (uc_in c) || option_eqb Z.eqb (num_of (uc_in c)) (Some n)
  end.

(** kind "tree": FieldSet / Array composition over rendered leaves. *)
Inductive wtree :=
| WLeaf (rendered : bytes)
| WArr (l : list wtree)
| WObj (l : list (bytes * wtree)).
Fixpoint render (t : wtree) {struct t} : bytes :=
  match t with
  | WLeaf b => b
  | WArr l => write_array (map render l)
  | WObj l => write_fieldset (map (fun kv => (fst kv, render (snd kv))) l)
  end.
Record tree_case := { tc_tree : wtree; tc_obs : bytes; tc_go_valid : bool }.
Definition tree_corr (c : tree_case) : bool := bytes_eqb (render (tc_tree c)) (tc_obs c).
(** strict validation and structural round trip are done by encoding/json in the harness *)
Definition tree_monitor (c : tree_case) : bool := tc_go_valid c && utf8_validb (tc_obs c).

(** kind "lib": library-formatted scalars (Float %g, Time, Duration, UUID, Map, Any): the harness
    validates the token strictly and round-trips it; MarshalFloatContext's decision is modelled. *)
Record lib_case := { lc_class : option fclass; lc_errored : bool; lc_valid_roundtrip : bool }.
Definition lib_corr (c : lib_case) : bool :=
  match lc_class c with
  | Some fc => Bool.eqb (lc_errored c) (negb (float_context_ok fc))
  | None => true
  end.
Definition lib_monitor (c : lib_case) : bool := lc_errored c || lc_valid_roundtrip c.
