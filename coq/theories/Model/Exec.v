(** Model of what a generated executor does with a validated operation: graphql.collectFields,
    object.gotpl / field.gotpl / type.gotpl completion with gqlgen's Null-marker and Invalids counting,
    next to the GraphQL specification's CollectFields / CompleteValue.  Definitions only. *)
From GV Require Import Base.Prelude.
Open Scope string_scope.
Open Scope list_scope.

(** * Documents *)
(** @skip/@include/@defer with their arguments already resolved through the variables (gqlparser's
    Value.Value, trusted). *)
Record dirs := { d_skip : option bool; d_include : option bool; d_defer : option (bool * string) }.
Definition no_dirs : dirs := {| d_skip := None; d_include := None; d_defer := None |}.

(** A validated document.  Spreads carry their (acyclic) fragment body. [parent] of a field is the name of
    its ObjectDefinition; [tc] is the type condition ("" for an inline fragment without one). *)
Inductive sel :=
| SField (alias nm parent : string) (d : dirs) (sels : list sel)
| SInline (tc : string) (d : dirs) (sels : list sel)
| SSpread (fname tc : string) (d : dirs) (body : list sel).

Record cfield := { c_alias : string; c_name : string; c_parent : string; c_sels : list sel; c_defer : option string }.

Definition should_include (d : dirs) : bool :=
  negb (match d_skip d with Some b => b | None => false end)
  && (match d_include d with Some b => b | None => true end).
Definition deferred (d : dirs) : option string :=
  match d_defer d with Some (true, l) => Some l | _ => None end.

Definition mem (x : string) (l : list string) : bool := existsb (String.eqb x) l.

(** * graphql.collectFields *)
Section Collect.
  (** Definition.Interfaces of an object or interface type *)
  Variable interfaces : string -> list string.
  (** Definition.IsAbstractType: interface or union *)
  Variable abstract : string -> bool.
  (** [fixed = false]: the pinned commit (a spread is marked visited BEFORE its @skip/@include are looked
      at; fields under two unrelated abstract parents are not merged); [fixed = true]: the repaired code. *)
  Variable fixed : bool.
  Variable satisfies : list string.

  (** getOrCreateAndAppendField's test: may a field with this name/alias/parent merge into [cf]? *)
  Definition can_merge (cf : cfield) (nm alias parent : string) : bool :=
    String.eqb (c_name cf) nm && String.eqb (c_alias cf) alias &&
    (String.eqb (c_parent cf) parent || mem (c_parent cf) (interfaces parent) || mem parent (interfaces (c_parent cf))
     || (fixed && negb (match satisfies with [] => true | _ => false end) && (abstract (c_parent cf) || abstract parent))).

  (** merge [sels]/[df] into the first mergeable entry, or append a new entry built by [fresh] *)
  Fixpoint merge_into (acc : list cfield) (nm alias parent : string) (sels : list sel) (df : option string)
           (fresh : cfield) {struct acc} : list cfield :=
    match acc with
    | [] => [fresh]
    | cf :: r =>
        if can_merge cf nm alias parent
        then {| c_alias := c_alias cf; c_name := c_name cf; c_parent := c_parent cf;
                c_sels := c_sels cf ++ sels;
                c_defer := match df with Some l => Some l | None => c_defer cf end |} :: r
        else cf :: merge_into r nm alias parent sels df fresh
    end.

  (** a child collected inside a fragment is merged into the enclosing list: created WITH its selections
      and then has the same selections appended again (as the Go code does) *)
  Definition merge_child (df : option string) (acc : list cfield) (ch : cfield) : list cfield :=
    merge_into acc (c_name ch) (c_alias ch) (c_parent ch) (c_sels ch) df
      {| c_alias := c_alias ch; c_name := c_name ch; c_parent := c_parent ch;
         c_sels := c_sels ch ++ c_sels ch;
         c_defer := match df with Some l => Some l | None => c_defer ch end |}.

  Definition type_applies (tc : string) : bool :=
    match satisfies with [] => true | _ => mem tc satisfies end.

  Fixpoint collect1 (s : sel) (st : list string * list cfield) {struct s} : list string * list cfield :=
    let '(visited, acc) := st in
    match s with
    | SField alias nm parent d sels =>
        if negb (should_include d) then st
        else (visited, merge_into acc nm alias parent sels None
                         {| c_alias := alias; c_name := nm; c_parent := parent; c_sels := sels; c_defer := None |})
    | SInline tc d sels =>
        if negb (String.eqb tc "" || type_applies tc) then st
        else if negb (should_include d) then st
        else
          let '(visited', sub) := fold_left (fun a x => collect1 x a) sels (visited, []) in
          (visited', fold_left (merge_child (deferred d)) sub acc)
    | SSpread fname tc d body =>
        if fixed && negb (should_include d) then st
        else if mem fname visited then st
        else
          let visited1 := fname :: visited in
          if negb (type_applies tc) then (visited1, acc)
          else if negb (should_include d) then (visited1, acc)
          else
            let '(visited', sub) := fold_left (fun a x => collect1 x a) body (visited1, []) in
            (visited', fold_left (merge_child (deferred d)) sub acc)
    end.

  Definition collect (sels : list sel) : list cfield :=
    snd (fold_left (fun a x => collect1 x a) sels ([], [])).
End Collect.

(** * The specification's CollectFields (GraphQL 2021, 6.3.2): grouping by response key alone. *)
Section CollectSpec.
  Variable applies : string -> bool.     (* DoesFragmentTypeApply(objectType, tc) *)

  Fixpoint group_add (acc : list cfield) (f : cfield) {struct acc} : list cfield :=
    match acc with
    | [] => [f]
    | g :: r => if String.eqb (c_alias g) (c_alias f)
                then {| c_alias := c_alias g; c_name := c_name g; c_parent := c_parent g;
                        c_sels := c_sels g ++ c_sels f; c_defer := c_defer g |} :: r
                else g :: group_add r f
    end.

  Fixpoint collect_spec1 (s : sel) (st : list string * list cfield) {struct s} : list string * list cfield :=
    let '(visited, acc) := st in
    match s with
    | SField alias nm parent d sels =>
        if negb (should_include d) then st
        else (visited, group_add acc {| c_alias := alias; c_name := nm; c_parent := parent; c_sels := sels; c_defer := None |})
    | SInline tc d sels =>
        if negb (should_include d) then st
        else if negb (String.eqb tc "" || applies tc) then st
        else
          let '(visited', sub) := fold_left (fun a x => collect_spec1 x a) sels (visited, []) in
          (visited', fold_left group_add sub acc)
    | SSpread fname tc d body =>
        if negb (should_include d) then st
        else if mem fname visited then st
        else
          let visited1 := fname :: visited in
          if negb (applies tc) then (visited1, acc)
          else
            let '(visited', sub) := fold_left (fun a x => collect_spec1 x a) body (visited1, []) in
            (visited', fold_left group_add sub acc)
    end.

  Definition collect_spec (sels : list sel) : list cfield :=
    snd (fold_left (fun a x => collect_spec1 x a) sels ([], [])).
End CollectSpec.

(** * Schemas, oracles, results *)
Inductive gtype := TNamed (n : string) (nonnull : bool) | TList (elem : gtype) (nonnull : bool).
Definition nonnull_of (t : gtype) : bool := match t with TNamed _ b | TList _ b => b end.

Inductive tkind := KObject | KInterface | KUnion | KLeafString | KLeafInt | KLeafID | KLeafBool.

Record fdef := { f_name : string; f_type : gtype; f_guard : bool (* has the @guard schema directive *);
                 f_resolver : bool (* resolved by a resolver call (else read from the parent struct) *) }.
Record tdef := { t_name : string; t_kind : tkind; t_fields : list fdef;
                 t_interfaces : list string;      (* Definition.Interfaces *)
                 t_implementors : list string;    (* the generated <type>Implementors: itself, its interfaces, unions containing it *)
                 t_possible : list string }.      (* abstract types: the object types that can stand here, in schema order *)
Definition schema := list tdef.

Fixpoint find_type (s : schema) (n : string) {struct s} : option tdef :=
  match s with [] => None | t :: r => if String.eqb (t_name t) n then Some t else find_type r n end.
Fixpoint find_field (fs : list fdef) (n : string) {struct fs} : option fdef :=
  match fs with [] => None | f :: r => if String.eqb (f_name f) n then Some f else find_field r n end.

(** Response paths: keys and list indices. *)
Inductive pseg := PKey (k : string) | PIdx (i : nat).
Definition path := list pseg.       (* root first *)

(** What user code does at one position (driven by the harness's oracle on the implementation side). *)
Inductive outcome_r :=
| RValue                     (* a value of the field's Go type *)
| RNull                      (* nil (for a list type: the nil slice) *)
| RTypedNil                  (* abstract positions: a typed nil pointer inside the interface value *)
| RError (tag : string)      (* (nil, err) *)
| RPanic (tag : string).
Inductive guard_r := GNext | GBlock | GError (tag : string) | GPanic (tag : string).

Record oracle := {
  o_field : path -> outcome_r;          (* resolver (or inline field) outcome at a response path *)
  o_elem : path -> outcome_r;           (* element of a list, path ends in the index *)
  o_len : path -> nat;                  (* length of the list produced at this path *)
  o_concrete : path -> option string;   (* concrete object type at an abstract position (None: the first possible type) *)
  o_guard : path -> guard_r }.          (* what the @guard directive does at this path *)

(** The tree of outcomes execution reaches: the input of value completion. *)
Inductive eclass := EResolver (tag : string) | EPanic (tag : string) | EDirective (tag : string)
                  | ENullNonNull.      (* "must not be null" / "the requested element is null ..." *)
Inductive rnode :=
| NLeaf (tk : tkind) (fname : string)     (* a scalar value, determined by the field it came from *)
| NNil (silent : bool)                    (* nil without an error; [silent]: a typed nil pointer inside an
                                             interface value, which the generated type switch turns into
                                             graphql.Null without looking at nullability *)
| NFail (e : eclass)                      (* an originating failure at this position *)
| NList (elem_nonnull : bool) (elems : list rnode)
| NObj (tname : string) (fields : list (string * bool * rnode)).   (* key, field type non-null?, child *)

(** JSON trees for the response data. *)
Inductive jt := TNull | TStr (s : string) | TInt (z : Z) | TBool (b : bool) | TArr (l : list jt) | TObj (l : list (string * jt)).

Definition leaf_value (tk : tkind) (fname : string) : jt :=
  match tk with
  | KLeafInt => TInt (Z.of_nat (String.length fname))
  | KLeafBool => TBool true
  | _ => TStr fname
  end.

Definition elem_nonnull_of (t : gtype) : bool := match t with TList e _ => nonnull_of e | _ => false end.

(** one log entry per user-code invocation *)
Inductive logent := LResolver (p : path) | LGuard (p : path)
                 | LDefer (p : path) (label : string).   (* this field of a non-root object is delivered in the deferred group [label] *)

(** * Building the outcome tree (collection + resolver calls), with fuel for selection depth. *)
Section Build.
  Variable sch : schema.
  Variable orc : oracle.
  (** which collect algorithm: the implementation's or the specification's *)
  Variable col : tdef -> list sel -> list cfield.

  Definition is_leaf (k : tkind) : bool :=
    match k with KObject | KInterface | KUnion => false | _ => true end.

  Definition nil_of (ty : gtype) : rnode :=
    match ty with
    | TList e true => NList (nonnull_of e) []   (* the nil slice of a non-null list is the empty list *)
    | _ => NNil false
    end.

  Fixpoint build_obj (fuel : nat) (t : tdef) (p : path) (sels : list sel) {struct fuel} : rnode * list logent :=
    match fuel with
    | O => (NFail (EPanic "out of fuel"), [])
    | S fuel' =>
        let step := fun (acc : list (string * bool * rnode) * list logent) (cf : cfield) =>
          let '(out, lg) := acc in
          let key := c_alias cf in
          let fp := p ++ [PKey key] in
          if String.eqb (c_name cf) "__typename"
          then (out ++ [(key, true, NLeaf KLeafString (t_name t))], lg)
          else match find_field (t_fields t) (c_name cf) with
               | None => (out ++ [(key, false, NFail (EPanic "unknown field"))], lg)
               | Some fd =>
                   let nn := nonnull_of (f_type fd) in
                   (* the oracle addresses resolver calls by response key, struct fields by field name *)
                   let op := if f_resolver fd then fp else p ++ [PKey (c_name cf)] in
                   let '(blocked, lg1) :=
                     if f_guard fd then
                       match o_guard orc fp with
                       | GNext => (None, [LGuard fp])
                       | GBlock => (Some (NNil false), [LGuard fp])
                       | GError tag => (Some (NFail (EDirective tag)), [LGuard fp])
                       | GPanic tag => (Some (NFail (EPanic tag)), [LGuard fp])
                       end
                     else (None, []) in
                   (* object.gotpl: a concurrently resolved field of a non-root object that was collected
                      from a fragment with @defer goes to that label's deferred group *)
                   let lgd := match p, c_defer cf with
                              | _ :: _, Some l => if f_resolver fd then [LDefer fp l] else []
                              | _, _ => []
                              end in
                   match blocked with
                   | Some n => (out ++ [(key, nn, n)], lg ++ lgd ++ lg1)
                   | None =>
                       let lg2 := if f_resolver fd then [LResolver fp] else [] in
                       let '(n, lg3) :=
                         match o_field orc op with
                         | RError tag => (NFail (EResolver tag), [])
                         | RPanic tag => (NFail (EPanic tag), [])
                         | RNull => (nil_of (f_type fd), [])
                         | RTypedNil => (NNil true, [])
                         | RValue => build_val fuel' (f_type fd) (c_name cf) fp op (c_sels cf)
                         end in
                       (out ++ [(key, nn, n)], lg ++ lgd ++ lg1 ++ lg2 ++ lg3)
                   end
               end in
        let '(out, lg) := fold_left step (col t sels) ([], []) in
        (NObj (t_name t) out, lg)
    end
  (** [p]: response path (for errors and nested resolver calls); [op]: the path the oracle knows this value by *)
  with build_val (fuel : nat) (ty : gtype) (fname : string) (p op : path) (sels : list sel) {struct fuel} : rnode * list logent :=
    match fuel with
    | O => (NFail (EPanic "out of fuel"), [])
    | S fuel' =>
        match ty with
        | TList elem _ =>
            let step := fun (acc : list rnode * list logent) (i : nat) =>
              let '(out, lg) := acc in
              let '(x, lg1) :=
                match o_elem orc (op ++ [PIdx i]) with
                | RValue => build_val fuel' elem fname (p ++ [PIdx i]) (op ++ [PIdx i]) sels
                | RTypedNil => (NNil true, [])
                | _ => (nil_of elem, [])
                end in
              (out ++ [x], lg ++ lg1) in
            let '(out, lg) := fold_left step (seq 0 (o_len orc op)) ([], []) in
            (NList (nonnull_of elem) out, lg)
        | TNamed tn _ =>
            match find_type sch tn with
            | None => (NFail (EPanic "unknown type"), [])
            | Some td =>
                if is_leaf (t_kind td) then (NLeaf (t_kind td) fname, [])
                else
                  match t_kind td with
                  | KObject => build_obj fuel' td p sels
                  | _ =>
                      (* abstract position: the concrete type comes from the value *)
                      match find_type sch (match o_concrete orc op with
                                           | Some c => c
                                           | None => match t_possible td with c :: _ => c | [] => "" end
                                           end) with
                      | Some ct => if mem tn (t_implementors ct) then build_obj fuel' ct p sels
                                   else (NFail (EPanic "unexpected type"), [])
                      | None => (NFail (EPanic "unexpected type"), [])
                      end
                  end
            end
        end
    end.
End Build.

(** * Value completion *)
(** gqlgen: a marshaler tree in which [MNullMark] is the identity-compared graphql.Null. *)
Inductive mval := MNullMark | MLeaf (j : jt) | MArr (l : list mval) | MObj (l : list (string * mval)).

Definition is_null_mark (m : mval) : bool := match m with MNullMark => true | _ => false end.

Fixpoint mval_json (m : mval) {struct m} : jt :=
  match m with
  | MNullMark => TNull
  | MLeaf j => j
  | MArr l => TArr (map mval_json l)
  | MObj l => TObj (map (fun kv => (fst kv, mval_json (snd kv))) l)
  end.

Definition err := (path * eclass)%type.

(** gqlgen's completion. [nn]: the position's type is non-null.  Returns the marshaler and the errors
    appended to the response's error list (sequential order). *)
Fixpoint complete_impl (nn : bool) (p : path) (n : rnode) {struct n} : mval * list err :=
  match n with
  | NLeaf tk f => (MLeaf (leaf_value tk f), [])
  | NNil silent => (MNullMark, if nn && negb silent then [(p, ENullNonNull)] else [])
  | NFail e => (MNullMark, [(p, e)])
  | NList enn elems =>
      let go := fix go (i : nat) (l : list rnode) {struct l} : list mval * list err :=
        match l with
        | [] => ([], [])
        | x :: r => let '(m, es) := complete_impl enn (p ++ [PIdx i]) x in
                    let '(ms, es') := go (S i) r in (m :: ms, es ++ es')
        end in
      let '(ms, es) := go O elems in
      (if enn && existsb is_null_mark ms then MNullMark else MArr ms, es)
  | NObj _ fields =>
      let go := fix go (l : list (string * bool * rnode)) {struct l} : list (string * mval) * nat * list err :=
        match l with
        | [] => ([], O, [])
        | (k, fnn, child) :: r =>
            let '(m, es) := complete_impl fnn (p ++ [PKey k]) child in
            let '(out, invalids, es') := go r in
            ((k, m) :: out, (if fnn && is_null_mark m then S invalids else invalids), es ++ es')
        end in
      let '(out, invalids, es) := go fields in
      (if Nat.ltb 0 invalids then MNullMark else MObj out, es)
  end.

(** The specification's CompleteValue: [None] = a field error propagates to the parent.
    [tolerate_silent = true] is the specification EXCEPT that a typed nil pointer inside an interface value
    at a non-null position propagates without raising its own error (the kept finding of C01). *)
Fixpoint complete_spec_gen (tolerate_silent : bool) (nn : bool) (p : path) (n : rnode) {struct n} : option jt * list err :=
  match n with
  | NLeaf tk f => (Some (leaf_value tk f), [])
  | NNil silent => if nn then (None, if tolerate_silent && silent then [] else [(p, ENullNonNull)]) else (Some TNull, [])
  | NFail e => (if nn then None else Some TNull, [(p, e)])
  | NList enn elems =>
      let go := fix go (i : nat) (l : list rnode) {struct l} : option (list jt) * list err :=
        match l with
        | [] => (Some [], [])
        | x :: r => let '(v, es) := complete_spec_gen tolerate_silent enn (p ++ [PIdx i]) x in
                    let '(vs, es') := go (S i) r in
                    (match v, vs with Some a, Some b => Some (a :: b) | _, _ => None end, es ++ es')
        end in
      let '(vs, es) := go O elems in
      (match vs with Some l => Some (TArr l) | None => if nn then None else Some TNull end, es)
  | NObj _ fields =>
      let go := fix go (l : list (string * bool * rnode)) {struct l} : option (list (string * jt)) * list err :=
        match l with
        | [] => (Some [], [])
        | (k, fnn, child) :: r =>
            let '(v, es) := complete_spec_gen tolerate_silent fnn (p ++ [PKey k]) child in
            let '(vs, es') := go r in
            (match v, vs with Some a, Some b => Some ((k, a) :: b) | _, _ => None end, es ++ es')
        end in
      let '(vs, es) := go fields in
      (match vs with Some l => Some (TObj l) | None => if nn then None else Some TNull end, es)
  end.

Definition complete_spec := complete_spec_gen false.

(** * Whole operations *)
Definition impl_collect (sch : schema) (fixed : bool) (t : tdef) (sels : list sel) : list cfield :=
  collect (fun n => match find_type sch n with Some td => t_interfaces td | None => [] end)
          (fun n => match find_type sch n with
                    | Some td => match t_kind td with KInterface | KUnion => true | _ => false end
                    | None => false end)
          fixed (t_implementors t) sels.

Definition applies_to (t : tdef) (tc : string) : bool := mem tc (t_implementors t).
Definition spec_collect (t : tdef) (sels : list sel) : list cfield := collect_spec (applies_to t) sels.

Record response := { r_data : jt; r_errors : list err; r_log : list logent }.

(** the executor generated by gqlgen *)
Definition exec_impl (sch : schema) (fixed : bool) (orc : oracle) (fuel : nat) (root : tdef) (sels : list sel) : response :=
  let '(tree, lg) := build_obj sch orc (impl_collect sch fixed) fuel root [] sels in
  let '(m, es) := complete_impl false [] tree in
  {| r_data := mval_json m; r_errors := es; r_log := lg |}.

(** the GraphQL execution algorithm *)
Definition exec_spec_gen (tol : bool) (sch : schema) (orc : oracle) (fuel : nat) (root : tdef) (sels : list sel) : response :=
  let '(tree, lg) := build_obj sch orc spec_collect fuel root [] sels in
  let '(v, es) := complete_spec_gen tol false [] tree in
  {| r_data := match v with Some j => j | None => TNull end; r_errors := es; r_log := lg |}.
Definition exec_spec := exec_spec_gen false.
