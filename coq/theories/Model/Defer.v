(** Model of @defer in a generated executor (object.gotpl's deferred field sets, root_.gotpl's
    processDeferredGroup and response function) on top of the outcome trees of Model/Exec.v.
    Definitions only. *)
From GV Require Import Base.Prelude Model.Exec.
Open Scope string_scope.
Open Scope list_scope.

Definition pseg_eqb (a b : pseg) : bool :=
  match a, b with PKey x, PKey y => String.eqb x y | PIdx i, PIdx j => Nat.eqb i j | _, _ => false end.
Definition path_eqb : path -> path -> bool := list_eqb pseg_eqb.

(** which response positions are delivered in a deferred group, and under which label *)
Definition marks := list (path * string).
Definition dmarks (lg : list logent) : marks :=
  flat_map (fun l => match l with LDefer p lab => [(p, lab)] | _ => [] end) lg.
Fixpoint mark_of (m : marks) (p : path) {struct m} : option string :=
  match m with [] => None | (q, l) :: r => if path_eqb p q then Some l else mark_of r p end.

Record payload := { pl_path : path; pl_label : string; pl_data : jt; pl_errors : list err;
                    pl_initial : bool }.

(** A deferred group found while executing an object: the object's path, the label and the group's
    fields (key, non-null?, outcome subtree) in collection order. *)
Record group := { g_path : path; g_label : string; g_tname : string; g_fields : list (string * bool * rnode) }.

Fixpoint add_to_group (gs : list group) (p : path) (tn l : string) (f : string * bool * rnode) {struct gs} : list group :=
  match gs with
  | [] => [{| g_path := p; g_label := l; g_tname := tn; g_fields := [f] |}]
  | g :: r => if path_eqb (g_path g) p && String.eqb (g_label g) l
              then {| g_path := g_path g; g_label := g_label g; g_tname := g_tname g; g_fields := g_fields g ++ [f] |} :: r
              else g :: add_to_group r p tn l f
  end.

(** What is executed now: the tree with every deferred field replaced by the placeholder object.gotpl
    writes (graphql.Null, NOT counted as invalid), and the groups started by it (not those nested inside
    deferred fields: they start when their group runs). *)
Fixpoint split (m : marks) (p : path) (n : rnode) {struct n} : rnode * list group :=
  match n with
  | NList enn elems =>
      let go := fix go (i : nat) (l : list rnode) {struct l} : list rnode * list group :=
        match l with
        | [] => ([], [])
        | x :: r => let '(x', g1) := split m (p ++ [PIdx i]) x in
                    let '(r', g2) := go (S i) r in (x' :: r', g1 ++ g2)
        end in
      let '(elems', gs) := go O elems in (NList enn elems', gs)
  | NObj tn fields =>
      let go := fix go (l : list (string * bool * rnode)) (own : list group) {struct l}
                  : list (string * bool * rnode) * list group * list group :=
        match l with
        | [] => ([], own, [])
        | (k, fnn, c) :: r =>
            match mark_of m (p ++ [PKey k]) with
            | Some lab =>
                let '(r', own', below) := go r (add_to_group own p tn lab (k, fnn, c)) in
                ((k, false, NNil true) :: r', own', below)
            | None =>
                let '(c', g1) := split m (p ++ [PKey k]) c in
                let '(r', own', below) := go r own in
                ((k, fnn, c') :: r', own', g1 ++ below)
            end
        end in
      let '(fields', own, below) := go fields [] in
      (* object.gotpl returns graphql.Null when Invalids > 0 BEFORE it starts the object's groups *)
      let own' := if is_null_mark (fst (complete_impl false p (NObj tn fields'))) then [] else own in
      (NObj tn fields', own' ++ below)
  | _ => (n, [])
  end.

(** All payloads, parents before children (one admissible delivery order). *)
(** executing a group's field set: its fields are run even though they are marked *)
Definition unmark_group (m : marks) (g : group) : marks :=
  filter (fun ml => negb (existsb (fun kf => path_eqb (fst ml) (g_path g ++ [PKey (fst (fst kf))])) (g_fields g))) m.

Fixpoint group_payloads (fuel : nat) (m : marks) (gs : list group) {struct fuel} : list payload :=
  match fuel with
  | O => []
  | S f =>
      flat_map (fun g =>
        let m' := unmark_group m g in
        let '(t, nested) := split m' (g_path g) (NObj (g_tname g) (g_fields g)) in
        let '(mv, es) := complete_impl false (g_path g) t in
        {| pl_path := g_path g; pl_label := g_label g; pl_data := mval_json mv; pl_errors := es; pl_initial := false |}
        :: group_payloads f m' nested) gs
  end.

Definition all_payloads (m : marks) (tree : rnode) : list payload :=
  let '(t, gs) := split m [] tree in
  let '(mv, es) := complete_impl false [] t in
  {| pl_path := []; pl_label := ""; pl_data := mval_json mv; pl_errors := es; pl_initial := true |}
  :: group_payloads 30 m gs.

(** * What a client does with the payloads: in arrival order, each payload's object is merged
    key by key into the object found at its path. *)
Fixpoint set_key (l : list (string * jt)) (k : string) (v : jt) {struct l} : list (string * jt) :=
  match l with
  | [] => [(k, v)]
  | (k', v') :: r => if String.eqb k k' then (k, v) :: r else (k', v') :: set_key r k v
  end.
Definition obj_merge (target patch : jt) : jt :=
  match target, patch with
  | TObj t, TObj q => TObj (fold_left (fun acc kv => set_key acc (fst kv) (snd kv)) q t)
  | _, _ => target        (* a nulled group delivers no keys; a missing target cannot be patched *)
  end.
Fixpoint update_at (d : jt) (p : path) (f : jt -> jt) {struct p} : jt :=
  match p with
  | [] => f d
  | PKey k :: r =>
      match d with
      | TObj l => TObj (map (fun kv => if String.eqb (fst kv) k then (fst kv, update_at (snd kv) r f) else kv) l)
      | _ => d
      end
  | PIdx i :: r =>
      match d with
      | TArr l => TArr ((fix go (j : nat) (l : list jt) {struct l} : list jt :=
                           match l with [] => [] | x :: t => (if Nat.eqb j i then update_at x r f else x) :: go (S j) t end) O l)
      | _ => d
      end
  end.
Definition apply_payload (d : jt) (pl : payload) : jt := update_at d (pl_path pl) (fun t => obj_merge t (pl_data pl)).
Definition merge_payloads (pls : list payload) : jt :=
  match pls with
  | [] => TNull
  | first :: rest => fold_left apply_payload rest (pl_data first)
  end.

(** * The content the deferral must not change: the plain result, except that a failure inside a group
    nulls that group's keys only (propagation stops at the object the group belongs to). *)
Fixpoint assemble (m : marks) (p : path) (nn : bool) (n : rnode) {struct n} : option jt :=
  match n with
  | NLeaf tk f => Some (leaf_value tk f)
  | NNil _ => if nn then None else Some TNull
  | NFail _ => if nn then None else Some TNull
  | NList enn elems =>
      let go := fix go (i : nat) (l : list rnode) {struct l} : option (list jt) :=
        match l with
        | [] => Some []
        | x :: r => match assemble m (p ++ [PIdx i]) enn x, go (S i) r with
                    | Some a, Some b => Some (a :: b) | _, _ => None end
        end in
      match go O elems with Some l => Some (TArr l) | None => if nn then None else Some TNull end
  | NObj _ fields =>
      (* a group is null as a whole when one of its non-null fields is null *)
      let group_dead := fun lab =>
        existsb (fun kf => let '(k, fnn, c) := kf in
                           match mark_of m (p ++ [PKey k]) with
                           | Some l => String.eqb l lab && fnn &&
                                       match assemble m (p ++ [PKey k]) fnn c with None => true | Some _ => false end
                           | None => false
                           end) fields in
      let go := fix go (l : list (string * bool * rnode)) {struct l} : option (list (string * jt)) :=
        match l with
        | [] => Some []
        | (k, fnn, c) :: r =>
            match mark_of m (p ++ [PKey k]) with
            | Some lab =>
                let v := if group_dead lab then TNull
                         else match assemble m (p ++ [PKey k]) fnn c with Some j => j | None => TNull end in
                match go r with Some b => Some ((k, v) :: b) | None => None end
            | None =>
                match assemble m (p ++ [PKey k]) fnn c, go r with
                | Some a, Some b => Some ((k, a) :: b) | _, _ => None end
            end
        end in
      match go fields with Some l => Some (TObj l) | None => if nn then None else Some TNull end
  end.
