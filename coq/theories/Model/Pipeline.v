(** Model of graphql/executor (CreateOperationContext, parseQuery, DispatchOperation, DispatchError,
    processExtensions) and of the single-response HTTP transports (GET, POST, GRAPHQL, UrlEncodedForm,
    MultipartForm) with Server.getTransport.  Definitions only. *)
From GV Require Import Base.Prelude.
Open Scope string_scope.
Open Scope list_scope.

Inductive opkind := KQuery | KMutation | KSubscription.
Definition opkind_eqb (a b : opkind) : bool :=
  match a, b with KQuery, KQuery | KMutation, KMutation | KSubscription, KSubscription => true | _, _ => false end.

(** What parser.ParseQuery and validator.Validate say about a query text (gqlparser: trusted, an oracle
    that is a function of the text), and the operations the document defines with their root fields. *)
Record operation := { o_name : string; o_kind : opkind; o_fields : list string }.
Record doc := { d_parses : bool; d_valid : bool; d_ops : list operation }.

(** A request as the executor sees it. [r_q] identifies the query text. *)
Record request := {
  r_q : nat;
  r_opname : string;
  r_vars_ok : bool;                (* validator.VariableValues succeeds *)
  r_reject_param : option nat;     (* index of the extension whose parameter mutator rejects, if any *)
  r_reject_ctx : option nat }.     (* index of the extension whose context mutator rejects, if any *)

(** Which hooks an extension implements. *)
Record ext := { e_param : bool; e_ctx : bool; e_op : bool; e_resp : bool; e_root : bool; e_field : bool }.

Inductive event :=
| EvParam (i : nat) | EvCtx (i : nat)
| EvOpEnter (i : nat) | EvOpExit (i : nat)
| EvExec                                   (* ExecutableSchema.Exec called *)
| EvRespEnter (i : nat) | EvRespExit (i : nat)
| EvRootEnter (i : nat) (f : string) | EvRootExit (i : nat) (f : string)
| EvFieldEnter (i : nat) (f : string) | EvFieldExit (i : nat) (f : string)
| EvResolver (f : string).

(** Events that mean "something executed" in the sense of the property. *)
Definition executes (e : event) : bool :=
  match e with
  | EvOpEnter _ | EvOpExit _ | EvExec | EvRootEnter _ _ | EvRootExit _ _
  | EvFieldEnter _ _ | EvFieldExit _ _ | EvResolver _ => true
  | _ => false
  end.

(** Indices of the extensions implementing a hook, in registration order. *)
Fixpoint with_hook (h : ext -> bool) (i : nat) (es : list ext) {struct es} : list nat :=
  match es with
  | [] => []
  | e :: r => if h e then i :: with_hook h (S i) r else with_hook h (S i) r
  end.

(** processExtensions: the first registered extension is outermost. [wrap enter exit idxs core]. *)
Definition wrap (enter exit : nat -> event) (idxs : list nat) (core : list event) : list event :=
  map enter idxs ++ core ++ map exit (rev idxs).

(** Operation lookup: OperationList.ForName. *)
Fixpoint find_op (ops : list operation) (name : string) {struct ops} : option operation :=
  match ops with
  | [] => None
  | o :: r => if String.eqb (o_name o) name then Some o else find_op r name
  end.
Definition for_name (ops : list operation) (name : string) : option operation :=
  match ops, name with
  | [o], EmptyString => Some o
  | _, _ => find_op ops name
  end.

(** Query cache: keys most recently used first. *)
Inductive cache_kind := NoCache | MapCache | LruCache (k : nat).
Record qcache := { qc_kind : cache_kind; qc_keys : list nat }.
Definition qc_mem (c : qcache) (q : nat) : bool := existsb (Nat.eqb q) (qc_keys c).
Definition qc_touch (c : qcache) (q : nat) : qcache :=
  match qc_kind c with
  | LruCache _ => {| qc_kind := qc_kind c; qc_keys := q :: filter (fun x => negb (Nat.eqb q x)) (qc_keys c) |}
  | _ => c
  end.
Definition qc_add (c : qcache) (q : nat) : qcache :=
  match qc_kind c with
  | NoCache => c
  | MapCache => {| qc_kind := MapCache; qc_keys := q :: filter (fun x => negb (Nat.eqb q x)) (qc_keys c) |}
  | LruCache k => {| qc_kind := LruCache k; qc_keys := firstn k (q :: filter (fun x => negb (Nat.eqb q x)) (qc_keys c)) |}
  end.

(** Why a request was refused before execution. [protocol]: errcode.KindProtocol (parse/validation). *)
Inductive refusal := RefParam | RefParse | RefNoOperation | RefValidation | RefOpNotFound | RefVariables | RefCtx.
Definition protocol_error (r : refusal) : bool :=
  match r with RefParse | RefNoOperation | RefValidation | RefOpNotFound | RefVariables => true | _ => false end.

(** ** HTTP vocabulary *)
Inductive transport := TGet | TPost | TGraphql | TUrlEncoded | TMultipartForm.
Inductive media := MJson | MGraphqlResponse.      (* application/json | application/graphql-response+json *)

(** the request as far as routing and negotiation are concerned *)
Record http_req := {
  h_transport : option transport;     (* first transport whose Supports accepts, None = no transport *)
  h_negotiated : media;               (* determineResponseContentType (GET and POST use it) *)
  h_body_ok : bool;                   (* the body / query string decoded into RawParams *)
  h_req : request }.

Inductive body_class := BData | BErrors | BPlainError.
Record http_resp := { s_status : nat; s_events : list event; s_body : body_class; s_refusal : option refusal }.


Section Pipeline.
  Variable docs : nat -> doc.
  Variable exts : list ext.

  (** the mutators run in order until one rejects *)
  Fixpoint run_mutators (mk : nat -> event) (idxs : list nat) (reject : option nat) {struct idxs} : list event * bool :=
    match idxs with
    | [] => ([], true)
    | i :: r => if option_eqb Nat.eqb reject (Some i) then ([mk i], false)
                else let '(ev, ok) := run_mutators mk r reject in (mk i :: ev, ok)
    end.

  (** parseQuery *)
  Definition parse_query (c : qcache) (q : nat) : qcache * option refusal :=
    if qc_mem c q then (qc_touch c q, None)
    else
      let d := docs q in
      if negb (d_parses d) then (c, Some RefParse)
      else match d_ops d with
           | [] => (c, Some RefNoOperation)
           | _ => if negb (d_valid d) then (c, Some RefValidation) else (qc_add c q, None)
           end.

  (** CreateOperationContext: the new cache, the events so far, and either the selected operation or
      the reason for refusal. *)
  Definition create_op_ctx (c : qcache) (r : request) : qcache * list event * (operation + refusal) :=
    let '(ev1, ok1) := run_mutators EvParam (with_hook e_param 0 exts) (r_reject_param r) in
    if negb ok1 then (c, ev1, inr RefParam)
    else
      match parse_query c (r_q r) with
      | (c', Some ref) => (c', ev1, inr ref)
      | (c', None) =>
          match for_name (d_ops (docs (r_q r))) (r_opname r) with
          | None => (c', ev1, inr RefOpNotFound)
          | Some op =>
              if negb (r_vars_ok r) then (c', ev1, inr RefVariables)
              else
                let '(ev2, ok2) := run_mutators EvCtx (with_hook e_ctx 0 exts) (r_reject_ctx r) in
                if negb ok2 then (c', ev1 ++ ev2, inr RefCtx) else (c', ev1 ++ ev2, inl op)
          end
      end.

  (** DispatchError: only the response interceptors see an error response. *)
  Definition dispatch_error : list event := wrap EvRespEnter EvRespExit (with_hook e_resp 0 exts) [].

  (** One root field as generated code runs it: root interceptors, field interceptors, resolver. *)
  Definition run_field (f : string) : list event :=
    wrap (fun i => EvRootEnter i f) (fun i => EvRootExit i f) (with_hook e_root 0 exts)
      (wrap (fun i => EvFieldEnter i f) (fun i => EvFieldExit i f) (with_hook e_field 0 exts) [EvResolver f]).

  (** DispatchOperation + one call of the response handler (single-response transports). *)
  Definition dispatch (op : operation) : list event :=
    wrap EvOpEnter EvOpExit (with_hook e_op 0 exts) [EvExec]
    ++ wrap EvRespEnter EvRespExit (with_hook e_resp 0 exts) (flat_map run_field (o_fields op)).

  (** ** The single-response HTTP transports *)
  Definition status_protocol (t : transport) (m : media) : nat :=
    match t, m with
    | (TGet | TPost), MGraphqlResponse => 400
    | _, _ => 422
    end.

  Definition serve (c : qcache) (h : http_req) : qcache * http_resp :=
    match h_transport h with
    | None => (c, {| s_status := 400; s_events := []; s_body := BPlainError; s_refusal := None |})
    | Some t =>
        if negb (h_body_ok h)
        then (c, {| s_status := match t with TGet | TPost => 400 | _ => 422 end;
                    s_events := match t with TGet | TMultipartForm => [] | _ => dispatch_error end;
                    s_body := BPlainError; s_refusal := None |})
        else
          match create_op_ctx c (h_req h) with
          | (c', ev, inr ref) =>
              (c', {| s_status := if protocol_error ref then status_protocol t (h_negotiated h) else 200;
                      s_events := ev ++ dispatch_error; s_body := BErrors; s_refusal := Some ref |})
          | (c', ev, inl op) =>
              match t, o_kind op with
              | TGet, (KMutation | KSubscription) =>
                  (c', {| s_status := 406; s_events := ev; s_body := BPlainError; s_refusal := None |})
              | _, _ =>
                  (c', {| s_status := 200; s_events := ev ++ dispatch op; s_body := BData; s_refusal := None |})
              end
          end
    end.

  (** A history of requests against one server. *)
  Fixpoint serve_all (c : qcache) (hs : list http_req) {struct hs} : qcache * list http_resp :=
    match hs with
    | [] => (c, [])
    | h :: r => let '(c1, x) := serve c h in let '(c2, xs) := serve_all c1 r in (c2, x :: xs)
    end.
End Pipeline.

Definition empty_qcache (k : cache_kind) : qcache := {| qc_kind := k; qc_keys := [] |}.

(** ** Routing (Server.getTransport / Supports) and response content type. *)
Inductive method := MGet | MPost | MPut | MHead | MOptions.
(** media type of the request's Content-Type header as mime.ParseMediaType gives it *)
Inductive req_media := CtJson | CtGraphql | CtForm | CtMultipartForm | CtOther | CtUnparsable.
Inductive route_t := RT (t : transport) | ROptions.

Definition supports (rt : route_t) (m : method) (ct : req_media) (upgrade : bool) : bool :=
  match rt with
  | ROptions => match m with MHead | MOptions => true | _ => false end
  | RT TGet => negb upgrade && match m with MGet => true | _ => false end
  | RT t => negb upgrade && match m with MPost => true | _ => false end &&
            match t, ct with
            | TPost, CtJson | TGraphql, CtGraphql | TUrlEncoded, CtForm | TMultipartForm, CtMultipartForm => true
            | _, _ => false
            end
  end.

Fixpoint get_transport (ts : list route_t) (m : method) (ct : req_media) (upgrade : bool) {struct ts} : option route_t :=
  match ts with
  | [] => None
  | t :: r => if supports t m ct upgrade then Some t else get_transport r m ct upgrade
  end.

(** One comma-separated part of the Accept header after mime.ParseMediaType. *)
Inductive accept_part := AStar | AJson | AGqlResp | AOtherPart.
Fixpoint negotiate_parts (parts : list accept_part) {struct parts} : media :=
  match parts with
  | [] => MGraphqlResponse
  | (AStar | AGqlResp) :: _ => MGraphqlResponse
  | AJson :: _ => MJson
  | AOtherPart :: r => negotiate_parts r
  end.
(** [None]: no Accept header (or empty) *)
Definition negotiate (accept : option (list accept_part)) : media :=
  match accept with None => MJson | Some parts => negotiate_parts parts end.

(** What the transport is configured with (ResponseHeaders). *)
Inductive resp_headers_cfg := HdrNone | HdrWithContentType | HdrWithoutContentType.
Inductive ctype_out := OutJson | OutGqlResp | OutConfigured | OutMissing.
Definition media_out (m : media) : ctype_out := match m with MJson => OutJson | MGraphqlResponse => OutGqlResp end.

(** [fixed = false]: the pinned commit, where three paths answer a JSON body with no Content-Type. *)
Definition content_type (fixed : bool) (rt : option route_t) (cfg : resp_headers_cfg)
           (accept : option (list accept_part)) (query_string_ok : bool) : ctype_out :=
  match rt with
  | None => if fixed then OutJson else OutMissing
  | Some ROptions => OutMissing                      (* no body *)
  | Some (RT TGet) =>
      if negb query_string_ok && negb fixed then OutMissing
      else match cfg with HdrWithContentType => OutConfigured | _ => media_out (negotiate accept) end
  | Some (RT TPost) =>
      match cfg with HdrWithContentType => OutConfigured | _ => media_out (negotiate accept) end
  | Some (RT _) =>
      match cfg with
      | HdrNone => OutJson
      | HdrWithContentType => OutConfigured
      | HdrWithoutContentType => if fixed then OutJson else OutMissing
      end
  end.
