(** C07, "... or are in flight beside it": the POST transport's pooled parameter objects with requests in flight
    together.  Objects live in a store and are addressed by number; [sync.Pool] hands out ANY object that is in the
    pool or a new one (both always possible), so which object a request gets is part of the schedule.  A request:
    Get; set Headers / ReadTime and decode the body INTO the object; hand it to the executor (which reads it); the
    deferred clean-up; Put.  A labelled transition system over every interleaving of any number of requests and every
    choice of the pool; the variant [early_put] returns the object to the pool before its last use.
    Definitions only. *)
From GV Require Import Base.Prelude Base.Threads Model.ParamPool.
Open Scope nat_scope.
Open Scope list_scope.

Inductive owner := InPool | Held (i : nat).
Definition owner_eqb (a b : owner) : bool :=
  match a, b with InPool, InPool => true | Held i, Held j => Nat.eqb i j | _, _ => false end.

Inductive ppc := PStart | PGot | PFilled | PSeen | PCleaned | PDone.

Record pthread := {
  pt_pc : ppc;
  pt_hdr : string;
  pt_body : list member;
  pt_obj : option nat;                      (* the object it works on *)
  pt_ok : bool;                             (* the decoder reported no error *)
  pt_seen : option (params * bool) }.       (* what its executor was handed *)

Record pstate := {
  ps_thr : list pthread;
  ps_heap : list (params * owner) }.

Definition pstart (r : string * list member) : pthread :=
  {| pt_pc := PStart; pt_hdr := fst r; pt_body := snd r; pt_obj := None; pt_ok := true; pt_seen := None |}.
Definition pinit (reqs : list (string * list member)) : pstate := {| ps_thr := map pstart reqs; ps_heap := [] |}.

Definition pt_with (t : pthread) (pc : ppc) (obj : option nat) (ok : bool) (seen : option (params * bool)) : pthread :=
  {| pt_pc := pc; pt_hdr := pt_hdr t; pt_body := pt_body t; pt_obj := obj; pt_ok := ok; pt_seen := seen |}.

(** a step of request [i]; [choice] matters for Get only: [Some id] takes that object out of the pool, [None] is
    sync.Pool's New *)
Definition pstep (early_put : bool) (s : pstate) (i : nat) (choice : option nat) : option pstate :=
  match nth_error (ps_thr s) i with
  | None => None
  | Some t =>
      let thr t' := upd i t' (ps_thr s) in
      match pt_pc t with
      | PStart =>
          match choice with
          | None => Some {| ps_thr := thr (pt_with t PGot (Some (List.length (ps_heap s))) true None);
                            ps_heap := ps_heap s ++ [(pzero, Held i)] |}
          | Some id =>
              match nth_error (ps_heap s) id with
              | Some (v, InPool) => Some {| ps_thr := thr (pt_with t PGot (Some id) true None);
                                            ps_heap := upd id (v, Held i) (ps_heap s) |}
              | _ => None
              end
          end
      | PGot =>
          match pt_obj t with
          | Some id =>
              match nth_error (ps_heap s) id with
              | Some (v, o) =>
                  let '(v', ok) := fill v (pt_hdr t) (pt_body t) in
                  Some {| ps_thr := thr (pt_with t PFilled (Some id) ok None);
                          ps_heap := upd id (v', if early_put then InPool else o) (ps_heap s) |}
              | None => None
              end
          | None => None
          end
      | PFilled =>
          match pt_obj t with
          | Some id =>
              match nth_error (ps_heap s) id with
              | Some (v, _) => Some {| ps_thr := thr (pt_with t PSeen (Some id) (pt_ok t) (Some (v, pt_ok t))); ps_heap := ps_heap s |}
              | None => None
              end
          | None => None
          end
      | PSeen =>
          match pt_obj t with
          | Some id =>
              match nth_error (ps_heap s) id with
              | Some (v, o) => Some {| ps_thr := thr (pt_with t PCleaned (Some id) (pt_ok t) (pt_seen t));
                                       ps_heap := upd id (cleanup [] v, o) (ps_heap s) |}
              | None => None
              end
          | None => None
          end
      | PCleaned =>
          match pt_obj t with
          | Some id =>
              match nth_error (ps_heap s) id with
              | Some (v, _) => Some {| ps_thr := thr (pt_with t PDone None (pt_ok t) (pt_seen t));
                                       ps_heap := upd id (v, InPool) (ps_heap s) |}
              | None => None
              end
          | None => None
          end
      | PDone => None
      end
  end.

Fixpoint prun_pool (early_put : bool) (s : pstate) (tr : list (nat * option nat)) {struct tr} : option pstate :=
  match tr with
  | [] => Some s
  | (i, c) :: r => match pstep early_put s i c with Some s' => prun_pool early_put s' r | None => None end
  end.

(** what a request's executor is handed when the request runs alone on a fresh object *)
Definition alone_sees (hdr : string) (body : list member) : params * bool := fill pzero hdr body.
Definition seen_by (s : pstate) : list (option (params * bool)) := map pt_seen (ps_thr s).
