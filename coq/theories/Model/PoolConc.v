(** C07, "... or are in flight beside it": the POST transport's pooled parameter objects with requests in flight
    together.  Objects live in a store and are addressed by number; [sync.Pool] hands out ANY object that is in the
    pool or a new one (both always possible), so which object a request gets is part of the schedule.  A request:
    Get; set Headers / ReadTime and decode the body INTO the object; hand it to the executor (which reads it); the
    deferred clean-up; Put.  A labelled transition system over every interleaving of any number of requests and every
    choice of the pool; the variant [early_put] returns the object to the pool before its last use.
    Definitions only. *)
From GV Require Import Base.Prelude Base.Threads Model.ParamPool.
Open Scope nat_scope.
Open Scope list_scope.

Inductive owner := InPool | Held (i : nat).
Definition owner_eqb (a b : owner) : bool :=
  match a, b with InPool, InPool => true | Held i, Held j => Nat.eqb i j | _, _ => false end.

Inductive ppc := PStart | PGot | PFilled | PSeen | PCleaned | PDone.

Record pthread := {
  pt_pc : ppc;
  pt_hdr : string;
  pt_body : list member;
  pt_obj : option nat;                      (* the object it works on *)
  pt_fails : bool;                          (* the operation of this request panics (after the executor was handed the object) *)
  pt_ok : bool;                             (* the decoder reported no error *)
  pt_seen : option (params * bool) }.       (* what its executor was handed *)

Record pstate := {
  ps_thr : list pthread;
  ps_heap : list (params * owner) }.

Definition pstart_f (r : (string * list member) * bool) : pthread :=
  {| pt_pc := PStart; pt_hdr := fst (fst r); pt_body := snd (fst r); pt_obj := None; pt_fails := snd r; pt_ok := true; pt_seen := None |}.
(** requests, each with "its operation panics" *)
Definition pinit_f (reqs : list ((string * list member) * bool)) : pstate := {| ps_thr := map pstart_f reqs; ps_heap := [] |}.
Definition pinit (reqs : list (string * list member)) : pstate := pinit_f (map (fun r => (r, false)) reqs).

(** the variants: [v_early_put] returns the object to the pool before its last use; with [v_clean_on_panic = false]
    the clean-up is no deferred call and is skipped when the operation panics; with [v_clean_on_decode_error = false]
    it is skipped on the early return taken when the body does not decode *)
Record pvariant := { v_early_put : bool; v_clean_on_panic : bool; v_clean_on_decode_error : bool }.
Definition as_written_pool : pvariant := {| v_early_put := false; v_clean_on_panic := true; v_clean_on_decode_error := true |}.

Definition pt_with (t : pthread) (pc : ppc) (obj : option nat) (ok : bool) (seen : option (params * bool)) : pthread :=
  {| pt_pc := pc; pt_hdr := pt_hdr t; pt_body := pt_body t; pt_obj := obj; pt_fails := pt_fails t; pt_ok := ok; pt_seen := seen |}.

(** a step of request [i]; [choice] matters for Get only: [Some id] takes that object out of the pool, [None] is
    sync.Pool's New *)
Definition pstep (v : pvariant) (s : pstate) (i : nat) (choice : option nat) : option pstate :=
  match nth_error (ps_thr s) i with
  | None => None
  | Some t =>
      let thr t' := upd i t' (ps_thr s) in
      match pt_pc t with
      | PStart =>
          match choice with
          | None => Some {| ps_thr := thr (pt_with t PGot (Some (List.length (ps_heap s))) true None);
                            ps_heap := ps_heap s ++ [(pzero, Held i)] |}
          | Some id =>
              match nth_error (ps_heap s) id with
              | Some (x, InPool) => Some {| ps_thr := thr (pt_with t PGot (Some id) true None);
                                            ps_heap := upd id (x, Held i) (ps_heap s) |}
              | _ => None
              end
          end
      | PGot =>
          match pt_obj t with
          | Some id =>
              match nth_error (ps_heap s) id with
              | Some (x, o) =>
                  let '(v', ok) := fill x (pt_hdr t) (pt_body t) in
                  Some {| ps_thr := thr (pt_with t PFilled (Some id) ok None);
                          ps_heap := upd id (v', if v_early_put v then InPool else o) (ps_heap s) |}
              | None => None
              end
          | None => None
          end
      | PFilled =>
          match pt_obj t with
          | Some id =>
              match nth_error (ps_heap s) id with
              | Some (x, _) => Some {| ps_thr := thr (pt_with t PSeen (Some id) (pt_ok t) (Some (x, pt_ok t))); ps_heap := ps_heap s |}
              | None => None
              end
          | None => None
          end
      | PSeen =>
          match pt_obj t with
          | Some id =>
              match nth_error (ps_heap s) id with
              | Some (x, o) =>
                  (* the deferred clean-up: skipped by the variants on the panic path / the decode-error return *)
                  let skip := (pt_fails t && negb (v_clean_on_panic v)) || (negb (pt_ok t) && negb (v_clean_on_decode_error v)) in
                  Some {| ps_thr := thr (pt_with t PCleaned (Some id) (pt_ok t) (pt_seen t));
                          ps_heap := upd id (if skip then x else cleanup [] x, o) (ps_heap s) |}
              | None => None
              end
          | None => None
          end
      | PCleaned =>
          match pt_obj t with
          | Some id =>
              match nth_error (ps_heap s) id with
              | Some (x, _) => Some {| ps_thr := thr (pt_with t PDone None (pt_ok t) (pt_seen t));
                                       ps_heap := upd id (x, InPool) (ps_heap s) |}
              | None => None
              end
          | None => None
          end
      | PDone => None
      end
  end.

Fixpoint prun_pool (v : pvariant) (s : pstate) (tr : list (nat * option nat)) {struct tr} : option pstate :=
  match tr with
  | [] => Some s
  | (i, c) :: r => match pstep v s i c with Some s' => prun_pool v s' r | None => None end
  end.

(** what a request's executor is handed when the request runs alone on a fresh object *)
Definition alone_sees (hdr : string) (body : list member) : params * bool := fill pzero hdr body.
Definition seen_by (s : pstate) : list (option (params * bool)) := map pt_seen (ps_thr s).
