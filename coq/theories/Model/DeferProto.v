(** C13: the delivery bookkeeping of deferred groups (root_.gotpl: processDeferredGroup, the pendingDeferred
    counter, the unbuffered result channel and the response function) as a labelled transition system over every
    interleaving of group goroutines and the consumer.  Definitions only. *)
From GV Require Import Base.Prelude.
Open Scope nat_scope.
Open Scope list_scope.

Inductive dphase := PInit | PIdle | PDone.

Record pstate := {
  ps_phase : dphase;
  ps_pend : nat;                      (* ec.pendingDeferred *)
  ps_running : list nat;              (* groups whose goroutine is still dispatching its fields *)
  ps_ready : list nat;                (* groups blocked in the send on ec.deferredResults *)
  ps_started : list nat;              (* every group started so far, in order *)
  ps_out : list (option nat * bool)   (* payloads handed to the consumer: initial (None) or a group, with hasNext *)
}.

Inductive plabel :=
| LStartRoot (g : nat)                (* the initial execution marshals an object with a deferred field set *)
| LInitDone                           (* the initial execution is complete: first payload *)
| LStartNested (parent g : nat)       (* a running group marshals an object with a deferred field set *)
| LFinish (g : nat)                   (* a group has dispatched its fields and goes to send its result *)
| LReceive (g : nat)                  (* the consumer's next call takes a result from the channel *)
| LEnd.                               (* the consumer's next call finds nothing pending and returns nil *)

Definition mem (g : nat) (l : list nat) : bool := existsb (Nat.eqb g) l.
Fixpoint remove_one (g : nat) (l : list nat) {struct l} : list nat :=
  match l with [] => [] | x :: r => if Nat.eqb g x then r else x :: remove_one g r end.

Definition pinit : pstate :=
  {| ps_phase := PInit; ps_pend := 0; ps_running := []; ps_ready := []; ps_started := []; ps_out := [] |}.

Definition start (s : pstate) (g : nat) : pstate :=
  {| ps_phase := ps_phase s; ps_pend := S (ps_pend s); ps_running := ps_running s ++ [g]; ps_ready := ps_ready s;
     ps_started := ps_started s ++ [g]; ps_out := ps_out s |}.

Definition pstep (s : pstate) (l : plabel) : option pstate :=
  match l with
  | LStartRoot g =>
      match ps_phase s with
      | PInit => if mem g (ps_started s) then None else Some (start s g)
      | _ => None
      end
  | LInitDone =>
      match ps_phase s with
      | PInit => Some {| ps_phase := PIdle; ps_pend := ps_pend s; ps_running := ps_running s; ps_ready := ps_ready s;
                         ps_started := ps_started s; ps_out := ps_out s ++ [(None, 0 <? ps_pend s)] |}
      | _ => None
      end
  | LStartNested p g =>
      if mem p (ps_running s) && negb (mem g (ps_started s)) then Some (start s g) else None
  | LFinish g =>
      if mem g (ps_running s)
      then Some {| ps_phase := ps_phase s; ps_pend := ps_pend s; ps_running := remove_one g (ps_running s);
                   ps_ready := ps_ready s ++ [g]; ps_started := ps_started s; ps_out := ps_out s |}
      else None
  | LReceive g =>
      match ps_phase s with
      | PIdle => if (0 <? ps_pend s) && mem g (ps_ready s)
                 then Some {| ps_phase := PIdle; ps_pend := pred (ps_pend s); ps_running := ps_running s;
                              ps_ready := remove_one g (ps_ready s); ps_started := ps_started s;
                              ps_out := ps_out s ++ [(Some g, 0 <? pred (ps_pend s))] |}
                 else None
      | _ => None
      end
  | LEnd =>
      match ps_phase s with
      | PIdle => if ps_pend s =? 0
                 then Some {| ps_phase := PDone; ps_pend := 0; ps_running := ps_running s; ps_ready := ps_ready s;
                              ps_started := ps_started s; ps_out := ps_out s |}
                 else None
      | _ => None
      end
  end.

Fixpoint prun (s : pstate) (tr : list plabel) {struct tr} : option pstate :=
  match tr with [] => Some s | l :: r => match pstep s l with Some s' => prun s' r | None => None end end.

(** the payload sequence is well formed: hasNext on every payload but the last *)
Fixpoint has_next_shape (l : list (option nat * bool)) {struct l} : bool :=
  match l with
  | [] => true
  | [(_, hn)] => negb hn
  | (_, hn) :: r => hn && has_next_shape r
  end.
Definition delivered (s : pstate) : list nat := flat_map (fun p => match fst p with Some g => [g] | None => [] end) (ps_out s).
