(** C12 (SSE): the bytes transport.SSE writes, as a function of the order in which the event loop and the
    keep-alive goroutine get to write, and a parser of the text/event-stream format (WHATWG HTML 9.2.6,
    restricted to LF line ends, which is all the writer emits).  Definitions only. *)
From GV Require Import Base.Prelude.
Open Scope N_scope.

Definition LF : N := 10.
Definition CR : N := 13.
Definition COLON : N := 58.
Definition SPACE : N := 32.

(** ASCII text as bytes *)
Fixpoint bytes_of (s : string) {struct s} : bytes :=
  match s with EmptyString => [] | String a r => N_of_ascii a :: bytes_of r end.

Definition ping_chunk : bytes := bytes_of ": ping" ++ [LF; LF].
Definition open_chunk : bytes := [COLON; LF; LF].
Definition complete_chunk : bytes := bytes_of "event: complete" ++ [LF; LF].
Definition next_chunk (json : bytes) : bytes := bytes_of "event: next" ++ [LF] ++ bytes_of "data: " ++ json ++ [LF; LF].

(** what the two writers do, in the order they obtain the response *)
Inductive sse_act := APayload (json : bytes) | APing.

Definition chunk_of (a : sse_act) : bytes := match a with APayload j => next_chunk j | APing => ping_chunk end.

(** the repaired transport: every chunk is written under one lock; once the stream is completed the keep-alive
    writes nothing ([late] ticks after the completion are dropped) *)
Definition sse_bytes (acts : list sse_act) (late : nat) : bytes :=
  open_chunk ++ List.concat (map chunk_of acts) ++ complete_chunk.

(** the pinned commit: the keep-alive keeps writing until the request context ends, so [late] pings follow the
    completion; and its write is not ordered with the event writer's, so a ping can land INSIDE an event
    ([splice] = Some (k, off): the ping is written after [off] bytes of the k-th chunk) *)
Definition insert_at (off : nat) (x l : bytes) : bytes := firstn off l ++ x ++ skipn off l.
Fixpoint splice_chunks (cs : list bytes) (k off : nat) {struct cs} : list bytes :=
  match cs, k with
  | [], _ => []
  | c :: r, O => insert_at off ping_chunk c :: r
  | c :: r, S k' => c :: splice_chunks r k' off
  end.
Definition sse_bytes_legacy (acts : list sse_act) (late : nat) (splice : option (nat * nat)) : bytes :=
  let cs := map chunk_of acts in
  open_chunk ++ List.concat (match splice with Some (k, off) => splice_chunks cs k off | None => cs end)
  ++ complete_chunk ++ List.concat (repeat ping_chunk late).

(** ---- the event-stream parser ---- *)
Inductive sse_item := IComment (text : bytes) | IEvent (type data : bytes).

(** split off the first line (up to LF); None when no LF is left *)
Fixpoint take_line (l : bytes) {struct l} : option (bytes * bytes) :=
  match l with
  | [] => None
  | b :: r => if N.eqb b LF then Some ([], r)
              else match take_line r with Some (x, rest) => Some (b :: x, rest) | None => None end
  end.

Fixpoint starts_with (p l : bytes) {struct p} : option bytes :=
  match p, l with
  | [], _ => Some l
  | a :: p', b :: l' => if N.eqb a b then starts_with p' l' else None
  | _ :: _, [] => None
  end.

(** field value: one leading space is dropped *)
Definition field_value (v : bytes) : bytes := match v with b :: r => if N.eqb b SPACE then r else v | [] => [] end.

(** parser state: event type and data buffers of the event under construction ([None]: no data line yet) *)
Record pst := { p_type : bytes; p_data : option bytes }.
Definition p0 : pst := {| p_type := []; p_data := None |}.

Definition on_line (s : pst) (line : bytes) : pst * list sse_item :=
  match line with
  | [] => (* dispatch *)
      (p0, match p_data s with
           | Some d => [IEvent (p_type s) d]
           | None => match p_type s with [] => [] | t => [IEvent t []] end   (* an event with a type and no data *)
           end)
  | b :: r =>
      if N.eqb b COLON then (s, [IComment r])
      else match starts_with (bytes_of "event:") line with
           | Some v => ({| p_type := field_value v; p_data := p_data s |}, [])
           | None =>
               match starts_with (bytes_of "data:") line with
               | Some v => ({| p_type := p_type s;
                               p_data := Some (match p_data s with Some d => d ++ [LF] ++ field_value v | None => field_value v end) |}, [])
               | None => (s, [IComment (bytes_of "<unknown field>" ++ line)])
               end
           end
  end.

(** lines of a stream (LF terminated) and the unterminated remainder; [cur] accumulates the current line reversed *)
Fixpoint split_lines (cur : bytes) (l : bytes) {struct l} : list bytes * bytes :=
  match l with
  | [] => ([], rev cur)
  | b :: r => if N.eqb b LF then let (ls, rem) := split_lines [] r in (rev cur :: ls, rem)
              else split_lines (b :: cur) r
  end.

Fixpoint parse_lines (s : pst) (ls : list bytes) {struct ls} : pst * list sse_item :=
  match ls with
  | [] => (s, [])
  | line :: r => let (s1, o1) := on_line s line in let (s2, o2) := parse_lines s1 r in (s2, (o1 ++ o2)%list)
  end.

(** items of the complete lines; an unterminated line or an undispatched event at the end is reported *)
Definition parse_stream (l : bytes) : list sse_item :=
  let (ls, rem) := split_lines [] l in
  let (s, items) := parse_lines p0 ls in
  (items ++ (match rem with [] => [] | _ => [IComment (bytes_of "<unterminated line>")] end)
         ++ (match p_data s, p_type s with None, [] => [] | _, _ => [IComment (bytes_of "<unterminated event>")] end))%list.

(** what a client must see *)
Definition item_of (a : sse_act) : sse_item :=
  match a with APayload j => IEvent (bytes_of "next") j | APing => IComment (bytes_of " ping") end.
Definition expected (acts : list sse_act) : list sse_item :=
  (IComment [] :: map item_of acts ++ [IEvent (bytes_of "complete") []])%list.

Definition no_newline (j : bytes) : bool := forallb (fun b => negb (N.eqb b LF) && negb (N.eqb b CR)) j.
Definition act_ok (a : sse_act) : bool := match a with APayload j => no_newline j | APing => true end.
