(** C03, "under concurrent requests" with suggestions disabled: gqlparser's validation rule set is one variable of
    the process ([validator.specifiedRules]).  A request of an executor with [SetDisableSuggestion(true)] swaps the
    FieldsOnCorrectType rule for the variant without suggestions before it validates ([validator.RemoveRule] then
    [validator.ReplaceRule], each of which READS the variable, builds a new slice and WRITES it), and every request
    validates against whatever the variable holds when [validator.Validate] reads it.  A labelled transition system
    over every interleaving of any number of requests; [locked] is the repaired code (the swap under the write half
    and the validation under the read half of one RWMutex), [locked = false] the pinned commit.  Only the two
    variants of the one rule the swap touches are tracked: every other rule is in the set throughout.
    Definitions only. *)
From GV Require Import Base.Prelude Base.Threads.
Open Scope nat_scope.
Open Scope list_scope.

(** [DGated]: a valid document that an operation-parameter extension of the executor refuses *)
Inductive doc := DValid | DUnknownField | DOtherInvalid | DGated.

(** which variants of FieldsOnCorrectType the rule set holds *)
Record rules := { r_orig : bool; r_nosugg : bool }.
Definition rejects (r : rules) (d : doc) : bool :=
  match d with DValid => false | DUnknownField => r_orig r || r_nosugg r | DOtherInvalid | DGated => true end.
(** what validation answers when nothing else runs *)
Definition alone (d : doc) : bool := match d with DValid => false | _ => true end.

Inductive qpc :=
| QStart
| QWHeld       (* about to RemoveRule (repaired: holds the write lock from here ...) *)
| QRemRead     (* RemoveRule has read the variable *)
| QRemoved     (* RemoveRule has written it *)
| QRepRead     (* ReplaceRule has read the variable *)
| QReplaced    (* ReplaceRule has written it (... to here) *)
| QSwapDone    (* about to validate *)
| QRHeld       (* repaired: holds the read lock; Validate is about to read the variable *)
| QValidated
| QDone.

Record qthread := {
  q_pc : qpc;
  q_disable : bool;           (* its executor has suggestions disabled *)
  q_doc : doc;
  q_local : rules;            (* the copy RemoveRule / ReplaceRule works on *)
  q_verdict : option bool }.  (* Some true: validation rejected the document *)

Record qstate := {
  g_thr : list qthread;
  g_rules : rules;
  g_writer : bool;
  g_readers : nat }.

Definition qstart (r : bool * doc) : qthread :=
  {| q_pc := QStart; q_disable := fst r; q_doc := snd r; q_local := {| r_orig := true; r_nosugg := false |}; q_verdict := None |}.
(** a fresh process: gqlparser's init functions registered the rule with suggestions *)
Definition qinit (reqs : list (bool * doc)) : qstate :=
  {| g_thr := map qstart reqs; g_rules := {| r_orig := true; r_nosugg := false |}; g_writer := false; g_readers := 0 |}.

Definition q_with (t : qthread) (pc : qpc) (loc : rules) (v : option bool) : qthread :=
  {| q_pc := pc; q_disable := q_disable t; q_doc := q_doc t; q_local := loc; q_verdict := v |}.
Definition g_put (s : qstate) (i : nat) (t : qthread) (r : rules) (w : bool) (n : nat) : qstate :=
  {| g_thr := upd i t (g_thr s); g_rules := r; g_writer := w; g_readers := n |}.

Definition to_validate (locked : bool) (s : qstate) (i : nat) (t : qthread) : option qstate :=
  if locked then
    (if g_writer s then None                                                          (* RLock blocks *)
     else Some (g_put s i (q_with t QRHeld (q_local t) (q_verdict t)) (g_rules s) false (S (g_readers s))))
  else Some (g_put s i (q_with t QRHeld (q_local t) (q_verdict t)) (g_rules s) (g_writer s) (g_readers s)).

Definition qstep (locked : bool) (s : qstate) (i : nat) : option qstate :=
  match nth_error (g_thr s) i with
  | None => None
  | Some t =>
      let keep pc loc := Some (g_put s i (q_with t pc loc (q_verdict t)) (g_rules s) (g_writer s) (g_readers s)) in
      let write pc r := Some (g_put s i (q_with t pc (q_local t) (q_verdict t)) r (g_writer s) (g_readers s)) in
      match q_pc t with
      | QStart =>
          if q_disable t then
            (if locked then
               (if g_writer s || negb (Nat.eqb (g_readers s) 0) then None             (* Lock blocks *)
                else Some (g_put s i (q_with t QWHeld (q_local t) (q_verdict t)) (g_rules s) true (g_readers s)))
             else keep QWHeld (q_local t))
          else to_validate locked s i t
      | QWHeld => keep QRemRead (g_rules s)
      | QRemRead => write QRemoved {| r_orig := false; r_nosugg := r_nosugg (q_local t) |}
      | QRemoved => keep QRepRead (g_rules s)
      | QRepRead => write QReplaced {| r_orig := r_orig (q_local t); r_nosugg := true |}
      | QReplaced => Some (g_put s i (q_with t QSwapDone (q_local t) (q_verdict t)) (g_rules s) (if locked then false else g_writer s) (g_readers s))
      | QSwapDone => to_validate locked s i t
      | QRHeld => Some (g_put s i (q_with t QValidated (q_local t) (Some (rejects (g_rules s) (q_doc t)))) (g_rules s) (g_writer s) (g_readers s))
      | QValidated => Some (g_put s i (q_with t QDone (q_local t) (q_verdict t)) (g_rules s) (g_writer s) (if locked then pred (g_readers s) else g_readers s))
      | QDone => None
      end
  end.

Fixpoint qrun (locked : bool) (s : qstate) (tr : list nat) {struct tr} : option qstate :=
  match tr with [] => Some s | i :: r => match qstep locked s i with Some s' => qrun locked s' r | None => None end end.

Definition swapping (t : qthread) : bool :=
  match q_pc t with QWHeld | QRemRead | QRemoved | QRepRead | QReplaced => true | _ => false end.
Definition reading (t : qthread) : bool := match q_pc t with QRHeld | QValidated => true | _ => false end.
Definition qdone (t : qthread) : bool := match q_pc t with QDone => true | _ => false end.
Definition present (r : rules) : bool := r_orig r || r_nosugg r.

(** the verdicts of the requests, in order: [Some true] rejected, [Some false] accepted, [None] not yet validated *)
Definition verdicts (s : qstate) : list (option bool) := map q_verdict (g_thr s).
