(** Concurrency model of object.gotpl / FieldSet.Dispatch and of the list loop of type.gotpl: every
    concurrently resolved field (or list element) is a task whose atomic actions touch the shared
    response-error list, its own slot of Values / of the array, and the Invalids counter. *)
From GV Require Import Base.Prelude Base.Interleave Model.Exec.
Open Scope list_scope.

Inductive action :=
| AErr (e : err)                 (* ec.Error: append to the response's error list (mutex protected) *)
| ASlot (i : nat) (m : mval)     (* out.Values[i] = ... / ret[i] = ... *)
| AInvalid.                      (* atomic.AddUint32(&out.Invalids, 1) *)

Record cstate := { cs_slots : list (nat * mval); cs_invalids : nat; cs_errs : list err }.
Definition cs_init : cstate := {| cs_slots := []; cs_invalids := 0; cs_errs := [] |}.

Definition apply_action (s : cstate) (a : action) : cstate :=
  match a with
  | AErr e => {| cs_slots := cs_slots s; cs_invalids := cs_invalids s; cs_errs := cs_errs s ++ [e] |}
  | ASlot i m => {| cs_slots := (i, m) :: cs_slots s; cs_invalids := cs_invalids s; cs_errs := cs_errs s |}
  | AInvalid => {| cs_slots := cs_slots s; cs_invalids := S (cs_invalids s); cs_errs := cs_errs s |}
  end.
Definition run_trace (tr : list action) : cstate := fold_left apply_action tr cs_init.

(** reading the slots back in index order (what MarshalGQL / the post-scan do after the join) *)
Fixpoint slot_get (sl : list (nat * mval)) (i : nat) {struct sl} : option mval :=
  match sl with [] => None | (j, m) :: r => if Nat.eqb i j then Some m else slot_get r i end.

(** the task of one field of an object: complete the child, publish the result, count an invalid *)
Definition field_task (p : path) (i : nat) (kf : string * bool * rnode) : list action :=
  let '(k, fnn, child) := kf in
  let '(m, es) := complete_impl fnn (p ++ [PKey k]) child in
  map AErr es ++ [ASlot i m] ++ (if fnn && is_null_mark m then [AInvalid] else []).

Fixpoint field_tasks (p : path) (i : nat) (fs : list (string * bool * rnode)) {struct fs} : list (list action) :=
  match fs with [] => [] | kf :: r => field_task p i kf :: field_tasks p (S i) r end.

(** the task of one list element *)
Definition elem_task (enn : bool) (p : path) (i : nat) (x : rnode) : list action :=
  let '(m, es) := complete_impl enn (p ++ [PIdx i]) x in map AErr es ++ [ASlot i m].
Fixpoint elem_tasks (enn : bool) (p : path) (i : nat) (l : list rnode) {struct l} : list (list action) :=
  match l with [] => [] | x :: r => elem_task enn p i x :: elem_tasks enn p (S i) r end.
