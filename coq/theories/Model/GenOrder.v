(** C18: where the generator's output order comes from.  Items (objects, inputs, enums, interfaces, models,
    entities, ...) are collected by ranging over Go maps - in an arbitrary order - and then sorted by name with
    sort.Slice, which is not stable; text/template ranges maps in key order.  The model: the emitted order is
    ANY sorted permutation of the collected items.  Definitions only. *)
From GV Require Import Base.Prelude.
From Coq Require Export Sorting.Sorted Sorting.Permutation.
Open Scope string_scope.

Section Order.
  Context {A : Type} (key : A -> string).
  Definition le (x y : A) : Prop := String.leb (key x) (key y) = true.
  (** what sort.Slice guarantees of its result: a permutation of the input, ordered by the comparison *)
  Definition sorted_perm_of (input output : list A) : Prop := Permutation input output /\ StronglySorted le output.

  (** executable versions for the correspondence *)
  Fixpoint insert (x : A) (l : list A) {struct l} : list A :=
    match l with [] => [x] | y :: r => if String.leb (key x) (key y) then x :: y :: r else y :: insert x r end.
  Fixpoint isort (l : list A) {struct l} : list A := match l with [] => [] | x :: r => insert x (isort r) end.
  Fixpoint sortedb (l : list A) {struct l} : bool :=
    match l with
    | [] => true
    | x :: r => forallb (fun y => String.leb (key x) (key y)) r && sortedb r
    end.
End Order.
