(** C11: the websocket transport (graphql/handler/transport/websocket*.go) as a labelled transition system over
    client frames (after the subprotocol's toMessage) and server-side events; outputs are the frames written
    (at the transport's internal message level, before fromMessage drops the no-ops of a subprotocol) and the
    observable events: execution of an operation, cancellation of its context, the close callback, closing of
    the socket.  Deterministic per label, so that an observed session can be replayed through it. *)
From GV Require Import Base.Prelude.
Open Scope string_scope.

Inductive proto := GraphqlWs | TransportWs.

Inductive init_payload := PNone | PObject | PNotObject.
Inductive start_kind :=
| SOk                (* a valid operation: dispatched *)
| SBadJson           (* payload does not decode into RawParams *)
| SRejectProtocol    (* CreateOperationContext fails with a protocol-kind error: error frame *)
| SRejectOther.      (* ... with a validation-kind error: the errors travel in a data frame *)

(** client -> server *)
Inductive cmsg :=
| CInit (p : init_payload) | CStart (id : string) (k : start_kind) | CStop (id : string)
| CTerminate          (* graphql-ws connection_terminate *)
| CPing | CPong       (* graphql-transport-ws *)
| CServerType         (* graphql-ws: a frame whose type only the server sends (data, ka, ...): decodes, "unexpected" *)
| CUndecodable        (* not JSON, or a type the subprotocol does not know: errInvalidMsg *)
| CBadDirection       (* graphql-transport-ws: a known type with no client->server meaning (next, error, ack) *)
| CAbruptClose.       (* the peer went away *)

(** server side *)
Inductive sev :=
| SEmit (id : string) | SEnd (id : string) | SFailEnd (id : string) (* AddSubscriptionError, then the resolver ends *)
| SPanic (id : string)
| STick | SInitTimeout | SCtxCancel (reason : bool).

Inductive label := LC (m : cmsg) | LS (e : sev).

Inductive out :=
| OAck | OKa | OConnError | OPong | OPing
| OData (id : string) | OError (id : string) | OComplete (id : string)
| OCloseFrame (code : Z)
| EvExec (id : string) | EvCancel (id : string) | EvCloseFunc (code : Z) | EvSocketClosed.

Inductive phase := AwaitInit | Running | Closed.

Record op := { op_id : string; op_cancelled : bool }.
Record wst := { ph : phase; ops : list op (* operations whose goroutine has not ended yet *) }.
Definition ws0 : wst := {| ph := AwaitInit; ops := [] |}.

(** what the host configured / decides *)
Inductive tickk := TKa | TPong | TPing.
Definition tick_out (t : tickk) : out := match t with TKa => OKa | TPong => OPong | TPing => OPing end.
Record wcfg := { w_proto : proto; w_init_accepts : bool (* InitFunc's verdict *); w_tick : tickk (* which ticker is configured *) }.

Fixpoint find_op (l : list op) (id : string) {struct l} : option op :=
  match l with [] => None | o :: r => if String.eqb (op_id o) id then Some o else find_op r id end.
Fixpoint remove_op (l : list op) (id : string) {struct l} : list op :=
  match l with [] => [] | o :: r => if String.eqb (op_id o) id then r else o :: remove_op r id end.
Fixpoint cancel_op (l : list op) (id : string) {struct l} : list op :=
  match l with
  | [] => []
  | o :: r => if String.eqb (op_id o) id then {| op_id := id; op_cancelled := true |} :: r else o :: cancel_op r id
  end.

(** close(): the close frame, every active operation's context cancelled, the socket closed, the callback *)
Definition do_close (s : wst) (code : Z) : wst * list out :=
  ({| ph := Closed; ops := map (fun o => {| op_id := op_id o; op_cancelled := true |}) (ops s) |},
   OCloseFrame code :: map (fun o => EvCancel (op_id o)) (filter (fun o => negb (op_cancelled o)) (ops s))
   ++ [EvSocketClosed; EvCloseFunc code])%list.

Definition close_normal : Z := 1000.
Definition close_protocol : Z := 1002.

(** the end of an operation's goroutine: deferred error/complete, delete(active), cancel *)
Definition end_op (s : wst) (id : string) (frames : list out) : wst * list out :=
  match find_op (ops s) id with
  | None => (s, [])
  | Some o =>
      ({| ph := ph s; ops := remove_op (ops s) id |},
       match ph s with
       | Closed => []                                       (* writes fail on the closed socket *)
       | _ => (frames ++ (if op_cancelled o then [] else [EvCancel id]))%list
       end)
  end.

Definition step (c : wcfg) (s : wst) (l : label) : wst * list out :=
  match ph s with
  | AwaitInit =>
      match l with
      | LC (CInit PNotObject) => let (s', o) := do_close s close_protocol in (s', OConnError :: o)
      | LC (CInit _) =>
          if w_init_accepts c then ({| ph := Running; ops := ops s |}, [OAck; OKa])
          else let (s', o) := do_close s close_normal in (s', OConnError :: o)
      | LC CTerminate => do_close s close_normal
      | LC CUndecodable => let (s', o) := do_close s close_protocol in (s', OConnError :: o)
      | LC CBadDirection | LC CAbruptClose => do_close s close_protocol   (* "decoding error" *)
      | LC _ => let (s', o) := do_close s close_protocol in (s', OConnError :: o)   (* unexpected message *)
      | LS SInitTimeout => do_close s close_protocol
      | LS _ => (s, [])
      end
  | Running =>
      match l with
      | LC (CStart id SOk) =>
          (* a duplicate id overwrites the cancel function of the running one (kept finding) *)
          ({| ph := Running; ops := (ops s ++ [{| op_id := id; op_cancelled := false |}])%list |}, [EvExec id])
      | LC (CStart id SBadJson) | LC (CStart id SRejectProtocol) => (s, [OError id; OComplete id])
      | LC (CStart id SRejectOther) => (s, [OData id; OComplete id])
      | LC (CStop id) =>
          match find_op (ops s) id with
          | Some o => if op_cancelled o then (s, []) else ({| ph := Running; ops := cancel_op (ops s) id |}, [EvCancel id])
          | None => (s, [])
          end
      | LC CTerminate => do_close s close_normal
      | LC CPing => (s, [OPong])
      | LC CPong => (s, [])
      | LC (CInit _) | LC CServerType => let (s', o) := do_close s close_protocol in (s', OConnError :: o)
      | LC CUndecodable | LC CBadDirection | LC CAbruptClose => do_close s close_normal  (* read error: run() returns, closeOnCancel closes *)
      | LS (SEmit id) =>
          match find_op (ops s) id with
          | Some o => if op_cancelled o then (s, []) else (s, [OData id])
          | None => (s, [])
          end
      | LS (SEnd id) => end_op s id [OComplete id]
      | LS (SFailEnd id) => end_op s id [OError id]
      | LS (SPanic id) => end_op s id [OError id; OComplete id]
      | LS STick => (s, [tick_out (w_tick c)])
      | LS SInitTimeout => (s, [])
      | LS (SCtxCancel reason) =>
          let (s', o) := do_close s close_normal in (s', if reason then OConnError :: o else o)
      end
  | Closed =>
      match l with
      | LS (SEnd id) | LS (SFailEnd id) | LS (SPanic id) => end_op s id []
      | _ => (s, [])
      end
  end.

Fixpoint run (c : wcfg) (s : wst) (ls : list label) {struct ls} : wst * list out :=
  match ls with
  | [] => (s, [])
  | l :: r => let (s1, o1) := step c s l in let (s2, o2) := run c s1 r in (s2, (o1 ++ o2)%list)
  end.

(** what reaches the client: each subprotocol drops the frames it has no name for *)
Definition visible (p : proto) (o : out) : bool :=
  match p, o with
  | TransportWs, OKa | TransportWs, OConnError => false
  | GraphqlWs, OPong | GraphqlWs, OPing => false
  | _, _ => true
  end.

(** ---- the property as predicates on an output sequence ---- *)
Definition is_frame_of (id : string) (o : out) : bool :=
  match o with OData i | OError i | OComplete i => String.eqb i id | _ => false end.

(** per-operation grammar: data* then (error+ complete? | complete); scanned left to right *)
Inductive opph := GData | GError | GDone.
Fixpoint frames_ok (g : opph) (l : list out) {struct l} : bool :=
  match l with
  | [] => true
  | OData _ :: r => match g with GData => frames_ok GData r | _ => false end
  | OError _ :: r => match g with GData | GError => frames_ok GError r | GDone => false end
  | OComplete _ :: r => match g with GDone => false | _ => frames_ok GDone r end
  | _ :: r => frames_ok g r
  end.
Definition op_frames_ok (id : string) (outs : list out) : bool := frames_ok GData (filter (is_frame_of id) outs).

Fixpoint before_ack_ok (l : list out) {struct l} : bool :=
  match l with
  | [] => true
  | OAck :: _ => true
  | EvExec _ :: _ | OData _ :: _ => false
  | _ :: r => before_ack_ok r
  end.

Definition count_closefunc (l : list out) : nat :=
  List.length (filter (fun o => match o with EvCloseFunc _ => true | _ => false end) l).

Definition ids_of (ls : list label) : list string :=
  flat_map (fun l => match l with LC (CStart id _) => [id] | _ => [] end) ls.

(** no id is started while an operation with that id is still running *)
Fixpoint no_dup_active (c : wcfg) (s : wst) (ls : list label) {struct ls} : bool :=
  match ls with
  | [] => true
  | l :: r =>
      (match l with
       | LC (CStart id SOk) => match ph s with Running => match find_op (ops s) id with Some _ => false | None => true end | _ => true end
       | _ => true
       end) && no_dup_active c (fst (step c s l)) r
  end.
