(** C11: the write discipline of one websocket connection (graphql/handler/transport/websocket.go).  Any number of
    goroutines - the read loop (acknowledgement, pongs, connection errors), one goroutine per running operation
    (results, errors, the completion), the keep-alive / ping / pong-only tickers, closeOnCancel - write frames to
    one connection; [c.write] sends under the connection mutex and [c.close] checks and sets [closed] and writes the
    close frame under it.  A labelled transition system over every interleaving of any number of writers with any
    programs; a write takes two steps (begin, end), so that two writers inside a write at once is a reachable state
    exactly when the discipline allows it.  The two slips the discipline excludes are expressible as operations
    ([WWrite _ _ false]: a frame sent without the lock; [WClose false]: [closed] read before the lock is taken).
    Definitions only. *)
From GV Require Import Base.Prelude Base.Threads.
Open Scope nat_scope.
Open Scope list_scope.

Inductive wframe := FMsg (kind : string) (n : Z) | FClose.

Inductive wop :=
| WWrite (kind : string) (n : Z) (locked : bool)    (* c.write(msg): Lock; me.Send; Unlock *)
| WClose (checked_under_lock : bool)                (* c.close(code, reason) *)
| WLook (unlocks : bool).                           (* Lock; look something up in c.active (stop, the pong flag); Unlock - [unlocks = false]
                                                       is the slip: a path that returns without unlocking *)

Inductive wpc :=
| WIdle
| WHeld        (* holds the mutex, about to act *)
| WWriting     (* holds the mutex, inside conn.WriteMessage *)
| WWrote       (* holds the mutex, about to unlock *)
| WUWriting    (* inside conn.WriteMessage WITHOUT the mutex (slip) *)
| WLeaked.     (* (slip) returned from a call that left the mutex locked *)

Record wthread := {
  t_pc : wpc;
  t_prog : list wop;          (* what the goroutine still has to do *)
  t_forced : bool;            (* (slip) decided to close before taking the lock *)
  t_done : list wframe;       (* ghost: the frames it has written *)
  t_prog0 : list wop }.       (* ghost: its whole program *)

Record wsstate := {
  ws_thr : list wthread;
  ws_closed : bool;
  ws_out : list (nat * wframe);   (* the frames on the wire, each with its writer *)
  ws_cb : nat }.                  (* calls of CloseFunc *)

Definition holding (t : wthread) : bool := match t_pc t with WHeld | WWriting | WWrote | WLeaked => true | _ => false end.
Definition writing (t : wthread) : bool := match t_pc t with WWriting | WUWriting => true | _ => false end.

Definition start_thread (p : list wop) : wthread := {| t_pc := WIdle; t_prog := p; t_forced := false; t_done := []; t_prog0 := p |}.
Definition wsinit (progs : list (list wop)) : wsstate :=
  {| ws_thr := map start_thread progs; ws_closed := false; ws_out := []; ws_cb := 0 |}.

Definition with_pc (t : wthread) (pc : wpc) : wthread :=
  {| t_pc := pc; t_prog := t_prog t; t_forced := t_forced t; t_done := t_done t; t_prog0 := t_prog0 t |}.
Definition with_prog (t : wthread) (pc : wpc) (p : list wop) : wthread :=
  {| t_pc := pc; t_prog := p; t_forced := t_forced t; t_done := t_done t; t_prog0 := t_prog0 t |}.
Definition with_forced (t : wthread) (b : bool) : wthread :=
  {| t_pc := t_pc t; t_prog := t_prog t; t_forced := b; t_done := t_done t; t_prog0 := t_prog0 t |}.
Definition emitted (t : wthread) (pc : wpc) (p : list wop) (f : wframe) : wthread :=
  {| t_pc := pc; t_prog := p; t_forced := false; t_done := t_done t ++ [f]; t_prog0 := t_prog0 t |}.

Definition put (s : wsstate) (i : nat) (t : wthread) : wsstate :=
  {| ws_thr := upd i t (ws_thr s); ws_closed := ws_closed s; ws_out := ws_out s; ws_cb := ws_cb s |}.
Definition put_emit (s : wsstate) (i : nat) (t : wthread) (f : wframe) (closes : bool) : wsstate :=
  {| ws_thr := upd i t (ws_thr s); ws_closed := ws_closed s || closes; ws_out := ws_out s ++ [(i, f)];
     ws_cb := if closes then S (ws_cb s) else ws_cb s |}.

Definition frame_of (o : wop) : wframe := match o with WWrite k n _ => FMsg k n | WClose _ | WLook _ => FClose end.
Definition is_close_op (o : wop) : bool := match o with WClose _ => true | _ => false end.

(** one step of goroutine [i] *)
Definition wsstep (s : wsstate) (i : nat) : option wsstate :=
  match nth_error (ws_thr s) i with
  | None => None
  | Some t =>
      let free := Nat.eqb (count holding (ws_thr s)) 0 in
      match t_pc t with
      | WWrote => Some (put s i (with_pc t WIdle))                                   (* Unlock *)
      | WWriting =>
          match t_prog t with
          | WLook _ :: rest => Some (put s i (with_prog t WWrote rest))              (* (not reachable: a look-up goes from WHeld to WWrote) *)
          | o :: rest => Some (put_emit s i (emitted t WWrote rest (frame_of o)) (frame_of o) (is_close_op o))
          | [] => None
          end
      | WUWriting =>
          match t_prog t with
          | o :: rest => Some (put_emit s i (emitted t WIdle rest (frame_of o)) (frame_of o) (is_close_op o))
          | [] => None
          end
      | WHeld =>
          match t_prog t with
          | WWrite _ _ _ :: _ => Some (put s i (with_pc t WWriting))
          | WClose chk :: rest =>
              if ws_closed s && (chk || negb (t_forced t))
              then Some (put s i (with_prog t WWrote rest))                          (* already closed: unlock, return *)
              else Some (put s i (with_pc t WWriting))
          | WLook unlocks :: rest => Some (put s i (with_prog t (if unlocks then WWrote else WLeaked) rest))
          | [] => None
          end
      | WLeaked => None                                                              (* whatever it does next needs the mutex it holds *)
      | WIdle =>
          match t_prog t with
          | [] => None
          | WWrite _ _ true :: _ => if free then Some (put s i (with_pc t WHeld)) else None     (* Lock *)
          | WWrite _ _ false :: _ => Some (put s i (with_pc t WUWriting))
          | WClose true :: _ => if free then Some (put s i (with_pc t WHeld)) else None
          | WLook _ :: _ => if free then Some (put s i (with_pc t WHeld)) else None
          | WClose false :: rest =>
              if t_forced t then (if free then Some (put s i (with_pc t WHeld)) else None)
              else if ws_closed s then Some (put s i (with_prog t WIdle rest))
              else Some (put s i (with_forced t true))
          end
      end
  end.

Fixpoint wsrun (s : wsstate) (tr : list nat) {struct tr} : option wsstate :=
  match tr with [] => Some s | i :: r => match wsstep s i with Some s' => wsrun s' r | None => None end end.

(** the discipline as written: every frame through [c.write], [closed] read under the lock *)
Definition op_as_written (o : wop) : bool := match o with WWrite _ _ l => l | WClose c => c | WLook u => u end.
Definition progs_as_written (progs : list (list wop)) : bool := forallb (forallb op_as_written) progs.

(** observables *)
Definition writers_inside (s : wsstate) : nat := count writing (ws_thr s).
Definition is_fclose (f : wframe) : bool := match f with FClose => true | _ => false end.
Definition close_frames (s : wsstate) : nat := count (fun x => is_fclose (snd x)) (ws_out s).
Definition proj (i : nat) (out : list (nat * wframe)) : list wframe := map snd (filter (fun x => Nat.eqb (fst x) i) out).
Definition msgs (l : list wframe) : list (string * Z) := flat_map (fun f => match f with FMsg k n => [(k, n)] | FClose => [] end) l.
Definition wmsgs (p : list wop) : list (string * Z) := flat_map (fun o => match o with WWrite k n _ => [(k, n)] | WClose _ | WLook _ => [] end) p.
Definition unfinished (t : wthread) : bool := match t_pc t, t_prog t with WIdle, [] => false | _, _ => true end.
