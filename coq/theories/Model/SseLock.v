(** C05 / C12: the lock discipline of the SSE transport (graphql/handler/transport/sse.go): the handler goroutine
    and the keep-alive goroutine share the response writer and the [done] flag under one mutex.  A labelled
    transition system over every interleaving; the variants are the slips the discipline excludes.
    Definitions only. *)
From GV Require Import Base.Prelude.
Open Scope nat_scope.
Open Scope list_scope.

Inductive tid := TH | TK.
Definition tid_eqb (a b : tid) : bool := match a, b with TH, TH | TK, TK => true | _, _ => false end.

(** what the handler still has to do, each under the lock: write an event (and flush), reset the ticker, mark the
    stream done and write the completion, the deferred final flush *)
Inductive hact := HEvent | HReset | HComplete | HFlush.
Inductive item := IEv | IPing | IComplete.

Inductive kpc := KIdle | KWant | KHold | KEnd.

Record variant := {
  v_done_unlocks : bool;       (* the keep-alive's "stream already completed" branch unlocks before returning *)
  v_check_under_lock : bool;   (* the keep-alive reads [done] while holding the lock *)
  v_events_locked : bool }.    (* the handler writes its events while holding the lock *)
Definition as_written : variant := {| v_done_unlocks := true; v_check_under_lock := true; v_events_locked := true |}.

Record skstate := {
  sk_prog : list hact;          (* the handler's remaining actions *)
  sk_hholds : bool;             (* the handler holds the lock *)
  sk_k : kpc;
  sk_kdecided : bool;           (* (variant) the keep-alive decided to ping before taking the lock *)
  sk_holder : option tid;
  sk_done : bool;
  sk_out : list (item * bool)   (* what was written, and whether the writer held the lock *)
}.

Inductive sklabel := LHandler | LKeepAlive | LTick | LCtxDone.

Definition program (events : nat) : list hact := flat_map (fun _ => [HEvent; HReset]) (seq 0 events) ++ [HComplete; HFlush].
Definition skinit (events : nat) : skstate :=
  {| sk_prog := program events; sk_hholds := false; sk_k := KIdle; sk_kdecided := false; sk_holder := None; sk_done := false; sk_out := [] |}.

Definition set_h (s : skstate) prog holds holder done out : skstate :=
  {| sk_prog := prog; sk_hholds := holds; sk_k := sk_k s; sk_kdecided := sk_kdecided s; sk_holder := holder; sk_done := done; sk_out := out |}.
Definition set_k (s : skstate) k decided holder out : skstate :=
  {| sk_prog := sk_prog s; sk_hholds := sk_hholds s; sk_k := k; sk_kdecided := decided; sk_holder := holder; sk_done := sk_done s; sk_out := out |}.

Definition skstep (v : variant) (s : skstate) (l : sklabel) : option skstate :=
  match l with
  | LHandler =>
      match sk_prog s with
      | [] => None
      | a :: rest =>
          if sk_hholds s then
            (* perform the action and unlock *)
            match a with
            | HEvent => Some (set_h s rest false None (sk_done s) (sk_out s ++ [(IEv, true)]))
            | HReset | HFlush => Some (set_h s rest false None (sk_done s) (sk_out s))
            | HComplete => Some (set_h s rest false None true (sk_out s ++ [(IComplete, true)]))
            end
          else match a, v_events_locked v with
               | HEvent, false => Some (set_h s rest false (sk_holder s) (sk_done s) (sk_out s ++ [(IEv, false)]))   (* written without the lock *)
               | _, _ => match sk_holder s with
                         | None => Some (set_h s (a :: rest) true (Some TH) (sk_done s) (sk_out s))
                         | Some _ => None                                                (* blocked in Lock() *)
                         end
               end
      end
  | LTick =>
      match sk_k s with
      | KIdle => if v_check_under_lock v then Some (set_k s KWant false (sk_holder s) (sk_out s))
                 else if sk_done s then Some (set_k s KEnd false (sk_holder s) (sk_out s))
                 else Some (set_k s KWant true (sk_holder s) (sk_out s))
      | _ => None
      end
  | LCtxDone => match sk_k s with KIdle => Some (set_k s KEnd false (sk_holder s) (sk_out s)) | _ => None end
  | LKeepAlive =>
      match sk_k s with
      | KWant => match sk_holder s with
                 | None => Some (set_k s KHold (sk_kdecided s) (Some TK) (sk_out s))
                 | Some _ => None
                 end
      | KHold =>
          if sk_done s && negb (sk_kdecided s)
          then Some (set_k s KEnd false (if v_done_unlocks v then None else Some TK) (sk_out s))
          else Some (set_k s KIdle false None (sk_out s ++ [(IPing, true)]))
      | _ => None
      end
  end.

Fixpoint skrun (v : variant) (s : skstate) (tr : list sklabel) {struct tr} : option skstate :=
  match tr with [] => Some s | l :: r => match skstep v s l with Some s' => skrun v s' r | None => None end end.

(** nothing but pings... nothing at all after the completion *)
Fixpoint nothing_after_complete (l : list (item * bool)) {struct l} : bool :=
  match l with
  | [] => true
  | (IComplete, _) :: r => match r with [] => true | _ => false end
  | _ :: r => nothing_after_complete r
  end.
Definition handler_finished (s : skstate) : bool := match sk_prog s with [] => true | _ => false end.
