(** Model of argument and input-object coercion in a generated executor (args.gotpl, input.gotpl,
    type.gotpl unmarshalers, graphql.CoerceList) next to the specification's CoerceArgumentValues /
    input coercion.  The values are those gqlparser hands over after validation, ArgumentMap and
    VariableValues (trusted).  Definitions only. *)
From GV Require Import Base.Prelude.
From Coq Require Import DecimalString.
Open Scope string_scope.
Open Scope list_scope.

(** decoded input values *)
Inductive ival :=
| VNull | VInt (z : Z) | VStr (s : string) | VBool (b : bool) | VEnum (s : string) | VFloat (id : string)
| VList (l : list ival) | VObj (fields : list (string * ival)).

(** what a resolver receives, with absence made explicit *)
Inductive aval :=
| AOmitted | ANull | AInt (z : Z) | AStr (s : string) | ABool (b : bool) | AEnum (s : string) | AFloat (id : string)
| AList (l : list aval) | AObj (fields : list (string * aval)).

Inductive ity := TyNamed (n : string) (nn : bool) | TyList (e : ity) (nn : bool).
Definition ity_nn (t : ity) : bool := match t with TyNamed _ b | TyList _ b => b end.

Record ifield := { if_name : string; if_type : ity; if_default : option ival;
                   if_omittable : bool }.   (* the Go field is graphql.Omittable[...] *)
Inductive named_kind := NScalar | NEnum (values : list string) | NInput (fields : list ifield).
Definition ischema := list (string * named_kind).

Fixpoint lookup_named (s : ischema) (n : string) {struct s} : option named_kind :=
  match s with [] => None | (m, k) :: r => if String.eqb m n then Some k else lookup_named r n end.
Fixpoint lookup_val (l : list (string * ival)) (k : string) {struct l} : option ival :=
  match l with [] => None | (m, v) :: r => if String.eqb m k then Some v else lookup_val r k end.

Inductive cres := COk (a : aval) | CErr (path : list string).
Definition string_of_nat (n : nat) : string := NilEmpty.string_of_uint (Nat.to_uint n).
Definition string_of_Z (z : Z) : string := NilZero.string_of_int (Z.to_int z).
(** scalar leaves: ID accepts integers and renders them in decimal (UnmarshalID) *)
Definition coerce_leaf (n : string) (v : ival) : option aval :=
  match v with
  | VInt z => if String.eqb n "ID" then Some (AStr (string_of_Z z)) else Some (AInt z)
  | VStr s => (* the probe's user scalar Fragile refuses the text "bad" (a failure only the unmarshaler can report) *)
              if String.eqb n "Fragile" && String.eqb s "bad" then None else Some (AStr s)
  | VBool b => Some (ABool b)
  | VEnum s => Some (AStr s) | VFloat i => Some (AFloat i)
  | _ => None
  end.

(** * The specification (GraphQL, input coercion) and gqlgen's coercion.
    The loops over list items and over input fields are generic in the coercion of one item. *)

(** specification: every item is coerced; the leftmost error is reported with its index *)
Fixpoint spec_list_go (c : ival -> cres) (i : nat) (l : list ival) {struct l} : cres :=
  match l with
  | [] => COk (AList [])
  | x :: r => match c x, spec_list_go c (S i) r with
              | COk a, COk (AList b) => COk (AList (a :: b))
              | CErr p, _ => CErr (string_of_nat i :: p)
              | _, CErr p => CErr p
              | _, _ => CErr []
              end
  end.
(** gqlgen (type.gotpl): stops at the first error, the path has the index *)
Fixpoint impl_list_go (c : ival -> cres) (i : nat) (l : list ival) {struct l} : cres :=
  match l with
  | [] => COk (AList [])
  | x :: r => match c x with
              | CErr p => CErr (string_of_nat i :: p)
              | COk a => match impl_list_go c (S i) r with
                         | COk (AList b) => COk (AList (a :: b))
                         | CErr p => CErr p
                         | _ => CErr []
                         end
              end
  end.

(** specification: a field that is not provided takes its default, else is omitted (error if non-null) *)
Fixpoint spec_obj_go (c : ity -> ival -> cres) (provided : list (string * ival)) (fs : list ifield) {struct fs} : cres :=
  match fs with
  | [] => COk (AObj [])
  | fd :: r =>
      let this :=
        match lookup_val provided (if_name fd) with
        | Some x => c (if_type fd) x
        | None => match if_default fd with
                  | Some d => c (if_type fd) d
                  | None => if ity_nn (if_type fd) then CErr [] else COk AOmitted
                  end
        end in
      match this, spec_obj_go c provided r with
      | COk a, COk (AObj b) => COk (AObj ((if_name fd, a) :: b))
      | CErr p, _ => CErr (if_name fd :: p)
      | _, CErr p => CErr p
      | _, _ => CErr []
      end
  end.
(** gqlgen (input.gotpl): copy the map, inject the defaults of ABSENT keys, walk the fields in declaration
    order and unmarshal the keys that are present; an absent key leaves the Go zero value - nil for a
    pointer (indistinguishable from null), "not set" for an Omittable. *)
Fixpoint impl_obj_go (c : ity -> ival -> cres) (provided : list (string * ival)) (fs : list ifield) {struct fs} : cres :=
  match fs with
  | [] => COk (AObj [])
  | fd :: r =>
      match (match lookup_val provided (if_name fd) with Some x => Some x | None => if_default fd end) with
      | None =>
          match impl_obj_go c provided r with
          | COk (AObj b) => COk (AObj ((if_name fd, if if_omittable fd then AOmitted else ANull) :: b))
          | other => other
          end
      | Some x =>
          match c (if_type fd) x with
          | CErr p => CErr (if_name fd :: p)
          | COk a => match impl_obj_go c provided r with
                     | COk (AObj b) => COk (AObj ((if_name fd, a) :: b))
                     | other => other
                     end
          end
      end
  end.

Section Coerce.
  Variable sch : ischema.

  Definition coerce_named (n : string) (rec : ity -> ival -> cres) (objgo : (ity -> ival -> cres) -> list (string * ival) -> list ifield -> cres)
             (v : ival) : cres :=
    match lookup_named sch n with
    | Some (NInput fields) => match v with VObj provided => objgo rec provided fields | _ => CErr [] end
    | Some (NEnum values) =>
        match v with
        | VEnum s | VStr s => if existsb (String.eqb s) values then COk (AEnum s) else CErr []
        | _ => CErr []
        end
    | _ => match coerce_leaf n v with Some a => COk a | None => CErr [] end
    end.

  Fixpoint coerce_spec (fuel : nat) (t : ity) (v : ival) {struct fuel} : cres :=
    match fuel with
    | O => CErr ["fuel"]
    | S f =>
        match v with
        | VNull => if ity_nn t then CErr [] else COk ANull
        | _ =>
            match t with
            | TyList e _ => spec_list_go (coerce_spec f e) O (match v with VList l => l | _ => [v] end)   (* a single value is a list of one *)
            | TyNamed n _ => coerce_named n (coerce_spec f) spec_obj_go v
            end
        end
    end.

  Fixpoint coerce_impl (fuel : nat) (t : ity) (v : ival) {struct fuel} : cres :=
    match fuel with
    | O => CErr ["fuel"]
    | S f =>
        match v with
        | VNull => if ity_nn t then CErr [] else COk ANull      (* validation refuses null for non-null; nilable shortcut *)
        | _ =>
            match t with
            | TyList e _ => impl_list_go (coerce_impl f e) O (match v with VList l => l | _ => [v] end)   (* graphql.CoerceList *)
            | TyNamed n _ => coerce_named n (coerce_impl f) impl_obj_go v
            end
        end
    end.
End Coerce.

(** What validation has established about a value before gqlgen sees it: every non-null input field
    without default is provided (recursively).  Executable, same recursion as the coercions. *)
Section Valid.
  Variable sch : ischema.
  Fixpoint valid_in (fuel : nat) (t : ity) (v : ival) {struct fuel} : bool :=
    match fuel with
    | O => true
    | S f =>
        match v with
        | VNull => true
        | _ =>
            match t with
            | TyList e _ => forallb (valid_in f e) (match v with VList l => l | _ => [v] end)
            | TyNamed n _ =>
                match lookup_named sch n, v with
                | Some (NInput fields), VObj provided =>
                    forallb (fun fd =>
                      match lookup_val provided (if_name fd) with
                      | Some x => valid_in f (if_type fd) x
                      | None => match if_default fd with
                                | Some d => valid_in f (if_type fd) d
                                | None => negb (ity_nn (if_type fd))
                                end
                      end) fields
                | _, _ => true
                end
            end
        end
    end.
End Valid.

(** An argument of a field: args.gotpl leaves the zero value when the key is absent from the map
    gqlparser's ArgumentMap built (which has already applied the argument's default). *)
Definition arg_impl (sch : ischema) (t : ity) (provided : option ival) : cres :=
  match provided with
  | None => COk ANull           (* zero value of the nilable Go type; non-null arguments are always present *)
  | Some v => coerce_impl sch 50 t v
  end.
Definition arg_spec (sch : ischema) (t : ity) (provided : option ival) : cres :=
  match provided with
  | None => if ity_nn t then CErr [] else COk AOmitted
  | Some v => coerce_spec sch 50 t v
  end.

(** What the Go representation can show of an abstract value: without Omittable, "omitted" is nil. *)
Fixpoint repr (sch : ischema) (fuel : nat) (t : ity) (omittable : bool) (a : aval) {struct fuel} : aval :=
  match fuel with
  | O => a
  | S f =>
      match a with
      | AOmitted => if omittable then AOmitted else ANull
      | AList l => match t with TyList e _ => AList (map (repr sch f e false) l) | _ => a end
      | AObj fs =>
          match t with
          | TyNamed n _ =>
              match lookup_named sch n with
              | Some (NInput defs) =>
                  AObj (map (fun kv => match find (fun fd => String.eqb (if_name fd) (fst kv)) defs with
                                       | Some fd => (fst kv, repr sch f (if_type fd) (if_omittable fd) (snd kv))
                                       | None => kv end) fs)
              | _ => a
              end
          | _ => a
          end
      | _ => a
      end
  end.
