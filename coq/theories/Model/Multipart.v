(** C12 (multipart/mixed): the response aggregator of http_multipart_mixed.go - payloads are added by the event
    loop, flushed by a ticker goroutine and once more by Done - and what it writes, as a stream of tokens
    (boundary lines, part header, JSON bodies, CRLF), with a parser of such streams.  Definitions only. *)
From GV Require Import Base.Prelude.
Open Scope list_scope.

Record payload := { p_id : nat; p_hasnext : bool (* HasNext != nil && *HasNext *) }.

Inductive mact := MAdd (p : payload) | MTick | MDone.

Record mst := { m_first : bool (* the next Add is the initial response *);
                m_initial : option payload; m_deferred : list payload }.
Definition m0 : mst := {| m_first := true; m_initial := None; m_deferred := [] |}.

Inductive tok :=
| TBoundary          (* --B CRLF *)
| TClosing           (* --B-- CRLF *)
| THeader            (* Content-Type: application/json CRLF CRLF *)
| TInitial (p : payload)                          (* the initial response as JSON *)
| TIncremental (ps : list payload) (hn : bool)    (* {"incremental":[...],"hasNext":hn} *)
| TFinal                                          (* {"hasNext":false}: the part that ends a stream left open *)
| TCRLF.

Definition last_hn (s : mst) : bool :=
  match rev (m_deferred s) with
  | p :: _ => p_hasnext p
  | [] => match m_initial s with Some p => p_hasnext p | None => false end
  end.

(** flush(): nothing when nothing is pending; otherwise the pending initial response (with its leading
    boundary) and/or the pending incremental batch, then the delimiter - closing iff the last payload written
    says hasNext false *)
Definition flush_toks (s : mst) : list tok :=
  match m_initial s, m_deferred s with
  | None, [] => []
  | _, _ =>
      (match m_initial s with
       | Some p => [TBoundary; THeader; TInitial p] ++ (match m_deferred s with [] => [] | _ => [TCRLF; TBoundary] end)
       | None => []
       end) ++
      (match m_deferred s with [] => [] | d => [THeader; TIncremental d (last_hn s)] end) ++
      [TCRLF; if last_hn s then TBoundary else TClosing]
  end.

Definition flushed (s : mst) : mst := {| m_first := m_first s; m_initial := None; m_deferred := [] |}.

Definition mstep (s : mst) (a : mact) : mst * list tok :=
  match a with
  | MAdd p => if m_first s then ({| m_first := false; m_initial := Some p; m_deferred := m_deferred s |}, [])
              else ({| m_first := false; m_initial := m_initial s; m_deferred := m_deferred s ++ [p] |}, [])
  | MTick | MDone => (flushed s, flush_toks s)
  end.

Fixpoint mrun (s : mst) (acts : list mact) {struct acts} : list tok :=
  match acts with
  | [] => []
  | a :: r => let (s', o) := mstep s a in o ++ mrun s' r
  end.

(** Done: the last flush; then, when the last delimiter written was not the closing boundary (the operation ended
    after a payload that announced more - its context ended, say), one more part that says nothing follows, and the
    closing boundary *)
Definition ends_open (l : list tok) : bool := match rev l with TBoundary :: _ => true | _ => false end.
Definition close_toks : list tok := [THeader; TFinal; TCRLF; TClosing].
Definition mrun_done (acts : list mact) : list tok :=
  let t := mrun m0 (acts ++ [MDone]) in if ends_open t then t ++ close_toks else t.

(** ---- parsing a token stream into parts ---- *)
Inductive body := BInitial (p : payload) | BIncr (ps : list payload) (hn : bool) | BFinal.
Inductive pstate := ExpBoundary | ExpHeader | PClosed.

Definition cons_body (b : body) (o : option (list body * pstate)) : option (list body * pstate) :=
  match o with Some (l, st) => Some (b :: l, st) | None => None end.

Fixpoint parse_toks (st : pstate) (l : list tok) {struct l} : option (list body * pstate) :=
  match l with
  | [] => Some ([], st)
  | t :: r =>
      match st, t with
      | ExpBoundary, TBoundary => parse_toks ExpHeader r
      | ExpHeader, THeader =>
          match r with
          | TInitial p :: TCRLF :: TBoundary :: r' => cons_body (BInitial p) (parse_toks ExpHeader r')
          | TInitial p :: TCRLF :: TClosing :: r' => cons_body (BInitial p) (parse_toks PClosed r')
          | TIncremental ps hn :: TCRLF :: TBoundary :: r' => cons_body (BIncr ps hn) (parse_toks ExpHeader r')
          | TIncremental ps hn :: TCRLF :: TClosing :: r' => cons_body (BIncr ps hn) (parse_toks PClosed r')
          | TFinal :: TCRLF :: TClosing :: r' => cons_body BFinal (parse_toks PClosed r')
          | _ => None
          end
      | _, _ => None        (* in particular: anything after the closing boundary *)
      end
  end.

(** what the parts deliver *)
Definition initial_of (bs : list body) : list payload := flat_map (fun b => match b with BInitial p => [p] | _ => [] end) bs.
Definition incrementals_of (bs : list body) : list payload := flat_map (fun b => match b with BIncr ps _ => ps | _ => [] end) bs.

Definition adds (acts : list mact) : list payload := flat_map (fun a => match a with MAdd p => [p] | _ => [] end) acts.

(** an operation's payload sequence: hasNext is true on all but the last *)
Fixpoint hn_pattern (ps : list payload) {struct ps} : bool :=
  match ps with
  | [] => false
  | [p] => negb (p_hasnext p)
  | p :: r => p_hasnext p && hn_pattern r
  end.
