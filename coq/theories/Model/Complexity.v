(** Model of complexity/complexity.go (safeAdd and the selection-set walker) and of the
    ComplexityLimit gate in graphql/handler/extension/complexity.go.  Definitions only. *)
From GV Require Import Base.Prelude.

(** safeAdd, with Go's [int] addition written as [wrap64]. *)
Definition safe_add (a b : Z) : Z :=
  if a <? 0 then (if b <? 0 then 1 else b)
  else if b <? 0 then a
  else let c := wrap64 (a + b) in
       if c <? a then maxInt else c.

(** The documented saturating addition of two non-negative costs. *)
Definition sat_add (a b : Z) : Z := Z.min maxInt (a + b).

(** A validated selection as the walker sees it.  [CField iface obj fld is_schema composite arg sels]:
    [iface] = the enclosing definition is an interface; [is_schema] = the field's type is __Schema
    (skipped); [composite] = the field's type is object/interface/union; [arg] = the integer argument the
    probe custom functions may read (already resolved through variables by gqlparser). *)
Inductive csel :=
| CField (iface : bool) (obj fld : string) (is_schema composite : bool) (arg : option Z) (sels : list csel)
| CFrag (sels : list csel).

Section Walker.
  (** es.Complexity(ctx, object, field, childComplexity, args): user code, an oracle. *)
  Variable custom : string -> string -> Z -> option Z -> option Z.
  (** schema.GetPossibleTypes for an interface. *)
  Variable impls : string -> list string.

  Definition field_cx (obj fld : string) (child : Z) (arg : option Z) : Z :=
    match custom obj fld child arg with
    | Some v => if v >=? child then v else safe_add 1 child
    | None => safe_add 1 child
    end.

  Definition iface_cx (obj fld : string) (child : Z) (arg : option Z) : Z :=
    fold_left (fun m t => let c := field_cx t fld child arg in if c >? m then c else m) (impls obj) 0.

  (** One iteration of the loop in selectionSetComplexity: [acc] is the running [complexity].
  (NB: always give [{struct s}]: without it Coq first tries [acc : Z] as the decreasing argument and
      the guard checker unfolds [wrap64] exhaustively before giving up -- minutes.) *)
  Fixpoint sel_cx (acc : Z) (s : csel) {struct s} : Z :=
    match s with
    | CField iface obj fld is_schema composite arg sels =>
        if is_schema then acc
        else
          let child := if composite then fold_left sel_cx sels 0 else 0 in
          let fc := if iface then iface_cx obj fld child arg else field_cx obj fld child arg in
          safe_add acc fc
    | CFrag sels => safe_add acc (fold_left sel_cx sels 0)
    end.

  Definition sels_cx (l : list csel) : Z := fold_left sel_cx l 0.

  (** The documented definition, with plain saturating addition of non-negative costs. *)
  Definition spec_field (obj fld : string) (child : Z) (arg : option Z) : Z :=
    match custom obj fld child arg with
    | Some v => if v >=? child then v else sat_add 1 child
    | None => sat_add 1 child
    end.

  Definition spec_iface (obj fld : string) (child : Z) (arg : option Z) : Z :=
    fold_right (fun t m => Z.max (spec_field t fld child arg) m) 0 (impls obj).

  Fixpoint spec_sel (s : csel) {struct s} : Z :=
    match s with
    | CField iface obj fld is_schema composite arg sels =>
        if is_schema then 0
        else
          let child := if composite then fold_right (fun x r => sat_add (spec_sel x) r) 0 sels else 0 in
          if iface then spec_iface obj fld child arg else spec_field obj fld child arg
    | CFrag sels => fold_right (fun x r => sat_add (spec_sel x) r) 0 sels
    end.

  Definition spec_sels (l : list csel) : Z := fold_right (fun x r => sat_add (spec_sel x) r) 0 l.
End Walker.

(** The gate in ComplexityLimit.MutateOperationContext. *)
Inductive gate := Reject | Accept.
Definition limit_gate (cx limit : Z) : gate := if cx >? limit then Reject else Accept.

(** Executable family of custom functions used by the correspondence harness (the Go side
    implements the same table with Go [int] arithmetic, hence the explicit wraps). *)
Inductive cfun :=
| CNone                (* (0,false) *)
| CConst (k : Z)
| CAddChild (k : Z)    (* child + k *)
| CMulChild (k : Z)    (* child * k *)
| CArgMul.             (* arg * (child+1), arg absent = 1 *)

Definition eval_cfun (f : cfun) (child : Z) (arg : option Z) : option Z :=
  match f with
  | CNone => None
  | CConst k => Some k
  | CAddChild k => Some (wrap64 (child + k))
  | CMulChild k => Some (wrap64 (child * k))
  | CArgMul => Some (wrap64 ((match arg with Some a => a | None => 1 end) * wrap64 (child + 1)))
  end.

Fixpoint lookup2 {A} (tbl : list (string * string * A)) (o f : string) : option A :=
  match tbl with
  | [] => None
  | (o', f', a) :: r => if (String.eqb o o' && String.eqb f f')%bool then Some a else lookup2 r o f
  end.

Definition table_custom (tbl : list (string * string * cfun)) : string -> string -> Z -> option Z -> option Z :=
  fun o f child arg => match lookup2 tbl o f with Some c => eval_cfun c child arg | None => None end.

Fixpoint lookup1 {A} (tbl : list (string * A)) (o : string) : option A :=
  match tbl with
  | [] => None
  | (o', a) :: r => if String.eqb o o' then Some a else lookup1 r o
  end.
Definition table_impls (tbl : list (string * list string)) : string -> list string :=
  fun o => match lookup1 tbl o with Some l => l | None => [] end.
