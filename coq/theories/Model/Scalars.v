(** Model of graphql/string.go, int.go, uint.go, id.go, bool.go, float.go (decision logic), jsonw.go and
    FieldSet.MarshalGQL.  Definitions only. *)
From GV Require Import Base.Prelude Base.Utf8 Base.Json.
Open Scope N_scope.

(** ** writeQuotedString *)
Definition hexdigit (n : N) : N := if n <? 10 then 48 + n else 55 + n.   (* encodeHex = 0123456789ABCDEF *)

(** [fixed = true]: the escaper after the repair (an offending byte is written as the escape for
    U+FFFD, as encoding/json does); [fixed = false]: the escaper as it was (byte copied verbatim). *)
Definition escape_chunk (fixed : bool) (c : chunk) : bytes :=
  match c with
  | CAscii b =>
      if b =? 9 then [92; 116] else if b =? 13 then [92; 114] else if b =? 10 then [92; 110]
      else if b =? 92 then [92; 92] else if b =? 34 then [92; 34]
      else if b <? 32 then [92; 117; 48; 48; hexdigit (b / 16); hexdigit (b mod 16)]
      else [b]
  | CMulti _ raw => raw
  | CBad b => if fixed then [92; 117; 102; 102; 102; 100] else [b]
  end.

Definition write_quoted_gen (fixed : bool) (s : bytes) : bytes :=
  34 :: flat_map (escape_chunk fixed) (chunks s) ++ [34].
Definition write_quoted : bytes -> bytes := write_quoted_gen true.
Definition write_quoted_legacy : bytes -> bytes := write_quoted_gen false.

(** ** strconv.FormatInt / FormatUint (base 10) and strconv.ParseInt / ParseUint, as used here. *)
Open Scope Z_scope.
Fixpoint digits_fuel (fuel : nat) (n : Z) (acc : bytes) {struct fuel} : bytes :=
  match fuel with
  | O => acc
  | S f => let acc' := Z.to_N (48 + n mod 10) :: acc in
           if n <? 10 then acc' else digits_fuel f (n / 10) acc'
  end.
(** 20 digits cover every 64-bit value; theorems are stated for |z| < 10^20. *)
Definition format_nonneg (n : Z) : bytes := digits_fuel 20 n [].
Definition format_Z (z : Z) : bytes := if z <? 0 then 45%N :: format_nonneg (- z) else format_nonneg z.

Fixpoint digits_val (acc : Z) (l : bytes) {struct l} : option Z :=
  match l with
  | [] => Some acc
  | b :: r => if is_digit b then digits_val (acc * 10 + (Z.of_N b - 48)) r else None
  end.

(** strconv.ParseInt(s, 10, 64) / Atoi: optional sign, at least one digit, range check. *)
Definition parse_int (lo hi : Z) (s : bytes) : outcome Z :=
  let '(neg, ds) := match s with
                    | b :: r => if (b =? 45)%N then (true, r) else if (b =? 43)%N then (false, r) else (false, s)
                    | [] => (false, s)
                    end in
  match ds with
  | [] => Err "syntax"
  | _ => match digits_val 0 ds with
         | None => Err "syntax"
         | Some v => let v' := if neg then - v else v in
                     if (lo <=? v') && (v' <=? hi) then Ok v' else Err "range"
         end
  end.
(** strconv.ParseUint(s, 10, 64): no sign at all. *)
Definition parse_uint (hi : Z) (s : bytes) : outcome Z :=
  match s with
  | [] => Err "syntax"
  | _ => match digits_val 0 s with
         | None => Err "syntax"
         | Some v => if v <=? hi then Ok v else Err "range"
         end
  end.

Definition maxI64 := maxInt.
Definition minI64 := minInt.
Definition maxU64 := two64 - 1.
Definition maxI32 := two31 - 1.
Definition minI32 := - two31.
Definition maxU32 := two32 - 1.

(** ** The dynamic values Go hands to an unmarshaler. *)
Inductive goval :=
| GString (s : bytes)
| GInt (z : Z)        (* int   *)
| GInt64 (z : Z)
| GInt32 (z : Z)
| GUint32 (z : Z)
| GUint64 (z : Z)
| GNumber (s : bytes) (* json.Number *)
| GFloat (whole : option Z)  (* float64; [Some z] when it is integral with that value, else abstract *)
| GBool (b : bool)
| GNil
| GOther.             (* map, slice, ... *)

Definition type_err : outcome Z := Err "type".

Definition unmarshal_int (v : goval) : outcome Z :=
  match v with
  | GString s => parse_int minI64 maxI64 s
  | GInt z => Ok z
  | GInt64 z => Ok z                       (* int(v) on a 64-bit platform *)
  | GNumber s => parse_int minI64 maxI64 s
  | GNil => Ok 0
  | _ => type_err
  end.
Definition unmarshal_int64 := unmarshal_int.

Definition safe_cast_i32 (z : Z) : outcome Z := if (z >? maxI32) || (z <? minI32) then Err "overflow32" else Ok z.
Definition unmarshal_int32 (v : goval) : outcome Z :=
  match v with
  | GString s | GNumber s => obind (parse_int minI64 maxI64 s) safe_cast_i32
  | GInt z | GInt64 z => safe_cast_i32 z
  | GNil => Ok 0
  | _ => type_err
  end.

Definition unmarshal_uint64 (v : goval) : outcome Z :=
  match v with
  | GString s | GNumber s => parse_uint maxU64 s      (* error kinds (sign / syntax) are not distinguished *)
  | GInt z | GInt64 z => if z <? 0 then Err "sign" else Ok z
  | GNil => Ok 0
  | _ => type_err
  end.
Definition unmarshal_uint := unmarshal_uint64.

Definition safe_cast_u32 (z : Z) : outcome Z := if z >? maxU32 then Err "overflow32" else Ok z.
Definition unmarshal_uint32 (v : goval) : outcome Z :=
  match v with
  | GString s | GNumber s => obind (parse_uint maxU64 s) safe_cast_u32
  | GInt z | GInt64 z => if z <? 0 then Err "sign" else safe_cast_u32 z
  | GNil => Ok 0
  | _ => type_err
  end.

Definition unmarshal_int_id (v : goval) : outcome Z :=
  match v with
  | GString s | GNumber s => parse_int minI64 maxI64 s
  | GInt z | GInt64 z => Ok z
  | _ => type_err
  end.

(** UnmarshalUintID.  [fixed = false] is the function as it was: uint(v) on a negative int wraps. *)
Definition unmarshal_uint_id_gen (fixed : bool) (v : goval) : outcome Z :=
  match v with
  | GString s | GNumber s => parse_uint maxU64 s
  | GInt z | GInt64 z | GInt32 z =>
      if fixed then (if z <? 0 then Err "sign" else Ok z) else Ok (to_u64 z)
  | GUint32 z | GUint64 z => Ok z
  | _ => type_err
  end.
Definition unmarshal_uint_id := unmarshal_uint_id_gen true.
Definition unmarshal_uint_id_legacy := unmarshal_uint_id_gen false.

(** The mathematical integer an input denotes, when it denotes one. *)
Definition num_of (v : goval) : option Z :=
  match v with
  | GString s | GNumber s =>
      match parse_int (- (10 ^ 30)) (10 ^ 30) s with Ok z => Some z | _ => None end
  | GInt z | GInt64 z | GInt32 z | GUint32 z | GUint64 z => Some z
  | GFloat w => w
  | _ => None
  end.

(** Marshalers: Int/Int32/Int64/Uint* write the decimal token; the ID forms write it quoted. *)
Definition marshal_int (z : Z) : bytes := format_Z z.
Definition marshal_int_id (z : Z) : bytes := write_quoted (format_Z z).

Definition marshal_bool (b : bool) : bytes :=
  if b then [116; 114; 117; 101]%N else [102; 97; 108; 115; 101]%N.

(** MarshalFloatContext: decision logic only (the %g text is library output). *)
Inductive fclass := FFinite | FInf | FNaN.
Definition float_context_ok (c : fclass) : bool := match c with FFinite => true | _ => false end.

(** ** Array.MarshalGQL and FieldSet.MarshalGQL over already-rendered children. *)
Fixpoint join_comma (l : list bytes) {struct l} : bytes :=
  match l with
  | [] => []
  | [x] => x
  | x :: r => x ++ 44%N :: join_comma r
  end.
Definition write_array (children : list bytes) : bytes := 91%N :: join_comma children ++ [93%N].
Definition write_fieldset (fields : list (bytes * bytes)) : bytes :=
  123%N :: join_comma (map (fun kv => write_quoted (fst kv) ++ 58%N :: snd kv) fields) ++ [125%N].
