(** C19: regeneration of resolver files (plugin/resolvergen + internal/rewrite) at the level the rewriter works
    at: a package is a list of files, a file a list of top-level declarations with their source text; the
    generator re-emits the resolver methods the schema still calls for with the previous body and doc comment,
    and the rest of each regenerated file inside the trailing warning block.  Also the two byte-level pieces
    the promise rests on: slicing a method body out of the source by offsets, and the lexical shape of the
    warning block.  Definitions only. *)
From GV Require Import Base.Prelude.
Open Scope string_scope.

Inductive dkind := KMethod (recv name : string) | KFunc (name : string) | KType (name : string) | KImport | KOther.

Record decl := { d_kind : dkind;
                 d_doc : string   (* CommentGroup.Text() of the doc comment, trimmed *);
                 d_rawdoc : string (* the lines of the doc comment as written, comment markers removed *);
                 d_body : string  (* for methods: the bytes strictly between the braces, trimmed *);
                 d_results : string (* for methods: the result list as written, names included *);
                 d_src : string   (* the bytes from Pos() to End() *) }.

Record rfile := { f_name : string; f_imports : list (string * string); f_decls : list decl;
                  f_remaining : option string (* code inside the trailing warning block, if there is one *) }.

(** what the schema calls for after the change, per resolver file *)
Record live := { l_file : string; l_methods : list (string * string) (* receiver struct, method *);
                 l_structs : list string (* generated resolver struct types *);
                 l_access : list string (* accessor methods on the root Resolver *);
                 l_root : bool (* single-file layout: the file also gets the root resolver type emitted again *) }.

Definition is_method (recv name : string) (d : decl) : bool :=
  match d_kind d with KMethod r n => String.eqb r recv && String.eqb n name | _ => false end.

(** GetPrevDecl: the first method with that receiver and name in any file of the package *)
Definition prev_decl (before : list rfile) (recv name : string) : option decl :=
  find (is_method recv name) (flat_map f_decls before).

(** declarations carried into the new files (Rewriter.copied): resolver methods the schema still has, the
    generated struct types, the accessors on the root resolver *)
Definition copied (lv : list live) (d : decl) : bool :=
  match d_kind d with
  | KMethod r n =>
      existsb (fun l => existsb (fun m => String.eqb (fst m) r && String.eqb (snd m) n) (l_methods l)) lv
      || (String.eqb r "Resolver" && existsb (fun l => existsb (String.eqb n) (l_access l)) lv)
  | KType n => existsb (fun l => existsb (String.eqb n) (l_structs l)) lv
               (* the root type, while it still is the bare declaration the template emits (MarkEmptyStructCopied) *)
               || (existsb l_root lv && String.eqb (d_src d) ("type " ++ n ++ " struct{}") && String.eqb (d_rawdoc d) ""
                   && String.eqb n "Resolver")
  | _ => false
  end.

Definition is_import (d : decl) : bool := match d_kind d with KImport => true | _ => false end.

Fixpoint join (sep : string) (l : list string) {struct l} : string :=
  match l with [] => "" | [x] => x | x :: r => x ++ sep ++ join sep r end.

(** RemainingSource: every declaration of the file that was neither carried over nor an import, in order *)
Definition left_over (lv : list live) (f : rfile) : list decl :=
  filter (fun d => negb (copied lv d) && negb (is_import d)) (f_decls f).
(** (source texts are carried in an escaped form in which a line break is the two characters backslash n) *)
Definition remaining_source (lv : list live) (f : rfile) : string := join "\n" (map d_src (left_over lv f)).

(** substring test on source texts *)
Fixpoint contains (p s : string) {struct s} : bool :=
  String.prefix p s || match s with EmptyString => false | String _ r => contains p r end.

(** ---- byte level 1: GetMethodBody slices the source between the braces ---- *)
Definition slice {A} (l : list A) (from to : nat) : list A := firstn (to - from) (skipn from l).
(** [lbrace] = offset of Body.Pos(), [rbrace_end] = offset of Body.End() (one past the closing brace) *)
Definition method_body_bytes {A} (src : list A) (lbrace rbrace_end : nat) : list A := slice src (lbrace + 1) (rbrace_end - 1).

(** strings.TrimSpace on byte lists (ASCII white space) *)
Definition is_space (b : N) : bool := (N.eqb b 32 || N.eqb b 9 || N.eqb b 10 || N.eqb b 13 || N.eqb b 11 || N.eqb b 12)%bool.
Fixpoint trim_left (l : bytes) {struct l} : bytes :=
  match l with [] => [] | b :: r => if is_space b then trim_left r else l end.
Definition trim (l : bytes) : bytes := rev (trim_left (rev (trim_left l))).

(** ---- byte level 2: the warning block must lex as comments only ---- *)
Definition SLASH : N := 47. Definition STAR : N := 42. Definition NL : N := 10.

(** does the text contain the end marker of a block comment *)
Fixpoint has_block_end (l : bytes) {struct l} : bool :=
  match l with
  | a :: ((b :: _) as r) => (N.eqb a STAR && N.eqb b SLASH) || has_block_end r
  | _ => false
  end.

(** prefixLines "// ": the prefix before the text and after every line break *)
Fixpoint prefix_lines (l : bytes) {struct l} : bytes :=
  match l with
  | [] => []
  | b :: r => if N.eqb b NL then b :: SLASH :: SLASH :: 32%N :: prefix_lines r else b :: prefix_lines r
  end.

(** the block the repaired template emits, and the one of the pinned commit *)
Definition warning_block (fixed : bool) (code : bytes) : bytes :=
  if fixed && has_block_end code
  then SLASH :: SLASH :: 32%N :: prefix_lines code ++ [NL]
  else SLASH :: STAR :: NL :: code ++ [NL; STAR; SLASH; NL].

(** a scanner of Go source that accepts white space, line comments and block comments only *)
Inductive lexst := LCode | LSlash | LLine | LBlock | LBlockStar.
Definition lex_step (st : lexst) (b : N) : option lexst :=
  match st with
  | LCode => if is_space b then Some LCode else if N.eqb b SLASH then Some LSlash else None
  | LSlash => if N.eqb b SLASH then Some LLine else if N.eqb b STAR then Some LBlock else None
  | LLine => if N.eqb b NL then Some LCode else Some LLine
  | LBlock => if N.eqb b STAR then Some LBlockStar else Some LBlock
  | LBlockStar => if N.eqb b SLASH then Some LCode else if N.eqb b STAR then Some LBlockStar else Some LBlock
  end.
Fixpoint lex_run (st : lexst) (l : bytes) {struct l} : option lexst :=
  match l with [] => Some st | b :: r => match lex_step st b with Some st' => lex_run st' r | None => None end end.
Definition comments_only (l : bytes) : bool := match lex_run LCode l with Some LCode => true | _ => false end.
