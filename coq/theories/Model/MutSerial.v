(** C06: how the root fields of an operation are scheduled.  The generated root object marshaller runs the fields
    of a mutation inline, one after another in collection order (each with whatever concurrency its own
    sub-selection has); the fields of a query are handed to goroutines.  Events are tagged with the index of the
    root field they belong to.  Definitions only. *)
From GV Require Import Base.Prelude Base.Interleave.
Open Scope nat_scope.
Open Scope list_scope.

Section Roots.
  Variable A : Type.
  Definition ev := (nat * A)%type.            (* root field index, what happened *)

  (** the events of root field [i], in one admissible order of its own sub-tasks *)
  Definition body_of (i : nat) (b : list ev) : Prop := Forall (fun e => fst e = i) b.

  (** mutation: the bodies one after another *)
  Definition serial_trace (bodies : list (list ev)) : list ev := List.concat bodies.
  (** query: any interleaving of the bodies *)
  Definition concurrent_trace (bodies : list (list ev)) (tr : list ev) : Prop := interleave bodies tr.

  Fixpoint dedup_adjacent (l : list nat) {struct l} : list nat :=
    match l with
    | a :: ((b :: _) as r) => if Nat.eqb a b then dedup_adjacent r else a :: dedup_adjacent r
    | _ => l
    end.
  Fixpoint subsequence (a b : list nat) {struct b} : bool :=
    match a, b with
    | [], _ => true
    | _, [] => false
    | x :: ra, y :: rb => if Nat.eqb x y then subsequence ra rb else subsequence a rb
    end.
  (** what an observer checks: the root fields appear as blocks, in document order *)
  Definition grouped (n : nat) (tr : list ev) : bool := subsequence (dedup_adjacent (map fst tr)) (seq 0 n).
End Roots.
