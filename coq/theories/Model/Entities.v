(** C20: federation's [_entities] resolution (plugin/federation/federation.gotpl) as generated for a list of
    entity descriptions: grouping of representations by [__typename] with their indices, per-entity tasks for
    single resolvers, one task per group for batch ("multi") resolvers, resolver selection by present key
    fields, key unmarshalling, [@requires] population from the representation, recover per task.
    User resolvers are an oracle keyed by what they are called with.  Definitions only. *)
From GV Require Import Base.Prelude.
Open Scope string_scope.

(** decoded JSON of a representation (numbers keep their text: encoding/json's Number) *)
Inductive jval := VNull | VStr (s : string) | VNum (text : string) | VBool (b : bool)
                | VMap (l : list (string * jval)) | VList (l : list jval).
Definition rep := list (string * jval).

Fixpoint lookup (k : string) (m : rep) {struct m} : option jval :=
  match m with [] => None | (k', v) :: r => if String.eqb k k' then Some v else lookup k r end.

Inductive keyty := KId | KString.
Record keyfield := { kf_path : list string; kf_type : keyty }.
Record resolver := { rs_name : string (* Go name of the user's resolver *); rs_keys : list keyfield }.
Record entity := { en_name : string; en_multi : bool; en_resolvers : list resolver;
                   en_requires : list (list string) (* nullable Int fields populated from the representation, as paths: ["size"], ["author"; "reputation"] *) }.

Fixpoint find_entity (es : list entity) (n : string) {struct es} : option entity :=
  match es with [] => None | e :: r => if String.eqb (en_name e) n then Some e else find_entity r n end.

(** ---- entityResolverNameFor<T>: the first resolver whose key fields are all present (nested ones through
    maps) and not all null ---- *)
Inductive walk_r := WMissing | WNotMap | WVal (v : jval).
Fixpoint walk (m : rep) (path : list string) {struct path} : walk_r :=
  match path with
  | [] => WMissing
  | [k] => match lookup k m with None => WMissing | Some v => WVal v end
  | k :: rest => match lookup k m with
                 | None => WMissing
                 | Some (VMap m') => walk m' rest
                 | Some _ => WNotMap
                 end
  end.

Definition is_vnull (v : jval) : bool := match v with VNull => true | _ => false end.

(** [keys_present r ks allnull]: None when a key field is missing; otherwise whether all values seen are null *)
Fixpoint keys_present (r : rep) (ks : list keyfield) (allnull : bool) {struct ks} : option bool :=
  match ks with
  | [] => Some allnull
  | k :: rest => match walk r (kf_path k) with
                 | WVal v => keys_present r rest (allnull && is_vnull v)
                 | _ => None
                 end
  end.

Fixpoint resolver_for (rs : list resolver) (r : rep) {struct rs} : option resolver :=
  match rs with
  | [] => None
  | x :: rest => match keys_present r (rs_keys x) true with
                 | Some false => Some x
                 | _ => resolver_for rest r
                 end
  end.

(** ---- unmarshalling ---- *)
Inductive ecls :=
| ENoTypename | EUnknownType | ENoResolver | EKeyUnmarshal | EResolver (tag : string) | EPanic (tag : string)
| ENilDeref | ETypeAssert | ERequires.

Definition unm_key (t : keyty) (v : jval) : option string :=
  match v with
  | VStr s => Some s
  | VNum t => Some t
  | VBool b => Some (if b then "true" else "false")
  | VNull => Some (match t with KId => "null" | KString => "" end)
  | VMap _ | VList _ => None
  end.

(** a nullable Int required field: nil stays nil, a number is taken, anything else is an error
    (the harness only sends non-numeric strings) *)
Definition unm_req (o : option jval) : option (option string) :=
  match o with
  | None | Some VNull => Some None
  | Some (VNum t) => Some (Some t)
  | Some _ => None
  end.

(** what the generated assignment [entity.A.B, err = unmarshal(rep["a"].(map[string]any)["b"])] reads: every step
    but the last is a type assertion, which panics on a missing key (a nil interface) or a value that is no map *)
Fixpoint req_walk (m : rep) (p : list string) {struct p} : walk_r :=
  match p with
  | [] => WMissing
  | [k] => match lookup k m with None => WMissing | Some v => WVal v end
  | k :: rest => match lookup k m with Some (VMap m') => req_walk m' rest | _ => WNotMap end
  end.
Definition req_value (r : rep) (p : list string) : option (option string) :=
  match req_walk r p with
  | WVal v => unm_req (Some v)
  | WMissing => unm_req None
  | WNotMap => None
  end.
Fixpoint req_name (p : list string) {struct p} : string :=
  match p with [] => "" | [k] => k | k :: rest => k ++ "." ++ req_name rest end.

Fixpoint requires_of (r : rep) (fs : list (list string)) {struct fs} : option (list (string * option string)) :=
  match fs with
  | [] => Some []
  | f :: rest => match req_value r f, requires_of r rest with
                 | Some v, Some l => Some ((req_name f, v) :: l)
                 | _, _ => None
                 end
  end.
(** why [requires_of] failed: the first required field that does not come out - a failed type assertion (a panic,
    recovered) or a value that does not unmarshal *)
Fixpoint requires_fail (r : rep) (fs : list (list string)) {struct fs} : ecls :=
  match fs with
  | [] => ERequires
  | f :: rest => match req_walk r f with
                 | WNotMap => ETypeAssert
                 | _ => match req_value r f with Some _ => requires_fail r rest | None => ERequires end
                 end
  end.

(** ---- what the probe's resolvers are called with, as text (also the entity's [echo] field) ---- *)
Definition quote (s : string) : string := """" ++ s ++ """".
Fixpoint join (sep : string) (l : list string) {struct l} : string :=
  match l with [] => "" | [x] => x | x :: r => x ++ sep ++ join sep r end.
Definition echo_single (rs : resolver) (keys : list string) : string :=
  rs_name rs ++ "(" ++ join "," (map quote keys) ++ ")".
Definition echo_multi (rs : resolver) (keys : list string) : string :=
  rs_name rs ++ "{" ++ join "," (map quote keys) ++ "}".

Inductive plan := PValue | PNull | PError (tag : string) | PPanic (tag : string).
Definition oracle := list (string * plan).
Fixpoint plan_of (o : oracle) (echo : string) {struct o} : plan :=
  match o with [] => PValue | (e, p) :: r => if String.eqb e echo then p else plan_of r echo end.

Inductive elem := ElNull | ElEntity (typename echo : string) (reqs : list (string * option string)).

(** actions of a task on the shared result: write one slot, append one error (under the error mutex), and -
    for the log only - call a user resolver *)
Inductive act := AWrite (i : nat) (e : elem) | AErr (c : ecls) | ACall (echo : string).

(** ---- single resolvers: resolveEntity for one representation (its own goroutine) ---- *)
(** key values through validated paths: the nested type assertions cannot fail after [resolver_for] *)
Fixpoint keys_single (r : rep) (ks : list keyfield) {struct ks} : option (list string) :=
  match ks with
  | [] => Some []
  | k :: rest => match walk r (kf_path k) with
                 | WVal v => match unm_key (kf_type k) v, keys_single r rest with
                             | Some s, Some l => Some (s :: l)
                             | _, _ => None
                             end
                 | _ => None
                 end
  end.

(** outcome of resolveEntity for one representation: the resolver calls made, then either the entity stored
    or the error reported *)
Inductive sres := SWrite (calls : list string) (e : elem) | SFail (calls : list string) (c : ecls).

Definition single_res (es : list entity) (o : oracle) (tn : string) (r : rep) : sres :=
  match find_entity es tn with
  | None => SFail [] EUnknownType
  | Some e =>
      if en_multi e then SFail [] EUnknownType (* not reached: multi groups go to the batch path *)
      else match en_resolvers e with
      | [] => SFail [] EUnknownType
      | _ =>
        match resolver_for (en_resolvers e) r with
        | None => SFail [] ENoResolver
        | Some rs =>
            match keys_single r (rs_keys rs) with
            | None => SFail [] EKeyUnmarshal
            | Some keys =>
                let echo := echo_single rs keys in
                match plan_of o echo with
                | PError t => SFail [echo] (EResolver t)
                | PPanic t => SFail [echo] (EPanic t)
                | PNull => match en_requires e with
                           | [] => SWrite [echo] ElNull       (* a typed nil is stored and marshals as null *)
                           | _ => SFail [echo] ENilDeref      (* entity.F = ... on a nil pointer, recovered *)
                           end
                | PValue => match requires_of r (en_requires e) with
                            | Some reqs => SWrite [echo] (ElEntity tn echo reqs)
                            | None => SFail [echo] (requires_fail r (en_requires e))
                            end
                end
            end
        end
      end
  end.

Definition single_task (es : list entity) (o : oracle) (idx : nat) (tn : string) (r : rep) : list act :=
  match single_res es o tn r with
  | SWrite cs e => (map ACall cs ++ [AWrite idx e])%list
  | SFail cs c => (map ACall cs ++ [AErr c])%list
  end.

(** ---- batch resolvers: resolveManyEntities for one group (one goroutine) ---- *)
(** key values read directly: a missing top-level key reads as nil; a nested step through something that is
    not a map is a failed type assertion (panic) *)
Inductive mkey := MKOk (l : list string) | MKErr | MKPanic.
Fixpoint walk_unchecked (m : rep) (path : list string) {struct path} : option (option jval) :=
  (* None = panic; Some None = nil *)
  match path with
  | [] => Some None
  | [k] => Some (lookup k m)
  | k :: rest => match lookup k m with
                 | Some (VMap m') => walk_unchecked m' rest
                 | _ => None
                 end
  end.
Fixpoint keys_multi (r : rep) (ks : list keyfield) {struct ks} : mkey :=
  match ks with
  | [] => MKOk []
  | k :: rest =>
      match walk_unchecked r (kf_path k) with
      | None => MKPanic
      | Some ov =>
          match unm_key (kf_type k) (match ov with Some v => v | None => VNull end) with
          | None => MKErr
          | Some s => match keys_multi r rest with
                      | MKOk l => MKOk (s :: l)
                      | x => x
                      end
          end
      end
  end.

(** typed representations of the whole group, or the first failure *)
Fixpoint typed_reps (rs : resolver) (reps : list (nat * rep)) {struct reps} : mkey + list string :=
  match reps with
  | [] => inr []
  | (_, r) :: rest =>
      match keys_multi r (rs_keys rs) with
      | MKOk keys => match typed_reps rs rest with
                     | inr l => inr (echo_multi rs keys :: l)
                     | inl x => inl x
                     end
      | x => inl x
      end
  end.

(** the user's batch resolver as the probe implements it: the first element whose plan is an error or a panic
    decides the whole call *)
Fixpoint batch_outcome (o : oracle) (echoes : list string) {struct echoes} : option ecls :=
  match echoes with
  | [] => None
  | e :: rest => match plan_of o e with
                 | PError t => Some (EResolver t)
                 | PPanic t => Some (EPanic t)
                 | _ => batch_outcome o rest
                 end
  end.

(** the zip loop after the call: requires from reps[i], then list[reps[i].index] = entity; the first failure
    ends the loop and keeps what was already written *)
Fixpoint batch_zip (tn : string) (reqf : list (list string)) (o : oracle) (reps : list (nat * rep)) (echoes : list string)
  {struct reps} : list act :=
  match reps, echoes with
  | (idx, r) :: rest, echo :: erest =>
      match plan_of o echo with
      | PNull => match reqf with
                 | [] => AWrite idx ElNull :: batch_zip tn reqf o rest erest
                 | _ => [AErr ENilDeref]
                 end
      | _ => match requires_of r reqf with
             | Some reqs => AWrite idx (ElEntity tn echo reqs) :: batch_zip tn reqf o rest erest
             | None => [AErr (requires_fail r reqf)]
             end
      end
  | _, _ => []
  end.

Definition multi_task (e : entity) (o : oracle) (reps : list (nat * rep)) : list act :=
  match reps with
  | [] => []
  | (_, r0) :: _ =>
      match resolver_for (en_resolvers e) r0 with
      | None => [AErr ENoResolver]
      | Some rs =>
          match typed_reps rs reps with
          | inl MKPanic => [AErr ETypeAssert]
          | inl _ => [AErr EKeyUnmarshal]
          | inr echoes =>
              (map ACall echoes ++
               match batch_outcome o echoes with
               | Some c => [AErr c]
               | None => batch_zip (en_name e) (en_requires e) o reps echoes
               end)%list
          end
      end
  end.

(** ---- grouping ---- *)
Definition irep := (nat * (option string * rep))%type.   (* index, __typename if it is a string, the object *)

Fixpoint index_from (i : nat) (l : list (option string * rep)) {struct l} : list irep :=
  match l with [] => [] | x :: r => (i, x) :: index_from (S i) r end.

(** buildRepresentationGroups: type names in order of first appearance, each with its representations in
    request order (Go's map has no order; the theorems show the order does not matter) *)
Fixpoint add_to_group (tn : string) (x : nat * rep) (gs : list (string * list (nat * rep))) {struct gs}
  : list (string * list (nat * rep)) :=
  match gs with
  | [] => [(tn, [x])]
  | (t, l) :: r => if String.eqb t tn then (t, (l ++ [x])%list) :: r else (t, l) :: add_to_group tn x r
  end.
Fixpoint groups_of (l : list irep) (gs : list (string * list (nat * rep))) {struct l} : list (string * list (nat * rep)) :=
  match l with
  | [] => gs
  | (i, (Some tn, r)) :: rest => groups_of rest (add_to_group tn (i, r) gs)
  | (_, (None, _)) :: rest => groups_of rest gs
  end.

Definition is_multi (es : list entity) (tn : string) : bool :=
  match find_entity es tn with
  | Some e => en_multi e && match en_resolvers e with [] => false | _ => true end
  | None => false
  end.

(** the tasks of one group: one per representation, or one for the batch *)
Definition group_tasks (es : list entity) (o : oracle) (g : string * list (nat * rep)) : list (list act) :=
  let (tn, reps) := g in
  if is_multi es tn then
    match find_entity es tn with Some e => [multi_task e o reps] | None => [] end
  else map (fun x => single_task es o (fst x) tn (snd x)) reps.

Definition no_typename_errors (l : list irep) : list act :=
  flat_map (fun x => match fst (snd x) with None => [AErr ENoTypename] | Some _ => [] end) l.

Definition all_tasks (es : list entity) (o : oracle) (reps : list (option string * rep)) : list (list act) :=
  let l := index_from 0 reps in
  flat_map (group_tasks es o) (groups_of l []).

(** ---- the shared state and one schedule ---- *)
Record st := { st_slots : list (nat * elem); st_errs : list ecls; st_calls : list string }.
Definition st0 : st := {| st_slots := []; st_errs := []; st_calls := [] |}.
Definition apply_act (s : st) (a : act) : st :=
  match a with
  | AWrite i e => {| st_slots := (i, e) :: st_slots s; st_errs := st_errs s; st_calls := st_calls s |}
  | AErr c => {| st_slots := st_slots s; st_errs := (st_errs s ++ [c])%list; st_calls := st_calls s |}
  | ACall e => {| st_slots := st_slots s; st_errs := st_errs s; st_calls := (st_calls s ++ [e])%list |}
  end.
Definition run_acts (tr : list act) : st := fold_left apply_act tr st0.

Fixpoint slot (sl : list (nat * elem)) (i : nat) {struct sl} : elem :=
  match sl with [] => ElNull | (j, e) :: r => if Nat.eqb i j then e else slot r i end.

(** the list returned: make([]Entity, n), then whatever the tasks wrote *)
Definition result_list (n : nat) (s : st) : list elem := map (slot (st_slots s)) (seq 0 n).

(** the sequential schedule (the reference the correspondence compares with) *)
Definition entities_seq (es : list entity) (o : oracle) (reps : list (option string * rep)) : st :=
  run_acts (no_typename_errors (index_from 0 reps) ++ List.concat (all_tasks es o reps))%list.

(** ---- the specification of one element: a function of its own representation (and of the oracle at what the
    resolver is called with), for a type with per-entity resolvers ---- *)
Definition spec_single (es : list entity) (o : oracle) (tn : string) (r : rep) : elem :=
  match single_res es o tn r with SWrite _ e => e | SFail _ _ => ElNull end.

(** the entity a representation denotes by its OWN keys (which resolver, which key values) *)
Definition own_echo (e : entity) (r : rep) : option string :=
  match resolver_for (en_resolvers e) r with
  | None => None
  | Some rs => if en_multi e
               then match keys_multi r (rs_keys rs) with MKOk keys => Some (echo_multi rs keys) | _ => None end
               else match keys_single r (rs_keys rs) with Some keys => Some (echo_single rs keys) | None => None end
  end.
