(** Model of AutomaticPersistedQuery.MutateOperationParameters (graphql/handler/extension/apq.go) over
    the caches gqlgen ships: graphql.MapCache (never evicts) and handler/lru (LRU k).  Definitions only. *)
From GV Require Import Base.Prelude.
Open Scope string_scope.

(** The "persistedQuery" member of the request's extensions as mapstructure sees it. *)
Inductive apq_ext :=
| ExtNone                                   (* absent or JSON null *)
| ExtMalformed                              (* does not decode into {sha256Hash string; version int64} *)
| ExtOk (sha : string) (version : Z).

Record apq_req := { q_text : string;        (* RawParams.Query, "" when absent *)
                    q_ext : apq_ext }.

(** What the mutator does to the request. [Pass q]: the pipeline continues with query text [q]. *)
Inductive apq_out :=
| Pass (q : string)
| RejMalformed | RejVersion | RejNotFound | RejMismatch.

(** Cache state: most recently used first; [cap = None] is the map cache. *)
Record cache := { c_cap : option nat; c_items : list (string * string) }.

Fixpoint remove_key (k : string) (l : list (string * string)) {struct l} : list (string * string) :=
  match l with
  | [] => []
  | (k', v) :: r => if String.eqb k k' then remove_key k r else (k', v) :: remove_key k r
  end.

Fixpoint find_key (k : string) (l : list (string * string)) {struct l} : option string :=
  match l with
  | [] => None
  | (k', v) :: r => if String.eqb k k' then Some v else find_key k r
  end.

Definition cache_get (c : cache) (k : string) : cache * option string :=
  match find_key k (c_items c) with
  | Some v => ({| c_cap := c_cap c; c_items := (k, v) :: remove_key k (c_items c) |}, Some v)
  | None => (c, None)
  end.

Definition cache_add (c : cache) (k v : string) : cache :=
  let items := (k, v) :: remove_key k (c_items c) in
  {| c_cap := c_cap c;
     c_items := match c_cap c with Some n => firstn n items | None => items end |}.

Section Apq.
  (** computeQueryHash: hex(sha256(query)).  A Section variable: nothing is assumed about it. *)
  Variable H : string -> string.

  Definition apq_step (c : cache) (r : apq_req) : cache * apq_out :=
    match q_ext r with
    | ExtNone => (c, Pass (q_text r))
    | ExtMalformed => (c, RejMalformed)
    | ExtOk sha ver =>
        if negb (ver =? 1)%Z then (c, RejVersion)
        else if String.eqb (q_text r) "" then
          match cache_get c sha with
          | (c', Some q) => (c', Pass q)
          | (c', None) => (c', RejNotFound)
          end
        else if String.eqb (H (q_text r)) sha then (cache_add c sha (q_text r), Pass (q_text r))
        else (c, RejMismatch)
    end.

  (** A history: fold of [apq_step], collecting the outputs. *)
  Fixpoint run (c : cache) (h : list apq_req) {struct h} : cache * list apq_out :=
    match h with
    | [] => (c, [])
    | r :: rest => let '(c1, o) := apq_step c r in
                   let '(c2, os) := run c1 rest in (c2, o :: os)
    end.

  (** [registered h sha q]: some request of the history carried text [q] together with hash [sha]
      (version 1) and that text really hashes to [sha]. *)
  Definition registers (r : apq_req) (sha q : string) : Prop :=
    q_text r = q /\ q <> "" /\ q_ext r = ExtOk sha 1 /\ H q = sha.
  Definition registered (h : list apq_req) (sha q : string) : Prop := exists r, In r h /\ registers r sha q.
End Apq.

Definition empty_cache (cap : option nat) : cache := {| c_cap := cap; c_items := [] |}.

(** Executable hash instance for the correspondence: a table supplied by the harness (crypto/sha256
    computed in Go); unknown texts hash to a value no request carries. *)
Definition table_hash (tbl : list (string * string)) (q : string) : string :=
  match find_key q tbl with Some h => h | None => "?" ++ q end.
