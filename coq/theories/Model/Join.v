(** Accounting model of the two joins a generated executor waits on: the list loop of type.gotpl
    (WaitGroup + semaphore + request context) and the deferred groups of root_.gotpl (goroutines that
    hand their result over an unbuffered channel).  Labelled transition systems; definitions only. *)
From GV Require Import Base.Prelude.
Open Scope nat_scope.

(** * The list join *)
Record lstate := {
  l_n : nat;            (* len(v) >= 2 *)
  l_limit : nat;        (* worker_limit > 0 *)
  l_next : nat;         (* elements the loop has dealt with *)
  l_running : nat;      (* spawned closures that have not finished *)
  l_wg : nat;           (* WaitGroup counter *)
  l_cancelled : bool }. (* the request context is done *)

Inductive llabel := LCancel | LDispatch | LFinish.

(** [fixed = false]: the pinned commit - a failed Acquire only reports the error;
    [fixed = true]: it also counts the element as done. *)
Definition lstep (fixed : bool) (s : lstate) (l : llabel) : option lstate :=
  match l with
  | LCancel => Some {| l_n := l_n s; l_limit := l_limit s; l_next := l_next s; l_running := l_running s; l_wg := l_wg s; l_cancelled := true |}
  | LDispatch =>
      if negb (l_next s <? l_n s) then None
      else if l_cancelled s
      then (* semaphore.Acquire fails at once on a done context *)
        Some {| l_n := l_n s; l_limit := l_limit s; l_next := S (l_next s); l_running := l_running s;
                l_wg := if fixed then pred (l_wg s) else l_wg s; l_cancelled := true |}
      else if l_running s <? l_limit s
      then Some {| l_n := l_n s; l_limit := l_limit s; l_next := S (l_next s); l_running := S (l_running s);
                   l_wg := l_wg s; l_cancelled := false |}
      else None          (* blocked in Acquire until a worker releases or the context ends *)
  | LFinish =>
      match l_running s with
      | O => None
      | S r => Some {| l_n := l_n s; l_limit := l_limit s; l_next := l_next s; l_running := r; l_wg := pred (l_wg s);
                       l_cancelled := l_cancelled s |}
      end
  end.

Definition linit (n limit : nat) : lstate :=
  {| l_n := n; l_limit := limit; l_next := 0; l_running := 0; l_wg := n; l_cancelled := false |}.

Fixpoint lrun (fixed : bool) (s : lstate) (tr : list llabel) {struct tr} : option lstate :=
  match tr with
  | [] => Some s
  | l :: r => match lstep fixed s l with Some s' => lrun fixed s' r | None => None end
  end.

(** wg.Wait() returns *)
Definition wait_enabled (s : lstate) : bool := (l_next s =? l_n s) && (l_wg s =? 0).
(** every started closure has finished and the loop is over *)
Definition all_returned (s : lstate) : bool := (l_next s =? l_n s) && (l_running s =? 0).

(** * Deferred groups *)
Record dstate := {
  d_running : nat;      (* group goroutines still dispatching their fields *)
  d_blocked : nat;      (* group goroutines blocked in the channel send *)
  d_budget : nat;       (* payloads the consumer will still ask for *)
  d_cancelled : bool }.
Inductive dlabel := DCancel | DFinish | DReceive | DGiveUp.

Definition dstep (fixed : bool) (s : dstate) (l : dlabel) : option dstate :=
  match l with
  | DCancel => Some {| d_running := d_running s; d_blocked := d_blocked s; d_budget := d_budget s; d_cancelled := true |}
  | DFinish => match d_running s with
               | O => None
               | S r => Some {| d_running := r; d_blocked := S (d_blocked s); d_budget := d_budget s; d_cancelled := d_cancelled s |}
               end
  | DReceive => match d_blocked s, d_budget s with
                | S b, S k => Some {| d_running := d_running s; d_blocked := b; d_budget := k; d_cancelled := d_cancelled s |}
                | _, _ => None
                end
  | DGiveUp => (* repaired code only: the blocked sender also selects on the group's context *)
      if fixed && d_cancelled s then
        match d_blocked s with
        | S b => Some {| d_running := d_running s; d_blocked := b; d_budget := d_budget s; d_cancelled := true |}
        | O => None
        end
      else None
  end.

Fixpoint drun (fixed : bool) (s : dstate) (tr : list dlabel) {struct tr} : option dstate :=
  match tr with
  | [] => Some s
  | l :: r => match dstep fixed s l with Some s' => drun fixed s' r | None => None end
  end.
Definition dinit (groups budget : nat) : dstate :=
  {| d_running := groups; d_blocked := 0; d_budget := budget; d_cancelled := false |}.
(** nothing but a cancellation can happen any more *)
Definition dquiescent (fixed : bool) (s : dstate) : bool :=
  match dstep fixed s DFinish, dstep fixed s DReceive, dstep fixed s DGiveUp with
  | None, None, None => true
  | _, _, _ => false
  end.
