(** C01 / C04: the chain of schema directives around one field.  gqlgen generates, for a field whose definition carries
    the runtime directives F (in schema order) and whose return type's definition carries the runtime directives T,
    the closures directive0 (the resolver), directive1 .. directiveN along T ++ F: the LAST of that list is the
    outermost link.  Each directive is handed a [next] that leads inward; it answers without calling it (null, an
    error, a panic) or calls it.  Definitions only. *)
From GV Require Import Base.Prelude.
Open Scope string_scope.
Open Scope list_scope.

Inductive dbeh := DNext | DBlock | DError | DPanic.        (* what a directive does when invoked *)
Inductive rbeh := ROk | RNil | RFail | RBoom.              (* what the resolver does *)
(** what the field position is completed from: a value, null without error, or one error / one recovered panic that
    names who raised it *)
Inductive dres := RValue | RNull | RErr (who : string) | RPanic (who : string).

Definition is_next (b : dbeh) : bool := match b with DNext => true | _ => false end.
Definition res_of_resolver (r : rbeh) : dres :=
  match r with ROk => RValue | RNil => RNull | RFail => RErr "resolver" | RBoom => RPanic "resolver" end.
Definition res_of_directive (n : string) (b : dbeh) : dres :=
  match b with DNext => RValue | DBlock => RNull | DError => RErr n | DPanic => RPanic n end.

(** the chain, outermost directive first: who is invoked, in order, and what the field gets *)
Fixpoint run_chain (ds : list (string * dbeh)) (r : rbeh) {struct ds} : list string * dres :=
  match ds with
  | [] => (["resolver"], res_of_resolver r)
  | (n, b) :: rest =>
      if is_next b then let lo := run_chain rest r in (n :: fst lo, snd lo)
      else ([n], res_of_directive n b)
  end.

(** gqlgen's nesting, outermost first, for a field with the directives [fdirs] whose return type has [tdirs] *)
Definition chain_order (tdirs fdirs : list string) : list string := rev (tdirs ++ fdirs).

Definition lookup_beh (plan : list (string * dbeh)) (n : string) : dbeh :=
  match find (fun x => String.eqb (fst x) n) plan with Some x => snd x | None => DNext end.
Definition field_chain (tdirs fdirs : list string) (plan : list (string * dbeh)) : list (string * dbeh) :=
  map (fun n => (n, lookup_beh plan n)) (chain_order tdirs fdirs).
