(** Model of RawParams.AddUpload (graphql/handler.go): walking a multipart "map" path into the decoded
    variables.  Definitions only.  Go panics are [Panic], nothing is totalised away. *)
From GV Require Import Base.Prelude.
Open Scope string_scope.

(** Decoded JSON as Go holds it ([any]): nil, scalars, []any, map[string]any, or an Upload put there. *)
Inductive jv :=
| JVNil                          (* untyped nil: JSON null, or a missing map key *)
| JVLeaf (id : nat)              (* string / number / bool *)
| JVUpload (u : nat)
| JVList (l : list jv)
| JVMap (m : list (string * jv)).

(** RawParams.Variables: a map, or the nil map when the request had no "variables". *)
Inductive vars := VNilMap | VMap (m : list (string * jv)).

(** strconv.Atoi on a path segment, supplied by the harness's path generator as data:
    [SegIdx i]: Atoi succeeded with i (this includes "-1", "+2", "007"); [SegKey k]: it failed. *)
Inductive seg := SegIdx (text : string) (i : Z) | SegKey (k : string).
Definition seg_text (s : seg) : string := match s with SegIdx t _ => t | SegKey k => k end.

Fixpoint map_get (m : list (string * jv)) (k : string) {struct m} : jv :=
  match m with
  | [] => JVNil
  | (k', v) :: r => if String.eqb k k' then v else map_get r k
  end.
Fixpoint map_set (m : list (string * jv)) (k : string) (v : jv) {struct m} : list (string * jv) :=
  match m with
  | [] => [(k, v)]
  | (k', v') :: r => if String.eqb k k' then (k, v) :: r else (k', v') :: map_set r k v
  end.
Fixpoint list_set (l : list jv) (i : nat) (v : jv) {struct l} : list jv :=
  match l, i with
  | [], _ => []
  | _ :: r, O => v :: r
  | x :: r, S j => x :: list_set r j v
  end.

Definition in_range (l : list jv) (i : Z) : bool := (0 <=? i)%Z && (i <? Z.of_nat (List.length l))%Z.

(** The walk below the first container.  [fixed = false] is the code at the pinned commit (unchecked
    type assertions and indexing); [fixed = true] is the repaired walker, which dispatches on the
    container it actually holds and answers an error instead of panicking. *)
Fixpoint walk (fixed : bool) (v : jv) (path : list seg) (u : nat) {struct path} : outcome jv :=
  match path with
  | [] => Ok v                                        (* not reached: callers pass a non-empty path *)
  | s :: rest =>
      match v with
      | JVNil => Err "nil"
      | JVList l =>
          match s with
          | SegIdx _ i =>
              if in_range l i then
                match rest with
                | [] => Ok (JVList (list_set l (Z.to_nat i) (JVUpload u)))
                | _ => match walk fixed (nth (Z.to_nat i) l JVNil) rest u with
                       | Ok v' => Ok (JVList (list_set l (Z.to_nat i) v'))
                       | Err e => Err e
                       | Panic p => Panic p
                       end
                end
              else if fixed then Err "index" else Panic "index out of range"
          | SegKey _ => if fixed then Err "kind" else Panic "interface conversion: []interface {} is not map"
          end
      | JVMap m =>
          let key := seg_text s in
          match s, fixed with
          | SegIdx _ _, false => Panic "interface conversion: map is not []interface {}"
          | _, _ =>
              match rest with
              | [] => Ok (JVMap (map_set m key (JVUpload u)))
              | _ => match walk fixed (map_get m key) rest u with
                     | Ok v' => Ok (JVMap (map_set m key v'))
                     | Err e => Err e
                     | Panic p => Panic p
                     end
              end
          end
      | JVLeaf _ | JVUpload _ => if fixed then Err "kind" else Panic "interface conversion"
      end
  end.

(** AddUpload itself: the path is "variables." ++ segments (the prefix test is the harness's [has_prefix]). *)
Definition add_upload (fixed : bool) (has_prefix : bool) (vs : vars) (path : list seg) (u : nat) : outcome vars :=
  if negb has_prefix then Err "prefix"
  else
    match vs, path with
    | _, [] => Ok vs
    | VMap m, _ =>
        match walk fixed (JVMap m) path u with
        | Ok (JVMap m') => Ok (VMap m')
        | Ok _ => Ok vs
        | Err e => Err e
        | Panic p => Panic p
        end
    | VNilMap, s :: rest =>
        (* ptr holds a typed nil map: it is not == nil *)
        match s, fixed with
        | SegIdx _ _, false => Panic "interface conversion: map is not []interface {}"
        | _, _ =>
            match rest with
            | [] => if fixed then Err "novariables" else Panic "assignment to entry in nil map"
            | _ => Err "nil"     (* reading a nil map yields nil; the next iteration reports it *)
            end
        end
    end.
