(** C16: the introspection resolvers as an evaluator of arbitrary introspection selections (any shape a client
    can write: [__type(name:)], [fields(includeDeprecated:)], nested [ofType] chains, [__typename]), and the
    root-level gate that the [Introspection] extension opens.  Structural recursion on the selection. *)
From GV Require Import Base.Prelude Model.Introspect.
Open Scope string_scope.

Inductive jv := JN | JS (s : string) | JB (b : bool) | JA (l : list jv) | JO (l : list (string * jv)).

(** a collected field: response key, field name, value of [includeDeprecated] (false when absent), value of
    the [name] argument of [__type], merged sub-selection *)
Inductive qsel := Q (alias name : string) (incdep : bool) (argname : string) (subs : list qsel).
Definition q_alias (q : qsel) : string := match q with Q a _ _ _ _ => a end.
Definition q_name (q : qsel) : string := match q with Q _ n _ _ _ => n end.

(** introspection.Type is either a definition or a NON_NULL / LIST wrapper around an ast.Type *)
Inductive tnode := NDef (d : tdefn) | NWrap (t : ty) | NNil (n : string).
Definition wrap_ty (s : sch) (t : ty) : tnode :=
  match t with
  | TyNamed n false => match find_td (sc_types s) n with Some d => NDef d | None => NNil n end
  | _ => NWrap t
  end.
Definition wrap_name (s : sch) (n : string) : tnode :=
  match find_td (sc_types s) n with Some d => NDef d | None => NNil n end.

Inductive node :=
| NSchema | NType (t : tnode) | NField (f : fld) | NInval (d : depr) (a : inval) | NEnum (e : enumv) | NDir (d : ddefn).

Definition kind_name (k : kind) : string :=
  match k with KScalar => "SCALAR" | KObj => "OBJECT" | KIface => "INTERFACE" | KUnion => "UNION" | KEnum => "ENUM"
          | KInput => "INPUT_OBJECT" end.

Definition jopt (o : option string) : jv := match o with Some x => JS x | None => JN end.
Definition is (a b : string) : bool := String.eqb a b.

Definition type_of_node (t : tnode) : option tdefn := match t with NDef d => Some d | _ => None end.

Definition fields_of (v : variant) (incdep : bool) (t : tnode) : list node :=
  match t with
  | NDef d => match td_kind d with
              | KObj | KIface => map NField (filter (fun f => negb (has_dunder (fl_name f)) && (incdep || negb (is_dep (fl_depr f)))) (td_fields d))
              | _ => [] end
  | _ => []
  end.
Definition inputs_of (t : tnode) : list node :=
  match t with
  | NDef d => match td_kind d with KInput => map (fun f => NInval (fl_depr f) (fld_as_inval f)) (td_fields d) | _ => [] end
  | _ => []
  end.
Definition enums_of (incdep : bool) (t : tnode) : list node :=
  match t with
  | NDef d => match td_kind d with KEnum => map NEnum (filter (fun e => incdep || negb (is_dep (en_depr e))) (td_enums d)) | _ => [] end
  | _ => []
  end.
Definition ifaces_of (v : variant) (s : sch) (t : tnode) : list node :=
  match t with
  | NDef d => match td_kind d with
              | KObj => map (fun n => NType (wrap_name s n)) (td_ifaces d)
              | KIface => if v_iface_ifaces v then map (fun n => NType (wrap_name s n)) (td_ifaces d) else []
              | _ => [] end
  | _ => []
  end.
Definition possible_of (v : variant) (s : sch) (t : tnode) : list node :=
  match t with NDef d => map (fun n => NType (wrap_name s n)) (possible_names v s d) | _ => [] end.
Definition of_type (s : sch) (t : tnode) : option tnode :=
  match t with
  | NWrap (TyNamed n true) => Some (wrap_ty s (TyNamed n false))
  | NWrap (TyList e true) => Some (wrap_ty s (TyList e false))
  | NWrap (TyList e false) => Some (wrap_ty s e)
  | _ => None
  end.

Fixpoint eval (v : variant) (s : sch) (nd : node) (q : qsel) {struct q} : jv :=
  match q with
  | Q _ name incdep argname subs =>
      let obj nd' := JO (map (fun q' => (q_alias q', eval v s nd' q')) subs) in
      let objs nds := JA (map obj nds) in
      let oobj o := match o with Some nd' => obj nd' | None => JN end in
      match nd with
      | NSchema =>
          if is name "__typename" then JS "__Schema"
          else if is name "description" then jopt (opt_desc (sc_desc s))
          else if is name "types" then objs (map (fun d => NType (NDef d)) (sort_by td_name (sc_types s)))
          else if is name "queryType" then oobj (option_map (fun n => NType (wrap_name s n)) (sc_query s))
          else if is name "mutationType" then oobj (option_map (fun n => NType (wrap_name s n)) (sc_mutation s))
          else if is name "subscriptionType" then oobj (option_map (fun n => NType (wrap_name s n)) (sc_subscription s))
          else if is name "directives" then objs (map NDir (sort_by dd_name (sc_dirs s)))
          else JS "<no such field>"
      | NType t =>
          if is name "__typename" then JS "__Type"
          else if is name "kind" then
            match t with
            | NDef d => JS (kind_name (td_kind d))
            | NWrap (TyNamed _ _) => JS "NON_NULL"
            | NWrap (TyList _ nn) => JS (if nn then "NON_NULL" else "LIST")
            | NNil _ => JS "<nil dereference>"
            end
          else if is name "name" then match t with NDef d => JS (td_name d) | _ => JN end
          else if is name "description" then match t with NDef d => jopt (opt_desc (td_desc d)) | _ => JN end
          else if is name "specifiedByURL" then
            match t with NDef d => match td_kind d with KScalar => jopt (td_specified d) | _ => JN end | _ => JN end
          else if is name "isOneOf" then
            match t with NDef d => match td_kind d with KInput => JB (td_oneof d) | _ => JB false end | _ => JB false end
          else if is name "fields" then objs (fields_of v incdep t)
          else if is name "inputFields" then objs (inputs_of t)
          else if is name "interfaces" then objs (ifaces_of v s t)
          else if is name "possibleTypes" then objs (possible_of v s t)
          else if is name "enumValues" then objs (enums_of incdep t)
          else if is name "ofType" then oobj (option_map NType (of_type s t))
          else JS "<no such field>"
      | NField f =>
          if is name "__typename" then JS "__Field"
          else if is name "name" then JS (fl_name f)
          else if is name "description" then jopt (opt_desc (fl_desc f))
          else if is name "args" then objs (map (fun a => NInval (if v_arg_own_depr v then iv_depr a else fl_depr f) a) (fl_args f))
          else if is name "type" then obj (NType (wrap_ty s (fl_type f)))
          else if is name "isDeprecated" then JB (is_dep (fl_depr f))
          else if is name "deprecationReason" then jopt (reason_field (fl_depr f))
          else JS "<no such field>"
      | NInval d a =>
          if is name "__typename" then JS "__InputValue"
          else if is name "name" then JS (iv_name a)
          else if is name "description" then jopt (opt_desc (iv_desc a))
          else if is name "type" then obj (NType (wrap_ty s (iv_type a)))
          else if is name "defaultValue" then jopt (iv_default a)
          else if is name "isDeprecated" then JB (is_dep d)
          else if is name "deprecationReason" then jopt (reason_other v d)
          else JS "<no such field>"
      | NEnum e =>
          if is name "__typename" then JS "__EnumValue"
          else if is name "name" then JS (en_name e)
          else if is name "description" then jopt (opt_desc (en_desc e))
          else if is name "isDeprecated" then JB (is_dep (en_depr e))
          else if is name "deprecationReason" then jopt (reason_other v (en_depr e))
          else JS "<no such field>"
      | NDir d =>
          if is name "__typename" then JS "__Directive"
          else if is name "name" then JS (dd_name d)
          else if is name "description" then jopt (opt_desc (dd_desc d))
          else if is name "isRepeatable" then JB (dd_rep d)
          else if is name "locations" then JA (map JS (dd_locs d))
          else if is name "args" then objs (map (fun a => NInval (if v_arg_own_depr v then iv_depr a else None) a) (dd_args d))
          else JS "<no such field>"
      end
  end.

(** ---- the root: what a query obtains, with the gate open or closed ---- *)
Definition opaque : jv := JS "<value of a user field>".

Definition is_intro_root (name : string) : bool := is name "__schema" || is name "__type" || is name "_service".

(** one root field: its value and whether it raised an error; [_service] is the only non-null one *)
Definition root_field (v : variant) (enabled : bool) (s : sch) (qname : string) (q : qsel) : jv * bool :=
  match q with
  | Q _ name _ argname subs =>
      if is name "__typename" then (JS qname, false)
      else if is_intro_root name then
        if enabled then
          if is name "__schema" then (JO (map (fun q' => (q_alias q', eval v s NSchema q')) subs), false)
          else if is name "__type" then
            (match find_td (sc_types s) argname with
             | Some d => JO (map (fun q' => (q_alias q', eval v s (NType (NDef d)) q')) subs)
             | None => JN end, false)
          else (opaque, false)
        else (JN, true)
      else (opaque, false)
  end.

Record root_result := { rr_data : jv; rr_errors : list string (* response keys that carry an error *) }.

Definition exec_roots (v : variant) (enabled : bool) (s : sch) (qname : string) (roots : list qsel) : root_result :=
  let rs := map (fun q => (q, root_field v enabled s qname q)) roots in
  let errs := map (fun x => q_alias (fst x)) (filter (fun x => snd (snd x)) rs) in
  let bubble := existsb (fun x => snd (snd x) && is (q_name (fst x)) "_service") rs in
  {| rr_data := if bubble then JN else JO (map (fun x => (q_alias (fst x), fst (snd x))) rs); rr_errors := errs |}.

(** ---- the property as a monitor over an observed response ---- *)
Fixpoint jv_eqb (a b : jv) {struct a} : bool :=
  match a, b with
  | JN, JN => true
  | JS x, JS y => String.eqb x y
  | JB x, JB y => Bool.eqb x y
  | JA x, JA y => (fix go (x y : list jv) {struct x} : bool :=
                     match x, y with [], [] => true | a :: x', b :: y' => jv_eqb a b && go x' y' | _, _ => false end) x y
  | JO x, JO y => (fix go (x y : list (string * jv)) {struct x} : bool :=
                     match x, y with
                     | [], [] => true
                     | (k, a) :: x', (l, b) :: y' => String.eqb k l && jv_eqb a b && go x' y'
                     | _, _ => false end) x y
  | _, _ => false
  end.

Fixpoint lookup_key (k : string) (l : list (string * jv)) {struct l} : option jv :=
  match l with [] => None | (k', x) :: r => if String.eqb k k' then Some x else lookup_key k r end.

(** disabled: every response key of an introspection root is null (or the whole data is) and carries an error *)
Definition monitor_disabled (roots : list qsel) (data : jv) (errs : list string) : bool :=
  forallb (fun q =>
             if is_intro_root (q_name q) then
               existsb (String.eqb (q_alias q)) errs &&
               match data with
               | JN => true
               | JO l => match lookup_key (q_alias q) l with Some JN => true | _ => false end
               | _ => false
               end
             else true) roots.
