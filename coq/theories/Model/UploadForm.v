(** C10: the multipart upload form handler (graphql/handler/transport/http_form_multipart.go) above the parts
    mime/multipart delivers: size gate, operations and map parts, one file part after the other, each file either
    read into memory or spilled to a temporary file, one reader per mapped path handed to AddUpload, temporary
    files removed by deferred calls when the handler returns.  Definitions only. *)
From GV Require Import Base.Prelude Model.Upload.
Open Scope string_scope.
Open Scope list_scope.

(** a file part as the multipart reader presents it *)
Inductive part :=
| PFile (key : string) (fid : nat)   (* complete: form name; [fid] stands for (file name, content type, bytes) *)
| PCut (key : string)                (* headers read, the body ends inside the part: reading it fails *)
| PBad.                              (* NextPart fails: malformed or truncated headers / missing boundary *)

Definition mpath := (bool * list seg)%type.     (* has the "variables." prefix?, segments after it *)

Record form := {
  fm_over : bool;                    (* Content-Length > MaxUploadSize *)
  fm_spill : bool;                   (* Content-Length >= MaxMemory: file parts go through temporary files *)
  fm_ops : option vars;              (* the variables of the operations part; None: first part missing / undecodable *)
  fm_map : option (list (string * list mpath));   (* the map part; None: second part missing / undecodable *)
  fm_parts : list part }.

Inductive fresult := FRejected (why : string) | FAccepted (v : vars) | FPanicked.

Record fstate := {
  st_vars : vars;
  st_map : list (string * list mpath);     (* keys not yet seen *)
  st_created : list nat;                   (* temporary files created so far (by index of the part) *)
  st_defers : list nat;                    (* deferred removals registered so far *)
  st_readers : list (nat * nat);           (* reader id -> fid: one reader per mapped path *)
  st_next : nat }.                         (* next reader id *)

Record fout := {
  fo_result : fresult;
  fo_created : list nat;
  fo_removed : list nat;                   (* what the deferred calls remove when the handler returns *)
  fo_readers : list (nat * nat) }.

Fixpoint map_lookup {A} (m : list (string * A)) (k : string) {struct m} : option A :=
  match m with [] => None | (k', v) :: r => if String.eqb k k' then Some v else map_lookup r k end.
Fixpoint map_remove {A} (m : list (string * A)) (k : string) {struct m} : list (string * A) :=
  match m with [] => [] | (k', v) :: r => if String.eqb k k' then map_remove r k else (k', v) :: map_remove r k end.

(** one reader per path, each handed to AddUpload; the first failure ends the request *)
Fixpoint add_paths (vs : vars) (readers : list (nat * nat)) (next fid : nat) (paths : list mpath) {struct paths}
  : (outcome vars) * list (nat * nat) * nat :=
  match paths with
  | [] => (Ok vs, readers, next)
  | (pre, segs) :: r =>
      match add_upload true pre vs segs next with
      | Ok vs' => add_paths vs' (readers ++ [(next, fid)]) (S next) fid r
      | Err e => (Err e, readers ++ [(next, fid)], S next)
      | Panic p => (Panic p, readers ++ [(next, fid)], S next)
      end
  end.

Definition finish (st : fstate) (r : fresult) : fout :=
  {| fo_result := r; fo_created := st_created st; fo_removed := st_defers st; fo_readers := st_readers st |}.

(** [late]: the removal of a temporary file is registered only after the part was copied into it (the variant
    that leaks; the code registers it right after creating the file) *)
Fixpoint run_parts (late spill : bool) (i : nat) (st : fstate) (parts : list part) {struct parts} : fout :=
  match parts with
  | [] => match st_map st with
          | [] => finish st (FAccepted (st_vars st))
          | _ => finish st (FRejected "key-missing-from-form")
          end
  | PBad :: _ => finish st (FRejected "part")
  | p :: rest =>
      let key := match p with PFile k _ => k | PCut k => k | PBad => "" end in
      match map_lookup (st_map st) key with
      | None | Some [] => finish st (FRejected "paths")
      | Some paths =>
          let st1 := {| st_vars := st_vars st; st_map := map_remove (st_map st) key; st_created := st_created st;
                        st_defers := st_defers st; st_readers := st_readers st; st_next := st_next st |} in
          let st2 := if spill
                     then {| st_vars := st_vars st1; st_map := st_map st1; st_created := st_created st1 ++ [i];
                             st_defers := if late then st_defers st1 else st_defers st1 ++ [i];
                             st_readers := st_readers st1; st_next := st_next st1 |}
                     else st1 in
          match p with
          | PCut _ => finish st2 (FRejected "read")
          | PBad => finish st2 (FRejected "part")
          | PFile _ fid =>
              let st3 := if spill && late
                         then {| st_vars := st_vars st2; st_map := st_map st2; st_created := st_created st2;
                                 st_defers := st_defers st2 ++ [i]; st_readers := st_readers st2; st_next := st_next st2 |}
                         else st2 in
              match add_paths (st_vars st3) (st_readers st3) (st_next st3) fid paths with
              | (Ok vs', rd, nx) =>
                  run_parts late spill (S i)
                            {| st_vars := vs'; st_map := st_map st3; st_created := st_created st3; st_defers := st_defers st3;
                               st_readers := rd; st_next := nx |} rest
              | (Err e, rd, nx) =>
                  finish {| st_vars := st_vars st3; st_map := st_map st3; st_created := st_created st3; st_defers := st_defers st3;
                            st_readers := rd; st_next := nx |} (FRejected "add-upload")
              | (Panic _, rd, nx) =>
                  finish {| st_vars := st_vars st3; st_map := st_map st3; st_created := st_created st3; st_defers := st_defers st3;
                            st_readers := rd; st_next := nx |} FPanicked
              end
          end
      end
  end.

Definition empty_out (r : fresult) : fout := {| fo_result := r; fo_created := []; fo_removed := []; fo_readers := [] |}.

Definition run_form (late : bool) (f : form) : fout :=
  if fm_over f then empty_out (FRejected "too-large")
  else match fm_ops f with
       | None => empty_out (FRejected "operations")
       | Some vs =>
           match fm_map f with
           | None => empty_out (FRejected "map")
           | Some m => run_parts late (fm_spill f) 0
                                 {| st_vars := vs; st_map := m; st_created := []; st_defers := []; st_readers := []; st_next := 0 |}
                                 (fm_parts f)
           end
       end.

(** temporary files still there after the handler returned *)
Definition leaked (o : fout) : list nat := filter (fun i => negb (existsb (Nat.eqb i) (fo_removed o))) (fo_created o).
Definition accepted (o : fout) : bool := match fo_result o with FAccepted _ => true | _ => false end.
