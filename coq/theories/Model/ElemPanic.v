(** C04 / C05 / C06: the element closures of the generated list marshaller (codegen/type.gotpl) when elements panic
    inside generated code.  Every element of a list of objects is marshalled by its own goroutine:

      f := func(i int) { defer <A>; defer <B>; ret[i] = marshal(v[i]) }      ... wg.Wait(); return ret

    Deferred calls run last-in-first-out.  As written, <A> is [wg.Done()] (with the semaphore release) and <B> the
    recover handler, which reports the error and nulls its own slot [ret[i] = graphql.Null]: the handler runs first.
    Two slips are variants: [v_done_last = false] registers the handler first, so [Done] runs before it; with
    [v_own_slot = false] the handler resets the whole result ([ret = nil]) - a later [ret[i] = ...] of a sibling then
    panics with index out of range.  A labelled transition system over every interleaving of the element goroutines
    and the joining goroutine; each deferred call is one step.  Definitions only. *)
From GV Require Import Base.Prelude Base.Threads.
Open Scope nat_scope.
Open Scope list_scope.

Inductive slot := Unset | Val | Null.       (* Unset: the nil Marshaler the slice was made with *)
Definition slot_eqb (a b : slot) : bool :=
  match a, b with Unset, Unset | Val, Val | Null, Null => true | _, _ => false end.

(** where an element goroutine is; the flag says whether a panic is in flight *)
Inductive epc := EBody | EDefer1 (panicking : bool) | EDefer2 (panicking : bool) | EEnd.

Record elem := {
  el_panics : bool;       (* marshalling this element panics (its plan) *)
  el_pc : epc;
  el_slot : slot;         (* ret[i] in the array the slice was made with *)
  el_errs : nat }.        (* errors reported at the path of this element *)

Record estate := {
  e_els : list elem;
  e_reset : bool;                            (* ret = nil has happened *)
  e_wg : nat;                                (* the WaitGroup counter *)
  e_recovers : nat;                          (* calls of the recover hook *)
  e_joined : option (bool * list slot) }.    (* what the goroutine that called wg.Wait() went on with *)

Record evariant := { v_done_last : bool; v_own_slot : bool }.
Definition as_written_elems : evariant := {| v_done_last := true; v_own_slot := true |}.

Inductive elabel := EL (i : nat) | EJoin.

Definition el_with (e : elem) (pc : epc) (sl : slot) (errs : nat) : elem :=
  {| el_panics := el_panics e; el_pc := pc; el_slot := sl; el_errs := errs |}.

Definition slots (s : estate) : list slot := map el_slot (e_els s).

(** the deferred [wg.Done()] of element [i], leaving it at [pc] *)
Definition do_done (s : estate) (i : nat) (e : elem) (pc : epc) : estate :=
  {| e_els := upd i (el_with e pc (el_slot e) (el_errs e)) (e_els s); e_reset := e_reset s; e_wg := pred (e_wg s);
     e_recovers := e_recovers s; e_joined := e_joined s |}.

(** the deferred recover handler of element [i]: nothing to do unless a panic is in flight *)
Definition do_handler (v : evariant) (s : estate) (i : nat) (e : elem) (p : bool) (pc : epc) : estate :=
  if p then
    if v_own_slot v
    then {| e_els := upd i (el_with e pc Null (S (el_errs e))) (e_els s); e_reset := e_reset s; e_wg := e_wg s;
            e_recovers := S (e_recovers s); e_joined := e_joined s |}
    else {| e_els := upd i (el_with e pc (el_slot e) (S (el_errs e))) (e_els s); e_reset := true; e_wg := e_wg s;
            e_recovers := S (e_recovers s); e_joined := e_joined s |}
  else {| e_els := upd i (el_with e pc (el_slot e) (el_errs e)) (e_els s); e_reset := e_reset s; e_wg := e_wg s;
          e_recovers := e_recovers s; e_joined := e_joined s |}.

Definition estep (v : evariant) (s : estate) (l : elabel) : option estate :=
  match l with
  | EJoin =>
      match e_joined s, e_wg s with
      | None, O => Some {| e_els := e_els s; e_reset := e_reset s; e_wg := 0; e_recovers := e_recovers s;
                           e_joined := Some (e_reset s, slots s) |}
      | _, _ => None
      end
  | EL i =>
      match nth_error (e_els s) i with
      | None => None
      | Some e =>
          match el_pc e with
          | EBody =>
              (* marshal the element, then store it: the store panics when the slice was reset under it *)
              if el_panics e || e_reset s
              then Some {| e_els := upd i (el_with e (EDefer1 true) (el_slot e) (el_errs e)) (e_els s); e_reset := e_reset s;
                           e_wg := e_wg s; e_recovers := e_recovers s; e_joined := e_joined s |}
              else Some {| e_els := upd i (el_with e (EDefer1 false) Val (el_errs e)) (e_els s); e_reset := e_reset s;
                           e_wg := e_wg s; e_recovers := e_recovers s; e_joined := e_joined s |}
          | EDefer1 p =>
              if v_done_last v then Some (do_handler v s i e p (EDefer2 false)) else Some (do_done s i e (EDefer2 p))
          | EDefer2 p =>
              if v_done_last v then Some (do_done s i e EEnd) else Some (do_handler v s i e p EEnd)
          | EEnd => None
          end
      end
  end.

Definition einit (plan : list bool) : estate :=
  {| e_els := map (fun p => {| el_panics := p; el_pc := EBody; el_slot := Unset; el_errs := 0 |}) plan;
     e_reset := false; e_wg := List.length plan; e_recovers := 0; e_joined := None |}.

Fixpoint erun (v : evariant) (s : estate) (tr : list elabel) {struct tr} : option estate :=
  match tr with [] => Some s | l :: r => match estep v s l with Some s' => erun v s' r | None => None end end.

(** what the property asks of the list: the panicking elements null with one error each, the others their value *)
Definition final_slot (p : bool) : slot := if p then Null else Val.
Definition final_errs (p : bool) : nat := if p then 1 else 0.

(** an element goroutine that has not finished *)
Definition unfinished (e : elem) : bool := match el_pc e with EEnd => false | _ => true end.
(** an element whose [Done] is still to come *)
Definition before_done (v : evariant) (e : elem) : bool :=
  match el_pc e with
  | EBody | EDefer1 _ => true
  | EDefer2 _ => v_done_last v
  | EEnd => false
  end.
(** what is left to do, in steps *)
Definition elem_todo (e : elem) : nat := match el_pc e with EBody => 3 | EDefer1 _ => 2 | EDefer2 _ => 1 | EEnd => 0 end.
Definition etodo (s : estate) : nat :=
  list_sum (map elem_todo (e_els s)) + match e_joined s with None => 1 | Some _ => 0 end.

(** the outcome the transport serialises, for the harness: one entry per element (is it null?, errors at its path),
    and the number of recover-hook calls *)
Definition outcome_of (plan : list bool) : list (bool * nat) * nat :=
  (map (fun p => (p, final_errs p)) plan, count (fun p => p) plan).
