(** C16: gqlgen's introspection layer (graphql/introspection/{introspection,schema,type}.go) as a function from
    a schema AST to the description a client receives, and the client's reconstruction of a schema from
    that description.  Definitions only; proofs are in Proofs/IntrospectProofs.v.

    The AST side mirrors gqlparser's [ast.Schema] as gqlgen reads it: one [Fields] list per definition
    (object/interface fields and input-object fields share it, as in gqlparser), directives reduced to the
    three that introspection looks at ([@deprecated], [@specifiedBy], [@oneOf]).  Absent descriptions are
    the empty string, as in Go. *)
From GV Require Import Base.Prelude.
Open Scope string_scope.

Inductive ty := TyNamed (n : string) (nn : bool) | TyList (e : ty) (nn : bool).

(** [@deprecated]: absent | present without a reason argument | present with reason text *)
Definition depr := option (option string).

Record inval := { iv_name : string; iv_desc : string; iv_type : ty; iv_default : option string; iv_depr : depr }.
Record fld := { fl_name : string; fl_desc : string; fl_args : list inval; fl_type : ty;
                fl_default : option string; fl_depr : depr }.
Record enumv := { en_name : string; en_desc : string; en_depr : depr }.
Inductive kind := KScalar | KObj | KIface | KUnion | KEnum | KInput.
Record tdefn := { td_kind : kind; td_name : string; td_desc : string; td_fields : list fld;
                  td_ifaces : list string; td_members : list string; td_enums : list enumv;
                  td_specified : option string (* url of @specifiedBy, if the directive is present *);
                  td_oneof : bool (* @oneOf present *) }.
Record ddefn := { dd_name : string; dd_desc : string; dd_locs : list string; dd_args : list inval; dd_rep : bool }.
Record sch := { sc_desc : string; sc_types : list tdefn (* the Types map, names distinct *);
                sc_query : option string; sc_mutation : option string; sc_subscription : option string;
                sc_dirs : list ddefn }.

(** What the client receives. *)
Inductive tref := RNamed (k : kind) (n : string) | RList (t : tref) | RNonNull (t : tref)
                | RDangling (n : string) (* a name with no definition: Kind() dereferences nil in Go *).
Record r_inval := { ri_name : string; ri_desc : option string; ri_type : tref; ri_default : option string;
                    ri_isdep : bool; ri_reason : option string }.
Record r_field := { rf_name : string; rf_desc : option string; rf_args : list r_inval; rf_type : tref;
                    rf_isdep : bool; rf_reason : option string }.
Record r_enum := { re_name : string; re_desc : option string; re_isdep : bool; re_reason : option string }.
Record r_type := { rt_kind : kind; rt_name : string; rt_desc : option string; rt_spec : option string;
                   rt_fields : list r_field; rt_inputs : list r_inval; rt_ifaces : list tref;
                   rt_enums : list r_enum; rt_possible : list tref; rt_oneof : bool }.
Record r_dir := { rd_name : string; rd_desc : option string; rd_locs : list string; rd_args : list r_inval;
                  rd_rep : bool }.
Record r_schema := { rs_desc : option string; rs_query : option string; rs_mutation : option string;
                     rs_subscription : option string; rs_types : list r_type; rs_dirs : list r_dir }.

(** The four places where the pinned commit differs from the repaired code. *)
Record variant := { v_arg_own_depr : bool    (* an argument's deprecation is its own directive, not its field's *);
                    v_iface_ifaces : bool    (* Interfaces() also answers for interfaces *);
                    v_default_reason : bool  (* enum values / input values report the directive's default reason *);
                    v_possible_objects : bool (* possibleTypes of an interface lists object types only *) }.
Definition fixed : variant := {| v_arg_own_depr := true; v_iface_ifaces := true; v_default_reason := true; v_possible_objects := true |}.
Definition legacy : variant := {| v_arg_own_depr := false; v_iface_ifaces := false; v_default_reason := false; v_possible_objects := false |}.

Definition default_reason : string := "No longer supported".

Definition opt_desc (d : string) : option string := if String.eqb d "" then None else Some d.

Fixpoint find_td (l : list tdefn) (n : string) {struct l} : option tdefn :=
  match l with
  | [] => None
  | d :: r => if String.eqb (td_name d) n then Some d else find_td r n
  end.

Definition named_ref (s : sch) (n : string) : tref :=
  match find_td (sc_types s) n with Some d => RNamed (td_kind d) n | None => RDangling n end.

(** WrapTypeFromType + Kind/Name/OfType: a non-null flag becomes a NON_NULL wrapper around the same type
    without the flag; a list becomes LIST around its element. *)
Fixpoint tref_of (s : sch) (t : ty) {struct t} : tref :=
  match t with
  | TyNamed n nn => if nn then RNonNull (named_ref s n) else named_ref s n
  | TyList e nn => if nn then RNonNull (RList (tref_of s e)) else RList (tref_of s e)
  end.

Definition is_dep (d : depr) : bool := match d with Some _ => true | None => false end.

(** Field.DeprecationReason: default reason when the argument is absent *)
Definition reason_field (d : depr) : option string :=
  match d with None => None | Some None => Some default_reason | Some (Some r) => Some r end.
(** EnumValue/InputValue.DeprecationReason: nil when the argument is absent at the pinned commit *)
Definition reason_other (v : variant) (d : depr) : option string :=
  match d with
  | None => None
  | Some None => if v_default_reason v then Some default_reason else None
  | Some (Some r) => Some r
  end.

Definition intro_inval (v : variant) (s : sch) (d : depr) (a : inval) : r_inval :=
  {| ri_name := iv_name a; ri_desc := opt_desc (iv_desc a); ri_type := tref_of s (iv_type a);
     ri_default := iv_default a; ri_isdep := is_dep d; ri_reason := reason_other v d |}.

Definition has_dunder (n : string) : bool := String.prefix "__" n.

Definition intro_field (v : variant) (s : sch) (f : fld) : r_field :=
  {| rf_name := fl_name f; rf_desc := opt_desc (fl_desc f);
     rf_args := map (fun a => intro_inval v s (if v_arg_own_depr v then iv_depr a else fl_depr f) a) (fl_args f);
     rf_type := tref_of s (fl_type f); rf_isdep := is_dep (fl_depr f); rf_reason := reason_field (fl_depr f) |}.

(** Type.Fields(includeDeprecated) *)
Definition intro_fields (v : variant) (s : sch) (incdep : bool) (d : tdefn) : list r_field :=
  match td_kind d with
  | KObj | KIface =>
      map (intro_field v s)
          (filter (fun f => negb (has_dunder (fl_name f)) && (incdep || negb (is_dep (fl_depr f)))) (td_fields d))
  | _ => []
  end.

(** Type.InputFields(): an input field is a field definition read as an input value *)
Definition fld_as_inval (f : fld) : inval :=
  {| iv_name := fl_name f; iv_desc := fl_desc f; iv_type := fl_type f; iv_default := fl_default f; iv_depr := fl_depr f |}.
Definition intro_inputs (v : variant) (s : sch) (d : tdefn) : list r_inval :=
  match td_kind d with
  | KInput => map (fun f => intro_inval v s (fl_depr f) (fld_as_inval f)) (td_fields d)
  | _ => []
  end.

Definition intro_enums (v : variant) (incdep : bool) (d : tdefn) : list r_enum :=
  match td_kind d with
  | KEnum => map (fun e => {| re_name := en_name e; re_desc := opt_desc (en_desc e); re_isdep := is_dep (en_depr e);
                              re_reason := reason_other v (en_depr e) |})
                 (filter (fun e => incdep || negb (is_dep (en_depr e))) (td_enums d))
  | _ => []
  end.

Definition intro_ifaces (v : variant) (s : sch) (d : tdefn) : list tref :=
  match td_kind d with
  | KObj => map (named_ref s) (td_ifaces d)
  | KIface => if v_iface_ifaces v then map (named_ref s) (td_ifaces d) else []
  | _ => []
  end.

(** insertion sort on a string key (sort.Strings orders byte-wise, as [String.leb]) *)
Section Sort.
  Context {A : Type} (key : A -> string).
  Fixpoint insert_by (x : A) (l : list A) {struct l} : list A :=
    match l with
    | [] => [x]
    | y :: r => if String.leb (key x) (key y) then x :: y :: r else y :: insert_by x r
    end.
  Fixpoint sort_by (l : list A) {struct l} : list A :=
    match l with [] => [] | x :: r => insert_by x (sort_by r) end.
End Sort.

(** Type.PossibleTypes(): a union's members in declaration order; for an interface the OBJECT types that
    declare it, in the order gqlparser's loader met them ([sc_types] is given in that order).  At the pinned
    commit the interfaces that implement the interface were listed too ([v_possible_objects = false]). *)
Definition possible_names (v : variant) (s : sch) (d : tdefn) : list string :=
  match td_kind d with
  | KUnion => td_members d
  | KIface => map td_name (filter (fun o => match td_kind o with
                                            | KObj => existsb (String.eqb (td_name d)) (td_ifaces o)
                                            | KIface => negb (v_possible_objects v) && existsb (String.eqb (td_name d)) (td_ifaces o)
                                            | _ => false end)
                                  (sc_types s))
  | _ => []
  end.

Definition intro_type (v : variant) (s : sch) (d : tdefn) : r_type :=
  {| rt_kind := td_kind d; rt_name := td_name d; rt_desc := opt_desc (td_desc d);
     rt_spec := match td_kind d with KScalar => td_specified d | _ => None end;
     rt_fields := intro_fields v s true d; rt_inputs := intro_inputs v s d; rt_ifaces := intro_ifaces v s d;
     rt_enums := intro_enums v true d; rt_possible := map (named_ref s) (possible_names v s d);
     rt_oneof := match td_kind d with KInput => td_oneof d | _ => false end |}.

Definition intro_dir (v : variant) (s : sch) (d : ddefn) : r_dir :=
  {| rd_name := dd_name d; rd_desc := opt_desc (dd_desc d); rd_locs := dd_locs d;
     (* directiveFromDef does not set the deprecation of a directive argument *)
     rd_args := map (fun a => intro_inval v s (if v_arg_own_depr v then iv_depr a else None) a) (dd_args d);
     rd_rep := dd_rep d |}.

(** Schema.Types / Directives sort by name; the three root types are reported by name *)
Definition introspect (v : variant) (s : sch) : r_schema :=
  {| rs_desc := opt_desc (sc_desc s); rs_query := sc_query s; rs_mutation := sc_mutation s;
     rs_subscription := sc_subscription s;
     rs_types := sort_by rt_name (map (intro_type v s) (sc_types s));
     rs_dirs := sort_by rd_name (map (intro_dir v s) (sc_dirs s)) |}.

(** ---- the client's reconstruction ---- *)
Definition desc_of (o : option string) : string := match o with Some d => d | None => "" end.

Fixpoint ty_of (r : tref) {struct r} : ty :=
  match r with
  | RNamed _ n | RDangling n => TyNamed n false
  | RList e => TyList (ty_of e) false
  | RNonNull e => match ty_of e with TyNamed n _ => TyNamed n true | TyList x _ => TyList x true end
  end.

Definition ref_name (r : tref) : string := match ty_of r with TyNamed n _ => n | TyList _ _ => "" end.

Definition depr_of (isdep : bool) (reason : option string) : depr := if isdep then Some reason else None.

Definition rebuild_inval (a : r_inval) : inval :=
  {| iv_name := ri_name a; iv_desc := desc_of (ri_desc a); iv_type := ty_of (ri_type a); iv_default := ri_default a;
     iv_depr := depr_of (ri_isdep a) (ri_reason a) |}.
Definition rebuild_field (f : r_field) : fld :=
  {| fl_name := rf_name f; fl_desc := desc_of (rf_desc f); fl_args := map rebuild_inval (rf_args f);
     fl_type := ty_of (rf_type f); fl_default := None; fl_depr := depr_of (rf_isdep f) (rf_reason f) |}.
Definition rebuild_input (a : r_inval) : fld :=
  {| fl_name := ri_name a; fl_desc := desc_of (ri_desc a); fl_args := []; fl_type := ty_of (ri_type a);
     fl_default := ri_default a; fl_depr := depr_of (ri_isdep a) (ri_reason a) |}.
Definition rebuild_enum (e : r_enum) : enumv :=
  {| en_name := re_name e; en_desc := desc_of (re_desc e); en_depr := depr_of (re_isdep e) (re_reason e) |}.
Definition rebuild_type (t : r_type) : tdefn :=
  {| td_kind := rt_kind t; td_name := rt_name t; td_desc := desc_of (rt_desc t);
     td_fields := match rt_kind t with KInput => map rebuild_input (rt_inputs t) | _ => map rebuild_field (rt_fields t) end;
     td_ifaces := map ref_name (rt_ifaces t);
     td_members := match rt_kind t with KUnion => map ref_name (rt_possible t) | _ => [] end;
     td_enums := map rebuild_enum (rt_enums t); td_specified := rt_spec t; td_oneof := rt_oneof t |}.
Definition rebuild_dir (d : r_dir) : ddefn :=
  {| dd_name := rd_name d; dd_desc := desc_of (rd_desc d); dd_locs := rd_locs d; dd_args := map rebuild_inval (rd_args d);
     dd_rep := rd_rep d |}.
Definition rebuild (r : r_schema) : sch :=
  {| sc_desc := desc_of (rs_desc r); sc_types := map rebuild_type (rs_types r); sc_query := rs_query r;
     sc_mutation := rs_mutation r; sc_subscription := rs_subscription r; sc_dirs := map rebuild_dir (rs_dirs r) |}.

(** ---- what "exactly" means: the presentation-only normal form of a schema ----
    types and directives ordered by name, the implicit introspection entry fields ([__schema], [__type]) left
    out, and a [@deprecated] without a reason argument read with the directive's declared default. *)
Definition norm_depr (d : depr) : depr := match d with Some None => Some (Some default_reason) | _ => d end.
Definition norm_inval (a : inval) : inval :=
  {| iv_name := iv_name a; iv_desc := iv_desc a; iv_type := iv_type a; iv_default := iv_default a; iv_depr := norm_depr (iv_depr a) |}.
Definition norm_field (f : fld) : fld :=
  {| fl_name := fl_name f; fl_desc := fl_desc f; fl_args := map norm_inval (fl_args f); fl_type := fl_type f;
     fl_default := fl_default f; fl_depr := norm_depr (fl_depr f) |}.
Definition norm_enum (e : enumv) : enumv := {| en_name := en_name e; en_desc := en_desc e; en_depr := norm_depr (en_depr e) |}.
Definition norm_type (d : tdefn) : tdefn :=
  {| td_kind := td_kind d; td_name := td_name d; td_desc := td_desc d;
     td_fields := map norm_field (match td_kind d with
                                  | KObj | KIface => filter (fun f => negb (has_dunder (fl_name f))) (td_fields d)
                                  | _ => td_fields d end);
     td_ifaces := td_ifaces d; td_members := td_members d; td_enums := map norm_enum (td_enums d);
     td_specified := td_specified d; td_oneof := td_oneof d |}.
Definition norm_dir (d : ddefn) : ddefn :=
  {| dd_name := dd_name d; dd_desc := dd_desc d; dd_locs := dd_locs d; dd_args := map norm_inval (dd_args d); dd_rep := dd_rep d |}.
Definition normalise (s : sch) : sch :=
  {| sc_desc := sc_desc s; sc_types := sort_by td_name (map norm_type (sc_types s)); sc_query := sc_query s;
     sc_mutation := sc_mutation s; sc_subscription := sc_subscription s;
     sc_dirs := sort_by dd_name (map norm_dir (sc_dirs s)) |}.

(** ---- well-formedness: the shape gqlparser's loader gives each kind of definition (a boolean, evaluated on
    every schema of the correspondence run).  Nothing is assumed about names being defined. ---- *)
Definition nil_b {A} (l : list A) : bool := match l with [] => true | _ => false end.
Definition none_b {A} (o : option A) : bool := match o with None => true | Some _ => false end.
Definition wf_type (d : tdefn) : bool :=
  match td_kind d with
  | KScalar => nil_b (td_fields d) && nil_b (td_ifaces d) && nil_b (td_members d) && nil_b (td_enums d) && negb (td_oneof d)
  | KObj | KIface => forallb (fun f => none_b (fl_default f)) (td_fields d) &&
                     nil_b (td_members d) && nil_b (td_enums d) && negb (td_oneof d) && none_b (td_specified d)
  | KUnion => nil_b (td_fields d) && nil_b (td_ifaces d) && nil_b (td_enums d) && negb (td_oneof d) && none_b (td_specified d)
  | KEnum => nil_b (td_fields d) && nil_b (td_ifaces d) && nil_b (td_members d) && negb (td_oneof d) && none_b (td_specified d)
  | KInput => forallb (fun f => nil_b (fl_args f)) (td_fields d) &&
              nil_b (td_ifaces d) && nil_b (td_members d) && nil_b (td_enums d) && none_b (td_specified d)
  end.
Definition wf_schema (s : sch) : bool := forallb wf_type (sc_types s).

(** every type name mentioned is defined: then no reference dangles (in Go: no nil dereference in Kind()) *)
Fixpoint ty_name (t : ty) {struct t} : string := match t with TyNamed n _ => n | TyList e _ => ty_name e end.
Definition defined (s : sch) (n : string) : bool := match find_td (sc_types s) n with Some _ => true | None => false end.
Definition closed_inval (s : sch) (a : inval) : bool := defined s (ty_name (iv_type a)).
Definition closed_field (s : sch) (f : fld) : bool := defined s (ty_name (fl_type f)) && forallb (closed_inval s) (fl_args f).
Definition closed_type (s : sch) (d : tdefn) : bool :=
  forallb (closed_field s) (td_fields d) && forallb (defined s) (td_ifaces d) && forallb (defined s) (td_members d).
Definition closed_schema (s : sch) : bool :=
  forallb (closed_type s) (sc_types s) && forallb (fun d => forallb (closed_inval s) (dd_args d)) (sc_dirs s).

Fixpoint dangling (r : tref) {struct r} : bool :=
  match r with RDangling _ => true | RNamed _ _ => false | RList e | RNonNull e => dangling e end.
Definition dangling_inval (a : r_inval) : bool := dangling (ri_type a).
Definition dangling_type (t : r_type) : bool :=
  existsb (fun f => dangling (rf_type f) || existsb dangling_inval (rf_args f)) (rt_fields t) ||
  existsb dangling_inval (rt_inputs t) || existsb dangling (rt_ifaces t) || existsb dangling (rt_possible t).
Definition dangling_schema (r : r_schema) : bool :=
  existsb dangling_type (rs_types r) || existsb (fun d => existsb dangling_inval (rd_args d)) (rs_dirs r).

(** ---- decidable equalities used by the correspondence ---- *)
Definition kind_eqb (a b : kind) : bool :=
  match a, b with
  | KScalar, KScalar | KObj, KObj | KIface, KIface | KUnion, KUnion | KEnum, KEnum | KInput, KInput => true
  | _, _ => false
  end.
Fixpoint ty_eqb (a b : ty) {struct a} : bool :=
  match a, b with
  | TyNamed n x, TyNamed m y => String.eqb n m && Bool.eqb x y
  | TyList e x, TyList f y => ty_eqb e f && Bool.eqb x y
  | _, _ => false
  end.
Fixpoint tref_eqb (a b : tref) {struct a} : bool :=
  match a, b with
  | RNamed k n, RNamed l m => kind_eqb k l && String.eqb n m
  | RList x, RList y | RNonNull x, RNonNull y => tref_eqb x y
  | RDangling n, RDangling m => String.eqb n m
  | _, _ => false
  end.
Definition ostr_eqb := option_eqb String.eqb.
Definition depr_eqb (a b : depr) : bool := option_eqb ostr_eqb a b.
Definition strs_eqb := list_eqb String.eqb.
Definition inval_eqb (a b : inval) : bool :=
  String.eqb (iv_name a) (iv_name b) && String.eqb (iv_desc a) (iv_desc b) && ty_eqb (iv_type a) (iv_type b) &&
  ostr_eqb (iv_default a) (iv_default b) && depr_eqb (iv_depr a) (iv_depr b).
Definition fld_eqb (a b : fld) : bool :=
  String.eqb (fl_name a) (fl_name b) && String.eqb (fl_desc a) (fl_desc b) && list_eqb inval_eqb (fl_args a) (fl_args b) &&
  ty_eqb (fl_type a) (fl_type b) && ostr_eqb (fl_default a) (fl_default b) && depr_eqb (fl_depr a) (fl_depr b).
Definition enumv_eqb (a b : enumv) : bool :=
  String.eqb (en_name a) (en_name b) && String.eqb (en_desc a) (en_desc b) && depr_eqb (en_depr a) (en_depr b).
Definition tdefn_eqb (a b : tdefn) : bool :=
  kind_eqb (td_kind a) (td_kind b) && String.eqb (td_name a) (td_name b) && String.eqb (td_desc a) (td_desc b) &&
  list_eqb fld_eqb (td_fields a) (td_fields b) && strs_eqb (td_ifaces a) (td_ifaces b) && strs_eqb (td_members a) (td_members b) &&
  list_eqb enumv_eqb (td_enums a) (td_enums b) && ostr_eqb (td_specified a) (td_specified b) && Bool.eqb (td_oneof a) (td_oneof b).
Definition ddefn_eqb (a b : ddefn) : bool :=
  String.eqb (dd_name a) (dd_name b) && String.eqb (dd_desc a) (dd_desc b) && strs_eqb (dd_locs a) (dd_locs b) &&
  list_eqb inval_eqb (dd_args a) (dd_args b) && Bool.eqb (dd_rep a) (dd_rep b).
Definition sch_eqb (a b : sch) : bool :=
  String.eqb (sc_desc a) (sc_desc b) && list_eqb tdefn_eqb (sc_types a) (sc_types b) && ostr_eqb (sc_query a) (sc_query b) &&
  ostr_eqb (sc_mutation a) (sc_mutation b) && ostr_eqb (sc_subscription a) (sc_subscription b) &&
  list_eqb ddefn_eqb (sc_dirs a) (sc_dirs b).

Definition r_inval_eqb (a b : r_inval) : bool :=
  String.eqb (ri_name a) (ri_name b) && ostr_eqb (ri_desc a) (ri_desc b) && tref_eqb (ri_type a) (ri_type b) &&
  ostr_eqb (ri_default a) (ri_default b) && Bool.eqb (ri_isdep a) (ri_isdep b) && ostr_eqb (ri_reason a) (ri_reason b).
Definition r_field_eqb (a b : r_field) : bool :=
  String.eqb (rf_name a) (rf_name b) && ostr_eqb (rf_desc a) (rf_desc b) && list_eqb r_inval_eqb (rf_args a) (rf_args b) &&
  tref_eqb (rf_type a) (rf_type b) && Bool.eqb (rf_isdep a) (rf_isdep b) && ostr_eqb (rf_reason a) (rf_reason b).
Definition r_enum_eqb (a b : r_enum) : bool :=
  String.eqb (re_name a) (re_name b) && ostr_eqb (re_desc a) (re_desc b) && Bool.eqb (re_isdep a) (re_isdep b) &&
  ostr_eqb (re_reason a) (re_reason b).
Definition r_type_eqb (a b : r_type) : bool :=
  kind_eqb (rt_kind a) (rt_kind b) && String.eqb (rt_name a) (rt_name b) && ostr_eqb (rt_desc a) (rt_desc b) &&
  ostr_eqb (rt_spec a) (rt_spec b) && list_eqb r_field_eqb (rt_fields a) (rt_fields b) &&
  list_eqb r_inval_eqb (rt_inputs a) (rt_inputs b) && list_eqb tref_eqb (rt_ifaces a) (rt_ifaces b) &&
  list_eqb r_enum_eqb (rt_enums a) (rt_enums b) && list_eqb tref_eqb (rt_possible a) (rt_possible b) &&
  Bool.eqb (rt_oneof a) (rt_oneof b).
Definition r_dir_eqb (a b : r_dir) : bool :=
  String.eqb (rd_name a) (rd_name b) && ostr_eqb (rd_desc a) (rd_desc b) && strs_eqb (rd_locs a) (rd_locs b) &&
  list_eqb r_inval_eqb (rd_args a) (rd_args b) && Bool.eqb (rd_rep a) (rd_rep b).
Definition r_schema_eqb (a b : r_schema) : bool :=
  ostr_eqb (rs_desc a) (rs_desc b) && ostr_eqb (rs_query a) (rs_query b) && ostr_eqb (rs_mutation a) (rs_mutation b) &&
  ostr_eqb (rs_subscription a) (rs_subscription b) && list_eqb r_type_eqb (rs_types a) (rs_types b) &&
  list_eqb r_dir_eqb (rs_dirs a) (rs_dirs b).
