(** C05 / C12: the lock discipline of the multipart/mixed transport
    (graphql/handler/transport/http_multipart_mixed.go).  The handler goroutine adds the responses of the operation to
    the aggregator and ends with [Done] (signal, final flush) and its deferred [flusher.Flush()]; the ticker goroutine
    flushes the aggregator on every tick until it sees the signal.  A flush is: lock; nothing pending - unlock;
    otherwise write the pending responses as one part to the response writer, [Flush()] it, unlock.  Every use of the
    response writer takes two steps (begin, end), so that two goroutines using it at once is a reachable state exactly
    when the discipline allows it.  [locked_flush = false] is the slip that unlocks before the network flush.
    Definitions only. *)
From GV Require Import Base.Prelude.
Open Scope nat_scope.
Open Scope list_scope.

Inductive mtid := MH | MK.

(** where a goroutine is inside [flush] *)
Inductive fpc :=
| FStart       (* about to Lock *)
| FLocked      (* holds the mutex, looks at what is pending *)
| FWriting     (* writing the part *)
| FWritten
| FFlushing    (* inside flusher.Flush(), mutex held *)
| FFlushed     (* about to Unlock *)
| FUnlocked    (* (slip) mutex released, Flush() still to come *)
| FUFlushing   (* (slip) inside flusher.Flush() without the mutex *)
| FEnd.        (* flush returned *)

Inductive hstage :=
| MHAdding      (* responses still arriving *)
| MHFlush       (* Done: the signal is sent, the final flush runs *)
| MHClose       (* Done, since 03deacd: lock; a stream left open gets its last part and the closing boundary; unlock *)
| MHDeferred    (* about to run the deferred flusher.Flush() *)
| MHDeferring   (* inside it *)
| MHReturned.

Inductive kstage := MKSelect | MKFlush | MKEnd.

Record mpstate := {
  m_todo : list nat;            (* responses the operation has still to produce *)
  m_h : hstage;
  m_hf : fpc;
  m_k : kstage;
  m_kf : fpc;
  m_holder : option mtid;
  m_pending : list nat;         (* initialResponse / deferResponses *)
  m_added : list nat;           (* ghost: everything handed to Add *)
  m_out : list (mtid * list nat);   (* the parts written, with their writer *)
  m_done : bool;                (* the signal is in the channel *)
  m_using_h : bool;             (* the handler goroutine is inside a call on the response writer *)
  m_using_k : bool;
  m_late : nat;                 (* uses of the response writer begun after the handler returned *)
  m_open : bool }.              (* the last delimiter written was not the closing boundary (what the payloads said: any value) *)

Inductive mlabel := MLHandler | MLTick | MLSeeDone | MLTicker.

Definition mpinit_open (responses : list nat) (open : bool) : mpstate :=
  {| m_todo := responses; m_h := MHAdding; m_hf := FStart; m_k := MKSelect; m_kf := FStart; m_holder := None;
     m_pending := []; m_added := []; m_out := []; m_done := false; m_using_h := false; m_using_k := false; m_late := 0; m_open := open |}.
Definition mpinit (responses : list nat) : mpstate := mpinit_open responses false.

(** the shared part of the state a flush step changes *)
Record fshared := { f_holder : option mtid; f_pending : list nat; f_out : list (mtid * list nat); f_using : bool }.

(** one step of [flush] run by goroutine [me]; [None]: blocked in Lock *)
Definition flush_step (locked_flush : bool) (me : mtid) (pc : fpc) (g : fshared) : option (fpc * fshared) :=
  match pc with
  | FStart => match f_holder g with
              | None => Some (FLocked, {| f_holder := Some me; f_pending := f_pending g; f_out := f_out g; f_using := f_using g |})
              | Some _ => None
              end
  | FLocked => match f_pending g with
               | [] => Some (FEnd, {| f_holder := None; f_pending := []; f_out := f_out g; f_using := f_using g |})
               | _ => Some (FWriting, {| f_holder := f_holder g; f_pending := f_pending g; f_out := f_out g; f_using := true |})
               end
  | FWriting => Some (FWritten, {| f_holder := f_holder g; f_pending := []; f_out := f_out g ++ [(me, f_pending g)]; f_using := false |})
  | FWritten => if locked_flush
                then Some (FFlushing, {| f_holder := f_holder g; f_pending := f_pending g; f_out := f_out g; f_using := true |})
                else Some (FUnlocked, {| f_holder := None; f_pending := f_pending g; f_out := f_out g; f_using := f_using g |})
  | FFlushing => Some (FFlushed, {| f_holder := f_holder g; f_pending := f_pending g; f_out := f_out g; f_using := false |})
  | FFlushed => Some (FEnd, {| f_holder := None; f_pending := f_pending g; f_out := f_out g; f_using := f_using g |})
  | FUnlocked => Some (FUFlushing, {| f_holder := f_holder g; f_pending := f_pending g; f_out := f_out g; f_using := true |})
  | FUFlushing => Some (FEnd, {| f_holder := f_holder g; f_pending := f_pending g; f_out := f_out g; f_using := false |})
  | FEnd => None
  end.

(** one step of the closing write of [Done], run by the handler: lock; a stream that is not open - unlock; otherwise
    write the last part and the closing boundary (a part that carries no response), [Flush()], unlock *)
Definition close_step (open : bool) (pc : fpc) (g : fshared) : option (fpc * fshared) :=
  match pc with
  | FStart => match f_holder g with
              | None => Some (FLocked, {| f_holder := Some MH; f_pending := f_pending g; f_out := f_out g; f_using := f_using g |})
              | Some _ => None
              end
  | FLocked => if open
               then Some (FWriting, {| f_holder := f_holder g; f_pending := f_pending g; f_out := f_out g; f_using := true |})
               else Some (FEnd, {| f_holder := None; f_pending := f_pending g; f_out := f_out g; f_using := f_using g |})
  | FWriting => Some (FWritten, {| f_holder := f_holder g; f_pending := f_pending g; f_out := f_out g ++ [(MH, [])]; f_using := false |})
  | FWritten => Some (FFlushing, {| f_holder := f_holder g; f_pending := f_pending g; f_out := f_out g; f_using := true |})
  | FFlushing => Some (FFlushed, {| f_holder := f_holder g; f_pending := f_pending g; f_out := f_out g; f_using := false |})
  | FFlushed => Some (FEnd, {| f_holder := None; f_pending := f_pending g; f_out := f_out g; f_using := f_using g |})
  | FUnlocked | FUFlushing | FEnd => None
  end.

Definition returned (s : mpstate) : bool := match m_h s with MHReturned => true | _ => false end.
Definition late_if (s : mpstate) (before after : bool) : nat :=
  if returned s && negb before && after then S (m_late s) else m_late s.

Definition mpstep (locked_flush : bool) (s : mpstate) (l : mlabel) : option mpstate :=
  match l with
  | MLHandler =>
      match m_h s with
      | MHAdding =>
          match m_todo s with
          | x :: r =>
              (* Add: lock, append, unlock *)
              match m_holder s with
              | None => Some {| m_todo := r; m_h := MHAdding; m_hf := m_hf s; m_k := m_k s; m_kf := m_kf s; m_holder := None;
                                m_pending := m_pending s ++ [x]; m_added := m_added s ++ [x]; m_out := m_out s; m_done := m_done s;
                                m_using_h := m_using_h s; m_using_k := m_using_k s; m_late := m_late s; m_open := m_open s |}
              | Some _ => None
              end
          | [] => Some {| m_todo := []; m_h := MHFlush; m_hf := FStart; m_k := m_k s; m_kf := m_kf s; m_holder := m_holder s;
                          m_pending := m_pending s; m_added := m_added s; m_out := m_out s; m_done := true;
                          m_using_h := m_using_h s; m_using_k := m_using_k s; m_late := m_late s; m_open := m_open s |}
          end
      | MHFlush =>
          match m_hf s with
          | FEnd => Some {| m_todo := m_todo s; m_h := MHClose; m_hf := FStart; m_k := m_k s; m_kf := m_kf s; m_holder := m_holder s;
                            m_pending := m_pending s; m_added := m_added s; m_out := m_out s; m_done := m_done s;
                            m_using_h := m_using_h s; m_using_k := m_using_k s; m_late := m_late s; m_open := m_open s |}
          | pc =>
              match flush_step locked_flush MH pc {| f_holder := m_holder s; f_pending := m_pending s; f_out := m_out s; f_using := m_using_h s |} with
              | Some (pc', g) => Some {| m_todo := m_todo s; m_h := MHFlush; m_hf := pc'; m_k := m_k s; m_kf := m_kf s; m_holder := f_holder g;
                                         m_pending := f_pending g; m_added := m_added s; m_out := f_out g; m_done := m_done s;
                                         m_using_h := f_using g; m_using_k := m_using_k s; m_late := m_late s; m_open := m_open s |}
              | None => None
              end
          end
      | MHClose =>
          match m_hf s with
          | FEnd => Some {| m_todo := m_todo s; m_h := MHDeferred; m_hf := FEnd; m_k := m_k s; m_kf := m_kf s; m_holder := m_holder s;
                            m_pending := m_pending s; m_added := m_added s; m_out := m_out s; m_done := m_done s;
                            m_using_h := m_using_h s; m_using_k := m_using_k s; m_late := m_late s; m_open := m_open s |}
          | pc =>
              match close_step (m_open s) pc {| f_holder := m_holder s; f_pending := m_pending s; f_out := m_out s; f_using := m_using_h s |} with
              | Some (pc', g) => Some {| m_todo := m_todo s; m_h := MHClose; m_hf := pc'; m_k := m_k s; m_kf := m_kf s; m_holder := f_holder g;
                                         m_pending := f_pending g; m_added := m_added s; m_out := f_out g; m_done := m_done s;
                                         m_using_h := f_using g; m_using_k := m_using_k s; m_late := m_late s;
                                         m_open := (match pc with FFlushed => false | _ => m_open s end) |}
              | None => None
              end
          end
      | MHDeferred => Some {| m_todo := m_todo s; m_h := MHDeferring; m_hf := m_hf s; m_k := m_k s; m_kf := m_kf s; m_holder := m_holder s;
                             m_pending := m_pending s; m_added := m_added s; m_out := m_out s; m_done := m_done s;
                             m_using_h := true; m_using_k := m_using_k s; m_late := m_late s; m_open := m_open s |}
      | MHDeferring => Some {| m_todo := m_todo s; m_h := MHReturned; m_hf := m_hf s; m_k := m_k s; m_kf := m_kf s; m_holder := m_holder s;
                              m_pending := m_pending s; m_added := m_added s; m_out := m_out s; m_done := m_done s;
                              m_using_h := false; m_using_k := m_using_k s; m_late := m_late s; m_open := m_open s |}
      | MHReturned => None
      end
  | MLTick =>
      match m_k s with
      | MKSelect => Some {| m_todo := m_todo s; m_h := m_h s; m_hf := m_hf s; m_k := MKFlush; m_kf := FStart; m_holder := m_holder s;
                           m_pending := m_pending s; m_added := m_added s; m_out := m_out s; m_done := m_done s;
                           m_using_h := m_using_h s; m_using_k := m_using_k s; m_late := m_late s; m_open := m_open s |}
      | _ => None
      end
  | MLSeeDone =>
      match m_k s with
      | MKSelect => if m_done s
                   then Some {| m_todo := m_todo s; m_h := m_h s; m_hf := m_hf s; m_k := MKEnd; m_kf := m_kf s; m_holder := m_holder s;
                                m_pending := m_pending s; m_added := m_added s; m_out := m_out s; m_done := m_done s;
                                m_using_h := m_using_h s; m_using_k := m_using_k s; m_late := m_late s; m_open := m_open s |}
                   else None
      | _ => None
      end
  | MLTicker =>
      match m_k s with
      | MKFlush =>
          match m_kf s with
          | FEnd => Some {| m_todo := m_todo s; m_h := m_h s; m_hf := m_hf s; m_k := MKSelect; m_kf := FEnd; m_holder := m_holder s;
                            m_pending := m_pending s; m_added := m_added s; m_out := m_out s; m_done := m_done s;
                            m_using_h := m_using_h s; m_using_k := m_using_k s; m_late := m_late s; m_open := m_open s |}
          | pc =>
              match flush_step locked_flush MK pc {| f_holder := m_holder s; f_pending := m_pending s; f_out := m_out s; f_using := m_using_k s |} with
              | Some (pc', g) => Some {| m_todo := m_todo s; m_h := m_h s; m_hf := m_hf s; m_k := MKFlush; m_kf := pc'; m_holder := f_holder g;
                                         m_pending := f_pending g; m_added := m_added s; m_out := f_out g; m_done := m_done s;
                                         m_using_h := m_using_h s; m_using_k := f_using g;
                                         m_late := late_if s (m_using_k s) (f_using g); m_open := m_open s |}
              | None => None
              end
          end
      | _ => None
      end
  end.

Fixpoint mprun (locked_flush : bool) (s : mpstate) (tr : list mlabel) {struct tr} : option mpstate :=
  match tr with [] => Some s | l :: r => match mpstep locked_flush s l with Some s' => mprun locked_flush s' r | None => None end end.

Definition written (s : mpstate) : list nat := flat_map snd (m_out s).
Definition both_using (s : mpstate) : bool := m_using_h s && m_using_k s.
