(** C18 / C19: one whole regeneration of the resolver files at declaration level - what resolvergen writes for
    the resolvers the schema calls for, given the files that are there.  The text the template renders for a
    method, an accessor or a wrapper struct, the stub body and the default doc comment are parameters: the
    theorems hold for ANY of them.  Definitions only. *)
From GV Require Import Base.Prelude Model.Rewrite.
Open Scope string_scope.
Open Scope list_scope.

Definition find_file (l : list rfile) (n : string) : option rfile := find (fun f => String.eqb (f_name f) n) l.
Definition is_live_file (lv : list live) (n : string) : bool := existsb (fun l => String.eqb (l_file l) n) lv.

(** the pinned commit: the root resolver type of the single-file layout was never counted as carried over *)
Definition copied_legacy (lv : list live) (d : decl) : bool :=
  match d_kind d with
  | KMethod r n =>
      existsb (fun l => existsb (fun m => String.eqb (fst m) r && String.eqb (snd m) n) (l_methods l)) lv
      || (String.eqb r "Resolver" && existsb (fun l => existsb (String.eqb n) (l_access l)) lv)
  | KType n => existsb (fun l => existsb (String.eqb n) (l_structs l)) lv
  | _ => false
  end.

Section Regen.
  Variable method_src : string -> string -> string -> string.  (* receiver, name, body: the rendered method *)
  Variable access_src : string -> string.
  Variable struct_src : string -> string.
  Variable stub_body : string -> string -> string.             (* panic(fmt.Errorf("not implemented: ...")) *)
  Variable default_doc : string -> string -> string.           (* "X is the resolver for the x field." *)
  Variable cp : list live -> decl -> bool.                     (* [copied], or [copied_legacy] *)

  Definition left_over_with (lv : list live) (f : rfile) : list decl :=
    filter (fun d => negb (cp lv d) && negb (is_import d)) (f_decls f).
  Definition remaining_with (lv : list live) (f : rfile) : string := join "\n" (map d_src (left_over_with lv f)).

  Definition doc_or_default (r n doc : string) : string := if String.eqb doc "" then default_doc r n else doc.

  (** a resolver the schema calls for: the previous body and doc comment text if there is a previous
      declaration anywhere in the package, the stub otherwise *)
  Definition gen_method (before : list rfile) (m : string * string) : decl :=
    match prev_decl before (fst m) (snd m) with
    | Some p => let doc := doc_or_default (fst m) (snd m) (d_doc p) in
                {| d_kind := KMethod (fst m) (snd m); d_doc := doc; d_rawdoc := doc; d_body := d_body p;
                   d_results := d_results p;   (* the previous declaration's result list, names included *)
                   d_src := method_src (fst m) (snd m) (d_body p) |}
    | None => let doc := doc_or_default (fst m) (snd m) "" in
              {| d_kind := KMethod (fst m) (snd m); d_doc := doc; d_rawdoc := doc; d_body := stub_body (fst m) (snd m);
                 d_results := "";
                 d_src := method_src (fst m) (snd m) (stub_body (fst m) (snd m)) |}
    end.
  Definition gen_access (a : string) : decl :=
    {| d_kind := KMethod "Resolver" a; d_doc := ""; d_rawdoc := ""; d_body := ""; d_results := ""; d_src := access_src a |}.
  Definition gen_struct (s : string) : decl :=
    {| d_kind := KType s; d_doc := ""; d_rawdoc := ""; d_body := ""; d_results := ""; d_src := struct_src s |}.
  Definition root_decl : decl :=
    {| d_kind := KType "Resolver"; d_doc := ""; d_rawdoc := ""; d_body := ""; d_results := ""; d_src := "type Resolver struct{}" |}.

  (** one regenerated file: root type (single-file layout), resolvers, accessors, wrapper structs; the previous
      file's imports; what was neither carried over nor an import in the warning block *)
  Definition regen_file (lv : list live) (before : list rfile) (l : live) : rfile :=
    {| f_name := l_file l;
       f_imports := match find_file before (l_file l) with Some bf => f_imports bf | None => [] end;
       f_decls := (if l_root l then [root_decl] else []) ++ map (gen_method before) (l_methods l)
                  ++ map gen_access (l_access l) ++ map gen_struct (l_structs l);
       f_remaining := match find_file before (l_file l) with
                      | Some bf => match left_over_with lv bf with [] => None | _ => Some (remaining_with lv bf) end
                      | None => None
                      end |}.

  (** the package after the run: the regenerated files, and the files the generator no longer writes, untouched *)
  Definition stale (lv : list live) (before : list rfile) : list rfile :=
    filter (fun bf => negb (is_live_file lv (f_name bf))) before.
  Definition regen (lv : list live) (before : list rfile) : list rfile :=
    map (regen_file lv before) lv ++ stale lv before.

  Fixpoint regen_n (k : nat) (lv : list live) (fs : list rfile) {struct k} : list rfile :=
    match k with O => fs | S j => regen lv (regen_n j lv fs) end.
End Regen.

Definition clear_remaining (f : rfile) : rfile :=
  {| f_name := f_name f; f_imports := f_imports f; f_decls := f_decls f; f_remaining := None |}.

(** what the schema's resolvers look like in gqlgen: one resolver file per name, every (receiver, method) once,
    and no receiver struct is called like the root resolver type *)
Definition pair_eqb (a b : string * string) : bool := String.eqb (fst a) (fst b) && String.eqb (snd a) (snd b).
Fixpoint nodupb {A} (eqb : A -> A -> bool) (l : list A) {struct l} : bool :=
  match l with [] => true | x :: r => negb (existsb (eqb x) r) && nodupb eqb r end.
Definition wf_live (lv : list live) : bool :=
  nodupb String.eqb (map l_file lv) && nodupb pair_eqb (flat_map l_methods lv)
  && forallb (fun m => negb (String.eqb (fst m) "Resolver")) (flat_map l_methods lv).
