(** C17: the word-level naming functions of codegen/templates - wordWalker, ToGo, ToGoPrivate, sanitizeKeywords -
    on ASCII text (GraphQL names are [_A-Za-z][_0-9A-Za-z]*; for ASCII the unicode predicates are the ASCII
    classes).  Definitions only. *)
From GV Require Import Base.Prelude.
Open Scope char_scope.
Open Scope list_scope.

Definition chars := list ascii.
Definition code (c : ascii) : N := N_of_ascii c.
Definition is_lower (c : ascii) : bool := (97 <=? code c)%N && (code c <=? 122)%N.
Definition is_upper (c : ascii) : bool := (65 <=? code c)%N && (code c <=? 90)%N.
Definition is_digit (c : ascii) : bool := (48 <=? code c)%N && (code c <=? 57)%N.
Definition is_space_c (c : ascii) : bool := ((9 <=? code c)%N && (code c <=? 13)%N) || (code c =? 32)%N.
Definition is_delim (c : ascii) : bool := (code c =? 45)%N || (code c =? 95)%N || is_space_c c.   (* - _ space *)
Definition to_upper_c (c : ascii) : ascii := if is_lower c then ascii_of_N (code c - 32) else c.
Definition to_lower_c (c : ascii) : ascii := if is_upper c then ascii_of_N (code c + 32) else c.
Definition upper (w : chars) : chars := map to_upper_c w.
Definition lower (w : chars) : chars := map to_lower_c w.
Definition uc_first (w : chars) : chars := match w with [] => [] | c :: r => to_upper_c c :: r end.
Definition lc_first (w : chars) : chars := match w with [] => [] | c :: r => to_lower_c c :: r end.

Fixpoint chars_eqb (a b : chars) {struct a} : bool :=
  match a, b with
  | [], [] => true
  | x :: a', y :: b' => Ascii.eqb x y && chars_eqb a' b'
  | _, _ => false
  end.
Definition cs (s : string) : chars := list_ascii_of_string s.

(** CommonInitialisms *)
Definition initialisms : list chars :=
  map cs ["ACL"; "API"; "ASCII"; "CPU"; "CSS"; "CSV"; "DNS"; "EOF"; "GUID"; "HTML"; "HTTP"; "HTTPS"; "ICMP"; "ID"; "IP";
          "JSON"; "KVK"; "LHS"; "PDF"; "PGP"; "QPS"; "QR"; "RAM"; "RHS"; "RPC"; "SLA"; "SMTP"; "SQL"; "SSH"; "SVG"; "TCP";
          "TLS"; "TTL"; "UDP"; "UI"; "UID"; "URI"; "URL"; "UTF8"; "UUID"; "VM"; "XML"; "XMPP"; "XSRF"; "XSS"; "AWS"; "GCP"]%string.
Definition is_init (w : chars) : bool := existsb (chars_eqb w) initialisms.
Definition is_id_ip (w : chars) : bool := chars_eqb w (cs "ID") || chars_eqb w (cs "IP").

(** strings.TrimFunc(str, isDelimiter) *)
Fixpoint drop_delims (l : chars) {struct l} : chars :=
  match l with [] => [] | c :: r => if is_delim c then drop_delims r else l end.
Definition trim_delims (l : chars) : chars := rev (drop_delims (rev (drop_delims l))).

(** what the walker hands to its callback *)
Record winfo := { w_off : nat; w_word : chars; w_match : bool; w_has : bool }.

Definition last_c (cur : chars) : ascii := last cur " ".

(** the word [cur] ends here ([eow] = true): it is an initialism when its upper-case form is one *)
Definition emit_eow (wo : nat) (cur : chars) (has : bool) : winfo :=
  let m := is_init (upper cur) in {| w_off := wo; w_word := cur; w_match := m; w_has := has || m |}.

(** the walker, by recursion on the text after the current character.  [MWord cur has]: [cur] is the word read so
    far, ending in the current character; [MSkip pd ld]: a word just ended before a run of delimiters that is
    being removed ([pd]: the word ended in a digit, [ld]: the last delimiter seen - one delimiter is kept between
    two digits). *)
Inductive wmode := MWord (cur : chars) (has : bool) | MSkip (pd : bool) (ld : ascii).

Fixpoint walk (m : wmode) (wo : nat) (rest : chars) {struct rest} : list winfo :=
  match rest with
  | [] => match m with MWord cur has => [emit_eow wo cur has] | MSkip _ _ => [] end
  | d :: r =>
      match m with
      | MSkip pd ld =>
          if is_delim d then walk (MSkip pd d) wo r
          else if pd && is_digit d then walk (MWord [ld; d] false) wo r
          else walk (MWord [d] false) wo r
      | MWord cur has =>
          if is_delim d then emit_eow wo cur has :: walk (MSkip (is_digit (last_c cur)) d) (S wo) r
          else if is_lower (last_c cur) && negb (is_lower d) then emit_eow wo cur has :: walk (MWord [d] false) (S wo) r
          else if is_init cur && negb (is_lower d) then
            (* IDFoo -> ID, Foo; but IDFOo stays one word *)
            if is_id_ip cur && match r with e :: _ => is_upper e | [] => false end
            then walk (MWord (cur ++ [d]) has) wo r
            else {| w_off := wo; w_word := cur; w_match := true; w_has := true |} :: walk (MWord [d] false) (S wo) r
          else walk (MWord (cur ++ [d]) (has || is_init cur)) wo r
      end
  end.

Definition word_walker (s : chars) : list winfo :=
  match trim_delims s with [] => [] | c :: r => walk (MWord [c] false) 0 r end.

(** wordWalkerFunc *)
Definition all_one_case (w : chars) : bool := chars_eqb (upper w) w || chars_eqb (lower w) w.
Definition render_word (private : bool) (i : winfo) : chars :=
  let w := w_word i in
  if private && Nat.eqb (w_off i) 0 then (if all_one_case w then lower w else lc_first w)
  else if w_match i then upper w
  else if negb (w_has i) && all_one_case w then uc_first (lower w)
  else w.

Definition keywords : list chars :=
  map cs ["break"; "default"; "func"; "interface"; "select"; "case"; "defer"; "go"; "map"; "struct"; "chan"; "else"; "goto";
          "package"; "switch"; "const"; "fallthrough"; "if"; "range"; "type"; "continue"; "for"; "import"; "return"; "var"; "_"]%string.
Definition sanitize_keywords (n : chars) : chars := if existsb (chars_eqb n) keywords then n ++ cs "Arg" else n.

Definition underscore_only (s : chars) : bool := chars_eqb s (cs "_").
Definition to_go_c (s : chars) : chars :=
  if underscore_only s then s else List.concat (map (render_word false) (word_walker s)).
Definition to_go_private_c (s : chars) : chars :=
  if underscore_only s then s else sanitize_keywords (List.concat (map (render_word true) (word_walker s))).

Definition to_go (s : string) : string := string_of_list_ascii (to_go_c (cs s)).
Definition to_go_private (s : string) : string := string_of_list_ascii (to_go_private_c (cs s)).

(** the character classes of names *)
Definition is_letter (c : ascii) : bool := is_lower c || is_upper c.
Definition name_char (c : ascii) : bool := is_letter c || is_digit c || (code c =? 95)%N.
(** a GraphQL name; [letter_first]: its first character that is not an underscore is a letter *)
Definition graphql_name (s : chars) : bool :=
  match s with [] => false | c :: _ => negb (is_digit c) && forallb name_char s end.
Definition letter_first (s : chars) : bool := match drop_delims s with c :: _ => is_letter c | [] => false end.
(** a Go identifier made of ASCII *)
Definition go_ident (s : chars) : bool :=
  match s with [] => false | c :: _ => (is_letter c || (code c =? 95)%N) && forallb name_char s end.
Definition exported (s : chars) : bool := match s with c :: _ => is_upper c | [] => false end.
