(** C07 / C09: the pooled request parameters of the POST transport (graphql/handler/transport/http_post.go):
    a RawParams object is taken from a sync.Pool, the JSON body is decoded INTO it (encoding/json sets the members
    that are present and leaves the others as they are; a member of the wrong JSON type is reported at the end
    while the other members are still stored; a body that is not one complete JSON value is refused by the decoder's
    scanner before anything is stored), the operation runs,
    and a deferred function clears the object before it goes back to the pool.  Definitions only. *)
From GV Require Import Base.Prelude.
Open Scope string_scope.
Open Scope list_scope.

Inductive pfield := FQuery | FOpName | FVariables | FExtensions | FHeaders | FReadTime.
Definition pfield_eqb (a b : pfield) : bool :=
  match a, b with
  | FQuery, FQuery | FOpName, FOpName | FVariables, FVariables | FExtensions, FExtensions
  | FHeaders, FHeaders | FReadTime, FReadTime => true
  | _, _ => false
  end.

(** the value of a field, abstractly: unset (zero value), a scalar text, or a map of keys *)
Inductive pval := PZero | PText (s : string) | PMap (keys : list (string * string)).

Record params := { p_query : pval; p_opname : pval; p_vars : pval; p_exts : pval; p_headers : pval; p_readtime : pval }.
Definition pzero : params :=
  {| p_query := PZero; p_opname := PZero; p_vars := PZero; p_exts := PZero; p_headers := PZero; p_readtime := PZero |}.

Definition pget (p : params) (f : pfield) : pval :=
  match f with FQuery => p_query p | FOpName => p_opname p | FVariables => p_vars p | FExtensions => p_exts p
             | FHeaders => p_headers p | FReadTime => p_readtime p end.
Definition pset (p : params) (f : pfield) (v : pval) : params :=
  match f with
  | FQuery => {| p_query := v; p_opname := p_opname p; p_vars := p_vars p; p_exts := p_exts p; p_headers := p_headers p; p_readtime := p_readtime p |}
  | FOpName => {| p_query := p_query p; p_opname := v; p_vars := p_vars p; p_exts := p_exts p; p_headers := p_headers p; p_readtime := p_readtime p |}
  | FVariables => {| p_query := p_query p; p_opname := p_opname p; p_vars := v; p_exts := p_exts p; p_headers := p_headers p; p_readtime := p_readtime p |}
  | FExtensions => {| p_query := p_query p; p_opname := p_opname p; p_vars := p_vars p; p_exts := v; p_headers := p_headers p; p_readtime := p_readtime p |}
  | FHeaders => {| p_query := p_query p; p_opname := p_opname p; p_vars := p_vars p; p_exts := p_exts p; p_headers := v; p_readtime := p_readtime p |}
  | FReadTime => {| p_query := p_query p; p_opname := p_opname p; p_vars := p_vars p; p_exts := p_exts p; p_headers := p_headers p; p_readtime := v |}
  end.

(** one member of the JSON body, in the order it appears *)
Inductive member :=
| MText (f : pfield) (s : string)               (* "query": "..." / "operationName": "..." *)
| MObject (f : pfield) (keys : list (string * string))   (* "variables": {...} / "extensions": {...} *)
| MNull (f : pfield)                            (* null: a text field keeps its value, a map becomes nil *)
| MWrongType (f : pfield)                       (* e.g. "variables": "oops": reported at the end, nothing stored *)
| MUnknown                                      (* a member RawParams has no field for: ignored *)
| MSyntaxError.                                 (* the text stops being JSON here: the whole body is refused *)

Definition is_map_field (f : pfield) : bool := match f with FVariables | FExtensions => true | _ => false end.

(** encoding/json merges the keys of an object into a map that is already there *)
Fixpoint merge_keys (old new : list (string * string)) {struct new} : list (string * string) :=
  match new with
  | [] => old
  | (k, v) :: r => merge_keys (filter (fun kv => negb (String.eqb (fst kv) k)) old ++ [(k, v)]) r
  end.

(** json.Decoder.Decode into the object; the boolean is "no error" *)
Fixpoint decode_members (p : params) (ms : list member) {struct ms} : params * bool :=
  match ms with
  | [] => (p, true)
  | m :: r =>
      let p1 := match m with
                | MText f s => pset p f (PText s)
                | MObject f keys => match pget p f with
                                    | PMap old => pset p f (PMap (merge_keys old keys))
                                    | _ => pset p f (PMap (merge_keys [] keys))
                                    end
                | MNull f => if is_map_field f then pset p f PZero else p
                | _ => p
                end in
      let '(p2, ok) := decode_members p1 r in
      (p2, ok && match m with MWrongType _ => false | _ => true end)
  end.
Definition is_syntax_error (m : member) : bool := match m with MSyntaxError => true | _ => false end.
Definition decode (p : params) (ms : list member) : params * bool :=
  if existsb is_syntax_error ms then (p, false) else decode_members p ms.

(** what a request does with the pooled object: Headers and ReadTime are set, then the body is decoded into it *)
Definition fill (pooled : params) (hdr : string) (body : list member) : params * bool :=
  decode (pset (pset pooled FHeaders (PText hdr)) FReadTime (PText "now")) body.

(** the deferred clean-up; [keep]: fields a variant forgets to clear; [on_error]: whether it runs when decoding failed *)
Definition cleanup (keep : list pfield) (p : params) : params :=
  fold_left (fun acc f => if existsb (pfield_eqb f) keep then acc else pset acc f PZero)
            [FQuery; FOpName; FVariables; FExtensions; FHeaders; FReadTime] p.

(** a history of requests through one pooled object: what each request's executor saw *)
Fixpoint serve_pool (keep : list pfield) (clean_on_error : bool) (pooled : params) (hs : list (string * list member)) {struct hs}
  : list (params * bool) :=
  match hs with
  | [] => []
  | (hdr, body) :: r =>
      let '(p, ok) := fill pooled hdr body in
      let pooled' := if ok || clean_on_error then cleanup keep p else p in
      (p, ok) :: serve_pool keep clean_on_error pooled' r
  end.
