(** C05: the list join of type.gotpl with a worker limit, when element closures may end in a recovered panic.
    The loop acquires a slot of the semaphore for each element (failing at once on a done context, in which case it
    accounts for the element itself) and starts the closure; a closure gives its slot back and calls [Done] in its
    FIRST-registered deferred call, i.e. whether it returns or panics.  [release_deferred = false] is the slip that
    hands the slot back after the element store instead: a closure that panics keeps its slot for good.
    Counters only (which element is which does not matter here; that is Model.ElemPanic).  Definitions only. *)
From GV Require Import Base.Prelude.
Open Scope nat_scope.
Open Scope list_scope.

Record jstate := {
  j_plan : list bool;     (* per element still to be dispatched: does its closure panic? *)
  j_limit : nat;          (* worker_limit > 0 *)
  j_norm : nat;           (* running closures that will return *)
  j_pan : nat;            (* running closures that will panic (and be recovered) *)
  j_sem : nat;            (* slots of the semaphore held *)
  j_wg : nat;             (* WaitGroup counter *)
  j_cancelled : bool }.

Inductive jlabel := JCancel | JDispatch | JReturn | JPanic.

Definition jstep (release_deferred : bool) (s : jstate) (l : jlabel) : option jstate :=
  match l with
  | JCancel =>
      if j_cancelled s then None
      else Some {| j_plan := j_plan s; j_limit := j_limit s; j_norm := j_norm s; j_pan := j_pan s; j_sem := j_sem s; j_wg := j_wg s; j_cancelled := true |}
  | JDispatch =>
      match j_plan s with
      | [] => None
      | p :: rest =>
          if j_cancelled s
          then (* Acquire fails at once: the loop reports the error, nulls the element and calls Done for it *)
            Some {| j_plan := rest; j_limit := j_limit s; j_norm := j_norm s; j_pan := j_pan s; j_sem := j_sem s; j_wg := pred (j_wg s); j_cancelled := true |}
          else if j_sem s <? j_limit s
          then Some {| j_plan := rest; j_limit := j_limit s; j_norm := (if p then j_norm s else S (j_norm s)); j_pan := (if p then S (j_pan s) else j_pan s);
                       j_sem := S (j_sem s); j_wg := j_wg s; j_cancelled := false |}
          else None      (* blocked in Acquire until a slot is given back or the context ends *)
      end
  | JReturn =>
      match j_norm s with
      | O => None
      | S k => Some {| j_plan := j_plan s; j_limit := j_limit s; j_norm := k; j_pan := j_pan s; j_sem := pred (j_sem s); j_wg := pred (j_wg s); j_cancelled := j_cancelled s |}
      end
  | JPanic =>
      match j_pan s with
      | O => None
      | S k => Some {| j_plan := j_plan s; j_limit := j_limit s; j_norm := j_norm s; j_pan := k;
                       j_sem := (if release_deferred then pred (j_sem s) else j_sem s); j_wg := pred (j_wg s); j_cancelled := j_cancelled s |}
      end
  end.

Definition jinit (plan : list bool) (limit : nat) : jstate :=
  {| j_plan := plan; j_limit := limit; j_norm := 0; j_pan := 0; j_sem := 0; j_wg := List.length plan; j_cancelled := false |}.

Fixpoint jrun (rd : bool) (s : jstate) (tr : list jlabel) {struct tr} : option jstate :=
  match tr with [] => Some s | l :: r => match jstep rd s l with Some s' => jrun rd s' r | None => None end end.

(** wg.Wait() returns *)
Definition jwait_enabled (s : jstate) : bool := match j_plan s with [] => j_wg s =? 0 | _ => false end.
(** what is left to do *)
Definition jtodo (s : jstate) : nat := 2 * List.length (j_plan s) + j_norm s + j_pan s + (if j_cancelled s then 0 else 1).
