(** C17 / C18: the process-global registry that makes generated model and constant names unique
    (codegen/templates.goModelName).  The word-level naming functions (ToGo, ToGoPrivate, the character
    replacement) are parameters: every theorem holds for ANY such functions.  Definitions only. *)
From GV Require Import Base.Prelude.
Open Scope string_scope.

Section Registry.
  Variable to_go : string -> string.         (* ToGo *)
  Variable to_go_private : string -> string. (* ToGoPrivate *)
  Variable valid : string -> string.         (* replaceInvalidCharacters *)
  Variable num : nat -> string.              (* decimal text of a counter *)

  Definition registry := list (string * string).   (* key -> allocated name, newest first *)

  Fixpoint join_key (parts : list string) {struct parts} : string :=
    match parts with [] => "" | [p] => p | p :: r => p ++ ":" ++ join_key r end.

  Fixpoint lookup (reg : registry) (k : string) {struct reg} : option string :=
    match reg with [] => None | (k', v) :: r => if String.eqb k k' then Some v else lookup r k end.

  Definition name_exists (reg : registry) (n : string) : bool := existsb (fun kv => String.eqb (snd kv) n) reg.

  Fixpoint concat_map (f : string -> string) (l : list string) {struct l} : string :=
    match l with [] => "" | x :: r => f x ++ concat_map f r end.

  (** applyToGoFunc: the primary function (ToGo, or ToGoPrivate for a private name) on the first part, ToGo on
      the others *)
  Definition apply_to_go (private : bool) (parts : list string) : string :=
    match parts with [] => "" | p :: r => (if private then to_go_private p else to_go p) ++ concat_map to_go r end.

  (** the first [base ++ i] that is free, trying i = start, start+1, ...; [fuel] attempts *)
  Fixpoint first_free (reg : registry) (base : string) (start fuel : nat) {struct fuel} : option string :=
    match fuel with
    | O => None
    | S f => let tmp := base ++ num start in
             if name_exists reg tmp then first_free reg base (S start) f else Some tmp
    end.

  (** best-effort pretty names: for i = n-1 down to 1, ToGo of the first i parts followed by the raw rest *)
  Fixpoint pretty (private : bool) (reg : registry) (parts : list string) (i : nat) {struct i} : option string :=
    match i with
    | O => None
    | S j => let tmp := apply_to_go private (firstn i parts) ++ concat_map valid (skipn i parts) in
             if name_exists reg tmp then pretty private reg parts j else Some tmp
    end.

  (** goModelName: returns the registry after the call and the name (None: the numbering ran out of fuel) *)
  Definition go_model_name (reg : registry) (call : bool * list string) : registry * option string :=
    let (private, parts) := call in
    let key := join_key parts in
    match lookup reg key with
    | Some n => (reg, Some n)
    | None =>
        let first := apply_to_go private parts in
        let alloc (o : option string) : registry * option string :=
          match o with Some n => ((key, n) :: reg, Some n) | None => (reg, None) end in
        if negb (name_exists reg first) then alloc (Some first)
        else match parts with
             | [_] => alloc (first_free reg first 0 (S (List.length reg)))
             | _ => match pretty private reg parts (List.length parts - 1) with
                    | Some n => alloc (Some n)
                    | None => alloc (first_free reg first 0 (S (List.length reg)))
                    end
             end
    end.

  (** a history of calls *)
  Fixpoint run_calls (reg : registry) (calls : list (bool * list string)) {struct calls} : registry * list (option string) :=
    match calls with
    | [] => (reg, [])
    | c :: r => let (reg1, n) := go_model_name reg c in let (reg2, ns) := run_calls reg1 r in (reg2, n :: ns)
    end.
End Registry.
