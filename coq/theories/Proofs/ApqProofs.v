From GV Require Import Base.Prelude Model.Apq.
Open Scope string_scope.
Open Scope list_scope.

Lemma find_key_In k l v : find_key k l = Some v -> In (k, v) l.
Proof.
  induction l as [|[k' v'] r IH]; cbn [find_key]; [discriminate|].
  destruct (String.eqb k k') eqn:E.
  - intros Hs. inversion Hs; subst. apply String.eqb_eq in E. subst. left. reflexivity.
  - intros Hs. right. apply IH. exact Hs.
Qed.

Lemma remove_key_In k l x : In x (remove_key k l) -> In x l.
Proof.
  induction l as [|[k' v'] r IH]; cbn [remove_key In]; [tauto|].
  destruct (String.eqb k k'); cbn [In]; intros Hi; [right; auto | destruct Hi; [left; assumption | right; auto]].
Qed.

Lemma firstn_In {A} n (l : list A) x : In x (firstn n l) -> In x l.
Proof.
  revert l; induction n as [|n IH]; intros l; cbn [firstn In]; [tauto|].
  destruct l as [|y l]; cbn [In]; [tauto|]. intros [->|Hi]; [left; reflexivity | right; auto].
Qed.

(** Every binding present after a Get was present before; every binding present after an Add was
    present before or is the added pair: the caches only ever *remove* bindings by themselves. *)
Lemma cache_get_sub c k c' o x : cache_get c k = (c', o) -> In x (c_items c') -> In x (c_items c).
Proof.
  unfold cache_get. destruct (find_key k (c_items c)) as [v|] eqn:E; intros Hg; inversion Hg; subst; cbn [c_items].
  - intros [<-|Hi]; [apply find_key_In; exact E | eapply remove_key_In; exact Hi].
  - tauto.
Qed.

Lemma cache_get_val c k c' v : cache_get c k = (c', Some v) -> In (k, v) (c_items c).
Proof.
  unfold cache_get. destruct (find_key k (c_items c)) as [v'|] eqn:E; intros Hg; inversion Hg; subst.
  apply find_key_In; exact E.
Qed.

Lemma cache_add_sub c k v x : In x (c_items (cache_add c k v)) -> x = (k, v) \/ In x (c_items c).
Proof.
  unfold cache_add. cbn [c_items]. intros Hi.
  assert (Hin : In x ((k, v) :: remove_key k (c_items c))).
  { destruct (c_cap c); [eapply firstn_In; exact Hi | exact Hi]. }
  destruct Hin as [<-|Hr]; [left; reflexivity | right; eapply remove_key_In; exact Hr].
Qed.

Section ApqProofs.
  Variable H : string -> string.
  Notation apq_step := (apq_step H).
  Notation run := (run H).
  Notation registered := (registered H).

  (** The invariant: everything in the cache was registered by an earlier request of the history. *)
  Definition Inv (past : list apq_req) (c : cache) : Prop :=
    forall sha q, In (sha, q) (c_items c) -> registered past sha q.

  Lemma registered_mono past r sha q : registered past sha q -> registered (past ++ [r]) sha q.
  Proof. intros [r0 [Hi Hr]]. exists r0. split; [apply in_or_app; left; exact Hi | exact Hr]. Qed.

  Lemma step_inv past c r c' o : Inv past c -> apq_step c r = (c', o) -> Inv (past ++ [r]) c'.
  Proof.
    intros HI Hs sha q Hin. unfold Apq.apq_step in Hs.
    destruct (q_ext r) as [| |sha0 ver] eqn:Ee.
    - inversion Hs; subst. apply registered_mono. apply HI. exact Hin.
    - inversion Hs; subst. apply registered_mono. apply HI. exact Hin.
    - destruct (negb (ver =? 1)%Z) eqn:Ev.
      + inversion Hs; subst. apply registered_mono. apply HI. exact Hin.
      + destruct (String.eqb (q_text r) "") eqn:Eq.
        * destruct (cache_get c sha0) as [c1 o1] eqn:Eg.
          assert (Hc : c' = c1) by (destruct o1; inversion Hs; reflexivity). subst c'.
          apply registered_mono. apply HI. eapply cache_get_sub; eassumption.
        * destruct (String.eqb (H (q_text r)) sha0) eqn:Eh.
          -- inversion Hs; subst. destruct (cache_add_sub _ _ _ _ Hin) as [Heq|Hold].
             ++ inversion Heq; subst. exists r. split; [apply in_or_app; right; left; reflexivity|].
                unfold registers. apply String.eqb_eq in Eh. apply String.eqb_neq in Eq.
                apply negb_false_iff in Ev. apply Z.eqb_eq in Ev. subst ver.
                repeat split; assumption.
             ++ apply registered_mono. apply HI. exact Hold.
          -- inversion Hs; subst. apply registered_mono. apply HI. exact Hin.
  Qed.

  Lemma run_inv_gen past c h : Inv past c -> Inv (past ++ h) (fst (run c h)).
  Proof.
    revert past c; induction h as [|r h IH]; intros past c HI; cbn [Apq.run].
    - rewrite app_nil_r. exact HI.
    - destruct (apq_step c r) as [c1 o] eqn:Es. specialize (IH (past ++ [r]) c1 (step_inv _ _ _ _ _ HI Es)).
      destruct (run c1 h) as [c2 os]. cbn [fst] in *. rewrite <- app_assoc in IH. exact IH.
  Qed.

  (** C15 invariant for every reachable state, any eviction policy of the shipped caches. *)
  Theorem apq_inv_lemma cap h sha q :
    In (sha, q) (c_items (fst (run (empty_cache cap) h))) -> H q = sha /\ registered h sha q.
  Proof.
    intros Hin. assert (HI : Inv [] (empty_cache cap)) by (intros ? ? []).
    pose proof (run_inv_gen [] _ h HI sha q Hin) as Hr. cbn [app] in Hr.
    split; [|exact Hr]. destruct Hr as [r [_ [_ [_ [_ Hh]]]]]. exact Hh.
  Qed.

  (** A hash-only request executes exactly a text registered with that hash, or is NotFound; it never
      adds a binding. *)
  Theorem hash_only_sound_lemma cap h sha :
    let c := fst (run (empty_cache cap) h) in
    match apq_step c {| q_text := ""; q_ext := ExtOk sha 1 |} with
    | (c', Pass q) => H q = sha /\ registered h sha q /\ (forall x, In x (c_items c') -> In x (c_items c))
    | (c', RejNotFound) => c' = c
    | _ => False
    end.
  Proof.
    cbv zeta. set (c := fst (run (empty_cache cap) h)).
    unfold Apq.apq_step. cbn [q_ext q_text negb Z.eqb Pos.eqb String.eqb].
    destruct (cache_get c sha) as [c' [q|]] eqn:Eg.
    - pose proof (cache_get_val _ _ _ _ Eg) as Hin.
      destruct (apq_inv_lemma cap h sha q Hin) as [Hh Hr]. split; [exact Hh|]. split; [exact Hr|].
      intros x Hx. eapply cache_get_sub; eassumption.
    - unfold cache_get in Eg. destruct (find_key sha (c_items c)); inversion Eg. reflexivity.
  Qed.

  (** Text that does not match its hash: rejected, executes nothing, cache untouched. *)
  Theorem mismatch_inert_lemma c q sha :
    q <> "" -> H q <> sha -> apq_step c {| q_text := q; q_ext := ExtOk sha 1 |} = (c, RejMismatch).
  Proof.
    intros Hq Hh. unfold Apq.apq_step. cbn [q_ext q_text negb Z.eqb Pos.eqb].
    apply String.eqb_neq in Hq. rewrite Hq. apply String.eqb_neq in Hh. rewrite Hh. reflexivity.
  Qed.

  (** No history makes one hash resolve to two texts unless they really collide under [H]. *)
  Theorem no_rebinding_lemma cap1 cap2 h1 h2 sha c1 c2 q1 q2 :
    apq_step (fst (run (empty_cache cap1) h1)) {| q_text := ""; q_ext := ExtOk sha 1 |} = (c1, Pass q1) ->
    apq_step (fst (run (empty_cache cap2) h2)) {| q_text := ""; q_ext := ExtOk sha 1 |} = (c2, Pass q2) ->
    H q1 = sha /\ H q2 = sha.
  Proof.
    intros E1 E2.
    pose proof (hash_only_sound_lemma cap1 h1 sha) as S1. cbv zeta in S1. rewrite E1 in S1.
    pose proof (hash_only_sound_lemma cap2 h2 sha) as S2. cbv zeta in S2. rewrite E2 in S2.
    split; [apply S1 | apply S2].
  Qed.

  (** The LRU never exceeds its capacity. *)
  Lemma remove_key_length k l : (List.length (remove_key k l) <= List.length l)%nat.
  Proof. induction l as [|[k' v] r IH]; cbn [remove_key List.length]; [lia|]. destruct (String.eqb k k'); cbn [List.length]; lia. Qed.

  Lemma find_remove_length k l v : find_key k l = Some v -> (S (List.length (remove_key k l)) <= List.length l)%nat.
  Proof.
    induction l as [|[k' v'] r IH]; cbn [find_key remove_key List.length]; [discriminate|].
    destruct (String.eqb k k') eqn:E; intros Hf.
    - pose proof (remove_key_length k r). lia.
    - cbn [List.length]. specialize (IH Hf). lia.
  Qed.

  Lemma step_cap n c r : c_cap c = Some n -> (List.length (c_items c) <= n)%nat ->
    c_cap (fst (apq_step c r)) = Some n /\ (List.length (c_items (fst (apq_step c r))) <= n)%nat.
  Proof.
    intros Hc Hl. unfold Apq.apq_step.
    destruct (q_ext r) as [| |sha ver]; cbn [fst]; try (split; assumption).
    destruct (negb (ver =? 1)%Z); cbn [fst]; try (split; assumption).
    destruct (String.eqb (q_text r) "").
    - unfold cache_get. destruct (find_key sha (c_items c)) as [v|] eqn:Ef; cbn [fst c_cap c_items]; [|split; assumption].
      split; [assumption|]. cbn [List.length]. pose proof (find_remove_length _ _ _ Ef). lia.
    - destruct (String.eqb (H (q_text r)) sha); cbn [fst]; [|split; assumption].
      unfold cache_add. rewrite Hc. cbn [c_cap c_items]. split; [reflexivity|]. rewrite firstn_length. lia.
  Qed.
End ApqProofs.
