(** C13: the executable delivery model at one object agrees with the object-level picture of DeferMergeProofs - the
    initial payload of an object whose deferred fields are its own (no deferral below) and whose immediate fields
    do not fail is the object with null placeholders at the deferred keys. *)
From GV Require Import Base.Prelude Model.Exec Model.Defer Proofs.DeferMergeProofs.
Open Scope string_scope.
Open Scope list_scope.

Section ObjectLevel.
  Variable m : marks.
  Variable p : path.
  Definition mark_at (k : string) : option string := mark_of m (p ++ [PKey k]).

  (** the object's fields as the initial execution sees them *)
  Definition repl (f : string * bool * rnode) : string * bool * rnode :=
    match mark_at (fst (fst f)) with Some _ => (fst (fst f), false, NNil true) | None => f end.

  Definition split_obj_go (tn : string) :=
    fix go (l : list (string * bool * rnode)) (own : list group) {struct l}
      : list (string * bool * rnode) * list group * list group :=
      match l with
      | [] => ([], own, [])
      | (k, fnn, c) :: r =>
          match mark_of m (p ++ [PKey k]) with
          | Some lab =>
              let '(r', own', below) := go r (add_to_group own p tn lab (k, fnn, c)) in
              ((k, false, NNil true) :: r', own', below)
          | None =>
              let '(c', g1) := split m (p ++ [PKey k]) c in
              let '(r', own', below) := go r own in
              ((k, fnn, c') :: r', own', g1 ++ below)
          end
      end.

  Lemma split_obj_unfold tn fs :
    split m p (NObj tn fs) =
    let '(fields', own, below) := split_obj_go tn fs [] in
    let own' := if is_null_mark (fst (complete_impl false p (NObj tn fields'))) then [] else own in
    (NObj tn fields', own' ++ below).
  Proof. reflexivity. Qed.

  (** no deferral below the object's own fields *)
  Definition flat (fs : list (string * bool * rnode)) : Prop :=
    forall f, In f fs -> mark_at (fst (fst f)) = None -> split m (p ++ [PKey (fst (fst f))]) (snd f) = (snd f, []).

  Lemma go_fields tn fs : forall own, flat fs -> fst (fst (split_obj_go tn fs own)) = map repl fs.
  Proof.
    induction fs as [|[[k fnn] c] fs IH]; intros own F; [reflexivity|].
    assert (flat fs) as F' by (intros f Hf; apply F; now right).
    cbn [split_obj_go map]. fold (split_obj_go tn). unfold repl at 1. cbn [fst]. unfold mark_at.
    destruct (mark_of m (p ++ [PKey k])) as [lab|] eqn:M.
    - specialize (IH (add_to_group own p tn lab (k, fnn, c)) F').
      destruct (split_obj_go tn fs (add_to_group own p tn lab (k, fnn, c))) as [[r' own'] below]. cbn [fst] in *. now rewrite IH.
    - pose proof (F (k, fnn, c) (or_introl eq_refl)) as Hc. cbn [fst snd] in Hc. unfold mark_at in Hc. rewrite (Hc M).
      specialize (IH own F'). destruct (split_obj_go tn fs own) as [[r' own'] below]. cbn [fst] in *. now rewrite IH.
  Qed.

  (** completion of an object, as a function of its fields *)
  Definition impl_obj_go :=
    fix go (l : list (string * bool * rnode)) {struct l} : list (string * mval) * nat * list err :=
      match l with
      | [] => ([], O, [])
      | (k, fnn, child) :: r =>
          let '(mv, es) := complete_impl fnn (p ++ [PKey k]) child in
          let '(out, invalids, es') := go r in
          ((k, mv) :: out, (if fnn && is_null_mark mv then S invalids else invalids), es ++ es')
      end.
  Lemma complete_obj_unfold tn fs :
    complete_impl false p (NObj tn fs) =
    let '(out, invalids, es) := impl_obj_go fs in (if Nat.ltb 0 invalids then MNullMark else MObj out, es).
  Proof. reflexivity. Qed.

  (** the immediate fields do not fail *)
  Definition field_json (f : string * bool * rnode) : string * jt :=
    (fst (fst f), mval_json (fst (complete_impl (snd (fst f)) (p ++ [PKey (fst (fst f))]) (snd f)))).
  Definition clean (fs : list (string * bool * rnode)) : Prop :=
    forall f, In f fs -> mark_at (fst (fst f)) = None ->
      snd (fst f) && is_null_mark (fst (complete_impl (snd (fst f)) (p ++ [PKey (fst (fst f))]) (snd f))) = false.

  Lemma go_repl fs : clean fs ->
    snd (fst (impl_obj_go (map repl fs))) = O /\
    map (fun kv => (fst kv, mval_json (snd kv))) (fst (fst (impl_obj_go (map repl fs)))) = initial_obj mark_at (map field_json fs).
  Proof.
    induction fs as [|[[k fnn] c] fs IH]; intros C; [split; reflexivity|].
    assert (clean fs) as C' by (intros f Hf; apply C; now right). destruct (IH C') as [I1 I2]. clear IH.
    cbn [map]. unfold repl at 1 3. cbn [fst]. destruct (mark_at k) as [lab|] eqn:M.
    - cbn [impl_obj_go]. fold impl_obj_go. cbn [complete_impl andb]. destruct (impl_obj_go (map repl fs)) as [[out inv] es]. cbn [fst snd] in *.
      split; [exact I1|]. cbn [map fst snd mval_json]. unfold initial_obj. cbn [map field_json fst snd]. rewrite M. f_equal. exact I2.
    - cbn [impl_obj_go]. fold impl_obj_go. pose proof (C (k, fnn, c) (or_introl eq_refl) M) as Hc. cbn [fst snd] in Hc.
      destruct (complete_impl fnn (p ++ [PKey k]) c) as [mv es0] eqn:E. cbn [fst] in Hc.
      destruct (impl_obj_go (map repl fs)) as [[out inv] es]. cbn [fst snd] in *. rewrite Hc. split; [exact I1|].
      cbn [map fst snd]. unfold initial_obj. cbn [map field_json fst snd]. rewrite M, E. cbn [fst]. f_equal. exact I2.
  Qed.

  (** the initial payload of the object is the object with null placeholders at its deferred keys *)
  Theorem initial_payload_is_initial_obj_lemma tn fs :
    flat fs -> clean fs ->
    mval_json (fst (complete_impl false p (fst (split m p (NObj tn fs))))) = TObj (initial_obj mark_at (map field_json fs)).
  Proof.
    intros F C. rewrite split_obj_unfold. pose proof (go_fields tn fs [] F) as G.
    destruct (split_obj_go tn fs []) as [[fields' own] below]. cbn [fst] in G. subst fields'. cbn [fst].
    rewrite complete_obj_unfold. destruct (go_repl fs C) as [I1 I2].
    destruct (impl_obj_go (map repl fs)) as [[out inv] es]. cbn [fst snd] in *. subst inv. cbn [Nat.ltb Nat.leb fst mval_json]. now rewrite I2.
  Qed.
End ObjectLevel.

(** a group's payload: when its fields run (their marks removed, nothing deferred below them, none failing) the model
    delivers exactly the object of those keys - the [group_obj] of the object-level theorems *)
Theorem group_payload_is_group_obj_lemma m' p tn (fs : list (string * bool * rnode)) (lab : string) (mark : string -> option string) :
  let gfs := filter (fun f => match mark (fst (fst f)) with Some l => String.eqb l lab | None => false end) fs in
  flat m' p gfs -> clean m' p gfs -> (forall f, In f gfs -> mark_at m' p (fst (fst f)) = None) ->
  mval_json (fst (complete_impl false p (fst (split m' p (NObj tn gfs))))) = TObj (group_obj mark (map (field_json p) fs) lab).
Proof.
  intros gfs F C U. rewrite (initial_payload_is_initial_obj_lemma m' p tn gfs F C). f_equal.
  unfold initial_obj. rewrite map_map.
  assert (map (fun x => (fst (field_json p x), match mark_at m' p (fst (field_json p x)) with Some _ => TNull | None => snd (field_json p x) end)) gfs
          = map (field_json p) gfs) as ->.
  { apply map_ext_in. intros f Hf. cbn [field_json fst snd]. now rewrite (U f Hf). }
  unfold group_obj, gfs. clear. induction fs as [|f fs IH]; [reflexivity|]. cbn [filter map]. unfold in_group at 1. cbn [field_json fst].
  destruct (mark (fst (fst f))) as [l|]; [destruct (String.eqb l lab)|]; cbn [map]; now rewrite IH.
Qed.
