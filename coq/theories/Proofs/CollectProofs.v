From GV Require Import Base.Prelude Model.Exec.
Open Scope string_scope.
Open Scope list_scope.

(** Induction principle for the nested inductive [sel]. *)
Section SelInd.
  Variable P : sel -> Prop.
  Hypothesis Hf : forall a n p d sels, Forall P sels -> P (SField a n p d sels).
  Hypothesis Hi : forall tc d sels, Forall P sels -> P (SInline tc d sels).
  Hypothesis Hs : forall f tc d body, Forall P body -> P (SSpread f tc d body).
  Fixpoint sel_ind' (s : sel) {struct s} : P s :=
    let go := fix go (l : list sel) : Forall P l :=
                match l with [] => Forall_nil P | x :: r => Forall_cons x (sel_ind' x) (go r) end in
    match s with
    | SField a n p d sels => Hf a n p d sels (go sels)
    | SInline tc d sels => Hi tc d sels (go sels)
    | SSpread f tc d body => Hs f tc d body (go body)
    end.
End SelInd.

Lemma mem_In x l : mem x l = true <-> In x l.
Proof.
  unfold mem. rewrite existsb_exists. split.
  - intros [y [Hy He]]. apply String.eqb_eq in He. subst. exact Hy.
  - intros H. exists x. split; [exact H | apply String.eqb_refl].
Qed.

Section Keys.
  Variable interfaces : string -> list string.
  Variable abstract : string -> bool.
  (** the generated <type>Implementors of the concrete object being executed *)
  Variable P : list string.
  Hypothesis P_nonempty : P <> [].
  (** at most one member of P is not an interface or union (the object itself) *)
  Hypothesis one_object : forall p1 p2, In p1 P -> In p2 P -> p1 = p2 \/ abstract p1 = true \/ abstract p2 = true.

  Notation collect1 := (collect1 interfaces abstract true P).
  Notation can_merge := (can_merge interfaces abstract true P).
  Notation merge_into := (merge_into interfaces abstract true P).
  Notation merge_child := (merge_child interfaces abstract true P).

  Definition applies (tc : string) : bool := String.eqb tc "" || mem tc P.

  (** the (response key, field name) pairs selectable at this level, through applying fragments *)
  Fixpoint level_fields (s : sel) {struct s} : list (string * string) :=
    match s with
    | SField a n _ _ _ => [(a, n)]
    | SInline tc _ sels => if applies tc then flat_map level_fields sels else []
    | SSpread _ tc _ body => if mem tc P then flat_map level_fields body else []
    end.

  (** every field selectable at this level sits under a definition of P *)
  Fixpoint parents_ok (s : sel) {struct s} : bool :=
    match s with
    | SField _ _ p _ _ => mem p P
    | SInline tc _ sels => if applies tc then forallb parents_ok sels else true
    | SSpread _ tc _ body => if mem tc P then forallb parents_ok body else true
    end.

  (** what validation (FieldsInSetCanMerge) gives for fields that can apply to one object *)
  Definition functional (af : list (string * string)) : Prop :=
    forall a n1 n2, In (a, n1) af -> In (a, n2) af -> n1 = n2.

  Variable AF : list (string * string).
  Hypothesis AF_fun : functional AF.

  Definition Inv (acc : list cfield) : Prop :=
    NoDup (map c_alias acc)
    /\ (forall cf, In cf acc -> In (c_parent cf) P)
    /\ (forall cf, In cf acc -> In (c_alias cf, c_name cf) AF).

  Lemma parents_merge cf nm alias parent :
    In (c_parent cf) P -> In parent P -> c_name cf = nm -> c_alias cf = alias -> can_merge cf nm alias parent = true.
  Proof.
    intros H1 H2 Hn Ha. subst nm alias. unfold Exec.can_merge. rewrite !String.eqb_refl. cbn [andb].
    assert (HP : match P with [] => true | _ :: _ => false end = false).
    { destruct P; [contradiction|reflexivity]. }
    rewrite HP. cbn [negb andb].
    destruct (one_object _ _ H1 H2) as [He|[Ha|Ha]].
    - rewrite He. rewrite String.eqb_refl. reflexivity.
    - rewrite Ha. cbn. rewrite !orb_true_r. reflexivity.
    - rewrite Ha. cbn. rewrite !orb_true_r. reflexivity.
  Qed.

  Lemma merge_into_alias acc nm alias parent sels df fresh :
    c_alias fresh = alias ->
    forall a, In a (map c_alias (merge_into acc nm alias parent sels df fresh)) -> In a (map c_alias acc) \/ a = alias.
  Proof.
    intros Hf. induction acc as [|cf r IH]; intros a; cbn [Exec.merge_into map In].
    - intros [<-|[]]. right. exact Hf.
    - destruct (can_merge cf nm alias parent); cbn [map In c_alias].
      + intros [<-|H]; [left; left; reflexivity | left; right; exact H].
      + intros [<-|H]; [left; left; reflexivity|]. destruct (IH _ H) as [H'|H']; [left; right; exact H' | right; exact H'].
  Qed.

  Lemma merge_into_inv acc nm alias parent sels df fresh :
    Inv acc -> In parent P -> In (alias, nm) AF ->
    c_alias fresh = alias -> c_name fresh = nm -> c_parent fresh = parent ->
    Inv (merge_into acc nm alias parent sels df fresh).
  Proof.
    intros HI Hp Haf Fa Fn Fp. induction acc as [|cf r IH]; cbn [Exec.merge_into].
    - repeat split.
      + cbn. constructor; [intros []|constructor].
      + intros x [<-|[]]. rewrite Fp. exact Hp.
      + intros x [<-|[]]. rewrite Fa, Fn. exact Haf.
    - destruct HI as [Hnd [Hpar Hnm]].
      assert (HIr : Inv r).
      { repeat split.
        - cbn [map] in Hnd. inversion Hnd; assumption.
        - intros x Hx. apply Hpar. right. exact Hx.
        - intros x Hx. apply Hnm. right. exact Hx. }
      destruct (can_merge cf nm alias parent) eqn:Ec.
      + repeat split.
        * cbn [map c_alias] in *. exact Hnd.
        * intros x [<-|Hx]; cbn [c_parent]; [apply Hpar; left; reflexivity | apply Hpar; right; exact Hx].
        * intros x [<-|Hx]; cbn [c_alias c_name]; [apply Hnm; left; reflexivity | apply Hnm; right; exact Hx].
      + (* not mergeable: then the aliases differ *)
        assert (Hne : c_alias cf <> alias).
        { intros He. assert (Hn : c_name cf = nm).
          { apply (AF_fun alias); [rewrite <- He; apply Hnm; left; reflexivity | exact Haf]. }
          rewrite (parents_merge cf nm alias parent) in Ec; try assumption; [discriminate|].
          apply Hpar. left. reflexivity. }
        specialize (IH HIr). destruct IH as [Hnd' [Hpar' Hnm']]. repeat split.
        * cbn [map]. constructor; [|exact Hnd'].
          intros Hin. destruct (merge_into_alias r nm alias parent sels df fresh Fa _ Hin) as [H|H].
          -- cbn [map] in Hnd. inversion Hnd; contradiction.
          -- contradiction.
        * intros x [<-|Hx]; [apply Hpar; left; reflexivity | apply Hpar'; exact Hx].
        * intros x [<-|Hx]; [apply Hnm; left; reflexivity | apply Hnm'; exact Hx].
  Qed.

  Lemma merge_child_inv df acc ch :
    Inv acc -> In (c_parent ch) P -> In (c_alias ch, c_name ch) AF -> Inv (merge_child df acc ch).
  Proof. intros HI Hp Ha. unfold Exec.merge_child. apply merge_into_inv; try assumption; reflexivity. Qed.

  Lemma fold_merge_child_inv df sub : forall acc,
    Inv acc -> (forall ch, In ch sub -> In (c_parent ch) P /\ In (c_alias ch, c_name ch) AF) ->
    Inv (fold_left (merge_child df) sub acc).
  Proof.
    induction sub as [|ch r IH]; intros acc HI Hs; cbn [fold_left]; [exact HI|].
    apply IH.
    - destruct (Hs ch (or_introl eq_refl)) as [H1 H2]. apply merge_child_inv; assumption.
    - intros x Hx. apply Hs. right. exact Hx.
  Qed.

  (** every collected field sits under P and is one of the selectable (key, name) pairs *)
  Definition Sub (acc : list cfield) : Prop :=
    forall cf, In cf acc -> In (c_parent cf) P /\ In (c_alias cf, c_name cf) AF.

  Lemma Inv_Sub acc : Inv acc -> Sub acc.
  Proof. intros [_ [H1 H2]] cf Hc. split; [apply H1 | apply H2]; exact Hc. Qed.

  Lemma Inv_nil : Inv [].
  Proof. repeat split; try (intros ? []). constructor. Qed.

  Lemma collect1_inv s : forall st,
    Inv (snd st) -> parents_ok s = true -> (forall x, In x (level_fields s) -> In x AF) ->
    Inv (snd (collect1 s st)).
  Proof.
    induction s as [a n p d sels IH|tc d sels IH|f tc d body IH] using sel_ind'; intros [visited acc] HI Hp Haf;
      cbn [Exec.collect1 snd] in *.
    - destruct (negb (should_include d)); [exact HI|]. cbn [snd].
      apply merge_into_inv; try reflexivity; try exact HI.
      + apply mem_In. exact Hp.
      + apply Haf. left. reflexivity.
    - cbn [parents_ok level_fields] in *.
      assert (Eap : (String.eqb tc "" || type_applies P tc)%bool = applies tc).
      { unfold applies, type_applies. destruct P; [contradiction|]. reflexivity. }
      rewrite Eap. destruct (applies tc) eqn:Ea; cbn [negb]; [|exact HI].
      destruct (negb (should_include d)); [exact HI|].
      assert (Hin : forall st0, Inv (snd st0) -> Inv (snd (fold_left (fun a x => collect1 x a) sels st0))).
      { clear HI. induction IH as [|x r Hx _ IHr]; intros st0 H0; cbn [fold_left]; [exact H0|].
        cbn [forallb] in Hp. apply andb_prop in Hp. destruct Hp as [Hp1 Hp2].
        apply IHr; [exact Hp2 | |].
        - intros y Hy. apply Haf. cbn [flat_map]. apply in_or_app. right. exact Hy.
        - apply Hx; [exact H0 | exact Hp1 |]. intros y Hy. apply Haf. cbn [flat_map]. apply in_or_app. left. exact Hy. }
      specialize (Hin (visited, []) Inv_nil).
      destruct (fold_left (fun a x => collect1 x a) sels (visited, [])) as [v' sub]. cbn [snd] in *.
      apply fold_merge_child_inv; [exact HI | apply Inv_Sub; exact Hin].
    - cbn [parents_ok level_fields andb] in *.
      destruct (negb (should_include d)) eqn:Es; [exact HI|].
      destruct (mem f visited); [exact HI|].
      assert (Eap : type_applies P tc = mem tc P).
      { unfold type_applies. destruct P; [contradiction|]. reflexivity. }
      rewrite Eap. destruct (mem tc P) eqn:Ea; cbn [negb snd]; [|exact HI].
      assert (Hin : forall st0, Inv (snd st0) -> Inv (snd (fold_left (fun a x => collect1 x a) body st0))).
      { clear HI. induction IH as [|x r Hx _ IHr]; intros st0 H0; cbn [fold_left]; [exact H0|].
        cbn [forallb] in Hp. apply andb_prop in Hp. destruct Hp as [Hp1 Hp2].
        apply IHr; [exact Hp2 | |].
        - intros y Hy. apply Haf. cbn [flat_map]. apply in_or_app. right. exact Hy.
        - apply Hx; [exact H0 | exact Hp1 |]. intros y Hy. apply Haf. cbn [flat_map]. apply in_or_app. left. exact Hy. }
      specialize (Hin (f :: visited, []) Inv_nil).
      destruct (fold_left (fun a x => collect1 x a) body (f :: visited, [])) as [v' sub]. cbn [snd] in *.
      apply fold_merge_child_inv; [exact HI | apply Inv_Sub; exact Hin].
  Qed.

  Lemma collect_inv sels :
    forallb parents_ok sels = true -> (forall x, In x (flat_map level_fields sels) -> In x AF) ->
    Inv (collect interfaces abstract true P sels).
  Proof.
    unfold collect. intros Hp Haf.
    assert (H : forall st0, Inv (snd st0) -> Inv (snd (fold_left (fun a x => collect1 x a) sels st0))).
    { induction sels as [|x r IH]; intros st0 H0; cbn [fold_left]; [exact H0|].
      cbn [forallb] in Hp. apply andb_prop in Hp. destruct Hp as [Hp1 Hp2].
      apply IH; [exact Hp2 | |].
      - intros y Hy. apply Haf. cbn [flat_map]. apply in_or_app. right. exact Hy.
      - apply collect1_inv; [exact H0 | exact Hp1 |]. intros y Hy. apply Haf. cbn [flat_map]. apply in_or_app. left. exact Hy. }
    apply (H ([], [])). apply Inv_nil.
  Qed.
End Keys.

(** Response keys are unique: for the selections of one object in a validated document, the repaired
    collectFields groups every selectable field under exactly one entry per response key. *)
Theorem collect_keys_unique_lemma interfaces abstract P sels :
  P <> [] ->
  (forall p1 p2, In p1 P -> In p2 P -> p1 = p2 \/ abstract p1 = true \/ abstract p2 = true) ->
  forallb (parents_ok P) sels = true ->
  functional (flat_map (level_fields P) sels) ->
  NoDup (map c_alias (collect interfaces abstract true P sels)).
Proof.
  intros HP H1 Hp Hf.
  destruct (collect_inv interfaces abstract P HP H1 (flat_map (level_fields P) sels) Hf sels Hp (fun x H => H)) as [Hnd _].
  exact Hnd.
Qed.

(** A spread excluded by @skip/@include leaves the collection state untouched (repaired code) ... *)
Lemma skipped_spread_noop interfaces abstract P f tc d body st :
  should_include d = false -> collect1 interfaces abstract true P (SSpread f tc d body) st = st.
Proof. intros H. destruct st as [v acc]. cbn [collect1]. rewrite H. reflexivity. Qed.

(** ... whereas the pinned commit marked the fragment visited, so a later spread of it was dropped;
    and it emitted one response key twice for an object implementing two unrelated interfaces. *)
Definition skipT := {| d_skip := Some true; d_include := None; d_defer := None |}.
Lemma collect_legacy_refuted :
  let ifs := fun n => if String.eqb n "A" then ["Node"; "Named"] else [] in
  let abs := fun n => String.eqb n "Node" || String.eqb n "Named" in
  let P := ["A"; "Node"; "Named"] in
  map c_alias (collect ifs abs false P [SSpread "F" "A" skipT [SField "a1" "a1" "A" no_dirs []];
                                          SSpread "F" "A" no_dirs [SField "a1" "a1" "A" no_dirs []]]) = []
  /\ map c_alias (collect ifs abs true P [SSpread "F" "A" skipT [SField "a1" "a1" "A" no_dirs []];
                                          SSpread "F" "A" no_dirs [SField "a1" "a1" "A" no_dirs []]]) = ["a1"]
  /\ map c_alias (collect ifs abs false P [SInline "Node" no_dirs [SField "name" "name" "Node" no_dirs []];
                                           SInline "Named" no_dirs [SField "name" "name" "Named" no_dirs []]]) = ["name"; "name"]
  /\ map c_alias (collect ifs abs true P [SInline "Node" no_dirs [SField "name" "name" "Node" no_dirs []];
                                          SInline "Named" no_dirs [SField "name" "name" "Named" no_dirs []]]) = ["name"].
Proof. vm_compute. repeat split. Qed.
