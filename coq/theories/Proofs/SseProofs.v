(** C12 (SSE): whatever the order in which payloads and keep-alive pings get to write, the stream parses as the
    opening comment, one item per write in that order, and one final completion. *)
From GV Require Import Base.Prelude Model.Sse.
Open Scope N_scope.
Open Scope list_scope.

Definition no_lf (x : bytes) : bool := forallb (fun b => negb (N.eqb b LF)) x.
Definition unlines (L : list bytes) : bytes := List.concat (map (fun x => x ++ [LF]) L).

Lemma split_lines_line x : forall cur rest, no_lf x = true ->
  split_lines cur (x ++ LF :: rest) = let (ls, rem) := split_lines [] rest in ((rev cur ++ x) :: ls, rem).
Proof.
  induction x as [|b x IH]; intros cur rest H; cbn [app split_lines].
  - rewrite N.eqb_refl. destruct (split_lines [] rest). now rewrite app_nil_r.
  - cbn [no_lf forallb] in H. apply andb_true_iff in H as [Hb Hx]. apply negb_true_iff in Hb. rewrite Hb.
    rewrite (IH (b :: cur) rest Hx). destruct (split_lines [] rest). cbn [rev]. now rewrite <- app_assoc.
Qed.

Lemma split_unlines L : forall rest, forallb no_lf L = true ->
  split_lines [] (unlines L ++ rest) = let (ls, rem) := split_lines [] rest in (L ++ ls, rem).
Proof.
  induction L as [|x L IH]; intros rest H; cbn [unlines map List.concat app].
  - destruct (split_lines [] rest); reflexivity.
  - cbn [forallb] in H. apply andb_true_iff in H as [Hx HL].
    rewrite <- !app_assoc. cbn [app]. rewrite (split_lines_line x [] _ Hx). fold (unlines L).
    rewrite (IH rest HL). destruct (split_lines [] rest). reflexivity.
Qed.

Lemma unlines_app a b : unlines (a ++ b) = unlines a ++ unlines b.
Proof. unfold unlines. now rewrite map_app, concat_app. Qed.

Lemma parse_lines_app a : forall s b,
  parse_lines s (a ++ b) = let (s1, o1) := parse_lines s a in let (s2, o2) := parse_lines s1 b in (s2, o1 ++ o2).
Proof.
  induction a as [|x a IH]; intros s b; cbn [app parse_lines].
  - destruct (parse_lines s b); reflexivity.
  - destruct (on_line s x) as [s1 o1]. rewrite IH. destruct (parse_lines s1 a) as [s2 o2]. destruct (parse_lines s2 b) as [s3 o3].
    now rewrite app_assoc.
Qed.

(** the lines each chunk consists of *)
Definition lines_of (a : sse_act) : list bytes :=
  match a with
  | APayload j => [bytes_of "event: next"; bytes_of "data: " ++ j; []]
  | APing => [bytes_of ": ping"; []]
  end.

Lemma chunk_unlines a : chunk_of a = unlines (lines_of a).
Proof.
  destruct a as [j|]; unfold chunk_of, next_chunk, ping_chunk, unlines, lines_of; cbn [map List.concat app].
  - rewrite <- !app_assoc. cbn [app]. reflexivity.
  - rewrite <- !app_assoc. cbn [app]. reflexivity.
Qed.

Lemma chunks_unlines acts : List.concat (map chunk_of acts) = unlines (flat_map lines_of acts).
Proof.
  induction acts as [|a r IH]; [reflexivity|]. cbn [map List.concat flat_map]. now rewrite unlines_app, chunk_unlines, IH.
Qed.

Lemma no_lf_of_no_newline j : no_newline j = true -> no_lf j = true.
Proof.
  unfold no_newline, no_lf. induction j as [|b j IH]; [reflexivity|]. cbn [forallb]. intros H.
  apply andb_true_iff in H as [Hb Hj]. apply andb_true_iff in Hb as [Hb _]. now rewrite Hb, IH.
Qed.

Lemma lines_no_lf a : act_ok a = true -> forallb no_lf (lines_of a) = true.
Proof.
  destruct a as [j|]; cbn [act_ok lines_of forallb]; intros H; [|reflexivity].
  apply no_lf_of_no_newline in H. unfold no_lf in *. rewrite forallb_app, H. reflexivity.
Qed.

Lemma all_lines_no_lf acts : forallb act_ok acts = true -> forallb no_lf (flat_map lines_of acts) = true.
Proof.
  induction acts as [|a r IH]; [reflexivity|]. cbn [forallb flat_map]. intros H. apply andb_true_iff in H as [Ha Hr].
  now rewrite forallb_app, lines_no_lf, IH.
Qed.

Lemma parse_chunk_lines a : parse_lines p0 (lines_of a) = (p0, [item_of a]).
Proof. destruct a as [j|]; reflexivity. Qed.

Lemma parse_all_lines acts : parse_lines p0 (flat_map lines_of acts) = (p0, map item_of acts).
Proof.
  induction acts as [|a r IH]; [reflexivity|]. cbn [flat_map map]. now rewrite parse_lines_app, parse_chunk_lines, IH.
Qed.

(** For every sequence of payloads (JSON without raw line breaks, as json.Marshal produces) and every way the
    keep-alive ticks fall between them - and any number of ticks after the last payload - the repaired
    transport's bytes parse as: the opening comment, exactly one 'next' event per payload with its JSON, in
    order, pings only between events, and exactly one 'complete' as the last item. *)
Theorem sse_framing_lemma acts late :
  forallb act_ok acts = true -> parse_stream (sse_bytes acts late) = expected acts.
Proof.
  intros H.
  assert (E : sse_bytes acts late = unlines ([[COLON]; []] ++ flat_map lines_of acts ++ [bytes_of "event: complete"; []]) ++ []).
  { unfold sse_bytes. rewrite !unlines_app, chunks_unlines, app_nil_r. reflexivity. }
  unfold parse_stream. rewrite E, split_unlines.
  - cbn [split_lines rev]. rewrite app_nil_r.
    rewrite (parse_lines_app [[COLON]; []]).
    assert (P0 : parse_lines p0 [[COLON]; []] = (p0, [IComment []])) by reflexivity.
    rewrite P0, parse_lines_app, parse_all_lines.
    assert (P1 : parse_lines p0 [bytes_of "event: complete"; []] = (p0, [IEvent (bytes_of "complete") []])) by reflexivity.
    rewrite P1. cbn [p_data p_type p0 app]. unfold expected. now rewrite !app_nil_r.
  - rewrite !forallb_app, all_lines_no_lf by exact H. reflexivity.
Qed.
