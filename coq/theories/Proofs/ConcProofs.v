From GV Require Import Base.Prelude Base.Interleave Model.Exec Model.Conc Proofs.ExecProofs.
Open Scope list_scope.

(** projections of a trace *)
Definition errs_of (tr : list action) : list err := flat_map (fun a => match a with AErr e => [e] | _ => [] end) tr.
Definition invalids_of (tr : list action) : nat := List.length (filter (fun a => match a with AInvalid => true | _ => false end) tr).
Definition slots_of (tr : list action) : list (nat * mval) := flat_map (fun a => match a with ASlot i m => [(i, m)] | _ => [] end) tr.

Lemma run_trace_gen tr : forall s,
  cs_errs (fold_left apply_action tr s) = cs_errs s ++ errs_of tr
  /\ cs_invalids (fold_left apply_action tr s) = (cs_invalids s + invalids_of tr)%nat
  /\ Permutation (cs_slots (fold_left apply_action tr s)) (slots_of tr ++ cs_slots s).
Proof.
  induction tr as [|a r IH]; intros s; cbn [fold_left].
  - cbn. rewrite app_nil_r, Nat.add_0_r. repeat split; reflexivity.
  - destruct (IH (apply_action s a)) as [H1 [H2 H3]]. rewrite H1, H2. destruct a.
    + cbn [apply_action cs_errs cs_invalids cs_slots] in *. split; [|split].
      * unfold errs_of. cbn [flat_map]. rewrite <- app_assoc. reflexivity.
      * unfold invalids_of. cbn [filter]. reflexivity.
      * unfold slots_of in *. cbn [flat_map app]. exact H3.
    + cbn [apply_action cs_errs cs_invalids cs_slots] in *. split; [|split].
      * unfold errs_of. cbn [flat_map app]. reflexivity.
      * unfold invalids_of. cbn [filter]. reflexivity.
      * unfold slots_of in *. cbn [flat_map app]. rewrite H3. symmetry. apply Permutation_middle.
    + cbn [apply_action cs_errs cs_invalids cs_slots] in *. split; [|split].
      * unfold errs_of. cbn [flat_map app]. reflexivity.
      * unfold invalids_of. cbn [filter List.length]. lia.
      * unfold slots_of in *. cbn [flat_map app]. exact H3.
Qed.

Lemma errs_of_perm t1 t2 : Permutation t1 t2 -> Permutation (errs_of t1) (errs_of t2).
Proof.
  unfold errs_of. induction 1; cbn; try reflexivity.
  - apply Permutation_app_head. assumption.
  - rewrite !app_assoc. apply Permutation_app_tail. apply Permutation_app_comm.
  - etransitivity; eassumption.
Qed.
Lemma slots_of_perm t1 t2 : Permutation t1 t2 -> Permutation (slots_of t1) (slots_of t2).
Proof.
  unfold slots_of. induction 1; cbn; try reflexivity.
  - apply Permutation_app_head. assumption.
  - rewrite !app_assoc. apply Permutation_app_tail. apply Permutation_app_comm.
  - etransitivity; eassumption.
Qed.
Lemma invalids_of_perm t1 t2 : Permutation t1 t2 -> invalids_of t1 = invalids_of t2.
Proof.
  unfold invalids_of. induction 1; cbn; try reflexivity.
  - destruct x; cbn; lia.
  - destruct x, y; cbn; lia.
  - congruence.
Qed.

(** reading a slot does not depend on the order in which distinct slots were written *)
Lemma slot_get_perm sl1 sl2 : Permutation sl1 sl2 -> NoDup (map fst sl1) -> forall i, slot_get sl1 i = slot_get sl2 i.
Proof.
  induction 1 as [|[j m] l1 l2 Hp IH|[j1 m1] [j2 m2] l|l1 l2 l3 H1 IH1 H2 IH2]; intros Hnd i.
  - reflexivity.
  - cbn [slot_get]. cbn [map fst] in Hnd. inversion Hnd; subst. rewrite (IH H2 i). reflexivity.
  - cbn [slot_get]. cbn [map fst] in Hnd. inversion Hnd as [|? ? Hn1 Hn2]; subst.
    destruct (Nat.eqb i j1) eqn:E1; destruct (Nat.eqb i j2) eqn:E2; try reflexivity.
    apply Nat.eqb_eq in E1. apply Nat.eqb_eq in E2. subst. exfalso. apply Hn1. left. reflexivity.
  - rewrite (IH1 Hnd i). apply IH2. eapply Permutation_NoDup; [apply Permutation_map; exact H1 | exact Hnd].
Qed.

(** C06: for ANY interleaving of the tasks' atomic actions - any completion order of concurrently
    resolved fields or list elements - every slot holds what the sequential schedule puts there, the
    Invalids counter is the same, and the errors are a permutation of the sequential errors. *)
Theorem schedule_independent_lemma (tasks : list (list action)) trace :
  interleave tasks trace ->
  NoDup (map fst (slots_of (List.concat tasks))) ->
  let s := run_trace trace in let s0 := run_trace (List.concat tasks) in
  (forall i, slot_get (cs_slots s) i = slot_get (cs_slots s0) i)
  /\ cs_invalids s = cs_invalids s0
  /\ Permutation (cs_errs s) (cs_errs s0).
Proof.
  intros Hil Hnd. cbv zeta. unfold run_trace.
  pose proof (interleave_perm _ _ Hil) as Hp.
  destruct (run_trace_gen trace cs_init) as [E1 [I1 S1]].
  destruct (run_trace_gen (List.concat tasks) cs_init) as [E2 [I2 S2]].
  cbn [cs_init cs_errs cs_invalids cs_slots app] in *. rewrite app_nil_r in S1, S2. repeat split.
  - intros i.
    assert (Hnd0 : NoDup (map fst (cs_slots (fold_left apply_action (List.concat tasks) cs_init)))).
    { eapply Permutation_NoDup; [apply Permutation_map; symmetry; exact S2 | exact Hnd]. }
    symmetry. apply slot_get_perm; [|exact Hnd0].
    rewrite S2, S1. symmetry. apply slots_of_perm. exact Hp.
  - rewrite I1, I2. f_equal. apply invalids_of_perm. exact Hp.
  - rewrite E1, E2. apply errs_of_perm. exact Hp.
Qed.

(** The tasks of an object write pairwise distinct slots ... *)
Lemma slots_of_app a b : slots_of (a ++ b) = slots_of a ++ slots_of b.
Proof. unfold slots_of. apply flat_map_app. Qed.

Lemma slots_of_field_task p i kf : map fst (slots_of (field_task p i kf)) = [i].
Proof.
  destruct kf as [[k fnn] c]. unfold field_task. destruct (complete_impl fnn (p ++ [PKey k]) c) as [m es].
  rewrite !slots_of_app. assert (H : slots_of (map AErr es) = []) by (induction es; [reflexivity|cbn; assumption]).
  rewrite H. destruct (fnn && is_null_mark m)%bool; reflexivity.
Qed.

Lemma field_tasks_slots p fs : forall i, map fst (slots_of (List.concat (field_tasks p i fs))) = seq i (List.length fs).
Proof.
  induction fs as [|kf r IH]; intros i; [reflexivity|].
  cbn [field_tasks List.concat List.length seq]. rewrite slots_of_app, map_app, slots_of_field_task, IH. reflexivity.
Qed.

Theorem field_tasks_disjoint p fs : NoDup (map fst (slots_of (List.concat (field_tasks p 0 fs)))).
Proof. rewrite field_tasks_slots. apply seq_NoDup. Qed.

(** ... and running them one after another is exactly the sequential completion of ExecProofs. *)
Lemma errs_of_app a b : errs_of (a ++ b) = errs_of a ++ errs_of b.
Proof. unfold errs_of. apply flat_map_app. Qed.
Lemma errs_of_map es : errs_of (map AErr es) = es.
Proof. induction es as [|e r IH]; [reflexivity|]. cbn. f_equal. exact IH. Qed.

Lemma field_tasks_sequential p fs : forall i,
  errs_of (List.concat (field_tasks p i fs)) = snd (impl_obj p fs)
  /\ invalids_of (List.concat (field_tasks p i fs)) = snd (fst (impl_obj p fs)).
Proof.
  induction fs as [|[[k fnn] c] r IH]; intros i; [split; reflexivity|].
  cbn [field_tasks List.concat impl_obj]. destruct (IH (S i)) as [E I]. unfold field_task.
  destruct (complete_impl fnn (p ++ [PKey k]) c) as [m es]. destruct (impl_obj p r) as [[out inv] es2].
  cbn [fst snd] in *. split.
  - rewrite !errs_of_app, errs_of_map, E. destruct (fnn && is_null_mark m)%bool; cbn; rewrite ?app_nil_r; reflexivity.
  - unfold invalids_of in *. rewrite !filter_app, !app_length, I.
    assert (H : filter (fun a => match a with AInvalid => true | _ => false end) (map AErr es) = []).
    { induction es; [reflexivity|cbn; assumption]. }
    rewrite H. destruct (fnn && is_null_mark m)%bool; cbn; lia.
Qed.
