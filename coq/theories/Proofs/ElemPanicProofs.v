(** C04 / C05 / C06: list element goroutines that panic inside generated code - as written (the recover handler runs
    before [Done] and nulls its own slot) every interleaving reaches the join, and whoever called [wg.Wait()] goes on
    with an array in which exactly the panicking elements are null, with one error each and one recover-hook call per
    panic; both slips are refuted by traces. *)
From GV Require Import Base.Prelude Base.Threads Model.ElemPanic.
Open Scope nat_scope.
Open Scope list_scope.

Definition elem_ok (e : elem) : Prop :=
  match el_pc e with
  | EBody => el_slot e = Unset /\ el_errs e = 0
  | EDefer1 p => p = el_panics e /\ el_slot e = (if p then Unset else Val) /\ el_errs e = 0
  | EDefer2 p => p = false /\ el_slot e = final_slot (el_panics e) /\ el_errs e = final_errs (el_panics e)
  | EEnd => el_slot e = final_slot (el_panics e) /\ el_errs e = final_errs (el_panics e)
  end.

Record einv (plan : list bool) (s : estate) : Prop := {
  ei_plan : map el_panics (e_els s) = plan;
  ei_ok : Forall elem_ok (e_els s);
  ei_reset : e_reset s = false;
  ei_wg : e_wg s = count unfinished (e_els s);
  ei_rec : e_recovers s = list_sum (map el_errs (e_els s));
  ei_joined : forall r sl, e_joined s = Some (r, sl) -> r = false /\ sl = slots s /\ count unfinished (e_els s) = 0 }.

Lemma einv_init plan : einv plan (einit plan).
Proof.
  split; cbn.
  - rewrite map_map. cbn. now rewrite map_id.
  - induction plan as [|p plan IH]; cbn; constructor; [now split|exact IH].
  - reflexivity.
  - induction plan as [|p plan IH]; cbn; [reflexivity|now rewrite IH].
  - induction plan as [|p plan IH]; cbn; [reflexivity|exact IH].
  - discriminate.
Qed.

Lemma count_zero_Forall {A} (f : A -> bool) l : count f l = 0 -> Forall (fun t => f t = false) l.
Proof.
  induction l as [|x l IH]; cbn; intros H; constructor; destruct (f x) eqn:E; try discriminate; try reflexivity; apply IH; lia.
Qed.

(** replacing the element that steps *)
Lemma upd_parts els i e e' :
  nth_error els i = Some e -> el_panics e' = el_panics e -> Forall elem_ok els -> elem_ok e' ->
  map el_panics (upd i e' els) = map el_panics els /\ Forall elem_ok (upd i e' els) /\
  count unfinished (upd i e' els) + (if unfinished e then 1 else 0) = count unfinished els + (if unfinished e' then 1 else 0) /\
  list_sum (map el_errs (upd i e' els)) + el_errs e = list_sum (map el_errs els) + el_errs e'.
Proof.
  intros Hn Hp Fo Oe. repeat split.
  - now apply (map_upd_same el_panics i e' e els Hn).
  - now apply Forall_upd.
  - exact (count_upd unfinished i e' e els Hn).
  - exact (sum_upd el_errs i e' e els Hn).
Qed.

Lemma estep_inv plan s l s' : einv plan s -> estep as_written_elems s l = Some s' -> einv plan s'.
Proof.
  intros [Ip Io Ir Iw Ic Ij] E. destruct l as [i|]; cbn [estep] in E.
  - destruct (nth_error (e_els s) i) as [e|] eqn:Hn; [|discriminate].
    pose proof (Forall_nth _ _ _ _ Io Hn) as Oe. unfold elem_ok in Oe.
    assert (Jn : el_pc e <> EEnd -> e_joined s = None).
    { intros NE. destruct (e_joined s) as [[r sl]|] eqn:J; [|reflexivity]. exfalso. apply NE.
      destruct (Ij r sl eq_refl) as (_ & _ & Z). pose proof (count_zero_all _ _ _ _ Z Hn) as U. unfold unfinished in U.
      destruct (el_pc e); try discriminate; reflexivity. }
    assert (Fin : forall e', el_panics e' = el_panics e -> elem_ok e' -> el_pc e <> EEnd ->
                  forall wg rc, wg = count unfinished (upd i e' (e_els s)) -> rc = list_sum (map el_errs (upd i e' (e_els s))) ->
                  einv plan {| e_els := upd i e' (e_els s); e_reset := e_reset s; e_wg := wg; e_recovers := rc; e_joined := e_joined s |}).
    { intros e' Hp Oe' NE wg rc -> ->. destruct (upd_parts _ _ _ _ Hn Hp Io Oe') as (A & B & _ & _).
      split; cbn [e_els e_reset e_wg e_recovers e_joined]; try assumption; try reflexivity; [now rewrite A|].
      intros r sl J. rewrite (Jn NE) in J. discriminate. }
    destruct (el_pc e) as [|p|p|] eqn:Pc; [| | |discriminate].
    + (* the body *)
      destruct Oe as (Os & Oz). assert (Hc : el_panics e || e_reset s = el_panics e) by (rewrite Ir; apply orb_false_r). rewrite Hc in E. clear Hc.
      destruct (el_panics e) eqn:Pe; inversion E; subst s'; clear E.
      * set (e' := el_with e (EDefer1 true) (el_slot e) (el_errs e)).
        assert (Oe' : elem_ok e') by (unfold elem_ok; cbn; rewrite Pe; now repeat split).
        destruct (upd_parts _ _ _ _ Hn (eq_refl : el_panics e' = el_panics e) Io Oe') as (_ & _ & C & S).
        assert (U1 : unfinished e = true) by (unfold unfinished; now rewrite Pc). assert (U2 : unfinished e' = true) by reflexivity.
        rewrite U1, U2 in C. cbn in S.
        apply Fin; [first [reflexivity|exact Pe]|exact Oe'|discriminate|lia|lia].
      * set (e' := el_with e (EDefer1 false) Val (el_errs e)).
        assert (Oe' : elem_ok e') by (unfold elem_ok; cbn; rewrite Pe; now repeat split).
        destruct (upd_parts _ _ _ _ Hn (eq_refl : el_panics e' = el_panics e) Io Oe') as (_ & _ & C & S).
        assert (U1 : unfinished e = true) by (unfold unfinished; now rewrite Pc). assert (U2 : unfinished e' = true) by reflexivity.
        rewrite U1, U2 in C. cbn in S.
        apply Fin; [first [reflexivity|exact Pe]|exact Oe'|discriminate|lia|lia].
    + (* the recover handler *)
      destruct Oe as (Op & Os & Oz). cbn [v_done_last as_written_elems] in E.
      unfold do_handler in E. cbn [v_own_slot as_written_elems] in E.
      destruct p; inversion E; subst s'; clear E.
      * set (e' := el_with e (EDefer2 false) Null (S (el_errs e))).
        assert (Oe' : elem_ok e') by (unfold elem_ok; cbn; rewrite <- Op, Oz; now repeat split).
        destruct (upd_parts _ _ _ _ Hn (eq_refl : el_panics e' = el_panics e) Io Oe') as (_ & _ & C & S).
        assert (U1 : unfinished e = true) by (unfold unfinished; now rewrite Pc). assert (U2 : unfinished e' = true) by reflexivity.
        rewrite U1, U2 in C. cbn in S.
        apply Fin; [first [reflexivity|exact Pe]|exact Oe'|discriminate|lia|lia].
      * set (e' := el_with e (EDefer2 false) (el_slot e) (el_errs e)).
        assert (Oe' : elem_ok e') by (unfold elem_ok; cbn; rewrite <- Op, Oz, Os; now repeat split).
        destruct (upd_parts _ _ _ _ Hn (eq_refl : el_panics e' = el_panics e) Io Oe') as (_ & _ & C & S).
        assert (U1 : unfinished e = true) by (unfold unfinished; now rewrite Pc). assert (U2 : unfinished e' = true) by reflexivity.
        rewrite U1, U2 in C. cbn in S.
        apply Fin; [first [reflexivity|exact Pe]|exact Oe'|discriminate|lia|lia].
    + (* Done *)
      destruct Oe as (Op & Os & Oz). cbn [v_done_last as_written_elems] in E.
      unfold do_done in E. inversion E; subst s'; clear E.
      set (e' := el_with e EEnd (el_slot e) (el_errs e)).
      assert (Oe' : elem_ok e') by (unfold elem_ok; cbn; now split).
      destruct (upd_parts _ _ _ _ Hn (eq_refl : el_panics e' = el_panics e) Io Oe') as (_ & _ & C & S).
      assert (U1 : unfinished e = true) by (unfold unfinished; now rewrite Pc). assert (U2 : unfinished e' = false) by reflexivity.
      rewrite U1, U2 in C. cbn in S.
      apply Fin; [reflexivity|exact Oe'|discriminate|lia|lia].
  - (* the join *)
    destruct (e_joined s) eqn:J; [discriminate|]. destruct (e_wg s) eqn:W; [|discriminate].
    inversion E; subst s'; clear E. split; cbn [e_els e_reset e_wg e_recovers e_joined slots]; try assumption.
    intros r sl H. inversion H; subst. repeat split; [exact Ir|now rewrite <- Iw].
Qed.

Lemma erun_inv plan tr : forall s s', einv plan s -> erun as_written_elems s tr = Some s' -> einv plan s'.
Proof.
  induction tr as [|l tr IH]; intros s s' I; cbn [erun]; [intros E; now inversion E; subst|].
  destruct (estep as_written_elems s l) as [s1|] eqn:E; [|discriminate]. apply IH. exact (estep_inv _ _ _ _ I E).
Qed.

Lemma sum_final_errs plan : list_sum (map final_errs plan) = count (fun p => p) plan.
Proof. induction plan as [|[|] plan IH]; [reflexivity| |]; cbn in *; unfold list_sum in IH; rewrite IH; reflexivity. Qed.

(** containment: over every interleaving, whoever waited on the group goes on with the array the slice was made with
    (never reset), in which exactly the panicking elements are null and every other element has its value - no slot is
    still unset; one error at the path of each panicking element and none elsewhere; the recover hook ran once per
    panic.  Nothing of this depends on the schedule. *)
Theorem elems_contained_lemma plan tr s r sl :
  erun as_written_elems (einit plan) tr = Some s -> e_joined s = Some (r, sl) ->
  r = false /\ sl = map final_slot plan /\ map el_errs (e_els s) = map final_errs plan /\
  e_recovers s = count (fun p => p) plan /\ count unfinished (e_els s) = 0.
Proof.
  intros R J. destruct (erun_inv plan tr _ _ (einv_init plan) R) as [Ip Io Ir Iw Ic Ij].
  destruct (Ij r sl J) as (-> & -> & Z). pose proof (count_zero_Forall _ _ Z) as F.
  assert (Fin : Forall (fun e => el_slot e = final_slot (el_panics e) /\ el_errs e = final_errs (el_panics e)) (e_els s)).
  { clear - Io F. induction Io as [|e l Oe Io IH]; [constructor|]. inversion F as [|? ? Fe Fl]; subst. constructor; [|now apply IH].
    unfold elem_ok in Oe. unfold unfinished in Fe. destruct (el_pc e); try discriminate. exact Oe. }
  assert (S1 : slots s = map final_slot plan).
  { rewrite <- Ip, map_map. unfold slots. clear - Fin. induction Fin as [|e l [A _] _ IH]; cbn; [reflexivity|now rewrite A, IH]. }
  assert (S2 : map el_errs (e_els s) = map final_errs plan).
  { rewrite <- Ip, map_map. clear - Fin. induction Fin as [|e l [_ A] _ IH]; cbn; [reflexivity|now rewrite A, IH]. }
  repeat split; try assumption. now rewrite Ic, S2, sum_final_errs.
Qed.

(** the observable outcome, as the harness compares it *)
Theorem elems_outcome_lemma plan tr s r sl :
  erun as_written_elems (einit plan) tr = Some s -> e_joined s = Some (r, sl) ->
  r = false /\ (combine (map (fun x => slot_eqb x Null) sl) (map el_errs (e_els s)), e_recovers s) = outcome_of plan.
Proof.
  intros R J. destruct (elems_contained_lemma _ _ _ _ _ R J) as (-> & -> & E & C & _). split; [reflexivity|].
  unfold outcome_of. rewrite E, C. f_equal. clear. induction plan as [|p plan IH]; cbn; [reflexivity|]. rewrite IH. now destruct p.
Qed.

(** every step, of either variant, takes exactly one unit of the work that is left: runs are bounded by 3n + 1 *)
Lemma estep_todo v s l s' : estep v s l = Some s' -> etodo s' + 1 = etodo s.
Proof.
  intros E. destruct l as [i|]; cbn [estep] in E.
  - destruct (nth_error (e_els s) i) as [e|] eqn:Hn; [|discriminate].
    assert (T : forall e', elem_todo e' + 1 = elem_todo e -> forall r w c,
                etodo {| e_els := upd i e' (e_els s); e_reset := r; e_wg := w; e_recovers := c; e_joined := e_joined s |} + 1 = etodo s).
    { intros e' H r w c. unfold etodo. cbn [e_els e_joined]. pose proof (sum_upd elem_todo i e' e _ Hn) as H0. clear - H H0. destruct (e_joined s); lia. }
    unfold do_handler, do_done in E.
    destruct (el_pc e) as [|p|p|] eqn:Pc; [| | |discriminate].
    + destruct (el_panics e || e_reset s); inversion E; subst s'; apply T; unfold elem_todo; cbn; rewrite Pc; reflexivity.
    + destruct (v_done_last v); [destruct p; [destruct (v_own_slot v)|]|]; inversion E; subst s'; apply T; unfold elem_todo; cbn; rewrite Pc; reflexivity.
    + destruct (v_done_last v); [|destruct p; [destruct (v_own_slot v)|]]; inversion E; subst s'; apply T; unfold elem_todo; cbn; rewrite Pc; reflexivity.
  - destruct (e_joined s) eqn:J; [discriminate|]. destruct (e_wg s); [|discriminate]. inversion E; subst s'. unfold etodo. cbn [e_els e_joined]. rewrite J. lia.
Qed.

Theorem elems_bounded_lemma v plan tr s :
  erun v (einit plan) tr = Some s -> List.length tr + etodo s = 3 * List.length plan + 1.
Proof.
  assert (G : forall tr' s0 s1, erun v s0 tr' = Some s1 -> List.length tr' + etodo s1 = etodo s0).
  { induction tr' as [|l tr0 IH]; intros s0 s1; cbn [erun]; [intros E; injection E as <-; reflexivity|].
    destruct (estep v s0 l) as [s2|] eqn:E; [|discriminate]. intros R. pose proof (estep_todo _ _ _ _ E). specialize (IH _ _ R). cbn [List.length]. lia. }
  intros R. rewrite (G _ _ _ R). unfold etodo, einit. cbn [e_els e_joined]. rewrite map_map.
  assert (T : forall (pl : list bool), list_sum (map (fun _ : bool => 3) pl) = 3 * List.length pl).
  { induction pl as [|p pl IH]; [reflexivity|]. cbn [map List.length list_sum fold_right]. unfold list_sum in IH. rewrite IH. lia. }
  change (fun x : bool => elem_todo {| el_panics := x; el_pc := EBody; el_slot := Unset; el_errs := 0 |}) with (fun _ : bool => 3).
  rewrite T. reflexivity.
Qed.

(** no state short of the join is stuck: an unfinished element can step, and once all have finished the join can *)
Theorem elems_progress_lemma plan tr s :
  erun as_written_elems (einit plan) tr = Some s -> e_joined s = None -> exists l, estep as_written_elems s l <> None.
Proof.
  intros R J. destruct (erun_inv plan tr _ _ (einv_init plan) R) as [Ip Io Ir Iw Ic Ij].
  destruct (count unfinished (e_els s)) as [|k] eqn:C.
  - exists EJoin. cbn. rewrite J, Iw. discriminate.
  - destruct (count_pos_exists unfinished (e_els s)) as (i & e & Hn & U); [lia|].
    exists (EL i). cbn [estep]. rewrite Hn. unfold unfinished in U.
    destruct (el_pc e); try discriminate U; cbn; try destruct (el_panics e || e_reset s); discriminate.
Qed.

(** the slip of the pinned commit, first half: [Done] runs before the recover handler - the join is passed with the
    panicking element's slot still unset (serialising the array then dereferences nil) *)
Theorem done_before_handler_witness :
  exists s sl, erun {| v_done_last := false; v_own_slot := true |} (einit [true; false]) [EL 0; EL 0; EL 1; EL 1; EL 1; EJoin] = Some s /\
               e_joined s = Some (false, sl) /\ In Unset sl.
Proof. eexists. eexists. split; [vm_compute; reflexivity|split; [reflexivity|now left]]. Qed.

(** second half: the handler resets the whole result - a sibling's store panics, the hook runs twice for one panic,
    the sibling gets an error of its own and the list comes back empty *)
Theorem handler_resets_list_witness :
  exists s sl, erun {| v_done_last := true; v_own_slot := false |} (einit [true; false]) [EL 0; EL 0; EL 1; EL 1; EL 0; EL 1; EJoin] = Some s /\
               e_joined s = Some (true, sl) /\ e_recovers s = 2 /\ map el_errs (e_els s) = [1; 1].
Proof. eexists. eexists. split; [vm_compute; reflexivity|repeat split; reflexivity]. Qed.

(** both together, as the pinned commit had it *)
Theorem pinned_element_closure_witness :
  exists s sl, erun {| v_done_last := false; v_own_slot := false |} (einit [true; false]) [EL 0; EL 0; EL 1; EL 1; EL 1; EJoin] = Some s /\
               e_joined s = Some (false, sl) /\ In Unset sl.
Proof. eexists. eexists. split; [vm_compute; reflexivity|split; [reflexivity|now left]]. Qed.

Theorem pinned_element_closure_witness2 :
  exists s sl, erun {| v_done_last := false; v_own_slot := false |} (einit [true; false]) [EL 0; EL 0; EL 0; EL 1; EL 1; EL 1; EJoin] = Some s /\
               e_joined s = Some (true, sl) /\ e_recovers s = 2.
Proof. eexists. eexists. split; [vm_compute; reflexivity|repeat split; reflexivity]. Qed.

(** non-vacuity: four elements, the first and third panic, some interleaving, the join is reached *)
Example elems_sample_run :
  exists s, erun as_written_elems (einit [true; false; true; false])
              [EL 1; EL 0; EL 2; EL 3; EL 0; EL 1; EL 1; EL 2; EL 3; EL 2; EL 0; EL 3; EJoin] = Some s /\
            e_joined s = Some (false, [Null; Val; Null; Val]) /\ e_recovers s = 2.
Proof. eexists. split; [vm_compute; reflexivity|split; reflexivity]. Qed.
