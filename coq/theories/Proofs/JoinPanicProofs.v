(** C05: the worker-limit list join with panicking closures - as written the semaphore holds exactly one slot per
    running closure, the loop is never stuck for good, and once everything has returned [wg.Wait()] returns; the slip
    that hands the slot back after the element store is refuted by a run that ends stuck. *)
From GV Require Import Base.Prelude Model.JoinPanic.
Open Scope nat_scope.
Open Scope list_scope.

Record jinv (s : jstate) : Prop := {
  ji_sem : j_sem s = j_norm s + j_pan s;
  ji_lim : j_sem s <= j_limit s;
  ji_wg : j_wg s = List.length (j_plan s) + j_norm s + j_pan s }.

Lemma jinv_init plan limit : jinv (jinit plan limit).
Proof. split; cbn; lia. Qed.

Lemma jstep_inv s l s' : jinv s -> jstep true s l = Some s' -> jinv s'.
Proof.
  intros [A B C] E. destruct l; cbn [jstep] in E.
  - destruct (j_cancelled s); [discriminate|]. injection E as <-. split; cbn; assumption.
  - destruct (j_plan s) as [|p rest] eqn:P; [discriminate|]. cbn [List.length] in C.
    destruct (j_cancelled s).
    + injection E as <-. split; cbn; lia.
    + destruct (j_sem s <? j_limit s) eqn:L; [|discriminate]. apply Nat.ltb_lt in L.
      injection E as <-. destruct p; split; cbn; lia.
  - destruct (j_norm s) as [|k] eqn:N; [discriminate|]. injection E as <-. split; cbn; lia.
  - destruct (j_pan s) as [|k] eqn:N; [discriminate|]. injection E as <-. split; cbn; lia.
Qed.

Lemma jrun_inv tr : forall s s', jinv s -> jrun true s tr = Some s' -> jinv s'.
Proof.
  induction tr as [|l tr IH]; intros s s' I; cbn [jrun]; [intros E; now injection E as <-|].
  destruct (jstep true s l) as [s1|] eqn:E; [|discriminate]. apply IH. exact (jstep_inv _ _ _ I E).
Qed.

Lemma jstep_limit rd s l s' : jstep rd s l = Some s' -> j_limit s' = j_limit s.
Proof.
  destruct l; cbn [jstep]; intros E.
  - destruct (j_cancelled s); [discriminate|]. now injection E as <-.
  - destruct (j_plan s); [discriminate|]. destruct (j_cancelled s); [now injection E as <-|].
    destruct (j_sem s <? j_limit s); [|discriminate]. now injection E as <-.
  - destruct (j_norm s); [discriminate|]. now injection E as <-.
  - destruct (j_pan s); [discriminate|]. now injection E as <-.
Qed.

(** over every interleaving and every cancellation instant: the semaphore holds one slot per running closure (none
    is lost to a panic); short of the join some step other than a cancellation is enabled - the loop can dispatch, or
    a running closure can finish; and when nothing runs and nothing is left to dispatch, [wg.Wait()] returns *)
Theorem join_with_panics_lemma plan limit tr s :
  0 < limit -> jrun true (jinit plan limit) tr = Some s ->
  j_sem s = j_norm s + j_pan s /\
  (jwait_enabled s = false -> jstep true s JDispatch <> None \/ jstep true s JReturn <> None \/ jstep true s JPanic <> None) /\
  (j_plan s = [] -> j_norm s + j_pan s = 0 -> jwait_enabled s = true).
Proof.
  intros Hl R. destruct (jrun_inv tr _ _ (jinv_init plan limit) R) as [A B C].
  assert (Lim : j_limit s = limit).
  { clear - R. assert (G : forall tr' s0 s1, jrun true s0 tr' = Some s1 -> j_limit s1 = j_limit s0).
    { induction tr' as [|l tr' IH]; intros s0 s1; cbn [jrun]; [intros E; now injection E as <-|].
      destruct (jstep true s0 l) as [s2|] eqn:E; [|discriminate]. intros R2. rewrite (IH _ _ R2). exact (jstep_limit _ _ _ _ E). }
    exact (G _ _ _ R). }
  split; [exact A|]. split.
  - unfold jwait_enabled. intros W. cbn [jstep].
    destruct (j_plan s) as [|p rest] eqn:P.
    + cbn [List.length] in C. apply Nat.eqb_neq in W.
      destruct (j_norm s) as [|k]; [|right; left; discriminate]. destruct (j_pan s) as [|k]; [lia|right; right; discriminate].
    + destruct (j_cancelled s); [left; discriminate|].
      destruct (j_sem s <? j_limit s) eqn:L; [left; discriminate|]. apply Nat.ltb_ge in L.
      destruct (j_norm s) as [|k]; [|right; left; discriminate]. destruct (j_pan s) as [|k]; [lia|right; right; discriminate].
  - intros P Z. unfold jwait_enabled. rewrite P in *. cbn [List.length] in C. apply Nat.eqb_eq. lia.
Qed.

(** every step takes one unit of the work that is left (a cancellation happens at most once): runs are bounded *)
Lemma jstep_todo rd s l s' : jstep rd s l = Some s' -> jtodo s' < jtodo s.
Proof.
  unfold jtodo. destruct l; cbn [jstep]; intros E.
  - destruct (j_cancelled s) eqn:Cn; [discriminate|]. injection E as <-. cbn. lia.
  - destruct (j_plan s) as [|p rest]; [discriminate|]. destruct (j_cancelled s) eqn:Cn.
    + injection E as <-. cbn. lia.
    + destruct (j_sem s <? j_limit s); [|discriminate]. injection E as <-. destruct p; cbn; lia.
  - destruct (j_norm s); [discriminate|]. injection E as <-. cbn. lia.
  - destruct (j_pan s); [discriminate|]. injection E as <-. cbn. lia.
Qed.

Theorem join_with_panics_bounded_lemma rd plan limit tr s :
  jrun rd (jinit plan limit) tr = Some s -> List.length tr + jtodo s <= 2 * List.length plan + 1.
Proof.
  assert (G : forall tr' s0 s1, jrun rd s0 tr' = Some s1 -> List.length tr' + jtodo s1 <= jtodo s0).
  { induction tr' as [|l tr0 IH]; intros s0 s1; cbn [jrun]; [intros E; injection E as <-; cbn; lia|].
    destruct (jstep rd s0 l) as [s2|] eqn:E; [|discriminate]. intros R. pose proof (jstep_todo _ _ _ _ E). specialize (IH _ _ R). cbn [List.length]. lia. }
  intros R. specialize (G _ _ _ R).
  assert (T : jtodo (jinit plan limit) = 2 * List.length plan + 1) by (unfold jtodo, jinit; cbn [j_plan j_norm j_pan j_cancelled]; lia). lia.
Qed.

(** the slip: the slot is handed back after the element store, not in a deferred call - with one worker, the first
    element panics and keeps the slot; the loop waits in Acquire, nothing runs, nothing but a cancellation can happen *)
Theorem release_after_store_witness :
  exists s, jrun false (jinit [true; false] 1) [JDispatch; JPanic] = Some s /\
            jwait_enabled s = false /\ jstep false s JDispatch = None /\ jstep false s JReturn = None /\ jstep false s JPanic = None.
Proof. eexists. split; [vm_compute; reflexivity|repeat split; reflexivity]. Qed.

(** non-vacuity: three elements, two workers, the first panics, the context ends before the third is dispatched *)
Example join_with_panics_sample :
  exists s, jrun true (jinit [true; false; false] 2) [JDispatch; JDispatch; JPanic; JCancel; JDispatch; JReturn] = Some s /\ jwait_enabled s = true.
Proof. eexists. split; [vm_compute; reflexivity|reflexivity]. Qed.
