From GV Require Import Base.Prelude Model.Join.
Open Scope nat_scope.

(** Invariant of the list loop: the WaitGroup counts the elements not yet dealt with, the running
    closures, and - in the pinned commit only - the elements whose Acquire failed. *)
Definition linv (fixed : bool) (failed : nat) (s : lstate) : Prop :=
  l_next s <= l_n s /\ l_running s <= l_next s /\
  l_wg s = (l_n s - l_next s) + l_running s + (if fixed then 0 else failed).

Lemma lstep_inv fixed s l s' failed :
  linv fixed failed s -> lstep fixed s l = Some s' ->
  exists failed', linv fixed failed' s' /\ failed <= failed' /\ l_n s' = l_n s /\ l_limit s' = l_limit s.
Proof.
  intros [H1 [H2 H3]] Hs. destruct l; cbn [lstep] in Hs.
  - injection Hs as <-. exists failed. repeat split; cbn; try assumption; try lia.
  - destruct (l_next s <? l_n s) eqn:E; cbn [negb] in Hs; [|discriminate]. apply Nat.ltb_lt in E.
    destruct (l_cancelled s).
    + injection Hs as <-. exists (S failed). unfold linv. cbn. destruct fixed; repeat split; try lia.
    + destruct (l_running s <? l_limit s) eqn:E2; [|discriminate]. injection Hs as <-.
      exists failed. unfold linv. cbn. destruct fixed; repeat split; try lia.
  - destruct (l_running s) as [|r] eqn:Er; [discriminate|]. injection Hs as <-.
    exists failed. unfold linv. cbn. destruct fixed; repeat split; try lia.
Qed.

Lemma lrun_inv fixed tr : forall s s' failed,
  linv fixed failed s -> lrun fixed s tr = Some s' -> exists failed', linv fixed failed' s' /\ l_n s' = l_n s /\ l_limit s' = l_limit s.
Proof.
  induction tr as [|l r IH]; intros s s' failed HI Hr; cbn [lrun] in Hr.
  - injection Hr as <-. exists failed. auto.
  - destruct (lstep fixed s l) as [s1|] eqn:Es; [|discriminate].
    destruct (lstep_inv _ _ _ _ _ HI Es) as [f1 [HI1 [_ [Hn Hl]]]].
    destruct (IH _ _ _ HI1 Hr) as [f2 [HI2 [Hn2 Hl2]]]. exists f2. split; [exact HI2|]. split; congruence.
Qed.

(** C05, list join (repaired templates): whatever the length, the worker limit, the instant of
    cancellation and the interleaving of the loop with its workers - once every started closure has
    returned, wg.Wait() returns. *)
Theorem list_join_terminates_lemma n limit tr s :
  lrun true (linit n limit) tr = Some s -> all_returned s = true -> wait_enabled s = true.
Proof.
  intros Hr Ha.
  assert (H0 : linv true 0 (linit n limit)) by (unfold linv, linit; cbn; lia).
  destruct (lrun_inv true tr _ _ _ H0 Hr) as [f [[H1 [H2 H3]] _]].
  unfold all_returned, wait_enabled in *. apply andb_prop in Ha. destruct Ha as [Ha1 Ha2].
  rewrite Ha1. cbn [andb]. apply Nat.eqb_eq in Ha1. apply Nat.eqb_eq in Ha2. apply Nat.eqb_eq. lia.
Qed.

(** ... and the loop can always move until then (no stuck state short of the end), provided limit > 0. *)
Theorem list_join_progress_lemma n limit tr s :
  0 < limit -> lrun true (linit n limit) tr = Some s -> all_returned s = false ->
  lstep true s LDispatch <> None \/ lstep true s LFinish <> None.
Proof.
  intros Hl Hr Ha.
  assert (H0 : linv true 0 (linit n limit)) by (unfold linv, linit; cbn; lia).
  destruct (lrun_inv true tr _ _ _ H0 Hr) as [f [[H1 [H2 H3]] [Hn Hlim]]].
  cbn [linit l_n l_limit] in Hn, Hlim.
  unfold all_returned in Ha. cbn [lstep].
  destruct (l_running s) as [|r] eqn:Er.
  - (* nothing running: the loop itself must not be over *)
    rewrite Nat.eqb_refl, andb_true_r in Ha. apply Nat.eqb_neq in Ha.
    left. assert (E : (l_next s <? l_n s) = true) by (apply Nat.ltb_lt; lia). rewrite E. cbn [negb].
    destruct (l_cancelled s); [discriminate|].
    assert (E2 : (0 <? l_limit s) = true) by (apply Nat.ltb_lt; lia). rewrite E2. discriminate.
  - right. discriminate.
Qed.

(** The pinned commit: with a worker limit, two elements and a context cancelled before the loop, the
    WaitGroup counter stays positive for ever although nothing is running: wg.Wait() never returns. *)
Theorem list_join_legacy_refuted_lemma :
  exists s, lrun false (linit 2 2) [LCancel; LDispatch; LDispatch] = Some s
            /\ all_returned s = true /\ wait_enabled s = false
            /\ lstep false s LDispatch = None /\ lstep false s LFinish = None.
Proof. eexists. vm_compute. repeat split. Qed.

(** * Deferred groups *)
Lemma dstep_count fixed s l s' : dstep fixed s l = Some s' -> d_running s' + d_blocked s' <= d_running s + d_blocked s.
Proof.
  destruct l; cbn [dstep]; intros H.
  - injection H as <-. cbn. lia.
  - destruct (d_running s) eqn:E; [discriminate|]. injection H as <-. cbn. lia.
  - destruct (d_blocked s) eqn:E; [discriminate|]. destruct (d_budget s); [discriminate|]. injection H as <-. cbn. lia.
  - destruct (fixed && d_cancelled s)%bool; [|discriminate]. destruct (d_blocked s) eqn:E; [discriminate|]. injection H as <-. cbn. lia.
Qed.

Lemma dstep_cancelled fixed s l s' : dstep fixed s l = Some s' -> d_cancelled s = true -> d_cancelled s' = true.
Proof.
  destruct l; cbn [dstep]; intros H Hc.
  - injection H as <-. reflexivity.
  - destruct (d_running s); [discriminate|]. injection H as <-. exact Hc.
  - destruct (d_blocked s); [discriminate|]. destruct (d_budget s); [discriminate|]. injection H as <-. exact Hc.
  - destruct (fixed && d_cancelled s)%bool; [|discriminate]. destruct (d_blocked s); [discriminate|]. injection H as <-. reflexivity.
Qed.

(** C05, deferred groups (repaired template): in every reachable state in which the request context is
    cancelled and nothing but a cancellation can happen any more, no group goroutine is left - whatever
    the number of groups, however many payloads the consumer asked for (a single-response transport asks
    for one), in every order of completion. *)
Theorem deferred_no_leak_lemma groups budget tr s :
  drun true (dinit groups budget) tr = Some s -> d_cancelled s = true -> dquiescent true s = true ->
  d_running s = 0 /\ d_blocked s = 0.
Proof.
  intros _ Hc Hq. unfold dquiescent in Hq. cbn [dstep] in Hq. rewrite Hc in Hq. cbn [andb] in Hq.
  destruct (d_running s) as [|r]; [|discriminate]. split; [reflexivity|].
  destruct (d_blocked s) as [|b]; [reflexivity|]. destruct (d_budget s); discriminate.
Qed.

(** The pinned commit: a consumer that stops after the first payload leaves every other started group
    blocked in its send for ever, cancelled context or not. *)
Theorem deferred_legacy_refuted_lemma :
  exists s, drun false (dinit 2 0) [DFinish; DFinish; DCancel] = Some s
            /\ d_cancelled s = true /\ dquiescent false s = true /\ d_blocked s = 2.
Proof. eexists. vm_compute. repeat split. Qed.
