From GV Require Import Base.Prelude Model.Pipeline.
From Coq Require Import Sorted.
Open Scope string_scope.
Open Scope list_scope.

Definition quiet (l : list event) : Prop := forallb (fun e => negb (executes e)) l = true.

Lemma quiet_app a b : quiet a -> quiet b -> quiet (a ++ b).
Proof. unfold quiet. intros Ha Hb. rewrite forallb_app, Ha, Hb. reflexivity. Qed.

Lemma quiet_map_resp idxs : quiet (map EvRespEnter idxs) /\ quiet (map EvRespExit idxs).
Proof. unfold quiet. induction idxs as [|i r [IH1 IH2]]; cbn; auto. Qed.

(** ** processExtensions: nesting and exactly-once *)
Lemma wrap_nil enter exit core : wrap enter exit [] core = core.
Proof. unfold wrap. cbn. apply app_nil_r. Qed.

(** The first registered extension is outermost: its enter event precedes, and its exit event follows,
    everything the later extensions and the core do. *)
Lemma wrap_cons enter exit i r core :
  wrap enter exit (i :: r) core = enter i :: wrap enter exit r core ++ [exit i].
Proof. unfold wrap. cbn [map rev]. rewrite map_app. cbn [map]. rewrite <- !app_assoc. reflexivity. Qed.

Lemma with_hook_spec h es : forall base i,
  In i (with_hook h base es) <-> exists e, nth_error es (i - base) = Some e /\ h e = true /\ (base <= i)%nat.
Proof.
  induction es as [|e r IH]; intros base i; cbn [with_hook].
  - split; [intros []|]. intros [e [H _]]. destruct (i - base)%nat; discriminate.
  - destruct (h e) eqn:Eh.
    + cbn [In]. rewrite IH. split.
      * intros [<-|[e' [Hn [Hh Hb]]]].
        -- exists e. rewrite Nat.sub_diag. cbn. auto.
        -- exists e'. replace (i - base)%nat with (S (i - S base)) by lia. cbn. repeat split; try assumption; lia.
      * intros [e' [Hn [Hh Hb]]]. destruct (Nat.eq_dec base i) as [->|Hne]; [left; reflexivity|right].
        exists e'. replace (i - base)%nat with (S (i - S base)) in Hn by lia. cbn in Hn. repeat split; try assumption; lia.
    + rewrite IH. split.
      * intros [e' [Hn [Hh Hb]]]. exists e'. replace (i - base)%nat with (S (i - S base)) by lia. cbn. repeat split; try assumption; lia.
      * intros [e' [Hn [Hh Hb]]]. destruct (Nat.eq_dec base i) as [->|Hne].
        -- rewrite Nat.sub_diag in Hn. cbn in Hn. inversion Hn; subst. congruence.
        -- exists e'. replace (i - base)%nat with (S (i - S base)) in Hn by lia. cbn in Hn. repeat split; try assumption; lia.
Qed.

Lemma with_hook_lower h es : forall base i, In i (with_hook h base es) -> (base <= i)%nat.
Proof. intros base i H. apply with_hook_spec in H. destruct H as [_ [_ [_ H]]]. exact H. Qed.

(** registration order, each implementing extension exactly once *)
Lemma with_hook_sorted h es : forall base, StronglySorted lt (with_hook h base es).
Proof.
  induction es as [|e r IH]; intros base; cbn [with_hook]; [constructor|].
  destruct (h e); [|apply IH]. constructor; [apply IH|].
  apply Forall_forall. intros j Hj. apply with_hook_lower in Hj. lia.
Qed.

Lemma sorted_nodup l : StronglySorted lt l -> NoDup l.
Proof.
  induction 1 as [|x l _ IH Hx]; constructor; [|exact IH].
  intros Hin. rewrite Forall_forall in Hx. specialize (Hx _ Hin). lia.
Qed.

Section PipelineProofs.
  Variable docs : nat -> doc.
  Variable exts : list ext.
  Notation create_op_ctx := (create_op_ctx docs exts).
  Notation serve := (serve docs exts).
  Notation serve_all := (serve_all docs exts).
  Notation dispatch_error := (dispatch_error exts).

  Lemma run_mutators_quiet mk idxs rej :
    (forall i, executes (mk i) = false) -> quiet (fst (run_mutators mk idxs rej)).
  Proof.
    intros Hmk. unfold quiet. induction idxs as [|i r IH]; cbn [run_mutators]; [reflexivity|].
    destruct (option_eqb Nat.eqb rej (Some i)).
    - cbn. rewrite Hmk. reflexivity.
    - destruct (run_mutators mk r rej) as [ev ok]. cbn [fst forallb] in *. rewrite Hmk, IH. reflexivity.
  Qed.

  Lemma dispatch_error_quiet : quiet dispatch_error.
  Proof.
    unfold Pipeline.dispatch_error, wrap. cbn [app].
    destruct (quiet_map_resp (with_hook e_resp 0 exts)) as [H1 _].
    destruct (quiet_map_resp (rev (with_hook e_resp 0 exts))) as [_ H2].
    apply quiet_app; assumption.
  Qed.

  (** Whatever CreateOperationContext logs is parameter/context mutators only. *)
  Lemma create_quiet c r : quiet (snd (fst (create_op_ctx c r))).
  Proof.
    unfold Pipeline.create_op_ctx.
    pose proof (run_mutators_quiet EvParam (with_hook e_param 0 exts) (r_reject_param r) (fun _ => eq_refl)) as Q1.
    pose proof (run_mutators_quiet EvCtx (with_hook e_ctx 0 exts) (r_reject_ctx r) (fun _ => eq_refl)) as Q2.
    destruct (run_mutators EvParam (with_hook e_param 0 exts) (r_reject_param r)) as [ev1 ok1].
    destruct (run_mutators EvCtx (with_hook e_ctx 0 exts) (r_reject_ctx r)) as [ev2 ok2].
    cbn [fst] in Q1, Q2.
    destruct (negb ok1); [exact Q1|].
    destruct (parse_query docs c (r_q r)) as [c' [ref|]]; [exact Q1|].
    destruct (for_name (d_ops (docs (r_q r))) (r_opname r)) as [op|]; [|exact Q1].
    destruct (negb (r_vars_ok r)); [exact Q1|].
    destruct (negb ok2); cbn [fst snd]; apply quiet_app; assumption.
  Qed.

  (** C03 gate / C09 status: a response that is not a 200 data response contains no operation
      interceptor, root-field or field interceptor, Exec or resolver event. *)
  Theorem gate_lemma c h :
    let resp := snd (serve c h) in
    (s_body resp <> BData -> quiet (s_events resp))
    /\ (s_body resp = BData -> s_status resp = 200%nat)
    /\ (s_status resp <> 200%nat -> quiet (s_events resp))
    /\ (forall ref, s_refusal resp = Some ref -> s_body resp = BErrors /\ quiet (s_events resp)).
  Proof.
    cbv zeta. unfold Pipeline.serve.
    destruct (h_transport h) as [t|]; cbn [snd]; [|repeat split; try reflexivity; try discriminate; intros; reflexivity].
    destruct (negb (h_body_ok h)).
    { cbn [snd s_body s_events s_status s_refusal]. repeat split; try discriminate.
      - intros _. destruct t; try reflexivity; apply dispatch_error_quiet.
      - intros _. destruct t; try reflexivity; apply dispatch_error_quiet. }
    pose proof (create_quiet c (h_req h)) as Q.
    destruct (create_op_ctx c (h_req h)) as [[c' ev] [op|ref]]; cbn [fst snd] in Q.
    - destruct t; destruct (o_kind op); cbn [snd s_body s_events s_status s_refusal];
        repeat split; try discriminate; try reflexivity; try congruence; intros; try exact Q; try contradiction.
    - cbn [snd s_body s_events s_status s_refusal].
      assert (Q2 : quiet (ev ++ dispatch_error)) by (apply quiet_app; [exact Q | apply dispatch_error_quiet]).
      repeat split; try discriminate; intros; try exact Q2; try reflexivity.
  Qed.

  (** C09: the status of a refused request. *)
  Theorem status_lemma c h t ref :
    h_transport h = Some t -> s_refusal (snd (serve c h)) = Some ref ->
    s_status (snd (serve c h)) = if protocol_error ref then status_protocol t (h_negotiated h) else 200%nat.
  Proof.
    unfold Pipeline.serve. intros -> H.
    destruct (negb (h_body_ok h)); [discriminate|].
    destruct (create_op_ctx c (h_req h)) as [[c' ev] [op|ref']].
    - destruct t; destruct (o_kind op); discriminate.
    - cbn in *. injection H as ->. reflexivity.
  Qed.

  (** C09: over GET a resolver (or anything else that executes) runs only for a query operation, and it is
      the operation the request names. *)
  Theorem get_only_queries_lemma c h :
    h_transport h = Some TGet -> quiet (s_events (snd (serve c h))) \/
    exists op, for_name (d_ops (docs (r_q (h_req h)))) (r_opname (h_req h)) = Some op /\ o_kind op = KQuery
               /\ s_status (snd (serve c h)) = 200%nat.
  Proof.
    intros Ht. pose proof (gate_lemma c h) as G. cbv zeta in G. destruct G as [G1 _].
    unfold Pipeline.serve in *. rewrite Ht in *.
    destruct (negb (h_body_ok h)); [left; reflexivity|].
    pose proof (create_quiet c (h_req h)) as Q.
    unfold Pipeline.create_op_ctx in *.
    destruct (run_mutators EvParam (with_hook e_param 0 exts) (r_reject_param (h_req h))) as [ev1 ok1].
    destruct (negb ok1); [left; apply G1; discriminate|].
    destruct (parse_query docs c (r_q (h_req h))) as [c' [ref|]]; [left; apply G1; discriminate|].
    destruct (for_name (d_ops (docs (r_q (h_req h)))) (r_opname (h_req h))) as [op|] eqn:Ef; [|left; apply G1; discriminate].
    destruct (negb (r_vars_ok (h_req h))); [left; apply G1; discriminate|].
    destruct (run_mutators EvCtx (with_hook e_ctx 0 exts) (r_reject_ctx (h_req h))) as [ev2 ok2].
    destruct (negb ok2); [left; apply G1; discriminate|].
    cbn [fst snd] in *. destruct (o_kind op) eqn:Ek; cbn [snd s_events s_status] in *.
    - right. exists op. auto.
    - left. exact Q.
    - left. exact Q.
  Qed.

  (** ** The query cache holds only documents that parsed, have an operation and validated. *)
  Definition good (q : nat) : Prop := d_parses (docs q) = true /\ d_ops (docs q) <> [] /\ d_valid (docs q) = true.
  Definition cache_ok (c : qcache) : Prop := forall q, In q (qc_keys c) -> good q.

  Lemma filter_sub {A} (f : A -> bool) l x : In x (filter f l) -> In x l.
  Proof. intros H. apply filter_In in H. tauto. Qed.

  Lemma firstn_sub {A} n (l : list A) x : In x (firstn n l) -> In x l.
  Proof.
    revert l; induction n as [|n IH]; intros l; cbn [firstn In]; [tauto|].
    destruct l as [|y l]; cbn [In]; [tauto|]. intros [->|Hi]; [left; reflexivity | right; auto].
  Qed.

  Lemma qc_touch_ok c q : cache_ok c -> In q (qc_keys c) -> cache_ok (qc_touch c q).
  Proof.
    intros H Hq. unfold qc_touch. destruct (qc_kind c); try exact H.
    intros x Hx. cbn [qc_keys In] in Hx. destruct Hx as [<-|Hx]; [apply H; exact Hq | apply H; eapply filter_sub; exact Hx].
  Qed.

  Lemma qc_add_ok c q : cache_ok c -> good q -> cache_ok (qc_add c q).
  Proof.
    intros H Hq. unfold qc_add. destruct (qc_kind c); try exact H; intros x Hx; cbn [qc_keys] in Hx.
    - destruct Hx as [<-|Hx]; [exact Hq | apply H; eapply filter_sub; exact Hx].
    - apply firstn_sub in Hx. destruct Hx as [<-|Hx]; [exact Hq | apply H; eapply filter_sub; exact Hx].
  Qed.

  Lemma qc_mem_In c q : qc_mem c q = true -> In q (qc_keys c).
  Proof.
    unfold qc_mem. intros H. apply existsb_exists in H. destruct H as [x [Hx He]]. apply Nat.eqb_eq in He. subst. exact Hx.
  Qed.

  Lemma parse_query_ok c q : cache_ok c -> cache_ok (fst (parse_query docs c q)).
  Proof.
    intros H. unfold parse_query. destruct (qc_mem c q) eqn:Em.
    - cbn [fst]. apply qc_touch_ok; [exact H | apply qc_mem_In; exact Em].
    - destruct (negb (d_parses (docs q))) eqn:Ep; [exact H|].
      destruct (d_ops (docs q)) as [|o os] eqn:Eo; [exact H|].
      destruct (negb (d_valid (docs q))) eqn:Ev; [exact H|]. cbn [fst]. apply qc_add_ok; [exact H|].
      unfold good. rewrite Eo. apply negb_false_iff in Ep. apply negb_false_iff in Ev. repeat split; try assumption; discriminate.
  Qed.

  (** The verdict of parseQuery does not depend on what is cached: a cached document gives the same
      result as an uncached one. *)
  Lemma parse_query_verdict c q : cache_ok c ->
    snd (parse_query docs c q) = snd (parse_query docs (empty_qcache (qc_kind c)) q).
  Proof.
    intros H. unfold parse_query at 1. destruct (qc_mem c q) eqn:Em.
    - apply qc_mem_In in Em. destruct (H q Em) as [Hp [Ho Hv]]. unfold parse_query, qc_mem. cbn [empty_qcache qc_keys existsb].
      rewrite Hp, Hv. cbn [negb]. destruct (d_ops (docs q)); [contradiction|reflexivity].
    - unfold parse_query, qc_mem. cbn [empty_qcache qc_keys existsb].
      destruct (negb (d_parses (docs q))); [reflexivity|].
      destruct (d_ops (docs q)); [reflexivity|]. destruct (negb (d_valid (docs q))); reflexivity.
  Qed.

  Lemma create_ok c r : cache_ok c -> cache_ok (fst (fst (create_op_ctx c r))).
  Proof.
    intros H. unfold Pipeline.create_op_ctx.
    destruct (run_mutators EvParam (with_hook e_param 0 exts) (r_reject_param r)) as [ev1 ok1].
    destruct (negb ok1); [exact H|].
    pose proof (parse_query_ok c (r_q r) H) as Hp.
    destruct (parse_query docs c (r_q r)) as [c' [ref|]]; cbn [fst] in Hp; [exact Hp|].
    destruct (for_name (d_ops (docs (r_q r))) (r_opname r)); [|exact Hp].
    destruct (negb (r_vars_ok r)); [exact Hp|].
    destruct (run_mutators EvCtx (with_hook e_ctx 0 exts) (r_reject_ctx r)) as [ev2 ok2].
    destruct (negb ok2); exact Hp.
  Qed.

  Lemma create_verdict c r : cache_ok c ->
    (snd (fst (create_op_ctx c r)), snd (create_op_ctx c r))
    = (snd (fst (create_op_ctx (empty_qcache (qc_kind c)) r)), snd (create_op_ctx (empty_qcache (qc_kind c)) r)).
  Proof.
    intros H. unfold Pipeline.create_op_ctx.
    destruct (run_mutators EvParam (with_hook e_param 0 exts) (r_reject_param r)) as [ev1 ok1].
    destruct (negb ok1); [reflexivity|].
    pose proof (parse_query_verdict c (r_q r) H) as Hv.
    destruct (parse_query docs c (r_q r)) as [c1 o1]. destruct (parse_query docs (empty_qcache (qc_kind c)) (r_q r)) as [c2 o2].
    cbn [snd] in Hv. subst o2. destruct o1 as [ref|]; [reflexivity|].
    destruct (for_name (d_ops (docs (r_q r))) (r_opname r)); [|reflexivity].
    destruct (negb (r_vars_ok r)); [reflexivity|].
    destruct (run_mutators EvCtx (with_hook e_ctx 0 exts) (r_reject_ctx r)) as [ev2 ok2].
    destruct (negb ok2); reflexivity.
  Qed.

  Lemma serve_ok c h : cache_ok c -> cache_ok (fst (serve c h)).
  Proof.
    intros H. unfold Pipeline.serve. destruct (h_transport h) as [t|]; [|exact H].
    destruct (negb (h_body_ok h)); [exact H|].
    pose proof (create_ok c (h_req h) H) as Hc.
    destruct (create_op_ctx c (h_req h)) as [[c' ev] [op|ref]]; cbn [fst] in Hc; [|exact Hc].
    destruct t; destruct (o_kind op); exact Hc.
  Qed.

  Lemma serve_kind c h : qc_kind (fst (serve c h)) = qc_kind c.
  Proof.
    unfold Pipeline.serve. destruct (h_transport h) as [t|]; [|reflexivity].
    destruct (negb (h_body_ok h)); [reflexivity|].
    assert (Hk : qc_kind (fst (fst (create_op_ctx c (h_req h)))) = qc_kind c).
    { unfold Pipeline.create_op_ctx.
      destruct (run_mutators EvParam (with_hook e_param 0 exts) (r_reject_param (h_req h))) as [ev1 ok1].
      destruct (negb ok1); [reflexivity|].
      assert (Hp : qc_kind (fst (parse_query docs c (r_q (h_req h)))) = qc_kind c).
      { unfold parse_query. destruct (qc_mem c (r_q (h_req h))).
        - unfold qc_touch. destruct (qc_kind c) eqn:Ek; cbn [fst qc_kind]; try exact Ek; reflexivity.
        - destruct (negb (d_parses (docs (r_q (h_req h))))); [reflexivity|].
          destruct (d_ops (docs (r_q (h_req h)))); [reflexivity|].
          destruct (negb (d_valid (docs (r_q (h_req h))))); [reflexivity|]. unfold qc_add. destruct (qc_kind c) eqn:Ek; cbn [fst qc_kind]; try exact Ek; reflexivity. }
      destruct (parse_query docs c (r_q (h_req h))) as [c' [ref|]]; cbn [fst] in *; [exact Hp|].
      destruct (for_name (d_ops (docs (r_q (h_req h)))) (r_opname (h_req h))); [|exact Hp].
      destruct (negb (r_vars_ok (h_req h))); [exact Hp|].
      destruct (run_mutators EvCtx (with_hook e_ctx 0 exts) (r_reject_ctx (h_req h))) as [ev2 ok2].
      destruct (negb ok2); exact Hp. }
    destruct (create_op_ctx c (h_req h)) as [[c' ev] [op|ref]]; cbn [fst] in *; [|exact Hk].
    destruct t; destruct (o_kind op); exact Hk.
  Qed.

  (** The response to a request does not depend on the cache it meets. *)
  Lemma serve_verdict c h : cache_ok c -> snd (serve c h) = snd (serve (empty_qcache (qc_kind c)) h).
  Proof.
    intros H. unfold Pipeline.serve. destruct (h_transport h) as [t|]; [|reflexivity].
    destruct (negb (h_body_ok h)); [reflexivity|].
    pose proof (create_verdict c (h_req h) H) as Hv.
    destruct (create_op_ctx c (h_req h)) as [[c1 ev1] v1].
    destruct (create_op_ctx (empty_qcache (qc_kind c)) (h_req h)) as [[c2 ev2] v2].
    cbn [fst snd] in Hv. injection Hv as -> ->.
    destruct v2 as [op|ref]; [|reflexivity]. destruct t; destruct (o_kind op); reflexivity.
  Qed.

  Lemma serve_all_ok c hs : cache_ok c -> cache_ok (fst (serve_all c hs)) /\ qc_kind (fst (serve_all c hs)) = qc_kind c.
  Proof.
    revert c; induction hs as [|h r IH]; intros c H; cbn [Pipeline.serve_all]; [split; [exact H|reflexivity]|].
    pose proof (serve_ok c h H) as H1. pose proof (serve_kind c h) as K1.
    destruct (serve c h) as [c1 x]. cbn [fst] in H1, K1.
    destruct (IH c1 H1) as [H2 K2]. destruct (serve_all c1 r) as [c2 xs]. cbn [fst] in *. split; [exact H2 | congruence].
  Qed.

  (** C03/C07: after ANY history, a request gets the response a fresh server gives it. *)
  Theorem history_independent_lemma k hs h :
    snd (serve (fst (serve_all (empty_qcache k) hs)) h) = snd (serve (empty_qcache k) h).
  Proof.
    assert (H0 : cache_ok (empty_qcache k)) by (intros q []).
    destruct (serve_all_ok (empty_qcache k) hs H0) as [H K].
    rewrite (serve_verdict _ h H), K. reflexivity.
  Qed.

  Theorem cache_only_validated_lemma k hs : cache_ok (fst (serve_all (empty_qcache k) hs)).
  Proof. apply serve_all_ok. intros q []. Qed.
End PipelineProofs.
