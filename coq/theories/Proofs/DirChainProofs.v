(** C01 / C04: directive chains - a directive that does not call [next] keeps everything further in (the remaining
    directives and the resolver) from running, and the field gets that directive's outcome alone; when all call
    [next] every link runs once, outermost first, and the field gets the resolver's outcome; the field's own
    directives are outside the directives of its return type. *)
From GV Require Import Base.Prelude Model.DirChain.
Open Scope string_scope.
Open Scope list_scope.

Theorem chain_all_next_lemma ds r :
  forallb (fun x => is_next (snd x)) ds = true -> run_chain ds r = (map fst ds ++ ["resolver"], res_of_resolver r).
Proof.
  induction ds as [|[n b] ds IH]; cbn [run_chain forallb map app snd fst]; intros H; [reflexivity|].
  apply andb_prop in H as [Hb Hr]. rewrite Hb, (IH Hr). reflexivity.
Qed.

Theorem chain_stops_lemma pre n b post r :
  forallb (fun x => is_next (snd x)) pre = true -> is_next b = false ->
  run_chain (pre ++ (n, b) :: post) r = (map fst pre ++ [n], res_of_directive n b).
Proof.
  induction pre as [|[m c] pre IH]; cbn [run_chain forallb map app snd fst]; intros H Hb.
  - now rewrite Hb.
  - apply andb_prop in H as [Hc Hr]. rewrite Hc, (IH Hr Hb). reflexivity.
Qed.

(** every chain is of one of the two shapes (so the two theorems above describe every run) *)
Theorem chain_shape_lemma (ds : list (string * dbeh)) :
  forallb (fun x => is_next (snd x)) ds = true \/
  exists pre n b post, ds = pre ++ (n, b) :: post /\ forallb (fun x => is_next (snd x)) pre = true /\ is_next b = false.
Proof.
  induction ds as [|[n b] ds IH]; [now left|]. destruct (is_next b) eqn:Hb.
  - destruct IH as [A|(pre & m & c & post & -> & P & C)].
    + left. cbn. now rewrite Hb, A.
    + right. exists ((n, b) :: pre), m, c, post. repeat split; [|assumption]. cbn. now rewrite Hb, P.
  - right. exists [], n, b, ds. repeat split. exact Hb.
Qed.

(** no link runs twice: the invocation log has no more entries than the chain has links, plus the resolver *)
Theorem chain_log_bound_lemma ds r : (List.length (fst (run_chain ds r)) <= S (List.length ds))%nat.
Proof.
  induction ds as [|[n b] ds IH]; cbn [run_chain]; [cbn; lia|]. destruct (is_next b); cbn [fst List.length]; lia.
Qed.

(** the field's own directives are outside those of its return type, each group innermost-first in schema order *)
Theorem chain_order_lemma tdirs fdirs : chain_order tdirs fdirs = rev fdirs ++ rev tdirs.
Proof. unfold chain_order. apply rev_app_distr. Qed.

(** a blocking field directive in front of a failing type directive: no error, the type directive never runs *)
Example chain_sample :
  run_chain (field_chain ["onType"] ["onField"] [("onField", DBlock); ("onType", DError)]) ROk = (["onField"], RNull) /\
  run_chain (field_chain ["onType"] ["onField"] [("onField", DError); ("onType", DBlock)]) ROk = (["onField"], RErr "onField") /\
  run_chain (field_chain ["t1"; "t2"] ["f1"; "f2"] []) RFail = (["f2"; "f1"; "t2"; "t1"; "resolver"], RErr "resolver").
Proof. repeat split. Qed.

(** the other nesting (the type's directives outside the field's) answers differently on the same plans *)
Theorem type_outside_field_witness :
  let swapped := map (fun n => (n, lookup_beh [("onField", DBlock); ("onType", DError)] n)) (rev (["onField"] ++ ["onType"])) in
  run_chain swapped ROk = (["onType"], RErr "onType") /\
  run_chain (field_chain ["onType"] ["onField"] [("onField", DBlock); ("onType", DError)]) ROk = (["onField"], RNull).
Proof. split; reflexivity. Qed.
