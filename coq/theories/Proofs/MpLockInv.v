(** C05 / C12 (the step invariant; the theorems are in MpLockProofs.v): the multipart/mixed lock discipline as written - over every interleaving of the handler and the
    ticker the response writer is used by one goroutine at a time, every response is written exactly once and in
    order, nothing uses the response writer after the handler returned, and the ticker goroutine can always end; the
    slip that unlocks before the network flush is refuted. *)
From GV Require Import Base.Prelude Model.MpLock.
Open Scope nat_scope.
Open Scope list_scope.

Definition holding_pc (pc : fpc) : bool := match pc with FLocked | FWriting | FWritten | FFlushing | FFlushed => true | _ => false end.
Definition using_pc (pc : fpc) : bool := match pc with FWriting | FFlushing => true | _ => false end.
Definition emptied_pc (pc : fpc) : bool := match pc with FWritten | FFlushing | FFlushed => true | _ => false end.
Definition slip_pc (pc : fpc) : bool := match pc with FUnlocked | FUFlushing => true | _ => false end.
Definition hflush (s : mpstate) : bool := match m_h s with MHFlush => true | _ => false end.
Definition hlock (s : mpstate) : bool := match m_h s with MHFlush | MHClose => true | _ => false end.
Definition kflush (s : mpstate) : bool := match m_k s with MKFlush => true | _ => false end.
Definition hdone (s : mpstate) : bool :=
  match m_h s with MHClose | MHDeferred | MHDeferring | MHReturned => true | MHFlush => (match m_hf s with FEnd => true | _ => false end) | MHAdding => false end.
Definition adding (s : mpstate) : bool := match m_h s with MHAdding => true | _ => false end.
Definition is_nil {A} (l : list A) : bool := match l with [] => true | _ => false end.

Record mpinv (rs : list nat) (s : mpstate) : Prop := {
  ma_h : (match m_holder s with Some MH => true | _ => false end) = hlock s && holding_pc (m_hf s);
  ma_k : (match m_holder s with Some MK => true | _ => false end) = kflush s && holding_pc (m_kf s);
  mb_h : m_using_h s = (hlock s && using_pc (m_hf s)) || (match m_h s with MHDeferring => true | _ => false end);
  mb_k : m_using_k s = kflush s && using_pc (m_kf s);
  mc_done : hdone s = true -> is_nil (m_pending s) = true /\ kflush s && emptied_pc (m_kf s) = false /\ kflush s && using_pc (m_kf s) = false;
  md_h : hflush s && emptied_pc (m_hf s) = true -> is_nil (m_pending s) = true;
  me_out : written s ++ m_pending s = m_added s;
  mg_todo : m_added s ++ m_todo s = rs;
  mh_late : m_late s = 0;
  mi_todo : adding s = false -> is_nil (m_todo s) = true;
  mj_slip : slip_pc (m_hf s) = false /\ slip_pc (m_kf s) = false;
  mk_done : m_done s = negb (adding s) }.

Lemma mpinv_init_open rs o : mpinv rs (mpinit_open rs o).
Proof. constructor; cbn; try reflexivity; try discriminate; auto. Qed.
Lemma mpinv_init rs : mpinv rs (mpinit rs).
Proof. apply mpinv_init_open. Qed.

Ltac data :=
  unfold written in *; cbn [m_out m_pending m_added m_todo flat_map snd app] in *;
  rewrite ?flat_map_app, ?app_nil_r in *; cbn [flat_map snd app] in *; rewrite ?app_nil_r, <- ?app_assoc in *;
  try congruence; try (cbn; congruence).

Ltac flds := cbn [m_todo m_h m_hf m_k m_kf m_holder m_pending m_added m_out m_done m_using_h m_using_k m_late m_open] in *.

Ltac close_goal :=
  try reflexivity; try discriminate; try assumption;
  try (intros; exfalso; discriminate);
  try (repeat split; intros; try reflexivity; try discriminate; try assumption; fail).

Theorem mpstep_inv rs s l s' : mpinv rs s -> mpstep true s l = Some s' -> mpinv rs s'.
Proof.
  intros [Ah Ak Bh Bk Cd Dh Eo Gt Hl It [Jh Jk] Kd].
  destruct s as [todo h hf k kf holder pending added out done uh uk late opn].
  unfold hflush, hlock, kflush, hdone, adding in *. flds. subst uh uk late done.
  destruct h, hf; cbn in Jh; try discriminate;
  destruct k, kf; cbn in Jk; try discriminate;
  destruct holder as [[|]|]; cbn in Ah, Ak; try discriminate;
  destruct l; try destruct opn; cbn [mpstep flush_step close_step m_todo m_h m_hf m_k m_kf m_holder m_pending m_added m_out m_done m_using_h m_using_k m_late m_open f_holder f_pending f_out f_using negb];
  try discriminate;
  try (destruct todo as [|x todo]); try (destruct pending as [|p ps]);
  cbn in Cd, Dh, It;
  try (destruct (Cd eq_refl) as (C1 & C2 & C3)); try (pose proof (Dh eq_refl) as D1); try (pose proof (It eq_refl) as I1);
  try discriminate;
  intros E; inversion E; subst; clear E;
  (constructor; unfold hflush, hlock, kflush, hdone, adding, late_if, returned; flds; cbn; close_goal; data; try (rewrite <- Eo; rewrite <- app_assoc; reflexivity)).
Qed.

