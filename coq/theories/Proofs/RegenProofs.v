(** C18 / C19: regenerating the resolver files is stable - a second run over the output of a run reproduces
    its declarations exactly and only drops the warning block; bodies and doc texts survive any number of runs. *)
From GV Require Import Base.Prelude Model.Rewrite Model.Regen.
Open Scope list_scope.

Lemma filter_nil {A} (f : A -> bool) l : (forall x, In x l -> f x = false) -> filter f l = [].
Proof.
  induction l as [|x l IH]; [reflexivity|]. intros H. cbn. rewrite (H x (or_introl eq_refl)). apply IH. intros y Hy. apply H. now right.
Qed.
Lemma filter_idem {A} (f : A -> bool) l : filter f (filter f l) = filter f l.
Proof. induction l as [|x l IH]; [reflexivity|]. cbn. destruct (f x) eqn:E; cbn; [rewrite E|]; now rewrite IH. Qed.
Lemma find_app_first {A} (f : A -> bool) a b x : In x a -> f x = true -> exists y, find f (a ++ b) = Some y /\ In y a /\ f y = true.
Proof.
  induction a as [|z a IH]; [intros []|]. intros Hin Hx. cbn. destruct (f z) eqn:E.
  - exists z. repeat split; [now left|exact E].
  - destruct Hin as [->|Hin]; [congruence|]. destruct (IH Hin Hx) as (y & H1 & H2 & H3). exists y. repeat split; [exact H1|now right|exact H3].
Qed.

Lemma nodupb_find_file lv l :
  nodupb String.eqb (map l_file lv) = true -> In l lv -> find (fun l' => String.eqb (l_file l') (l_file l)) lv = Some l.
Proof.
  induction lv as [|x lv IH]; [intros _ []|]. cbn [map nodupb find]. intros H Hin. apply andb_true_iff in H as [H1 H2].
  destruct Hin as [->|Hin]; [now rewrite String.eqb_refl|].
  destruct (String.eqb (l_file x) (l_file l)) eqn:E; [|now apply IH].
  exfalso. apply negb_true_iff in H1. apply String.eqb_eq in E.
  assert (existsb (String.eqb (l_file x)) (map l_file lv) = true) as C; [|congruence].
  apply existsb_exists. exists (l_file l). split; [now apply in_map|]. now apply String.eqb_eq.
Qed.

Section Proofs.
  Variable method_src : string -> string -> string -> string.
  Variable access_src struct_src : string -> string.
  Variable stub_body default_doc : string -> string -> string.

  Notation gm := (gen_method method_src stub_body default_doc).
  Notation rf := (regen_file method_src access_src struct_src stub_body default_doc copied).
  Notation rg := (regen method_src access_src struct_src stub_body default_doc copied).

  Lemma doc_or_default_idem r n s :
    doc_or_default default_doc r n (doc_or_default default_doc r n s) = doc_or_default default_doc r n s.
  Proof.
    unfold doc_or_default. destruct (String.eqb s "") eqn:E.
    - destruct (String.eqb (default_doc r n) "") eqn:E2; reflexivity.
    - now rewrite E.
  Qed.

  Lemma gen_method_kind before m : d_kind (gm before m) = KMethod (fst m) (snd m).
  Proof. unfold gen_method. destruct (prev_decl before (fst m) (snd m)); reflexivity. Qed.

  Lemma is_method_gen before m : is_method (fst m) (snd m) (gm before m) = true.
  Proof. unfold is_method. rewrite gen_method_kind. now rewrite !String.eqb_refl. Qed.

  (** every resolver method of the regenerated files with that receiver and name is the one just generated *)
  Lemma live_decl_is_method lv before l d r n :
    In d (f_decls (rf lv before l)) -> is_method r n d = true -> String.eqb r "Resolver" = false -> d = gm before (r, n).
  Proof.
    cbn [regen_file f_decls]. intros Hin Hm Hr. apply in_app_or in Hin as [Hin|Hin].
    { destruct (l_root l); [|destruct Hin]. destruct Hin as [<-|[]]. discriminate Hm. }
    apply in_app_or in Hin as [Hin|Hin].
    { apply in_map_iff in Hin as (m & <- & _). unfold is_method in Hm. rewrite gen_method_kind in Hm.
      apply andb_true_iff in Hm as [H1 H2]. apply String.eqb_eq in H1, H2. destruct m as [a b]. cbn in H1, H2. now subst. }
    apply in_app_or in Hin as [Hin|Hin].
    { apply in_map_iff in Hin as (a & <- & _). unfold is_method in Hm. cbn [d_kind gen_access] in Hm.
      apply andb_true_iff in Hm as [H1 _]. apply String.eqb_eq in H1. subst r. rewrite String.eqb_refl in Hr. discriminate. }
    apply in_map_iff in Hin as (s & <- & _). discriminate Hm.
  Qed.

  Lemma prev_decl_regen lv before l m :
    In l lv -> In m (l_methods l) -> String.eqb (fst m) "Resolver" = false ->
    prev_decl (rg lv before) (fst m) (snd m) = Some (gm before m).
  Proof.
    intros Hl Hm Hr. unfold prev_decl, regen. rewrite flat_map_app.
    destruct (find_app_first (is_method (fst m) (snd m)) (flat_map f_decls (map (rf lv before) lv))
                (flat_map f_decls (stale lv before)) (gm before m)) as (y & Hf & Hy & Hp).
    - apply in_flat_map. exists (rf lv before l). split; [now apply in_map|].
      cbn [regen_file f_decls]. apply in_or_app. right. apply in_or_app. left. now apply in_map.
    - apply is_method_gen.
    - rewrite Hf. f_equal. apply in_flat_map in Hy as (f & Hf1 & Hf2). apply in_map_iff in Hf1 as (l' & <- & _).
      rewrite (live_decl_is_method _ _ _ _ _ _ Hf2 Hp Hr). now destruct m.
  Qed.

  Lemma gen_method_stable lv before l m :
    In l lv -> In m (l_methods l) -> String.eqb (fst m) "Resolver" = false -> gm (rg lv before) m = gm before m.
  Proof.
    intros Hl Hm Hr. unfold gen_method at 1. rewrite (prev_decl_regen _ _ _ _ Hl Hm Hr).
    unfold gen_method. destruct (prev_decl before (fst m) (snd m)) as [p|]; cbn [d_doc d_body]; now rewrite doc_or_default_idem.
  Qed.

  (** nothing of a regenerated file is left over at the next run *)
  Lemma regen_file_all_copied lv before l d : In l lv -> In d (f_decls (rf lv before l)) -> copied lv d = true.
  Proof.
    intros Hl. cbn [regen_file f_decls]. intros Hin. apply in_app_or in Hin as [Hin|Hin].
    { destruct (l_root l) eqn:R; [|destruct Hin]. destruct Hin as [<-|[]]. unfold copied. cbn [d_kind root_decl d_src d_rawdoc].
      replace (existsb l_root lv) with true; [now rewrite orb_true_r|]. symmetry. apply existsb_exists. now exists l. }
    apply in_app_or in Hin as [Hin|Hin].
    { apply in_map_iff in Hin as (m & <- & Hm). unfold copied. rewrite gen_method_kind. apply orb_true_iff. left.
      apply existsb_exists. exists l. split; [exact Hl|]. apply existsb_exists. exists m. split; [exact Hm|]. now rewrite !String.eqb_refl. }
    apply in_app_or in Hin as [Hin|Hin].
    { apply in_map_iff in Hin as (a & <- & Ha). unfold copied. cbn [d_kind gen_access]. apply orb_true_iff. right.
      apply andb_true_iff. split; [reflexivity|]. apply existsb_exists. exists l. split; [exact Hl|]. apply existsb_exists. exists a. split; [exact Ha|apply String.eqb_refl]. }
    apply in_map_iff in Hin as (s & <- & Hs). unfold copied. cbn [d_kind gen_struct]. apply orb_true_iff. left.
    apply existsb_exists. exists l. split; [exact Hl|]. apply existsb_exists. exists s. split; [exact Hs|apply String.eqb_refl].
  Qed.

  Lemma regen_file_no_leftover lv before l : In l lv -> left_over_with copied lv (rf lv before l) = [].
  Proof.
    intros Hl. unfold left_over_with. apply filter_nil. intros d Hd. now rewrite (regen_file_all_copied _ _ _ _ Hl Hd).
  Qed.

  Lemma find_file_regen lv before l :
    nodupb String.eqb (map l_file lv) = true -> In l lv -> find_file (rg lv before) (l_file l) = Some (rf lv before l).
  Proof.
    intros Hn Hl. unfold find_file, regen.
    destruct (find_app_first (fun f => String.eqb (f_name f) (l_file l)) (map (rf lv before) lv) (stale lv before) (rf lv before l))
      as (y & Hf & Hy & Hp); [now apply in_map|apply String.eqb_refl|].
    rewrite Hf. f_equal. apply in_map_iff in Hy as (l' & <- & Hl'). cbn [regen_file f_name] in Hp. apply String.eqb_eq in Hp.
    assert (l' = l) as ->; [|reflexivity].
    pose proof (nodupb_find_file lv l Hn Hl) as F1. pose proof (nodupb_find_file lv l' Hn Hl') as F2.
    rewrite Hp in F2. congruence.
  Qed.

  Lemma stale_regen lv before : stale lv (rg lv before) = stale lv before.
  Proof.
    unfold stale at 1, regen. rewrite filter_app. rewrite (filter_nil _ (map (rf lv before) lv)).
    - cbn [app]. unfold stale. apply filter_idem.
    - intros f Hf. apply in_map_iff in Hf as (l & <- & Hl). cbn [regen_file f_name]. apply negb_false_iff.
      apply existsb_exists. exists l. split; [exact Hl|apply String.eqb_refl].
  Qed.

  (** a second run over the output of a run: the same declarations and imports, the warning block gone, the
      files the generator does not write untouched *)
  Theorem regen_twice_lemma lv before :
    wf_live lv = true ->
    rg lv (rg lv before) = map clear_remaining (map (rf lv before) lv) ++ stale lv before.
  Proof.
    intros W. apply andb_true_iff in W as [W W3]. apply andb_true_iff in W as [W1 W2].
    unfold regen at 1. rewrite stale_regen. f_equal. rewrite map_map. apply map_ext_in. intros l Hl.
    unfold regen_file at 1. rewrite (find_file_regen _ _ _ W1 Hl). rewrite (regen_file_no_leftover _ _ _ Hl).
    unfold clear_remaining. cbn [regen_file f_name f_imports f_decls]. f_equal. f_equal. f_equal.
    apply map_ext_in. intros m Hm. apply (gen_method_stable _ _ _ _ Hl Hm).
    rewrite forallb_forall in W3. apply negb_true_iff. apply W3. apply in_flat_map. now exists l.
  Qed.

  Lemma clear_remaining_idem f : clear_remaining (clear_remaining f) = clear_remaining f.
  Proof. reflexivity. Qed.

  Lemma stale_no_live lv before l : In l lv -> find_file (stale lv before) (l_file l) = None.
  Proof.
    intros Hl. unfold find_file, stale. destruct (find _ (filter _ before)) as [f|] eqn:E; [|reflexivity].
    apply find_some in E as [E1 E2]. apply filter_In in E1 as [_ E1]. apply String.eqb_eq in E2. exfalso.
    apply negb_true_iff in E1. rewrite E2 in E1.
    assert (is_live_file lv (l_file l) = true) as C; [|congruence]. apply existsb_exists. exists l. split; [exact Hl|apply String.eqb_refl].
  Qed.

  (** from the second run on nothing changes any more *)
  Theorem regen_fixpoint_lemma lv before :
    wf_live lv = true -> rg lv (rg lv (rg lv before)) = rg lv (rg lv before).
  Proof.
    intros W. rewrite (regen_twice_lemma lv (rg lv before) W). rewrite (regen_twice_lemma lv before W).
    rewrite stale_regen. f_equal. rewrite !map_map. apply map_ext_in. intros l Hl.
    apply andb_true_iff in W as [W W3]. apply andb_true_iff in W as [W1 W2].
    unfold regen_file at 1. rewrite (find_file_regen _ _ _ W1 Hl). rewrite (regen_file_no_leftover _ _ _ Hl).
    unfold clear_remaining. cbn [regen_file f_name f_imports f_decls]. f_equal. f_equal. f_equal.
    apply map_ext_in. intros m Hm. apply (gen_method_stable _ _ _ _ Hl Hm).
    rewrite forallb_forall in W3. apply negb_true_iff. apply W3. apply in_flat_map. now exists l.
  Qed.

  (** a freshly generated tree (no resolver files before) is a fixpoint at once *)
  Theorem regen_fresh_fixpoint_lemma lv : wf_live lv = true -> rg lv (rg lv []) = rg lv [].
  Proof.
    intros W. rewrite (regen_twice_lemma lv [] W). unfold regen. cbn [stale filter]. f_equal. rewrite map_map. apply map_ext. intros l.
    reflexivity.
  Qed.

  (** bodies and doc texts of the resolvers the schema calls for, after any number of further runs *)
  Theorem body_kept_forever_lemma lv before k l m :
    wf_live lv = true -> In l lv -> In m (l_methods l) ->
    prev_decl (regen_n method_src access_src struct_src stub_body default_doc copied (S k) lv before) (fst m) (snd m) = Some (gm before m).
  Proof.
    intros W Hl Hm. assert (String.eqb (fst m) "Resolver" = false) as Hr.
    { apply andb_true_iff in W as [_ W3]. rewrite forallb_forall in W3. apply negb_true_iff. apply W3. apply in_flat_map. now exists l. }
    induction k as [|k IH]; cbn [regen_n].
    - now apply prev_decl_regen with (l := l).
    - rewrite (prev_decl_regen _ _ _ _ Hl Hm Hr). f_equal. cbn [regen_n] in IH.
      unfold gen_method at 1. rewrite IH. unfold gen_method.
      destruct (prev_decl before (fst m) (snd m)) as [p|]; cbn [d_doc d_body]; now rewrite doc_or_default_idem.
  Qed.

  (** in the user's terms: the body as written, and the doc text when there is one *)
  Theorem user_body_survives_lemma lv before k l m p :
    wf_live lv = true -> In l lv -> In m (l_methods l) -> prev_decl before (fst m) (snd m) = Some p ->
    let after := regen_n method_src access_src struct_src stub_body default_doc copied (S k) lv before in
    option_map d_body (prev_decl after (fst m) (snd m)) = Some (d_body p) /\
    option_map d_results (prev_decl after (fst m) (snd m)) = Some (d_results p) /\
    (String.eqb (d_doc p) "" = false -> option_map d_doc (prev_decl after (fst m) (snd m)) = Some (d_doc p)).
  Proof.
    intros W Hl Hm Hp after. subst after. rewrite (body_kept_forever_lemma lv before k l m W Hl Hm).
    unfold gen_method. rewrite Hp. cbn [option_map d_body d_doc d_results]. split; [reflexivity|]. split; [reflexivity|].
    intros Hd. unfold doc_or_default. now rewrite Hd.
  Qed.
End Proofs.
