(** C05 / C12: the multipart/mixed lock discipline as written - over every interleaving of the handler and the
    ticker the response writer is used by one goroutine at a time, every response is written exactly once and in
    order, nothing uses the response writer after the handler returned, and neither goroutine is ever stuck; the
    slip that unlocks before the network flush is refuted. *)
From GV Require Import Base.Prelude Model.MpLock Proofs.MpLockInv.
Open Scope nat_scope.
Open Scope list_scope.

Theorem mprun_inv rs tr : forall s s', mpinv rs s -> mprun true s tr = Some s' -> mpinv rs s'.
Proof.
  induction tr as [|l tr IH]; intros s s' I; cbn [mprun]; [intros E; now inversion E; subst|].
  destruct (mpstep true s l) as [s1|] eqn:E; [|discriminate]. apply IH. exact (mpstep_inv _ _ _ _ I E).
Qed.

(** one goroutine at a time uses the response writer; nothing begins to use it after the handler returned *)
Theorem mp_exclusive_lemma rs o tr s :
  mprun true (mpinit_open rs o) tr = Some s -> both_using s = false /\ m_late s = 0.
Proof.
  intros R. destruct (mprun_inv rs tr _ _ (mpinv_init_open rs o) R) as [Ah Ak Bh Bk Cd Dh Eo Gt Hl It [Jh Jk] Kd].
  split; [|exact Hl]. unfold both_using. rewrite Bh, Bk. unfold hflush, hlock, kflush, hdone in *.
  destruct (m_k s); cbn; rewrite ?andb_false_r; try reflexivity.
  destruct (m_h s) eqn:H; cbn; try reflexivity.
  - destruct (m_hf s) eqn:Hf, (m_kf s) eqn:Kf; cbn in *; try reflexivity; destruct (m_holder s) as [[|]|]; discriminate.
  - destruct (m_hf s) eqn:Hf, (m_kf s) eqn:Kf; cbn in *; try reflexivity; destruct (m_holder s) as [[|]|]; discriminate.
  - destruct (Cd eq_refl) as (_ & _ & U). cbn in U. now rewrite U.
Qed.

(** every response is written exactly once, in order: what is on the wire followed by what is pending is what was
    handed to the aggregator; once the handler has returned everything the operation produced is on the wire *)
Theorem mp_once_in_order_lemma rs o tr s :
  mprun true (mpinit_open rs o) tr = Some s ->
  written s ++ m_pending s ++ m_todo s = rs /\ (returned s = true -> written s = rs).
Proof.
  intros R. destruct (mprun_inv rs tr _ _ (mpinv_init_open rs o) R) as [Ah Ak Bh Bk Cd Dh Eo Gt Hl It [Jh Jk] Kd].
  split.
  - now rewrite app_assoc, Eo.
  - unfold returned, hdone, adding in *. destruct (m_h s); try discriminate. intros _.
    destruct (Cd eq_refl) as (P & _). specialize (It eq_refl).
    destruct (m_pending s); [|discriminate]. destruct (m_todo s); [|discriminate]. rewrite app_nil_r in *. congruence.
Qed.

(** no deadlock: until the handler has returned and the ticker has ended some goroutine can step; the handler is
    blocked only while the ticker is inside a flush, which the ticker can continue; a ticker that is between flushes
    can see the signal as soon as it is sent *)
Theorem mp_progress_lemma rs o tr s :
  mprun true (mpinit_open rs o) tr = Some s ->
  (returned s = false -> mpstep true s MLHandler <> None \/ mpstep true s MLTicker <> None) /\
  (m_k s = MKFlush -> mpstep true s MLTicker <> None \/ mpstep true s MLHandler <> None) /\
  (m_k s = MKSelect -> m_done s = true -> mpstep true s MLSeeDone <> None).
Proof.
  intros R. destruct (mprun_inv rs tr _ _ (mpinv_init_open rs o) R) as [Ah Ak Bh Bk Cd Dh Eo Gt Hl It [Jh Jk] Kd].
  destruct s as [todo h hf k kf holder pending added out done uh uk late opn].
  unfold hflush, hlock, kflush, hdone, adding, returned in *. flds.
  repeat split.
  - intros Hr. destruct h; cbn [mpstep m_h m_todo m_holder m_hf m_k m_kf m_open]; try (left; discriminate).
    + destruct todo; [left; discriminate|]. destruct holder as [[|]|]; [cbn in Ah; discriminate| |left; discriminate].
      right. destruct k; cbn in Ak; try discriminate. destruct kf; cbn in Ak, Jk |- *; try discriminate; destruct pending; discriminate.
    + destruct hf; cbn in Jh |- *; try discriminate; try (left; destruct pending; discriminate).
      destruct holder as [[|]|]; [cbn in Ah; discriminate| |left; discriminate].
      right. destruct k; cbn in Ak; try discriminate. destruct kf; cbn in Ak, Jk |- *; try discriminate; destruct pending; discriminate.
    + destruct hf; cbn in Jh |- *; try discriminate; try (left; destruct opn; discriminate).
      destruct holder as [[|]|]; [cbn in Ah; discriminate| |left; discriminate].
      right. destruct k; cbn in Ak; try discriminate. destruct kf; cbn in Ak, Jk |- *; try discriminate; destruct pending; discriminate.
  - intros ->. cbn [mpstep m_k m_kf]. destruct kf; cbn in Jk |- *; try discriminate; try (left; destruct pending; discriminate).
    destruct holder as [[|]|]; [|cbn in Ak; discriminate|left; discriminate].
    right. destruct h; cbn in Ah; try discriminate; destruct hf; cbn in Ah, Jh |- *; try discriminate; try (destruct pending; discriminate); destruct opn; discriminate.
  - intros -> ->. cbn. discriminate.
Qed.

(** the slip: the mutex is released before the network flush - the ticker is still inside Flush() when the handler's
    final flush starts writing *)
Theorem mp_unlock_before_flush_witness :
  exists s, mprun false (mpinit [1; 2]) [MLHandler; MLTick; MLTicker; MLTicker; MLTicker; MLTicker; MLHandler; MLHandler; MLHandler; MLHandler; MLTicker] = Some s /\
            both_using s = true.
Proof. eexists. split; [vm_compute; reflexivity|reflexivity]. Qed.

(** non-vacuity: three responses, the ticker flushing in between, both goroutines run to their end *)
Example mp_sample_runs :
  exists s, mprun true (mpinit [1; 2; 3])
              [MLHandler; MLTick; MLTicker; MLTicker; MLTicker; MLTicker; MLTicker; MLTicker; MLTicker; MLHandler; MLHandler; MLHandler;
               MLHandler; MLHandler; MLHandler; MLHandler; MLHandler; MLHandler; MLHandler; MLHandler; MLHandler; MLHandler; MLHandler; MLHandler; MLTick; MLTicker; MLTicker; MLTicker; MLSeeDone] = Some s /\
            returned s = true /\ m_k s = MKEnd /\ m_out s = [(MK, [1]); (MH, [2; 3])].
Proof. eexists. split; [vm_compute; reflexivity|repeat split; reflexivity]. Qed.
