From GV Require Import Base.Prelude Base.Utf8.
Ltac Zify.zify_post_hook ::= Z.div_mod_to_equations.
Open Scope N_scope.

Ltac bool_hyps :=
  repeat match goal with
         | H : (_ && _)%bool = true |- _ => apply andb_prop in H; destruct H
         end.

Lemma decode1_raw s c rest : decode1 s = Some (c, rest) -> s = chunk_raw c ++ rest.
Proof.
  unfold decode1. destruct s as [|b0 r0]; [discriminate|].
  destruct (b0 <? 0x80); [intros H; inversion H; reflexivity|].
  destruct ((0xC2 <=? b0) && (b0 <=? 0xDF))%bool.
  { destruct r0 as [|b1 r1]; [intros H; inversion H; reflexivity|].
    destruct (cont b1); intros H; inversion H; reflexivity. }
  destruct ((0xE0 <=? b0) && (b0 <=? 0xEF))%bool.
  { destruct r0 as [|b1 [|b2 r2]]; try (intros H; inversion H; reflexivity).
    cbv zeta. match goal with |- (if ?c then _ else _) = _ -> _ => destruct c end; intros H; inversion H; reflexivity. }
  destruct ((0xF0 <=? b0) && (b0 <=? 0xF4))%bool.
  { destruct r0 as [|b1 [|b2 [|b3 r3]]]; try (intros H; inversion H; reflexivity).
    cbv zeta. match goal with |- (if ?c then _ else _) = _ -> _ => destruct c end; intros H; inversion H; reflexivity. }
  intros H; inversion H; reflexivity.
Qed.

Lemma chunk_raw_nonempty c : (1 <= List.length (chunk_raw c))%nat \/ exists cp, c = CMulti cp [].
Proof. destruct c as [b|cp raw|b]; cbn; try (left; lia). destruct raw; [right; eexists; reflexivity | left; cbn; lia]. Qed.

Lemma decode1_shorter s c rest : decode1 s = Some (c, rest) -> (List.length rest < List.length s)%nat.
Proof.
  intros H. pose proof (decode1_raw _ _ _ H) as E. subst s. rewrite app_length.
  destruct c as [b|cp raw|b]; cbn [chunk_raw List.length]; try lia.
  (* a CMulti produced by decode1 has 2..4 raw bytes *)
  unfold decode1 in H. destruct (chunk_raw (CMulti cp raw) ++ rest) as [|b0 r0] eqn:E0; [discriminate|].
  destruct raw; [|cbn [List.length]; lia]. exfalso.
  destruct (b0 <? 0x80); [discriminate|].
  destruct ((0xC2 <=? b0) && (b0 <=? 0xDF))%bool.
  { destruct r0 as [|b1 r1]; [discriminate|]. destruct (cont b1); discriminate. }
  destruct ((0xE0 <=? b0) && (b0 <=? 0xEF))%bool.
  { destruct r0 as [|b1 [|b2 r2]]; try discriminate. cbv zeta in H.
    match type of H with (if ?c then _ else _) = _ => destruct c end; discriminate. }
  destruct ((0xF0 <=? b0) && (b0 <=? 0xF4))%bool.
  { destruct r0 as [|b1 [|b2 [|b3 r3]]]; try discriminate. cbv zeta in H.
    match type of H with (if ?c then _ else _) = _ => destruct c end; discriminate. }
  discriminate.
Qed.

Lemma decode1_ascii s b rest : decode1 s = Some (CAscii b, rest) -> b < 0x80.
Proof.
  unfold decode1. destruct s as [|b0 r0]; [discriminate|].
  destruct (b0 <? 0x80) eqn:E; [intros H; inversion H; subst; lia|].
  destruct ((0xC2 <=? b0) && (b0 <=? 0xDF))%bool.
  { destruct r0 as [|b1 r1]; [discriminate|]. destruct (cont b1); discriminate. }
  destruct ((0xE0 <=? b0) && (b0 <=? 0xEF))%bool.
  { destruct r0 as [|b1 [|b2 r2]]; try discriminate. cbv zeta.
    match goal with |- (if ?c then _ else _) = _ -> _ => destruct c end; discriminate. }
  destruct ((0xF0 <=? b0) && (b0 <=? 0xF4))%bool.
  { destruct r0 as [|b1 [|b2 [|b3 r3]]]; try discriminate. cbv zeta.
    match goal with |- (if ?c then _ else _) = _ -> _ => destruct c end; discriminate. }
  discriminate.
Qed.

(** A multi-byte chunk accepted by Go's decoder is exactly the RFC 3629 encoding of its code point. *)
Lemma decode1_multi s cp raw rest :
  decode1 s = Some (CMulti cp raw, rest) -> utf8_encode cp = Some raw /\ 0x80 <= cp.
Proof.
  unfold decode1. destruct s as [|b0 r0]; [discriminate|].
  destruct (b0 <? 0x80) eqn:E0; [discriminate|].
  destruct ((0xC2 <=? b0) && (b0 <=? 0xDF))%bool eqn:E2.
  { destruct r0 as [|b1 r1]; [discriminate|]. unfold cont. destruct ((0x80 <=? b1) && (b1 <=? 0xBF))%bool eqn:Ec; [|discriminate].
    intros H; inversion H; subst; clear H. bool_hyps. unfold utf8_encode.
    destruct ((b0 - 192) * 64 + (b1 - 128) <? 128) eqn:F1; [lia|].
    destruct ((b0 - 192) * 64 + (b1 - 128) <? 2048) eqn:F2; [|lia].
    split; [|lia]. f_equal. f_equal; [lia|]. f_equal. lia. }
  destruct ((0xE0 <=? b0) && (b0 <=? 0xEF))%bool eqn:E3.
  { destruct r0 as [|b1 [|b2 r2]]; try discriminate. cbv zeta. unfold cont.
    match goal with |- (if ?c then _ else _) = _ -> _ => destruct c eqn:Ec end; [|discriminate].
    intros H; inversion H; subst; clear H. bool_hyps. unfold utf8_encode.
    set (cp := (b0 - 224) * 4096 + (b1 - 128) * 64 + (b2 - 128)).
    assert (Hb1 : (if b0 =? 224 then 160 else 128) <= b1) by lia.
    assert (Hb1' : b1 <= (if b0 =? 237 then 159 else 191)) by lia.
    destruct (b0 =? 224) eqn:G1; destruct (b0 =? 237) eqn:G2; try lia;
    (destruct (cp <? 128) eqn:F1; [unfold cp in *; lia|];
     destruct (cp <? 2048) eqn:F2; [unfold cp in *; lia|];
     destruct (cp <? 65536) eqn:F3; [|unfold cp in *; lia];
     destruct ((55296 <=? cp) && (cp <=? 57343))%bool eqn:F4; [unfold cp in *; lia|];
     split; [|unfold cp; lia]; unfold cp; f_equal; f_equal; [lia|]; f_equal; [lia|]; f_equal; lia). }
  destruct ((0xF0 <=? b0) && (b0 <=? 0xF4))%bool eqn:E4.
  { destruct r0 as [|b1 [|b2 [|b3 r3]]]; try discriminate. cbv zeta. unfold cont.
    match goal with |- (if ?c then _ else _) = _ -> _ => destruct c eqn:Ec end; [|discriminate].
    intros H; inversion H; subst; clear H. bool_hyps. unfold utf8_encode.
    set (cp := (b0 - 240) * 262144 + (b1 - 128) * 4096 + (b2 - 128) * 64 + (b3 - 128)).
    assert (Hb1 : (if b0 =? 240 then 144 else 128) <= b1) by lia.
    assert (Hb1' : b1 <= (if b0 =? 244 then 143 else 191)) by lia.
    destruct (b0 =? 240) eqn:G1; destruct (b0 =? 244) eqn:G2; try lia;
    (destruct (cp <? 128) eqn:F1; [unfold cp in *; lia|];
     destruct (cp <? 2048) eqn:F2; [unfold cp in *; lia|];
     destruct (cp <? 65536) eqn:F3; [unfold cp in *; lia|];
     destruct (cp <? 1114112) eqn:F4; [|unfold cp in *; lia];
     split; [|unfold cp; lia]; unfold cp; f_equal; f_equal; [lia|]; f_equal; [lia|]; f_equal; [lia|]; f_equal; lia). }
  discriminate.
Qed.

(** Unfolding of [chunks] along [decode1]. *)
Lemma chunks_fuel_enough fuel s : (List.length s <= fuel)%nat -> chunks_fuel fuel s = chunks s.
Proof.
  unfold chunks. remember (List.length s) as n eqn:En.
  revert s fuel En. induction n as [n IH] using lt_wf_ind. intros s fuel En Hf.
  destruct fuel as [|f].
  - assert (n = 0)%nat by lia. subst n. symmetry in H. destruct s; [reflexivity|discriminate].
  - destruct n as [|n'].
    + destruct s; [|discriminate]. reflexivity.
    + cbn [chunks_fuel]. destruct (decode1 s) as [[c rest]|] eqn:Ed; [|reflexivity].
      pose proof (decode1_shorter _ _ _ Ed) as Hs. f_equal.
      rewrite (IH (List.length rest) ltac:(lia) rest f eq_refl ltac:(lia)).
      rewrite (IH (List.length rest) ltac:(lia) rest n' eq_refl ltac:(lia)). reflexivity.
Qed.

Lemma chunks_unfold s : chunks s = match decode1 s with None => [] | Some (c, rest) => c :: chunks rest end.
Proof.
  unfold chunks at 1. destruct s as [|b r] eqn:Es; [reflexivity|]. rewrite <- Es.
  replace (List.length s) with (S (List.length r)) by (subst s; reflexivity).
  cbn [chunks_fuel]. destruct (decode1 s) as [[c rest]|] eqn:Ed; [|reflexivity].
  f_equal. apply chunks_fuel_enough. pose proof (decode1_shorter _ _ _ Ed). subst s. cbn [List.length] in *. lia.
Qed.

(** Induction principle following Go's range loop. *)
Lemma chunks_ind (P : bytes -> Prop) :
  P [] ->
  (forall s c rest, decode1 s = Some (c, rest) -> P rest -> P s) ->
  forall s, P s.
Proof.
  intros H0 Hs s. remember (List.length s) as n eqn:En. revert s En.
  induction n as [n IH] using lt_wf_ind. intros s En.
  destruct (decode1 s) as [[c rest]|] eqn:Ed.
  - apply (Hs s c rest Ed). apply (IH (List.length rest)); [|reflexivity].
    pose proof (decode1_shorter _ _ _ Ed). lia.
  - destruct s; [exact H0|]. unfold decode1 in Ed.
    repeat match type of Ed with
           | (if ?c then _ else _) = None => destruct c
           | match ?l with _ => _ end = None => destruct l
           end; try discriminate.
Qed.

(** The sanitised string is the original when nothing offends, and is always the encoding of the runes. *)
Lemma ascii_encode b : b < 0x80 -> utf8_encode b = Some [b].
Proof. intros H. unfold utf8_encode. destruct (b <? 128) eqn:E; [reflexivity|lia]. Qed.

Lemma rune_error_encode : utf8_encode rune_error = Some [0xEF; 0xBF; 0xBD].
Proof. vm_compute. reflexivity. Qed.

Lemma sanitize_encodes s : encodes (runes s) (sanitize s).
Proof.
  unfold runes, sanitize. induction s as [|s c rest Ed IH] using chunks_ind.
  - rewrite chunks_unfold. cbn. constructor.
  - rewrite chunks_unfold, Ed. cbn [map flat_map].
    destruct c as [b|cp raw|b]; cbn [chunk_rune chunk_sane].
    + change [b] with ([b] ++ []) at 1. rewrite <- app_assoc. cbn [app].
      change (b :: flat_map chunk_sane (chunks rest)) with ([b] ++ flat_map chunk_sane (chunks rest)).
      constructor; [apply ascii_encode; eapply decode1_ascii; exact Ed | exact IH].
    + constructor; [apply (decode1_multi _ _ _ _ Ed) | exact IH].
    + constructor; [apply rune_error_encode | exact IH].
Qed.

Lemma sanitize_valid_id s : valid_utf8_input s = true -> sanitize s = s.
Proof.
  unfold valid_utf8_input, sanitize. induction s as [|s c rest Ed IH] using chunks_ind.
  - reflexivity.
  - rewrite chunks_unfold, Ed. cbn [forallb flat_map]. intros H. apply andb_prop in H. destruct H as [Hc Hr].
    rewrite (IH Hr). rewrite (decode1_raw _ _ _ Ed) at 1.
    destruct c; cbn in Hc; [reflexivity|reflexivity|discriminate].
Qed.
