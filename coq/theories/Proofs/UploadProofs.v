From GV Require Import Base.Prelude Model.Upload.
Open Scope string_scope.
Open Scope list_scope.

(** The repaired walker never panics, for every value, path and upload. *)
Lemma walk_total path : forall v u p, walk true v path u <> Panic p.
Proof.
  induction path as [|s rest IH]; intros v u p; cbn [walk]; [discriminate|].
  destruct v as [|id|u0|l|m]; try discriminate.
  - destruct s as [t i|k]; [|discriminate].
    destruct (in_range l i); [|discriminate].
    destruct rest as [|s2 rest2]; [discriminate|].
    destruct (walk true (nth (Z.to_nat i) l JVNil) (s2 :: rest2) u) as [v'|e|p'] eqn:E; try discriminate.
    exfalso. exact (IH _ _ _ E).
  - assert (H : forall key, match rest with
                            | [] => Ok (JVMap (map_set m key (JVUpload u)))
                            | _ :: _ => match walk true (map_get m key) rest u with
                                        | Ok v' => Ok (JVMap (map_set m key v'))
                                        | Err e => Err e
                                        | Panic p0 => Panic p0
                                        end
                            end <> Panic p).
    { intros key. destruct rest as [|s2 rest2]; [discriminate|].
      destruct (walk true (map_get m key) (s2 :: rest2) u) as [v'|e|p'] eqn:E; try discriminate.
      exfalso. exact (IH _ _ _ E). }
    destruct s; apply H.
Qed.

Theorem add_upload_total_lemma hp vs path u p : add_upload true hp vs path u <> Panic p.
Proof.
  unfold add_upload. destruct (negb hp); [discriminate|].
  destruct vs as [|m]; destruct path as [|s rest]; try discriminate.
  - destruct s; destruct rest; discriminate.
  - destruct (walk true (JVMap m) (s :: rest) u) as [v'|e|p'] eqn:E; try discriminate.
    + destruct v'; discriminate.
    + exfalso. exact (walk_total _ _ _ _ E).
Qed.

(** Reading a position back. *)
Fixpoint get (v : jv) (q : list seg) {struct q} : jv :=
  match q with
  | [] => v
  | s :: r =>
      match v with
      | JVList l => match s with
                    | SegIdx _ i => if in_range l i then get (nth (Z.to_nat i) l JVNil) r else JVNil
                    | SegKey _ => JVNil
                    end
      | JVMap m => get (map_get m (seg_text s)) r
      | _ => JVNil
      end
  end.

Lemma map_get_set_same m k v : map_get (map_set m k v) k = v.
Proof.
  induction m as [|[k' v'] r IH]; cbn [map_set map_get].
  - rewrite String.eqb_refl. reflexivity.
  - destruct (String.eqb k k') eqn:E; cbn [map_get]; [rewrite String.eqb_refl; reflexivity | rewrite E; exact IH].
Qed.

Lemma map_get_set_other m k k2 v : k2 <> k -> map_get (map_set m k v) k2 = map_get m k2.
Proof.
  intros Hne. induction m as [|[k' v'] r IH]; cbn [map_set map_get].
  - apply String.eqb_neq in Hne. rewrite Hne. reflexivity.
  - destruct (String.eqb k k') eqn:E; cbn [map_get].
    + apply String.eqb_eq in E. subst k'. apply String.eqb_neq in Hne. rewrite Hne. reflexivity.
    + destruct (String.eqb k2 k'); [reflexivity | exact IH].
Qed.

Lemma list_set_length l : forall i v, List.length (list_set l i v) = List.length l.
Proof. induction l as [|x r IH]; intros [|j] v; cbn [list_set List.length]; try reflexivity; rewrite IH; reflexivity. Qed.

Lemma nth_list_set_same l : forall i v, (i < List.length l)%nat -> nth i (list_set l i v) JVNil = v.
Proof.
  induction l as [|x r IH]; intros [|j] v Hl; cbn [list_set nth List.length] in *; try lia; [reflexivity|].
  apply IH. lia.
Qed.

Lemma nth_list_set_other l : forall i j v, i <> j -> nth j (list_set l i v) JVNil = nth j l JVNil.
Proof.
  induction l as [|x r IH]; intros [|i] [|j] v Hne; cbn [list_set nth]; try reflexivity; try contradiction.
  apply IH. congruence.
Qed.

Lemma in_range_set l i j v : in_range (list_set l i v) j = in_range l j.
Proof. unfold in_range. rewrite list_set_length. reflexivity. Qed.

(** On success the addressed position holds the upload (every mapped path receives the file). *)
Lemma walk_delivers path : forall v u v', path <> [] -> walk true v path u = Ok v' -> get v' path = JVUpload u.
Proof.
  induction path as [|s rest IH]; intros v u v' Hne; [contradiction|]. cbn [walk].
  destruct v as [|id|u0|l|m]; try discriminate.
  - destruct s as [t i|k]; [|discriminate].
    destruct (in_range l i) eqn:Er; [|discriminate].
    assert (Hi : (Z.to_nat i < List.length l)%nat) by (unfold in_range in Er; lia).
    destruct rest as [|s2 rest2].
    + intros H; injection H as H; subst v'. cbn [get]. rewrite in_range_set, Er. apply nth_list_set_same. exact Hi.
    + destruct (walk true (nth (Z.to_nat i) l JVNil) (s2 :: rest2) u) as [v2|e|p'] eqn:E; try discriminate.
      intros H; injection H as H; subst v'. cbn [get]. rewrite in_range_set, Er.
      rewrite nth_list_set_same by exact Hi. apply (IH _ _ _ ltac:(discriminate) E).
  - assert (Hm : forall key,
              match rest with
              | [] => Ok (JVMap (map_set m key (JVUpload u)))
              | _ :: _ => match walk true (map_get m key) rest u with
                          | Ok v' => Ok (JVMap (map_set m key v'))
                          | Err e => Err e
                          | Panic p0 => Panic p0
                          end
              end = Ok v' -> get (map_get match v' with JVMap m' => m' | _ => [] end key) rest = JVUpload u /\ exists m', v' = JVMap m').
    { intros key. destruct rest as [|s2 rest2].
      - intros H; injection H as H; subst v'. split; [|eexists; reflexivity]. rewrite map_get_set_same. reflexivity.
      - destruct (walk true (map_get m key) (s2 :: rest2) u) as [v2|e|p'] eqn:E; try discriminate.
        intros H; injection H as H; subst v'. split; [|eexists; reflexivity]. rewrite map_get_set_same.
        apply (IH _ _ _ ltac:(discriminate) E). }
    intros H. assert (H' := Hm (seg_text s)).
    destruct s; cbn [seg_text] in *; specialize (H' H); destruct H' as [Hg [m' ->]]; cbn [get seg_text]; exact Hg.
Qed.

(** ... and nothing beside the path changes: every sibling key / index at every level reads as before. *)
Definition seg_differs (s t : seg) : Prop :=
  seg_text s <> seg_text t /\ match s, t with SegIdx _ i, SegIdx _ j => i <> j | _, _ => True end.

Lemma walk_frame path : forall v u v' q pre s t r1 r2,
  walk true v path u = Ok v' -> path = pre ++ s :: r1 -> q = pre ++ t :: r2 -> seg_differs s t ->
  get v' q = get v q.
Proof.
  induction path as [|s0 rest IH]; intros v u v' q pre s t r1 r2 Hw Hp Hq Hd.
  { destruct pre; discriminate. }
  cbn [walk] in Hw. destruct v as [|id|u0|l|m]; try discriminate.
  - (* list *)
    destruct s0 as [t0 i|k]; [|discriminate].
    destruct (in_range l i) eqn:Er; [|discriminate].
    assert (Hi : (Z.to_nat i < List.length l)%nat) by (unfold in_range in Er; lia).
    destruct pre as [|p0 pre'].
    + cbn [app] in Hp, Hq. injection Hp as Hs Hr. subst s rest q. destruct Hd as [_ Hd].
      cbn [get]. destruct t as [tt j|kk]; [|destruct r1; [|destruct (walk true _ _ u)]; try discriminate; injection Hw as Hw; subst; reflexivity].
      assert (Hne : Z.to_nat i <> Z.to_nat j \/ in_range l j = false).
      { destruct (in_range l j) eqn:Ej; [left|right; reflexivity]. unfold in_range in *. lia. }
      destruct r1 as [|s2 rest2].
      * injection Hw as Hw; subst v'. rewrite in_range_set. destruct (in_range l j) eqn:Ej; [|reflexivity].
        destruct Hne as [Hne|Hne]; [|discriminate]. rewrite nth_list_set_other by exact Hne. reflexivity.
      * destruct (walk true (nth (Z.to_nat i) l JVNil) (s2 :: rest2) u) as [v2|e|p'] eqn:E; try discriminate.
        injection Hw as Hw; subst v'. rewrite in_range_set. destruct (in_range l j) eqn:Ej; [|reflexivity].
        destruct Hne as [Hne|Hne]; [|discriminate]. rewrite nth_list_set_other by exact Hne. reflexivity.
    + cbn [app] in Hp, Hq. injection Hp as Hs Hr. subst p0 rest q. cbn [get]. 
      destruct (pre' ++ s :: r1) as [|s2 rest2] eqn:Ep; [destruct pre'; discriminate|].
      destruct (walk true (nth (Z.to_nat i) l JVNil) (s2 :: rest2) u) as [v2|e|p'] eqn:E; try discriminate.
      injection Hw as Hw; subst v'. rewrite in_range_set, Er. rewrite nth_list_set_same by exact Hi.
      eapply IH; [exact E | symmetry; exact Ep | reflexivity | exact Hd].
  - (* map *)
    assert (Hw' : match rest with
                  | [] => Ok (JVMap (map_set m (seg_text s0) (JVUpload u)))
                  | _ :: _ => match walk true (map_get m (seg_text s0)) rest u with
                              | Ok v' => Ok (JVMap (map_set m (seg_text s0) v'))
                              | Err e => Err e
                              | Panic p0 => Panic p0
                              end
                  end = Ok v') by (destruct s0; exact Hw).
    clear Hw. destruct pre as [|p0 pre'].
    + cbn [app] in Hp, Hq. injection Hp as Hs Hr. subst s0 rest q. destruct Hd as [Hd _]. cbn [get].
      destruct r1 as [|s2 rest2].
      * injection Hw' as Hw'; subst v'. rewrite map_get_set_other by (intro; apply Hd; congruence). reflexivity.
      * destruct (walk true (map_get m (seg_text s)) (s2 :: rest2) u) as [v2|e|p'] eqn:E; try discriminate.
        injection Hw' as Hw'; subst v'. rewrite map_get_set_other by (intro; apply Hd; congruence). reflexivity.
    + cbn [app] in Hp, Hq. injection Hp as Hs Hr. subst p0 rest q. cbn [get].
      destruct (pre' ++ s :: r1) as [|s2 rest2] eqn:Ep; [destruct pre'; discriminate|].
      destruct (walk true (map_get m (seg_text s0)) (s2 :: rest2) u) as [v2|e|p'] eqn:E; try discriminate.
      injection Hw' as Hw'; subst v'. rewrite map_get_set_same.
      eapply IH; [exact E | symmetry; exact Ep | reflexivity | exact Hd].
Qed.

(** The code at the pinned commit panics on client-chosen paths: five shapes. *)
Lemma add_upload_legacy_refuted_lemma :
  is_panic (add_upload false true VNilMap [SegKey "f"] 0) = true
  /\ is_panic (add_upload false true (VMap [("a", JVLeaf 0)]) [SegKey "a"; SegIdx "0" 0] 0) = true
  /\ is_panic (add_upload false true (VMap [("a", JVList [JVNil])]) [SegKey "a"; SegIdx "5" 5] 0) = true
  /\ is_panic (add_upload false true (VMap [("a", JVList [JVNil])]) [SegKey "a"; SegIdx "-1" (-1)] 0) = true
  /\ is_panic (add_upload false true (VMap [("a", JVList [JVNil])]) [SegKey "a"; SegKey "x"] 0) = true.
Proof. vm_compute. repeat split. Qed.
