(** C06: the serial schedule of mutation root fields shows each field as one block, in document order; a concurrent
    schedule does not. *)
From GV Require Import Base.Prelude Base.Interleave Model.MutSerial.
From Coq Require Import Sorted.
Open Scope nat_scope.
Open Scope list_scope.

Lemma dedup_in l x : In x (dedup_adjacent l) -> In x l.
Proof.
  induction l as [|a l IH]; [auto|]. destruct l as [|b l]; [auto|].
  change (dedup_adjacent (a :: b :: l)) with (if Nat.eqb a b then dedup_adjacent (b :: l) else a :: dedup_adjacent (b :: l)).
  destruct (Nat.eqb a b); [intros H; right; now apply IH|]. intros [<-|H]; [now left|right; now apply IH].
Qed.

Lemma dedup_sorted l : StronglySorted le l -> StronglySorted lt (dedup_adjacent l).
Proof.
  induction l as [|a l IH]; intros S; [constructor|]. inversion S as [|? ? S' F]; subst. specialize (IH S').
  destruct l as [|b l]; [repeat constructor|].
  change (dedup_adjacent (a :: b :: l)) with (if Nat.eqb a b then dedup_adjacent (b :: l) else a :: dedup_adjacent (b :: l)).
  destruct (Nat.eqb a b) eqn:Q; [exact IH|].
  apply Nat.eqb_neq in Q. constructor; [exact IH|]. apply Forall_forall. intros x Hx. apply dedup_in in Hx.
  inversion F as [|? ? Hab F']; subst. inversion S' as [|? ? S'' Fb]; subst.
  destruct Hx as [<-|Hx]; [lia|]. rewrite Forall_forall in Fb. specialize (Fb x Hx). lia.
Qed.

Lemma sorted_subsequence n : forall k l, StronglySorted lt l -> (forall x, In x l -> k <= x < k + n) -> subsequence l (seq k n) = true.
Proof.
  induction n as [|n IH]; intros k l S R.
  - destruct l as [|x l]; [reflexivity|]. specialize (R x (or_introl eq_refl)). lia.
  - destruct l as [|x l]; [reflexivity|]. inversion S as [|? ? S' F]; subst. rewrite Forall_forall in F.
    cbn [seq subsequence]. destruct (Nat.eqb x k) eqn:Q.
    + apply Nat.eqb_eq in Q. subst x. apply IH; [exact S'|]. intros y Hy. specialize (F y Hy). specialize (R y (or_intror Hy)). lia.
    + apply Nat.eqb_neq in Q. apply IH; [exact S|]. intros y Hy. pose proof (R x (or_introl eq_refl)) as Rx.
      destruct Hy as [<-|Hy]; [lia|]. specialize (F y Hy). specialize (R y (or_intror Hy)). lia.
Qed.

Section Proofs.
  Variable A : Type.

  Lemma sorted_block (b : list (ev A)) k rest :
    Forall (fun e => fst e = k) b -> StronglySorted le rest -> (forall x, In x rest -> k <= x) -> StronglySorted le (map fst b ++ rest).
  Proof.
    intros Hb S R. induction b as [|e b IH]; [exact S|]. inversion Hb as [|? ? He Hb']; subst. cbn [map app].
    constructor; [now apply IH|]. apply Forall_forall. intros x Hx. apply in_app_or in Hx as [Hx|Hx].
    - apply in_map_iff in Hx as (e' & <- & He'). rewrite Forall_forall in Hb'. rewrite (Hb' e' He'). lia.
    - specialize (R x Hx). lia.
  Qed.

  (** the tags of bodies numbered from [k] on never decrease and stay in range *)
  Lemma serial_tags bodies : forall k,
    (forall i b, nth_error bodies i = Some b -> body_of A (k + i) b) ->
    StronglySorted le (map fst (serial_trace A bodies)) /\
    (forall x, In x (map fst (serial_trace A bodies)) -> k <= x < k + List.length bodies).
  Proof.
    unfold serial_trace. induction bodies as [|b bodies IH]; intros k H; [split; [constructor|intros ? []]|].
    cbn [List.concat]. rewrite map_app.
    assert (body_of A k b) as Hb by (rewrite <- (Nat.add_0_r k); exact (H 0 b eq_refl)).
    destruct (IH (S k)) as [S R].
    { intros i b' Hn. replace (S k + i) with (k + S i) by lia. exact (H (S i) b' Hn). }
    split.
    - apply (sorted_block b k); [exact Hb|exact S|]. intros x Hx. specialize (R x Hx). lia.
    - intros x Hx. apply in_app_or in Hx as [Hx|Hx].
      + apply in_map_iff in Hx as (e' & <- & He'). unfold body_of in Hb. rewrite Forall_forall in Hb. rewrite (Hb e' He'). cbn [List.length]. lia.
      + specialize (R x Hx). cbn [List.length]. lia.
  Qed.

  (** mutation: whatever each root field's own sub-selection does, the fields appear as blocks in document order *)
  Theorem serial_grouped_lemma bodies :
    (forall i b, nth_error bodies i = Some b -> body_of A i b) -> grouped A (List.length bodies) (serial_trace A bodies) = true.
  Proof.
    intros H. destruct (serial_tags bodies 0 H) as [S R]. unfold grouped. apply sorted_subsequence; [now apply dedup_sorted|].
    intros x Hx. apply dedup_in in Hx. exact (R x Hx).
  Qed.
End Proofs.

(** query-style dispatch of the same two fields: an admissible schedule that is not grouped *)
Lemma concurrent_not_grouped_witness :
  let bodies := [[(0, "start"); (0, "end")]; [(1, "start"); (1, "end")]]%string in
  let tr := [(0, "start"); (1, "start"); (0, "end"); (1, "end")]%string in
  concurrent_trace string bodies tr /\ grouped string 2 tr = false.
Proof.
  split; [|reflexivity]. unfold concurrent_trace.
  apply (il_step [] (0, "start"%string) [(0, "end"%string)] [[(1, "start"%string); (1, "end"%string)]]).
  apply (il_step [[(0, "end"%string)]] (1, "start"%string) [(1, "end"%string)] []).
  apply (il_step [] (0, "end"%string) [] [[(1, "end"%string)]]).
  apply (il_step [[]] (1, "end"%string) [] []).
  constructor. repeat constructor.
Qed.
