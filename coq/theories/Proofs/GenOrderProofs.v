(** C18: a sorted permutation of items with pairwise distinct keys is unique - so whatever order the maps were
    ranged in and whatever unstable sort was used, the emitted order is the same. *)
From GV Require Import Base.Prelude Model.GenOrder.
Open Scope list_scope.

Section Proofs.
  Context {A : Type} (key : A -> string).
  Notation le := (le key).

  Lemma key_determines l x y : NoDup (map key l) -> In x l -> In y l -> key x = key y -> x = y.
  Proof.
    induction l as [|a l IH]; [intros _ []|]. cbn [map]. intros ND Hx Hy E. inversion ND as [|? ? Hn ND']; subst.
    destruct Hx as [->|Hx]; destruct Hy as [->|Hy]; auto.
    - exfalso. apply Hn. rewrite E. now apply in_map.
    - exfalso. apply Hn. rewrite <- E. now apply in_map.
  Qed.

  Lemma sorted_head_min a l x : StronglySorted le (a :: l) -> In x (a :: l) -> String.leb (key a) (key x) = true.
  Proof.
    intros S [->|Hin].
    - destruct (String.leb_total (key x) (key x)); assumption.
    - apply StronglySorted_inv in S as [_ F]. rewrite Forall_forall in F. now apply F.
  Qed.

  Theorem sorted_perm_unique_lemma : forall l1 l2,
    Permutation l1 l2 -> StronglySorted le l1 -> StronglySorted le l2 -> NoDup (map key l1) -> l1 = l2.
  Proof.
    induction l1 as [|a r1 IH]; intros l2 P S1 S2 ND.
    - apply Permutation_nil in P. now subst.
    - destruct l2 as [|b r2]; [apply Permutation_sym, Permutation_nil in P; discriminate|].
      assert (Ha : In a (b :: r2)) by (eapply Permutation_in; [exact P|now left]).
      assert (Hb : In b (a :: r1)) by (eapply Permutation_in; [apply Permutation_sym; exact P|now left]).
      pose proof (sorted_head_min _ _ _ S1 Hb) as L1. pose proof (sorted_head_min _ _ _ S2 Ha) as L2.
      assert (E : key a = key b) by (apply String.leb_antisym; assumption).
      assert (Eab : a = b) by (eapply (key_determines (a :: r1)); eauto; now left).
      subst b. f_equal. apply IH.
      + eapply Permutation_cons_inv; exact P.
      + now apply StronglySorted_inv in S1.
      + now apply StronglySorted_inv in S2.
      + cbn [map] in ND. now inversion ND.
  Qed.

  (** Two runs of the generator collect the same items in two arbitrary orders (map iteration), each sorts with
      some sort that only promises a sorted permutation: they emit the same list. *)
  Theorem order_independent_lemma items1 items2 out1 out2 :
    Permutation items1 items2 -> NoDup (map key items1) ->
    sorted_perm_of key items1 out1 -> sorted_perm_of key items2 out2 -> out1 = out2.
  Proof.
    intros P ND [P1 S1] [P2 S2]. apply sorted_perm_unique_lemma; auto.
    - etransitivity; [apply Permutation_sym; exact P1|]. etransitivity; [exact P|exact P2].
    - eapply Permutation_NoDup; [apply Permutation_map; exact P1|exact ND].
  Qed.

  (** the executable sort is such a sort *)
  Lemma insert_perm x l : Permutation (x :: l) (insert key x l).
  Proof.
    induction l as [|y l IH]; cbn [insert]; [reflexivity|]. destruct (String.leb (key x) (key y)); [reflexivity|].
    etransitivity; [apply perm_swap|]. now constructor.
  Qed.
  Lemma isort_perm l : Permutation l (isort key l).
  Proof. induction l as [|x l IH]; cbn [isort]; [constructor|]. etransitivity; [|apply insert_perm]. now constructor. Qed.

  Lemma leb_trans' a b c : String.leb a b = true -> String.leb b c = true -> String.leb a c = true.
  Proof.
    unfold String.leb. intros H1 H2.
    destruct (String.compare a b) eqn:E1; try discriminate; destruct (String.compare b c) eqn:E2; try discriminate;
      try (apply String.compare_eq_iff in E1; subst; now rewrite ?E2);
      try (apply String.compare_eq_iff in E2; subst; now rewrite ?E1).
    (* Lt, Lt *)
    assert (T : forall x y z, String.compare x y = Lt -> String.compare y z = Lt -> String.compare x z = Lt).
    { clear. induction x as [|xa x IHx]; intros [|ya y] [|za z]; cbn; try discriminate; try reflexivity.
      destruct (Ascii.compare xa ya) eqn:A1; try discriminate; destruct (Ascii.compare ya za) eqn:A2; try discriminate; intros H1 H2.
      - apply Ascii.compare_eq_iff in A1, A2. subst.
        assert (R : Ascii.compare za za = Eq) by (unfold Ascii.compare; apply N.compare_refl). rewrite R. eauto.
      - apply Ascii.compare_eq_iff in A1. subst. now rewrite A2.
      - apply Ascii.compare_eq_iff in A2. subst. now rewrite A1.
      - assert (Ascii.compare xa za = Lt).
        { unfold Ascii.compare in *. rewrite N.compare_lt_iff in *. lia. }
        now rewrite H. }
    now rewrite (T _ _ _ E1 E2).
  Qed.

  Lemma insert_sorted x l : StronglySorted le l -> StronglySorted le (insert key x l).
  Proof.
    induction l as [|y l IH]; cbn [insert]; intros S; [repeat constructor|].
    destruct (String.leb (key x) (key y)) eqn:E.
    - constructor; [exact S|]. constructor; [exact E|]. apply StronglySorted_inv in S as [_ F].
      rewrite Forall_forall in *. intros z Hz. unfold GenOrder.le. eapply leb_trans'; [exact E|now apply F].
    - apply StronglySorted_inv in S as [S F]. constructor; [now apply IH|].
      rewrite Forall_forall in *. intros z Hz. apply (Permutation_in _ (Permutation_sym (insert_perm x l))) in Hz.
      destruct Hz as [<-|Hz]; [|now apply F].
      unfold GenOrder.le. destruct (String.leb_total (key y) (key x)) as [H|H]; [exact H|congruence].
  Qed.
  Lemma isort_sorted l : StronglySorted le (isort key l).
  Proof. induction l as [|x l IH]; cbn [isort]; [constructor|now apply insert_sorted]. Qed.

  Theorem isort_is_a_sort l : sorted_perm_of key l (isort key l).
  Proof. split; [apply isort_perm|apply isort_sorted]. Qed.

  Lemma sortedb_spec l : sortedb key l = true -> StronglySorted le l.
  Proof.
    induction l as [|x l IH]; cbn [sortedb]; intros H; [constructor|]. apply andb_true_iff in H as [H1 H2].
    constructor; [now apply IH|]. rewrite Forall_forall. intros y Hy. rewrite forallb_forall in H1. now apply H1.
  Qed.
End Proofs.
