(** C13: over every interleaving of group goroutines and the consumer, hasNext is true on every payload but the
    last, every started group is delivered exactly once, the consumer is never stuck, and the sequence ends. *)
From GV Require Import Base.Prelude Model.DeferProto.
From Coq Require Import Permutation.
Open Scope nat_scope.
Open Scope list_scope.

Lemma mem_in g l : mem g l = true <-> In g l.
Proof.
  unfold mem. rewrite existsb_exists. split.
  - intros (x & Hx & E). apply Nat.eqb_eq in E. now subst.
  - intros H. exists g. split; [exact H|apply Nat.eqb_refl].
Qed.
Lemma remove_one_perm g l : In g l -> Permutation (g :: remove_one g l) l.
Proof.
  induction l as [|x l IH]; [intros []|]. intros H. cbn [remove_one]. destruct (Nat.eqb g x) eqn:E.
  - apply Nat.eqb_eq in E. now subst.
  - destruct H as [H|H]; [subst; rewrite Nat.eqb_refl in E; discriminate|].
    etransitivity; [apply perm_swap|]. constructor. now apply IH.
Qed.
Lemma remove_one_length g l : In g l -> S (List.length (remove_one g l)) = List.length l.
Proof. intros H. change (S (List.length (remove_one g l))) with (List.length (g :: remove_one g l)). apply Permutation_length, remove_one_perm, H. Qed.

Lemma perm_move {A} (a b c : list A) g : Permutation (a ++ (b ++ [g]) ++ c) (g :: a ++ b ++ c).
Proof.
  rewrite <- app_assoc. cbn [app]. rewrite (app_assoc a b (g :: c)), (app_assoc a b c). apply Permutation_sym, Permutation_middle.
Qed.
Lemma perm_move2 {A} (a b c : list A) g : Permutation (a ++ b ++ c ++ [g]) (a ++ (g :: b) ++ c).
Proof.
  apply Permutation_app_head. rewrite app_assoc. cbn [app]. apply Permutation_sym, (Permutation_cons_append (b ++ c) g).
Qed.
Lemma perm_start {A} (a x st : list A) g : Permutation (a ++ x) st -> Permutation ((a ++ [g]) ++ x) (st ++ [g]).
Proof.
  intros P. rewrite <- app_assoc. cbn [app]. etransitivity; [apply Permutation_sym, Permutation_middle|].
  etransitivity; [|apply Permutation_cons_append]. now constructor.
Qed.

(** all payloads but the last have hasNext, and the last one says whether anything is pending *)
Definition open_shape (l : list (option nat * bool)) (pend : nat) : Prop :=
  exists pre x, l = pre ++ [(x, 0 <? pend)] /\ forallb snd pre = true.

Record pinv (s : pstate) : Prop := {
  i_count : ps_pend s = List.length (ps_running s) + List.length (ps_ready s);
  i_perm : Permutation (ps_running s ++ ps_ready s ++ delivered s) (ps_started s);
  i_nodup : NoDup (ps_started s);
  i_out : match ps_phase s with PInit => ps_out s = [] | _ => open_shape (ps_out s) (ps_pend s) end;
  i_done : ps_phase s = PDone -> ps_pend s = 0 }.

Lemma pinv_init : pinv pinit.
Proof. constructor; cbn; auto; try discriminate. constructor. Qed.

Lemma delivered_snoc s o : delivered {| ps_phase := ps_phase s; ps_pend := ps_pend s; ps_running := ps_running s; ps_ready := ps_ready s;
                                        ps_started := ps_started s; ps_out := ps_out s ++ [o] |}
                           = delivered s ++ match fst o with Some g => [g] | None => [] end.
Proof. unfold delivered. cbn [ps_out]. rewrite flat_map_app. cbn. now rewrite app_nil_r. Qed.

Lemma start_inv s g : pinv s -> ~ In g (ps_started s) -> (ps_phase s = PInit \/ 0 < ps_pend s) -> pinv (start s g).
Proof.
  intros [C P N O Dn] Hg Hp. constructor; cbn [start ps_pend ps_running ps_ready ps_started ps_phase ps_out].
  - rewrite app_length. cbn. lia.
  - unfold delivered in *. cbn [ps_out]. now apply perm_start.
  - apply (Permutation_NoDup (l := g :: ps_started s)); [apply Permutation_cons_append|]. now constructor.
  - destruct (ps_phase s) eqn:Ph; [exact O| |].
    + destruct Hp as [Hp|Hp]; [discriminate|]. destruct O as (pre & x & E & A). exists pre, x. split; [|exact A].
      rewrite E. do 3 f_equal. destruct (ps_pend s); [lia|reflexivity].
    + destruct Hp as [Hp|Hp]; [discriminate|]. destruct O as (pre & x & E & A). exists pre, x. split; [|exact A].
      rewrite E. do 3 f_equal. destruct (ps_pend s); [lia|reflexivity].
  - intros D. exfalso. destruct Hp as [Hp|Hp]; [congruence|]. rewrite (Dn D) in Hp. lia.
Qed.

Theorem pstep_inv s l s' : pinv s -> pstep s l = Some s' -> pinv s'.
Proof.
  intros I. destruct l as [g| |p g|g|g|]; cbn [pstep].
  - destruct (ps_phase s) eqn:Ph; try discriminate. destruct (mem g (ps_started s)) eqn:M; [discriminate|].
    intros E. inversion E; subst. apply start_inv; [exact I| |now left]. intros H. apply mem_in in H. congruence.
  - destruct (ps_phase s) eqn:Ph; try discriminate. intros E. inversion E; subst. destruct I as [C P N O Dn]. rewrite Ph in O.
    constructor; cbn; try assumption; try discriminate.
    + unfold delivered in *. cbn [ps_out]. rewrite O in *. exact P.
    + rewrite O. exists [], None. split; reflexivity.
  - destruct (mem p (ps_running s) && negb (mem g (ps_started s))) eqn:M; [|discriminate]. apply andb_true_iff in M as [M1 M2].
    intros E. inversion E; subst. apply start_inv; [exact I| |].
    + intros H. apply mem_in in H. rewrite H in M2. discriminate.
    + right. destruct I as [C _ _ _ _]. apply mem_in in M1. rewrite C. destruct (ps_running s); [destruct M1|cbn; lia].
  - destruct (mem g (ps_running s)) eqn:M; [|discriminate]. apply mem_in in M. intros E. inversion E; subst. destruct I as [C P N O Dn].
    constructor; cbn [ps_pend ps_running ps_ready ps_started ps_phase ps_out]; try assumption.
    + rewrite app_length. cbn. pose proof (remove_one_length g _ M). lia.
    + unfold delivered in *. cbn [ps_out]. etransitivity; [apply perm_move|]. etransitivity; [|exact P].
      change (g :: remove_one g (ps_running s) ++ ?x) with ((g :: remove_one g (ps_running s)) ++ x).
      apply Permutation_app_tail, remove_one_perm, M.
  - destruct (ps_phase s) eqn:Ph; try discriminate. destruct ((0 <? ps_pend s) && mem g (ps_ready s)) eqn:M; [|discriminate].
    apply andb_true_iff in M as [M1 M2]. apply Nat.ltb_lt in M1. apply mem_in in M2. intros E. inversion E; subst. destruct I as [C P N O Dn].
    rewrite Ph in O. constructor; cbn [ps_pend ps_running ps_ready ps_started ps_phase ps_out]; try assumption; try discriminate.
    + pose proof (remove_one_length g _ M2). lia.
    + unfold delivered in *. cbn [ps_out]. rewrite flat_map_app. cbn [flat_map fst app].
      etransitivity; [apply perm_move2|]. etransitivity; [|exact P].
      apply Permutation_app_head, Permutation_app_tail, remove_one_perm, M2.
    + destruct O as (pre & x & E0 & A). exists (pre ++ [(x, 0 <? ps_pend s)]), (Some g). split; [now rewrite E0|].
      rewrite forallb_app, A. cbn. destruct (ps_pend s); [lia|reflexivity].
  - destruct (ps_phase s) eqn:Ph; try discriminate. destruct (ps_pend s =? 0) eqn:Z; [|discriminate]. apply Nat.eqb_eq in Z.
    intros E. inversion E; subst. destruct I as [C P N O Dn]. rewrite Ph in O.
    constructor; cbn [ps_pend ps_running ps_ready ps_started ps_phase ps_out]; try assumption; [lia|now rewrite Z in O|reflexivity].
Qed.

Theorem prun_inv tr : forall s s', pinv s -> prun s tr = Some s' -> pinv s'.
Proof.
  induction tr as [|l tr IH]; intros s s' I; cbn [prun]; [intros E; now inversion E; subst|].
  destruct (pstep s l) as [s1|] eqn:E; [|discriminate]. apply IH. exact (pstep_inv _ _ _ I E).
Qed.

Lemma open_shape_done l : open_shape l 0 -> has_next_shape l = true.
Proof.
  intros (pre & x & -> & A). cbn [Nat.ltb Nat.leb]. induction pre as [|[y hn] pre IH]; [reflexivity|].
  cbn in A. apply andb_true_iff in A as [A1 A2]. cbn in A1. subst hn.
  change (((y, true) :: pre) ++ [(x, false)]) with ((y, true) :: (pre ++ [(x, false)])).
  destruct (pre ++ [(x, false)]) eqn:E; [destruct pre; discriminate|]. cbn [has_next_shape andb]. now apply IH.
Qed.

(** ---- the delivery clauses of the property, for every interleaving ---- *)
Theorem delivery_complete_lemma tr s :
  prun pinit tr = Some s -> ps_phase s = PDone ->
  has_next_shape (ps_out s) = true /\ Permutation (delivered s) (ps_started s) /\ NoDup (delivered s) /\
  ps_running s = [] /\ ps_ready s = [].
Proof.
  intros R D. pose proof (prun_inv tr _ _ pinv_init R) as [C P N O Dn]. rewrite D in O. pose proof (Dn D) as Z.
  rewrite Z in *. assert (ps_running s = [] /\ ps_ready s = []) as [R1 R2].
  { destruct (ps_running s), (ps_ready s); cbn in C; try lia. now split. }
  rewrite R1, R2 in P. cbn in P. repeat split; [now apply open_shape_done|exact P| |exact R1|exact R2].
  apply (Permutation_NoDup (Permutation_sym P) N).
Qed.

(** the consumer (and every goroutine) can always move on: in every reachable state that is not finished some
    step other than starting a new group is enabled *)
Definition non_start (l : plabel) : bool := match l with LStartRoot _ | LStartNested _ _ => false | _ => true end.
Theorem progress_lemma s : pinv s -> ps_phase s <> PDone -> exists l, non_start l = true /\ pstep s l <> None.
Proof.
  intros [C P N O Dn] D. destruct (ps_phase s) eqn:Ph; [| |congruence].
  - exists LInitDone. split; [reflexivity|]. cbn. rewrite Ph. discriminate.
  - destruct (ps_ready s) as [|g rd] eqn:Rd.
    + destruct (ps_running s) as [|g rn] eqn:Rn.
      * exists LEnd. split; [reflexivity|]. cbn. rewrite Ph. cbn in C. rewrite C. discriminate.
      * exists (LFinish g). split; [reflexivity|]. cbn. rewrite Rn. cbn. rewrite Nat.eqb_refl. discriminate.
    + exists (LReceive g). split; [reflexivity|]. unfold pstep. rewrite Ph.
      assert (0 <? ps_pend s = true) as -> by (apply Nat.ltb_lt; rewrite C; cbn; lia).
      assert (mem g (ps_ready s) = true) as -> by (apply mem_in; rewrite Rd; now left). cbn. discriminate.
Qed.

(** and once no further group is started, the sequence ends within a bound *)
Definition measure (s : pstate) : nat :=
  2 * List.length (ps_running s) + List.length (ps_ready s) + match ps_phase s with PInit => 2 | PIdle => 1 | PDone => 0 end.
Theorem bounded_lemma tr : forall s s', forallb non_start tr = true -> prun s tr = Some s' -> List.length tr + measure s' <= measure s.
Proof.
  induction tr as [|l tr IH]; intros s s' NS; cbn [prun]; [intros E; inversion E; subst; cbn; lia|].
  cbn in NS. apply andb_true_iff in NS as [N1 N2]. destruct (pstep s l) as [s1|] eqn:E; [|discriminate]. intros R.
  pose proof (IH _ _ N2 R) as B. cbn [List.length]. enough (S (measure s1) <= measure s) by lia. clear -E N1.
  destruct l; try discriminate N1; cbn [pstep] in E.
  - destruct (ps_phase s) eqn:Ph; try discriminate. inversion E; subst. unfold measure. cbn. rewrite Ph. lia.
  - destruct (mem g (ps_running s)) eqn:M; [|discriminate]. apply mem_in in M. inversion E; subst. unfold measure.
    cbn [ps_running ps_ready ps_phase]. rewrite app_length. cbn. pose proof (remove_one_length g _ M). lia.
  - destruct (ps_phase s) eqn:Ph; try discriminate. destruct ((0 <? ps_pend s) && mem g (ps_ready s)) eqn:M; [|discriminate].
    apply andb_true_iff in M as [_ M]. apply mem_in in M. inversion E; subst. unfold measure. cbn [ps_running ps_ready ps_phase].
    rewrite Ph. pose proof (remove_one_length g _ M). lia.
  - destruct (ps_phase s) eqn:Ph; try discriminate. destruct (ps_pend s =? 0); [|discriminate]. inversion E; subst. unfold measure.
    cbn [ps_running ps_ready ps_phase]. rewrite Ph. lia.
Qed.
