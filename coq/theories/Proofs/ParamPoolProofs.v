(** C07 / C09: the pooled parameter object never carries anything from one request into another. *)
From GV Require Import Base.Prelude Model.ParamPool.
Open Scope list_scope.

Lemma cleanup_all p : cleanup [] p = pzero.
Proof. destruct p. reflexivity. Qed.

(** every request of every history sees exactly what it would see with a freshly allocated object *)
Theorem pool_history_independent_lemma hs :
  serve_pool [] true pzero hs = map (fun h => fill pzero (fst h) (snd h)) hs.
Proof.
  induction hs as [|[hdr body] hs IH]; [reflexivity|]. cbn [serve_pool map fst snd].
  destruct (fill pzero hdr body) as [p ok] eqn:E. rewrite orb_true_r, cleanup_all, IH. reflexivity.
Qed.

Theorem pool_request_alone_lemma pre hdr body post :
  nth_error (serve_pool [] true pzero (pre ++ (hdr, body) :: post)) (List.length pre) = Some (fill pzero hdr body).
Proof.
  rewrite pool_history_independent_lemma, map_app. cbn [map fst snd].
  rewrite nth_error_app2; rewrite map_length; [|lia]. now rewrite Nat.sub_diag.
Qed.

(** a field that is not set by the body is the zero value, whatever came before *)
Theorem pool_absent_member_is_zero_lemma hs n p ok f :
  nth_error (serve_pool [] true pzero hs) n = Some (p, ok) ->
  forall hdr body, nth_error hs n = Some (hdr, body) ->
  (forall m, In m body -> match m with MText g _ | MObject g _ | MNull g | MWrongType g => pfield_eqb g f = false | _ => True end) ->
  f <> FHeaders -> f <> FReadTime -> pget p f = PZero.
Proof.
  rewrite pool_history_independent_lemma. intros H hdr body Hn Hb Hh Hr.
  rewrite nth_error_map, Hn in H. cbn in H. inversion H as [E]. clear H.
  unfold fill in E.
  assert (forall ms q q' k, decode_members q ms = (q', k) ->
            (forall m, In m ms -> match m with MText g _ | MObject g _ | MNull g | MWrongType g => pfield_eqb g f = false | _ => True end) ->
            pget q' f = pget q f) as D.
  { induction ms as [|m ms IH]; intros q q' k; cbn [decode_members]; [intros X _; now inversion X|].
    intros X A. assert (forall g v, pfield_eqb g f = false -> pget (pset q g v) f = pget q f) as S.
    { intros g v G. destruct g, f; cbn in G; try discriminate; reflexivity. }
    destruct m as [g s|g keys|g|g| |]; try (inversion X; subst; reflexivity).
    - destruct (decode_members (pset q g (PText s)) ms) as [q2 k2] eqn:E2. inversion X; subst.
      rewrite (IH _ _ _ E2 (fun m Hm => A m (or_intror Hm))). apply S. exact (A _ (or_introl eq_refl)).
    - pose proof (A _ (or_introl eq_refl)) as G. cbn in G.
      destruct (pget q g); match goal with X : (let '(_, _) := decode_members ?q1 ms in _) = _ |- _ => destruct (decode_members q1 ms) as [q2 k2] eqn:E2 end;
        inversion X; subst; rewrite (IH _ _ _ E2 (fun m Hm => A m (or_intror Hm))); now apply S.
    - pose proof (A _ (or_introl eq_refl)) as G. cbn in G.
      destruct (is_map_field g); match goal with X : (let '(_, _) := decode_members ?q1 ms in _) = _ |- _ => destruct (decode_members q1 ms) as [q2 k2] eqn:E2 end;
        inversion X; subst; rewrite (IH _ _ _ E2 (fun m Hm => A m (or_intror Hm))); [now apply S|reflexivity].
    - destruct (decode_members q ms) as [q2 k2] eqn:E2. inversion X; subst. exact (IH _ _ _ E2 (fun m Hm => A m (or_intror Hm))).
    - destruct (decode_members q ms) as [q2 k2] eqn:E2. inversion X; subst. exact (IH _ _ _ E2 (fun m Hm => A m (or_intror Hm))).
    - destruct (decode_members q ms) as [q2 k2] eqn:E2. inversion X; subst. exact (IH _ _ _ E2 (fun m Hm => A m (or_intror Hm))). }
  unfold decode in E. destruct (existsb is_syntax_error body).
  - inversion E; subst. destruct f; try reflexivity; congruence.
  - rewrite (D _ _ _ _ E Hb). destruct f; try reflexivity; congruence.
Qed.

(** the variants that leak, as witnesses *)
Definition body_qb : list member := [MText FQuery "query A{a} query B{b}"; MText FOpName "B"]%string.
Definition body_q : list member := [MText FQuery "query A{a} query B{b}"]%string.

(** a clean-up that forgets the operation name: the next request, which names none, runs B *)
Lemma forgetful_cleanup_witness :
  map (fun r => p_opname (fst r)) (serve_pool [FOpName] true pzero [("h", body_qb); ("h", body_q)]%string) = [PText "B"; PText "B"]%string.
Proof. vm_compute. reflexivity. Qed.

(** no clean-up after a body that failed to decode: what was stored before the error stays in the pooled object *)
Lemma no_cleanup_on_error_witness :
  map (fun r => (p_opname (fst r), snd r))
      (serve_pool [] false pzero [("h", [MText FOpName "B"; MWrongType FVariables]); ("h", body_q)]%string)
  = [(PText "B", false); (PText "B", true)]%string.
Proof. vm_compute. reflexivity. Qed.
