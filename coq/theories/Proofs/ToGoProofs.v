(** C17: ToGo / ToGoPrivate produce valid Go identifiers for every GraphQL name whose first character that is not
    an underscore is a letter; exported for ToGo, never a keyword for ToGoPrivate. *)
From GV Require Import Base.Prelude Model.ToGo.
Open Scope list_scope.

(** ---- characters: finite facts, by enumeration of the 256 values ---- *)
Ltac all_ascii c := destruct c as [[] [] [] [] [] [] [] []]; vm_compute; try reflexivity; try discriminate; auto.

Lemma name_char_upper c : name_char c = true -> name_char (to_upper_c c) = true.
Proof. all_ascii c. Qed.
Lemma name_char_lower c : name_char c = true -> name_char (to_lower_c c) = true.
Proof. all_ascii c. Qed.
Lemma letter_upper c : is_letter c = true -> is_upper (to_upper_c c) = true.
Proof. all_ascii c. Qed.
Lemma letter_lower c : is_letter c = true -> is_letter (to_lower_c c) = true.
Proof. all_ascii c. Qed.
Lemma letter_lower_upper c : is_letter c = true -> is_upper (to_upper_c (to_lower_c c)) = true.
Proof. all_ascii c. Qed.
Lemma lower_fix c : is_lower c = true -> to_lower_c c = c.
Proof. all_ascii c. Qed.
Lemma letter_cases c : is_letter c = true -> is_lower c = false -> is_upper c = true.
Proof. all_ascii c. Qed.
Lemma upper_is_letter c : is_upper c = true -> is_letter c = true.
Proof. all_ascii c. Qed.
Lemma letter_name_char c : is_letter c = true -> name_char c = true.
Proof. all_ascii c. Qed.
Lemma letter_not_delim c : is_letter c = true -> is_delim c = false.
Proof. all_ascii c. Qed.
Lemma ascii_eqb_refl' c : Ascii.eqb c c = true.
Proof. apply Ascii.eqb_refl. Qed.

Lemma chars_eqb_eq a b : chars_eqb a b = true -> a = b.
Proof.
  revert b. induction a as [|x a IH]; intros [|y b]; cbn; try discriminate; [reflexivity|].
  intros H. apply andb_true_iff in H as [H1 H2]. apply Ascii.eqb_eq in H1. subst. f_equal. now apply IH.
Qed.
Lemma chars_eqb_refl a : chars_eqb a a = true.
Proof. induction a as [|x a IH]; [reflexivity|]. cbn. now rewrite Ascii.eqb_refl. Qed.

(** ---- name characters are preserved ---- *)
Lemma forallb_map_pres (f : ascii -> ascii) w :
  (forall c, name_char c = true -> name_char (f c) = true) -> forallb name_char w = true -> forallb name_char (map f w) = true.
Proof.
  intros Hf. induction w as [|c w IH]; [reflexivity|]. cbn. intros H. apply andb_true_iff in H as [H1 H2]. now rewrite (Hf c H1), IH.
Qed.
Lemma upper_pres w : forallb name_char w = true -> forallb name_char (upper w) = true.
Proof. apply forallb_map_pres, name_char_upper. Qed.
Lemma lower_pres w : forallb name_char w = true -> forallb name_char (lower w) = true.
Proof. apply forallb_map_pres, name_char_lower. Qed.
Lemma uc_first_pres w : forallb name_char w = true -> forallb name_char (uc_first w) = true.
Proof. destruct w as [|c w]; [reflexivity|]. cbn. intros H. apply andb_true_iff in H as [H1 H2]. now rewrite (name_char_upper c H1), H2. Qed.
Lemma lc_first_pres w : forallb name_char w = true -> forallb name_char (lc_first w) = true.
Proof. destruct w as [|c w]; [reflexivity|]. cbn. intros H. apply andb_true_iff in H as [H1 H2]. now rewrite (name_char_lower c H1), H2. Qed.

Lemma render_pres p i : forallb name_char (w_word i) = true -> forallb name_char (render_word p i) = true.
Proof.
  intros H. unfold render_word.
  destruct (p && Nat.eqb (w_off i) 0).
  - destruct (all_one_case (w_word i)); [now apply lower_pres|now apply lc_first_pres].
  - destruct (w_match i); [now apply upper_pres|].
    destruct (negb (w_has i) && all_one_case (w_word i)); [apply uc_first_pres; now apply lower_pres|exact H].
Qed.

Lemma forallb_snoc {A} (f : A -> bool) l x : forallb f (l ++ [x]) = forallb f l && f x.
Proof. rewrite forallb_app. cbn. now rewrite andb_true_r. Qed.

Definition mode_ok (m : wmode) : bool :=
  match m with MWord cur _ => forallb name_char cur | MSkip _ ld => name_char ld end.

Lemma walk_words_ok rest : forall m wo,
  mode_ok m = true -> forallb name_char rest = true -> forallb (fun i => forallb name_char (w_word i)) (walk m wo rest) = true.
Proof.
  induction rest as [|d r IH]; intros m wo Hm Hr.
  - destruct m as [cur has|pd ld]; cbn; [|reflexivity]. cbn in Hm. now rewrite Hm.
  - cbn in Hr. apply andb_true_iff in Hr as [Hd Hr]. destruct m as [cur has|pd ld]; cbn [walk]; cbn in Hm.
    + destruct (is_delim d).
      { cbn [forallb emit_eow w_word]. rewrite Hm. apply IH; [exact Hd|exact Hr]. }
      destruct (is_lower (last_c cur) && negb (is_lower d)).
      { cbn [forallb emit_eow w_word]. rewrite Hm. apply IH; [cbn; now rewrite Hd|exact Hr]. }
      destruct (is_init cur && negb (is_lower d)).
      { destruct (is_id_ip cur && match r with e :: _ => is_upper e | [] => false end).
        - apply IH; [cbn; rewrite forallb_snoc; now rewrite Hm, Hd|exact Hr].
        - cbn [forallb w_word]. rewrite Hm. apply IH; [cbn; now rewrite Hd|exact Hr]. }
      apply IH; [cbn; rewrite forallb_snoc; now rewrite Hm, Hd|exact Hr].
    + destruct (is_delim d); [apply IH; [exact Hd|exact Hr]|].
      destruct (pd && is_digit d); apply IH; try exact Hr; cbn; now rewrite ?Hm, Hd.
Qed.

Lemma forallb_concat_render p ws :
  forallb (fun i => forallb name_char (w_word i)) ws = true -> forallb name_char (List.concat (map (render_word p) ws)) = true.
Proof.
  induction ws as [|i ws IH]; [reflexivity|]. cbn. intros H. apply andb_true_iff in H as [H1 H2].
  rewrite forallb_app. now rewrite (render_pres p i H1), IH.
Qed.

Lemma drop_delims_pres l : forallb name_char l = true -> forallb name_char (drop_delims l) = true.
Proof.
  induction l as [|c l IH]; [reflexivity|]. cbn [drop_delims]. intros H. destruct (is_delim c); [|exact H].
  cbn in H. apply andb_true_iff in H as [_ H]. now apply IH.
Qed.
Lemma forallb_rev {A} (f : A -> bool) l : forallb f (rev l) = forallb f l.
Proof. induction l as [|x l IH]; [reflexivity|]. cbn. rewrite forallb_snoc, IH. apply andb_comm. Qed.
Lemma trim_delims_pres l : forallb name_char l = true -> forallb name_char (trim_delims l) = true.
Proof. intros H. unfold trim_delims. rewrite forallb_rev. apply drop_delims_pres. rewrite forallb_rev. now apply drop_delims_pres. Qed.

Lemma word_walker_ok s : forallb name_char s = true -> forallb (fun i => forallb name_char (w_word i)) (word_walker s) = true.
Proof.
  intros H. unfold word_walker. pose proof (trim_delims_pres s H) as T. destruct (trim_delims s) as [|c r]; [reflexivity|].
  cbn in T. apply andb_true_iff in T as [T1 T2]. apply walk_words_ok; [cbn; now rewrite T1|exact T2].
Qed.

Theorem to_go_chars_lemma s : forallb name_char s = true -> forallb name_char (to_go_c s) = true.
Proof.
  intros H. unfold to_go_c. destruct (underscore_only s); [exact H|]. apply forallb_concat_render. now apply word_walker_ok.
Qed.

Lemma sanitize_pres n : forallb name_char n = true -> forallb name_char (sanitize_keywords n) = true.
Proof. intros H. unfold sanitize_keywords. destruct (existsb _ _); [|exact H]. rewrite forallb_app, H. reflexivity. Qed.

Theorem to_go_private_chars_lemma s : forallb name_char s = true -> forallb name_char (to_go_private_c s) = true.
Proof.
  intros H. unfold to_go_private_c. destruct (underscore_only s); [exact H|]. apply sanitize_pres, forallb_concat_render. now apply word_walker_ok.
Qed.

(** ---- the first character ---- *)
Lemma init_head_upper w : is_init w = true -> match w with c :: _ => is_upper c | [] => false end = true.
Proof.
  unfold is_init. intros H. apply existsb_exists in H as (x & Hx & E). apply chars_eqb_eq in E. subst x.
  assert (forallb (fun w => match w with c :: _ => is_upper c | [] => false end) initialisms = true) as A by (vm_compute; reflexivity).
  rewrite forallb_forall in A. now apply A.
Qed.

(** the word being read: starts with a letter; flagged only if it starts upper-case; all lower-case if it starts so *)
Definition cur_inv (cur : chars) (has : bool) : Prop :=
  match cur with
  | [] => False
  | c :: _ => is_letter c = true /\ (has = true -> is_upper c = true) /\ (is_lower c = true -> forallb is_lower cur = true)
  end.

Lemma last_in (cur : chars) c : cur <> [] -> In (last cur c) cur.
Proof.
  induction cur as [|x cur IH]; [congruence|]. intros _. destruct cur as [|y cur]; [now left|]. right. apply IH. discriminate.
Qed.

Lemma lower_all_fix w : forallb is_lower w = true -> lower w = w.
Proof.
  induction w as [|c w IH]; [reflexivity|]. cbn [forallb]. intros H. apply andb_true_iff in H as [H1 H2]. unfold lower in *. cbn [map]. now rewrite (lower_fix c H1), IH.
Qed.

(** what the first word looks like once rendered *)
Lemma render_first_exported cur has m :
  cur_inv cur has -> (m = true \/ m = is_init (upper cur)) ->
  forall has', (has' = (has || m)%bool \/ (m = true /\ has' = true)) ->
  exported (render_word false {| w_off := 0; w_word := cur; w_match := m; w_has := has' |}) = true.
Proof.
  intros Inv _ has' Hh. destruct cur as [|c cur]; [destruct Inv|]. destruct Inv as (L & Hu & Hl).
  unfold render_word. cbn [w_off w_word w_match w_has andb]. destruct m.
  - cbn. now apply letter_upper.
  - assert (has' = has) as -> by (destruct Hh as [->|[? _]]; [now rewrite orb_false_r|discriminate]).
    destruct (negb has && all_one_case (c :: cur)) eqn:E.
    + cbn. now apply letter_lower_upper.
    + cbn [exported]. destruct has; [now apply Hu|]. cbn [negb andb] in E.
      destruct (is_lower c) eqn:Lc; [|now apply letter_cases].
      exfalso. unfold all_one_case in E. rewrite (lower_all_fix _ (Hl eq_refl)), chars_eqb_refl, orb_true_r in E. discriminate.
Qed.

Lemma render_first_private cur m has' :
  (match cur with c :: _ => is_letter c = true | [] => False end) ->
  match render_word true {| w_off := 0; w_word := cur; w_match := m; w_has := has' |} with c :: _ => is_letter c = true | [] => False end.
Proof.
  destruct cur as [|c cur]; [intros []|]. intros L. unfold render_word. cbn [w_off w_word andb Nat.eqb].
  destruct (all_one_case (c :: cur)); cbn; now apply letter_lower.
Qed.

Definition first_ok (p : bool) (ws : list winfo) : Prop :=
  match ws with
  | [] => False
  | i :: _ => match render_word p i with c :: _ => (if p then is_letter c else is_upper c) = true | [] => False end
  end.

Lemma cur_inv_head cur has : cur_inv cur has -> match cur with c :: _ => is_letter c = true | [] => False end.
Proof. destruct cur; [auto|]. now intros (L & _). Qed.

Lemma walk_first p rest : forall cur has, cur_inv cur has -> first_ok p (walk (MWord cur has) 0 rest).
Proof.
  assert (forall cur has m has' tl, cur_inv cur has -> (m = true \/ m = is_init (upper cur)) ->
            (has' = (has || m)%bool \/ (m = true /\ has' = true)) ->
            first_ok p ({| w_off := 0; w_word := cur; w_match := m; w_has := has' |} :: tl)) as Emit.
  { intros cur has m has' tl Inv Hm Hh. unfold first_ok. destruct p.
    - pose proof (render_first_private cur m has' (cur_inv_head _ _ Inv)) as R. destruct (render_word true _); [destruct R|exact R].
    - pose proof (render_first_exported cur has m Inv Hm has' Hh) as R. unfold exported in R. destruct (render_word false _); [discriminate|exact R]. }
  induction rest as [|d r IH]; intros cur has Inv.
  - cbn [walk]. unfold emit_eow. apply (Emit cur has); [exact Inv|now right|now left].
  - cbn [walk]. destruct (is_delim d) eqn:Dd.
    { unfold emit_eow. apply (Emit cur has); [exact Inv|now right|now left]. }
    destruct (is_lower (last_c cur) && negb (is_lower d)) eqn:E1.
    { unfold emit_eow. apply (Emit cur has); [exact Inv|now right|now left]. }
    destruct (is_init cur && negb (is_lower d)) eqn:E2.
    { destruct (is_id_ip cur && match r with e :: _ => is_upper e | [] => false end).
      - apply IH. apply andb_true_iff in E2 as [E2 _]. pose proof (init_head_upper cur E2) as U.
        destruct cur as [|c cur]; [destruct Inv|]. destruct Inv as (L & Hu & Hl). cbn [app]. repeat split; [exact L|exact Hu|].
        intros Lc. exfalso. clear -U Lc. destruct c as [[] [] [] [] [] [] [] []]; vm_compute in U, Lc; discriminate.
      - apply (Emit cur has); [exact Inv|now left|right; now split]. }
    apply IH. destruct cur as [|c cur]; [destruct Inv|]. destruct Inv as (L & Hu & Hl). cbn [app]. repeat split; [exact L| |].
    + intros H. apply orb_true_iff in H as [H|H]; [now apply Hu|]. exact (init_head_upper (c :: cur) H).
    + intros Lc. change (c :: cur ++ [d]) with ((c :: cur) ++ [d]). rewrite forallb_snoc. rewrite (Hl Lc). cbn [andb].
      assert (is_lower (last_c (c :: cur)) = true) as LL.
      { pose proof (Hl Lc) as A. rewrite forallb_forall in A. apply A. unfold last_c. apply last_in. discriminate. }
      rewrite LL in E1. cbn in E1. now apply negb_false_iff in E1.
Qed.

Lemma drop_delims_snoc a c : is_delim c = false -> exists x, drop_delims (a ++ [c]) = x ++ [c].
Proof.
  intros Hc. induction a as [|y a IH]; cbn [app drop_delims].
  - rewrite Hc. now exists [].
  - destruct (is_delim y); [exact IH|]. now exists (y :: a).
Qed.
Lemma drop_delims_head l c r : drop_delims l = c :: r -> is_delim c = false.
Proof.
  induction l as [|y l IH]; cbn [drop_delims]; [discriminate|]. destruct (is_delim y) eqn:E; [exact IH|]. intros H. now inversion H; subst.
Qed.
Lemma trim_head s c r : drop_delims s = c :: r -> exists r', trim_delims s = c :: r'.
Proof.
  intros H. unfold trim_delims. rewrite H. cbn [rev]. destruct (drop_delims_snoc (rev r) c (drop_delims_head _ _ _ H)) as (x & ->).
  rewrite rev_app_distr. cbn. now exists (rev x).
Qed.

Lemma word_walker_first p s : letter_first s = true -> first_ok p (word_walker s).
Proof.
  unfold letter_first. destruct (drop_delims s) as [|c r] eqn:E; [discriminate|]. intros L.
  destruct (trim_head s c r E) as (r' & T). unfold word_walker. rewrite T. apply walk_first.
  cbn. repeat split; [exact L|discriminate|]. intros Lc. now rewrite Lc.
Qed.

Lemma letter_first_not_underscore s : letter_first s = true -> underscore_only s = false.
Proof.
  unfold letter_first, underscore_only. destruct s as [|c [|d s]]; cbn; try reflexivity.
  - destruct (is_delim c) eqn:D; [discriminate|]. intros L. destruct (Ascii.eqb c "_") eqn:E; [|reflexivity].
    apply Ascii.eqb_eq in E. subst. discriminate.
  - intros _. now rewrite andb_false_r.
Qed.

(** ToGo: an exported Go identifier *)
Theorem to_go_valid_lemma s :
  forallb name_char s = true -> letter_first s = true -> go_ident (to_go_c s) = true /\ exported (to_go_c s) = true.
Proof.
  intros Hc Hl. pose proof (to_go_chars_lemma s Hc) as C. unfold to_go_c in *. rewrite (letter_first_not_underscore s Hl) in *.
  pose proof (word_walker_first false s Hl) as F. unfold first_ok in F. destruct (word_walker s) as [|i ws]; [destruct F|].
  cbn [map List.concat] in *. destruct (render_word false i) as [|c w]; [destruct F|]. cbn [app] in *.
  unfold go_ident, exported. rewrite C, F. rewrite (upper_is_letter c F). split; reflexivity.
Qed.

Definition is_keyword (n : chars) : bool := existsb (chars_eqb n) keywords.

Lemma sanitize_not_keyword n : is_keyword (sanitize_keywords n) = false.
Proof.
  unfold sanitize_keywords, is_keyword. destruct (existsb (chars_eqb n) keywords) eqn:E; [|exact E].
  apply existsb_exists in E as (k & Hk & E). apply chars_eqb_eq in E. subst n.
  assert (forallb (fun k => negb (existsb (chars_eqb (k ++ cs "Arg")) keywords)) keywords = true) as A by (vm_compute; reflexivity).
  rewrite forallb_forall in A. apply negb_true_iff. now apply A.
Qed.

(** ToGoPrivate: a Go identifier that is not a keyword *)
Theorem to_go_private_valid_lemma s :
  forallb name_char s = true -> letter_first s = true -> go_ident (to_go_private_c s) = true /\ is_keyword (to_go_private_c s) = false.
Proof.
  intros Hc Hl. pose proof (to_go_private_chars_lemma s Hc) as C. unfold to_go_private_c in *. rewrite (letter_first_not_underscore s Hl) in *.
  split; [|apply sanitize_not_keyword].
  pose proof (word_walker_first true s Hl) as F. unfold first_ok in F. destruct (word_walker s) as [|i ws]; [destruct F|].
  cbn [map List.concat] in *. destruct (render_word true i) as [|c w]; [destruct F|]. cbn [app] in *.
  unfold sanitize_keywords in *. destruct (existsb _ keywords); unfold go_ident; cbn [app] in *; rewrite C, F; reflexivity.
Qed.
