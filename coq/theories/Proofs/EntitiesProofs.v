(** C20: index bookkeeping of [_entities]: every representation belongs to exactly one task, tasks write only
    their own indices, any schedule of the tasks gives the sequential result, and the element of a
    single-resolver type is a function of its own representation. *)
From GV Require Import Base.Prelude Base.Interleave Model.Entities.
Open Scope list_scope.
Open Scope nat_scope.

(** ---- order-preserving sublists ---- *)
Inductive sublist {A} : list A -> list A -> Prop :=
| sl_nil : sublist [] []
| sl_skip x l1 l2 : sublist l1 l2 -> sublist l1 (x :: l2)
| sl_keep x l1 l2 : sublist l1 l2 -> sublist (x :: l1) (x :: l2).

Lemma sublist_nil_l {A} (l : list A) : sublist [] l.
Proof. induction l; constructor; assumption. Qed.
Lemma sublist_refl {A} (l : list A) : sublist l l.
Proof. induction l; constructor; assumption. Qed.
Lemma sublist_in {A} (l1 l2 : list A) x : sublist l1 l2 -> In x l1 -> In x l2.
Proof. induction 1; cbn; intuition. Qed.
Lemma sublist_app {A} (a1 a2 b1 b2 : list A) : sublist a1 a2 -> sublist b1 b2 -> sublist (a1 ++ b1) (a2 ++ b2).
Proof.
  induction 1 as [|x l1 l2 H IH|x l1 l2 H IH]; cbn; intros Hb; [exact Hb|apply sl_skip; auto|apply sl_keep; auto].
Qed.
Lemma sublist_nodup {A} (l1 l2 : list A) : sublist l1 l2 -> NoDup l2 -> NoDup l1.
Proof.
  induction 1 as [|x l1 l2 H IH|x l1 l2 H IH]; intros ND; [constructor| |].
  - inversion ND; auto.
  - inversion ND as [|? ? Hn ND']; subst. constructor; [|auto]. intros Hin. apply Hn. eapply sublist_in; eauto.
Qed.
Lemma sublist_single {A} (l : list A) x : l = [] \/ l = [x] -> sublist l [x].
Proof. intros [->| ->]; [apply sl_skip, sl_nil|apply sl_keep, sl_nil]. Qed.

(** ---- projections of a trace ---- *)
Definition writes (tr : list act) : list (nat * elem) := flat_map (fun a => match a with AWrite i e => [(i, e)] | _ => [] end) tr.
Definition errs_of (tr : list act) : list ecls := flat_map (fun a => match a with AErr c => [c] | _ => [] end) tr.
Definition calls_of (tr : list act) : list string := flat_map (fun a => match a with ACall e => [e] | _ => [] end) tr.
Definition W (tr : list act) : list nat := map fst (writes tr).

Lemma writes_app a b : writes (a ++ b) = writes a ++ writes b. Proof. apply flat_map_app. Qed.
Lemma errs_app a b : errs_of (a ++ b) = errs_of a ++ errs_of b. Proof. apply flat_map_app. Qed.
Lemma calls_app a b : calls_of (a ++ b) = calls_of a ++ calls_of b. Proof. apply flat_map_app. Qed.
Lemma W_app a b : W (a ++ b) = W a ++ W b. Proof. unfold W. now rewrite writes_app, map_app. Qed.
Lemma writes_calls l : writes (map ACall l) = []. Proof. induction l; [reflexivity|exact IHl]. Qed.
Lemma W_calls l : W (map ACall l) = []. Proof. unfold W. now rewrite writes_calls. Qed.

Lemma run_acts_gen tr : forall s,
  st_slots (fold_left apply_act tr s) = rev (writes tr) ++ st_slots s
  /\ st_errs (fold_left apply_act tr s) = st_errs s ++ errs_of tr
  /\ st_calls (fold_left apply_act tr s) = st_calls s ++ calls_of tr.
Proof.
  induction tr as [|a r IH]; intros s; cbn [fold_left].
  - cbn. now rewrite !app_nil_r.
  - destruct (IH (apply_act s a)) as [H1 [H2 H3]]. rewrite H1, H2, H3.
    destruct a; cbn [apply_act st_slots st_errs st_calls writes errs_of calls_of flat_map app].
    + fold (writes r) (errs_of r) (calls_of r). cbn [rev]. rewrite <- app_assoc. cbn. auto.
    + fold (writes r) (errs_of r) (calls_of r). rewrite <- app_assoc. auto.
    + fold (writes r) (errs_of r) (calls_of r). rewrite <- app_assoc. auto.
Qed.

Lemma projections_perm t1 t2 : Permutation t1 t2 ->
  Permutation (writes t1) (writes t2) /\ Permutation (errs_of t1) (errs_of t2) /\ Permutation (calls_of t1) (calls_of t2).
Proof.
  intros H. unfold writes, errs_of, calls_of.
  repeat split; (induction H; cbn; [reflexivity|apply Permutation_app_head; assumption
                                   |rewrite !app_assoc; apply Permutation_app_tail, Permutation_app_comm
                                   |etransitivity; eassumption]).
Qed.

(** reading a slot: the unique write to it, or nil *)
Lemma slot_in sl i e : NoDup (map fst sl) -> In (i, e) sl -> slot sl i = e.
Proof.
  induction sl as [|[j x] r IH]; [intros _ []|]. cbn [map fst slot]. intros ND [Heq|Hin].
  - inversion Heq; subst. now rewrite Nat.eqb_refl.
  - inversion ND as [|? ? Hn ND']; subst. destruct (Nat.eqb i j) eqn:E; [|auto].
    apply Nat.eqb_eq in E; subst. exfalso. apply Hn. change j with (fst (j, e)). now apply in_map.
Qed.
Lemma slot_notin sl i : ~ In i (map fst sl) -> slot sl i = ElNull.
Proof.
  induction sl as [|[j x] r IH]; [reflexivity|]. cbn [map fst slot]. intros Hn.
  destruct (Nat.eqb i j) eqn:E; [apply Nat.eqb_eq in E; subst; exfalso; apply Hn; now left|].
  apply IH. intros H. apply Hn. now right.
Qed.

Lemma slot_perm sl1 sl2 : Permutation sl1 sl2 -> NoDup (map fst sl1) -> forall i, slot sl1 i = slot sl2 i.
Proof.
  intros Hp ND i.
  assert (ND2 : NoDup (map fst sl2)) by (eapply Permutation_NoDup; [apply Permutation_map; exact Hp|exact ND]).
  destruct (in_dec Nat.eq_dec i (map fst sl1)) as [Hin|Hn].
  - apply in_map_iff in Hin as [[j e] [Hj Hin]]. cbn in Hj; subst j.
    rewrite (slot_in sl1 i e ND Hin). symmetry. apply slot_in; [exact ND2|]. eapply Permutation_in; eauto.
  - rewrite (slot_notin sl1 i Hn). symmetry. apply slot_notin. intros H. apply Hn.
    eapply Permutation_in; [apply Permutation_map; symmetry; exact Hp|exact H].
Qed.

(** Any interleaving of tasks that write pairwise distinct slots leaves every slot as the sequential schedule
    does, with the same multiset of errors and of resolver calls - after any common prefix [pre] (the errors
    for representations without __typename are appended before the tasks start). *)
Theorem schedule_independent_lemma (pre : list act) (tasks : list (list act)) trace :
  interleave tasks trace ->
  NoDup (W (pre ++ List.concat tasks)) ->
  let s := run_acts (pre ++ trace) in let s0 := run_acts (pre ++ List.concat tasks) in
  (forall i, slot (st_slots s) i = slot (st_slots s0) i)
  /\ Permutation (st_errs s) (st_errs s0) /\ Permutation (st_calls s) (st_calls s0).
Proof.
  intros Hil ND. cbv zeta. unfold run_acts.
  assert (Hp : Permutation (pre ++ trace) (pre ++ List.concat tasks)) by (apply Permutation_app_head, interleave_perm, Hil).
  destruct (run_acts_gen (pre ++ trace) st0) as [S1 [E1 C1]].
  destruct (run_acts_gen (pre ++ List.concat tasks) st0) as [S2 [E2 C2]].
  cbn [st0 st_slots st_errs st_calls app] in *. rewrite app_nil_r in S1, S2.
  destruct (projections_perm _ _ Hp) as [Pw [Pe Pc]].
  repeat split.
  - intros i. rewrite S1, S2. symmetry. apply slot_perm.
    + apply Permutation_rev' . symmetry. exact Pw.
    + unfold W in ND. rewrite map_rev. apply NoDup_rev. exact ND.
  - rewrite E1, E2. exact Pe.
  - rewrite C1, C2. exact Pc.
Qed.

Definition first_rep (reps : list (nat * rep)) : option rep := match reps with [] => None | (_, r) :: _ => Some r end.

(** ---- tasks write only indices they own ---- *)
Lemma W_single_task es o idx tn r : sublist (W (single_task es o idx tn r)) [idx].
Proof.
  unfold single_task. destruct (single_res es o tn r) as [cs e|cs c]; rewrite W_app, W_calls; cbn.
  - apply sublist_refl.
  - repeat constructor.
Qed.

Lemma W_batch_zip tn rq o reps : forall echoes, sublist (W (batch_zip tn rq o reps echoes)) (map fst reps).
Proof.
  induction reps as [|[idx r] rest IH]; intros echoes; cbn [batch_zip map fst].
  - destruct echoes; constructor.
  - destruct echoes as [|echo erest]; [apply sublist_nil_l|].
    destruct (plan_of o echo).
    + destruct (requires_of r rq); [|apply sublist_nil_l]. unfold W; cbn. apply sl_keep. apply IH.
    + destruct rq; [unfold W; cbn; apply sl_keep; apply IH|apply sublist_nil_l].
    + destruct (requires_of r rq); [|apply sublist_nil_l]. unfold W; cbn. apply sl_keep. apply IH.
    + destruct (requires_of r rq); [|apply sublist_nil_l]. unfold W; cbn. apply sl_keep. apply IH.
Qed.

Lemma W_multi_task e o reps : sublist (W (multi_task e o reps)) (map fst reps).
Proof.
  unfold multi_task. destruct reps as [|[i0 r0] rest]; [constructor|].
  destruct (resolver_for (en_resolvers e) r0) as [rs|]; [|apply sublist_nil_l].
  destruct (typed_reps rs ((i0, r0) :: rest)) as [[| |]|echoes]; try apply sublist_nil_l.
  rewrite W_app, W_calls. cbn [app].
  destruct (batch_outcome o echoes); [apply sublist_nil_l|]. apply W_batch_zip.
Qed.

Definition group_idx (g : string * list (nat * rep)) : list nat := map fst (snd g).

Lemma W_group_tasks es o g : sublist (W (List.concat (group_tasks es o g))) (group_idx g).
Proof.
  destruct g as [tn reps]. unfold group_tasks, group_idx; cbn [snd].
  destruct (is_multi es tn).
  - destruct (find_entity es tn); [|apply sublist_nil_l]. cbn [List.concat]. rewrite app_nil_r. apply W_multi_task.
  - induction reps as [|[i r] rest IH]; [constructor|]. cbn [map List.concat fst snd]. rewrite W_app.
    change (i :: map fst rest) with ([i] ++ map fst rest). apply sublist_app; [apply W_single_task|exact IH].
Qed.

Lemma W_all_groups es o gs :
  sublist (W (List.concat (flat_map (group_tasks es o) gs))) (flat_map group_idx gs).
Proof.
  induction gs as [|g r IH]; [constructor|]. cbn [flat_map]. rewrite concat_app, W_app.
  apply sublist_app; [apply W_group_tasks|exact IH].
Qed.

(** ---- grouping partitions the representations that carry a __typename ---- *)
Definition typed_idx (l : list irep) : list nat :=
  flat_map (fun x => match fst (snd x) with Some _ => [fst x] | None => [] end) l.

Lemma add_to_group_idx tn x gs :
  Permutation (flat_map group_idx (add_to_group tn x gs)) (flat_map group_idx gs ++ [fst x]).
Proof.
  induction gs as [|[t l] r IH]; cbn [add_to_group flat_map].
  - unfold group_idx; cbn. reflexivity.
  - destruct (String.eqb t tn); cbn [flat_map].
    + unfold group_idx at 1 3; cbn [snd]. rewrite map_app. cbn [map]. rewrite <- !app_assoc.
      apply Permutation_app_head. apply Permutation_app_comm.
    + rewrite IH. now rewrite app_assoc.
Qed.

Lemma groups_of_idx l : forall gs,
  Permutation (flat_map group_idx (groups_of l gs)) (flat_map group_idx gs ++ typed_idx l).
Proof.
  induction l as [|[i [[tn|] r]] rest IH]; intros gs; cbn [groups_of typed_idx flat_map fst snd].
  - now rewrite app_nil_r.
  - rewrite IH, add_to_group_idx. cbn [fst]. rewrite <- app_assoc. reflexivity.
  - cbn [app]. apply IH.
Qed.

Lemma typed_idx_sub reps : forall k, sublist (typed_idx (index_from k reps)) (seq k (List.length reps)).
Proof.
  induction reps as [|[[tn|] r] rest IH]; intros k; cbn [index_from typed_idx flat_map fst snd List.length seq]; [constructor| |].
  - cbn [app]. apply sl_keep. apply IH.
  - cbn [app]. apply sl_skip. apply IH.
Qed.

(** Every representation with a __typename is in exactly one group, under its own index. *)
Theorem groups_partition_lemma reps :
  Permutation (flat_map group_idx (groups_of (index_from 0 reps) [])) (typed_idx (index_from 0 reps))
  /\ NoDup (typed_idx (index_from 0 reps)).
Proof.
  split; [apply (groups_of_idx _ [])|].
  eapply sublist_nodup; [apply typed_idx_sub|apply seq_NoDup].
Qed.

Lemma W_no_typename l : W (no_typename_errors l) = [].
Proof.
  unfold no_typename_errors, W. induction l as [|[i [[tn|] r]] rest IH]; cbn; auto.
Qed.

(** The tasks of a request write pairwise distinct indices. *)
Theorem tasks_disjoint_lemma es o reps :
  NoDup (W (no_typename_errors (index_from 0 reps) ++ List.concat (all_tasks es o reps))).
Proof.
  rewrite W_app, W_no_typename. cbn [app]. unfold all_tasks.
  eapply sublist_nodup; [apply W_all_groups|].
  destruct (groups_partition_lemma reps) as [Hp ND].
  eapply Permutation_NoDup; [symmetry; exact Hp|exact ND].
Qed.

(** ---- element i of a type with per-entity resolvers is a function of representation i ---- *)
Lemma add_to_group_keeps tn x gs t l y :
  In (t, l) gs -> In y l -> exists l', In (t, l') (add_to_group tn x gs) /\ In y l'.
Proof.
  induction gs as [|[t0 l0] r IH]; [intros []|]. cbn [add_to_group]. intros Hin Hy.
  destruct (String.eqb t0 tn) eqn:E.
  - destruct Hin as [Heq|Hin].
    + inversion Heq; subst. exists (l ++ [x]). split; [now left|apply in_or_app; now left].
    + exists l. split; [now right|assumption].
  - destruct Hin as [Heq|Hin].
    + inversion Heq; subst. exists l. split; [now left|assumption].
    + destruct (IH Hin Hy) as [l' [H1 H2]]. exists l'. split; [now right|assumption].
Qed.

Lemma add_to_group_has tn x gs : exists l, In (tn, l) (add_to_group tn x gs) /\ In x l.
Proof.
  induction gs as [|[t0 l0] r IH]; cbn [add_to_group].
  - exists [x]. split; now left.
  - destruct (String.eqb t0 tn) eqn:E.
    + apply String.eqb_eq in E; subst. exists (l0 ++ [x]). split; [now left|apply in_or_app; right; now left].
    + destruct IH as [l [H1 H2]]. exists l. split; [now right|assumption].
Qed.

Lemma groups_of_keeps l : forall gs t g y, In (t, g) gs -> In y g -> exists g', In (t, g') (groups_of l gs) /\ In y g'.
Proof.
  induction l as [|[i [[tn|] r]] rest IH]; intros gs t g y Hin Hy; cbn [groups_of]; eauto.
  destruct (add_to_group_keeps tn (i, r) gs t g y Hin Hy) as [g' [H1 H2]]. eauto.
Qed.

Lemma groups_of_has l : forall gs i tn r, In (i, (Some tn, r)) l -> exists g, In (tn, g) (groups_of l gs) /\ In (i, r) g.
Proof.
  induction l as [|[j [[t|] r0]] rest IH]; intros gs i tn r; [intros []| |]; cbn [groups_of]; intros [Heq|Hin]; eauto.
  - inversion Heq; subst. destruct (add_to_group_has tn (i, r) gs) as [g [H1 H2]].
    eapply groups_of_keeps; eauto.
  - discriminate.
Qed.

Lemma index_from_nth reps : forall k i x, nth_error reps i = Some x -> In (k + i, x) (index_from k reps).
Proof.
  induction reps as [|y rest IH]; intros k i x; destruct i; cbn [nth_error index_from]; try discriminate.
  - intros H; inversion H; subst. rewrite Nat.add_0_r. now left.
  - intros H. right. replace (k + S i) with (S k + i) by lia. now apply IH.
Qed.

Lemma index_from_fst reps : forall k, map fst (index_from k reps) = seq k (List.length reps).
Proof. induction reps as [|y rest IH]; intros k; cbn; [reflexivity|]. now rewrite IH. Qed.

(** The task of representation i is one of the request's tasks. *)
Lemma single_task_in es o reps i tn r :
  nth_error reps i = Some (Some tn, r) -> is_multi es tn = false ->
  In (single_task es o i tn r) (all_tasks es o reps).
Proof.
  intros Hn Hm. unfold all_tasks. apply in_flat_map.
  destruct (groups_of_has (index_from 0 reps) [] i tn r (index_from_nth reps 0 i _ Hn)) as [g [Hg Hi]].
  exists (tn, g). split; [exact Hg|]. unfold group_tasks. rewrite Hm.
  apply in_map_iff. exists (i, r). split; [reflexivity|exact Hi].
Qed.

Lemma W_concat_in (ts : list (list act)) t i : In t ts -> In i (W t) -> In i (W (List.concat ts)).
Proof.
  induction ts as [|x r IH]; [intros []|]. cbn [List.concat]. rewrite W_app. intros [->|Hin] Hi; apply in_or_app; auto.
Qed.

Lemma NoDup_app_disjoint {A} (a b : list A) x : NoDup (a ++ b) -> In x a -> ~ In x b.
Proof.
  induction a as [|y a IH]; [intros _ []|]. cbn. intros ND [->|Hin] Hb.
  - inversion ND as [|? ? Hn _]; subst. apply Hn. apply in_or_app. now right.
  - inversion ND; subst. eapply IH; eauto.
Qed.

Lemma NoDup_app_remove_l {A} (a b : list A) : NoDup (a ++ b) -> NoDup b.
Proof. induction a as [|x a IH]; cbn; [auto|]. intros ND. inversion ND; auto. Qed.
Lemma NoDup_app_remove_r {A} (a b : list A) : NoDup (a ++ b) -> NoDup a.
Proof.
  induction a as [|x a IH]; cbn; [constructor|]. intros ND. inversion ND as [|? ? Hn ND']; subst.
  constructor; [|auto]. intros H. apply Hn. apply in_or_app. now left.
Qed.

(** blocks that write only what they own, with pairwise disjoint ownership: an owned index is written by its
    owner or by nobody *)
Lemma owner_writes {B} (w own : B -> list nat) (bs : list B) b i :
  (forall x, sublist (w x) (own x)) -> NoDup (flat_map own bs) -> In b bs -> In i (own b) ->
  In i (flat_map w bs) -> In i (w b).
Proof.
  intros Hsub ND Hb Hi Hin. destruct (in_split _ _ Hb) as [pre [post ->]].
  rewrite flat_map_app in Hin, ND. cbn [flat_map] in Hin, ND.
  apply in_app_or in Hin as [Hin|Hin].
  - exfalso. apply in_flat_map in Hin as [x [Hx Hix]].
    apply (NoDup_app_disjoint _ _ i ND).
    + apply in_flat_map. exists x. split; [exact Hx|]. eapply sublist_in; [apply Hsub|exact Hix].
    + apply in_or_app. now left.
  - apply in_app_or in Hin as [Hin|Hin]; [exact Hin|exfalso].
    apply in_flat_map in Hin as [x [Hx Hix]].
    apply NoDup_app_remove_l in ND. apply (NoDup_app_disjoint _ _ i ND); [exact Hi|].
    apply in_flat_map. exists x. split; [exact Hx|]. eapply sublist_in; [apply Hsub|exact Hix].
Qed.

Lemma NoDup_flat_map_in {B} (own : B -> list nat) bs b : NoDup (flat_map own bs) -> In b bs -> NoDup (own b).
Proof.
  intros ND Hb. destruct (in_split _ _ Hb) as [pre [post ->]]. rewrite flat_map_app in ND. cbn [flat_map] in ND.
  apply NoDup_app_remove_l in ND. apply NoDup_app_remove_r in ND. exact ND.
Qed.

Lemma W_concat_flat_map {B} (f : B -> list (list act)) bs :
  W (List.concat (flat_map f bs)) = flat_map (fun b => W (List.concat (f b))) bs.
Proof. induction bs as [|b r IH]; [reflexivity|]. cbn [flat_map]. now rewrite concat_app, W_app, IH. Qed.
Lemma W_concat_map {B} (f : B -> list act) l : W (List.concat (map f l)) = flat_map (fun x => W (f x)) l.
Proof. induction l as [|x r IH]; [reflexivity|]. cbn [map List.concat flat_map]. now rewrite W_app, IH. Qed.

(** index i is written by the task of representation i or by nobody *)
Lemma only_own_task_writes es o reps i tn r :
  nth_error reps i = Some (Some tn, r) -> is_multi es tn = false ->
  In i (W (List.concat (all_tasks es o reps))) -> In i (W (single_task es o i tn r)).
Proof.
  intros Hn Hm Hin. unfold all_tasks in Hin. rewrite W_concat_flat_map in Hin.
  destruct (groups_of_has (index_from 0 reps) [] i tn r (index_from_nth reps 0 i _ Hn)) as [g [Hg Hi]].
  destruct (groups_partition_lemma reps) as [Hp NDt].
  assert (NDg : NoDup (flat_map group_idx (groups_of (index_from 0 reps) []))).
  { eapply Permutation_NoDup; [symmetry; exact Hp|exact NDt]. }
  assert (Hig : In i (group_idx (tn, g))).
  { unfold group_idx; cbn [snd]. change i with (fst (i, r)). now apply in_map. }
  pose proof (owner_writes (fun b => W (List.concat (group_tasks es o b))) group_idx _ (tn, g) i
                           (W_group_tasks es o) NDg Hg Hig Hin) as Hgw.
  unfold group_tasks in Hgw. rewrite Hm, W_concat_map in Hgw.
  pose proof (NoDup_flat_map_in group_idx _ _ NDg Hg) as NDi. unfold group_idx in NDi; cbn [snd] in NDi.
  assert (NDi' : NoDup (flat_map (fun x : nat * rep => [fst x]) g)).
  { assert (E : flat_map (fun x : nat * rep => [fst x]) g = map fst g).
    { clear. induction g as [|x g IH]; cbn; [reflexivity|]. now rewrite IH. }
    rewrite E. exact NDi. }
  apply (owner_writes (fun x => W (single_task es o (fst x) tn (snd x))) (fun x => [fst x]) g (i, r) i
                      (fun x => W_single_task es o (fst x) tn (snd x)) NDi' Hi (or_introl eq_refl) Hgw).
Qed.

Lemma W_single_task_cases es o idx tn r :
  match single_res es o tn r with
  | SWrite _ e => writes (single_task es o idx tn r) = [(idx, e)]
  | SFail _ _ => writes (single_task es o idx tn r) = []
  end.
Proof.
  unfold single_task. destruct (single_res es o tn r) as [cs e|cs c]; now rewrite writes_app, writes_calls.
Qed.

Lemma writes_concat_in (ts : list (list act)) t x : In t ts -> In x (writes t) -> In x (writes (List.concat ts)).
Proof.
  induction ts as [|y r IH]; [intros []|]. cbn [List.concat]. rewrite writes_app. intros [->|Hin] Hi; apply in_or_app; auto.
Qed.

(** For every schedule of the request's tasks: element i, for a representation whose type has per-entity
    resolvers (or is unknown), is [spec_single] of that representation - a function of representation i alone
    and of the oracle at the call its own keys lead to. *)
Theorem single_by_index_lemma es o reps trace i tn r :
  nth_error reps i = Some (Some tn, r) -> is_multi es tn = false ->
  interleave (all_tasks es o reps) trace ->
  slot (st_slots (run_acts (no_typename_errors (index_from 0 reps) ++ trace))) i = spec_single es o tn r.
Proof.
  intros Hn Hm Hil.
  pose proof (tasks_disjoint_lemma es o reps) as ND.
  destruct (schedule_independent_lemma _ _ _ Hil ND) as [Hslot _]. cbv zeta in Hslot. rewrite Hslot. clear Hslot.
  unfold run_acts. destruct (run_acts_gen (no_typename_errors (index_from 0 reps) ++ List.concat (all_tasks es o reps)) st0) as [S _].
  rewrite S. cbn [st0 st_slots]. rewrite app_nil_r.
  assert (NDr : NoDup (map fst (rev (writes (no_typename_errors (index_from 0 reps) ++ List.concat (all_tasks es o reps)))))).
  { rewrite map_rev. apply NoDup_rev. exact ND. }
  unfold spec_single. pose proof (W_single_task_cases es o i tn r) as Hc.
  destruct (single_res es o tn r) as [cs e|cs c].
  - apply slot_in; [exact NDr|]. apply -> in_rev. rewrite writes_app. apply in_or_app. right.
    eapply writes_concat_in; [apply single_task_in; eauto|]. rewrite Hc. now left.
  - apply slot_notin. rewrite map_rev. intros Hin. apply in_rev in Hin.
    change (map fst (writes ?t)) with (W t) in Hin. rewrite W_app, W_no_typename in Hin. cbn [app] in Hin.
    apply (only_own_task_writes es o reps i tn r Hn Hm) in Hin. unfold W in Hin. rewrite Hc in Hin. exact Hin.
Qed.

(** Fault isolation: the element does not depend on what the oracle says about any other call. *)
Theorem single_isolated_lemma es o o' tn r :
  (forall e, find_entity es tn = Some e -> forall echo, own_echo e r = Some echo -> plan_of o echo = plan_of o' echo) ->
  spec_single es o tn r = spec_single es o' tn r.
Proof.
  intros H. unfold spec_single, single_res.
  destruct (find_entity es tn) as [e|] eqn:Fe; [|reflexivity].
  specialize (H e eq_refl). unfold own_echo in H.
  destruct (en_multi e); [reflexivity|]. destruct (en_resolvers e) as [|x xs] eqn:Er; [reflexivity|].
  destruct (resolver_for (x :: xs) r) as [rs|]; [|reflexivity].
  destruct (keys_single r (rs_keys rs)) as [keys|]; [|reflexivity].
  cbv zeta. rewrite (H _ eq_refl). reflexivity.
Qed.

(** ---- batch resolvers: whatever is written at an index is the entity of THAT representation under the
    group's resolver, with the required fields of the same representation ---- *)
Lemma typed_reps_length rs reps : forall echoes, typed_reps rs reps = inr echoes -> List.length echoes = List.length reps.
Proof.
  induction reps as [|[i r] rest IH]; intros echoes; cbn [typed_reps].
  - intros H; inversion H; reflexivity.
  - destruct (keys_multi r (rs_keys rs)); try discriminate. destruct (typed_reps rs rest); try discriminate.
    intros H; inversion H; subst. cbn. f_equal. now apply IH.
Qed.

Lemma batch_zip_sound tn rq o rs reps : forall echoes idx e,
  typed_reps rs reps = inr echoes ->
  In (idx, e) (writes (batch_zip tn rq o reps echoes)) ->
  exists r, In (idx, r) reps /\
            match e with
            | ElNull => rq = []
            | ElEntity t echo reqs => t = tn /\ requires_of r rq = Some reqs /\
                                      exists keys, keys_multi r (rs_keys rs) = MKOk keys /\ echo = echo_multi rs keys
            end.
Proof.
  induction reps as [|[i r] rest IH]; intros echoes idx e; cbn [typed_reps batch_zip].
  - intros H; inversion H; subst. intros [].
  - destruct (keys_multi r (rs_keys rs)) as [keys| |] eqn:K; try discriminate.
    destruct (typed_reps rs rest) as [|erest] eqn:T; try discriminate.
    intros H; inversion H; subst; clear H. cbn [batch_zip].
    assert (Hrest : forall x, In x (writes (batch_zip tn rq o rest erest)) -> x = (idx, e) ->
                    exists r0, In (idx, r0) ((i, r) :: rest) /\
                      match e with
                      | ElNull => rq = []
                      | ElEntity t echo reqs => t = tn /\ requires_of r0 rq = Some reqs /\
                          exists keys0, keys_multi r0 (rs_keys rs) = MKOk keys0 /\ echo = echo_multi rs keys0
                      end).
    { intros x Hx ->. destruct (IH erest idx e eq_refl Hx) as [r0 [H1 H2]]. exists r0. split; [now right|exact H2]. }
    destruct (plan_of o (echo_multi rs keys)) eqn:P.
    + destruct (requires_of r rq) as [reqs|] eqn:R; [|intros []]. cbn [writes flat_map app]. intros [Heq|Hin]; [|eauto].
      inversion Heq; subst. exists r. split; [now left|]. repeat split; eauto.
    + destruct rq as [|q rq']; [|intros []]. cbn [writes flat_map app]. intros [Heq|Hin]; [|eauto].
      inversion Heq; subst. exists r. split; [now left|reflexivity].
    + destruct (requires_of r rq) as [reqs|] eqn:R; [|intros []]. cbn [writes flat_map app]. intros [Heq|Hin]; [|eauto].
      inversion Heq; subst. exists r. split; [now left|]. repeat split; eauto.
    + destruct (requires_of r rq) as [reqs|] eqn:R; [|intros []]. cbn [writes flat_map app]. intros [Heq|Hin]; [|eauto].
      inversion Heq; subst. exists r. split; [now left|]. repeat split; eauto.
Qed.

Theorem multi_writes_sound_lemma e o reps idx el :
  In (idx, el) (writes (multi_task e o reps)) ->
  exists r0 rs r, first_rep reps = Some r0 /\ resolver_for (en_resolvers e) r0 = Some rs /\ In (idx, r) reps /\
    match el with
    | ElNull => en_requires e = []
    | ElEntity t echo reqs => t = en_name e /\ requires_of r (en_requires e) = Some reqs /\
                              exists keys, keys_multi r (rs_keys rs) = MKOk keys /\ echo = echo_multi rs keys
    end.
Proof.
  unfold multi_task, first_rep. destruct reps as [|[i0 r0] rest]; [intros []|].
  destruct (resolver_for (en_resolvers e) r0) as [rs|] eqn:R; [|cbn; intros []].
  destruct (typed_reps rs ((i0, r0) :: rest)) as [[l| |]|echoes] eqn:T; try (cbn; intros []).
  rewrite writes_app, writes_calls. cbn [app].
  destruct (batch_outcome o echoes); [cbn; intros []|].
  intros Hin. destruct (batch_zip_sound _ _ _ rs _ _ _ _ T Hin) as [r [H1 H2]].
  exists r0, rs, r. split; [reflexivity|]. split; [exact R|]. split; [exact H1|exact H2].
Qed.
