(** C16: the client's reconstruction inverts gqlgen's introspection up to the presentation-only normal form. *)
From GV Require Import Base.Prelude Model.Introspect.
Open Scope string_scope.

Lemma desc_roundtrip d : desc_of (opt_desc d) = d.
Proof.
  unfold opt_desc. destruct (String.eqb d "") eqn:E; cbn [desc_of]; [|reflexivity].
  apply String.eqb_eq in E. now subst.
Qed.

Lemma ty_of_named_ref s n : ty_of (named_ref s n) = TyNamed n false.
Proof. unfold named_ref. destruct (find_td (sc_types s) n); reflexivity. Qed.

Lemma ty_roundtrip s t : ty_of (tref_of s t) = t.
Proof.
  induction t as [n nn|e IH nn]; cbn [tref_of].
  - destruct nn; cbn [ty_of]; rewrite ty_of_named_ref; reflexivity.
  - destruct nn; cbn [ty_of]; rewrite IH; reflexivity.
Qed.

Lemma ref_name_named s n : ref_name (named_ref s n) = n.
Proof. unfold ref_name. rewrite ty_of_named_ref. reflexivity. Qed.

Lemma map_ref_name s l : map ref_name (map (named_ref s) l) = l.
Proof. induction l as [|x l IH]; cbn [map]; [reflexivity|]. now rewrite ref_name_named, IH. Qed.

Lemma depr_other_roundtrip d : depr_of (is_dep d) (reason_other fixed d) = norm_depr d.
Proof. destruct d as [[r|]|]; reflexivity. Qed.
Lemma depr_field_roundtrip d : depr_of (is_dep d) (reason_field d) = norm_depr d.
Proof. destruct d as [[r|]|]; reflexivity. Qed.

Lemma inval_roundtrip s a : rebuild_inval (intro_inval fixed s (iv_depr a) a) = norm_inval a.
Proof.
  unfold rebuild_inval, intro_inval, norm_inval; cbn.
  now rewrite desc_roundtrip, ty_roundtrip, depr_other_roundtrip.
Qed.

Lemma invals_roundtrip s l :
  map rebuild_inval (map (fun a => intro_inval fixed s (iv_depr a) a) l) = map norm_inval l.
Proof. induction l as [|a l IH]; cbn [map]; [reflexivity|]. now rewrite inval_roundtrip, IH. Qed.

Lemma field_roundtrip s f : fl_default f = None -> rebuild_field (intro_field fixed s f) = norm_field f.
Proof.
  intros Hd. unfold rebuild_field, intro_field, norm_field; cbn.
  now rewrite desc_roundtrip, ty_roundtrip, depr_field_roundtrip, invals_roundtrip, Hd.
Qed.

Lemma fields_roundtrip s l :
  forallb (fun f => none_b (fl_default f)) l = true ->
  map rebuild_field (map (intro_field fixed s) (filter (fun f => negb (has_dunder (fl_name f)) && (true || negb (is_dep (fl_depr f)))) l))
  = map norm_field (filter (fun f => negb (has_dunder (fl_name f))) l).
Proof.
  rewrite (filter_ext _ (fun f => negb (has_dunder (fl_name f)))) by (intros f; cbn [orb]; apply andb_true_r).
  induction l as [|f l IH]; cbn [forallb filter map]; [reflexivity|].
  intros H. apply andb_true_iff in H as [Hf Hl].
  destruct (negb (has_dunder (fl_name f))); cbn [map]; [|now apply IH].
  rewrite field_roundtrip, (IH Hl); [reflexivity|].
  destruct (fl_default f); [discriminate|reflexivity].
Qed.

Lemma input_roundtrip s f : fl_args f = [] -> rebuild_input (intro_inval fixed s (fl_depr f) (fld_as_inval f)) = norm_field f.
Proof.
  intros Ha. unfold rebuild_input, intro_inval, norm_field, fld_as_inval; cbn.
  now rewrite desc_roundtrip, ty_roundtrip, depr_other_roundtrip, Ha.
Qed.

Lemma inputs_roundtrip s l :
  forallb (fun f => nil_b (fl_args f)) l = true ->
  map rebuild_input (map (fun f => intro_inval fixed s (fl_depr f) (fld_as_inval f)) l) = map norm_field l.
Proof.
  induction l as [|f l IH]; cbn [forallb map]; [reflexivity|].
  intros H. apply andb_true_iff in H as [Hf Hl].
  rewrite input_roundtrip, (IH Hl); [reflexivity|]. destruct (fl_args f); [reflexivity|discriminate].
Qed.

Lemma enums_roundtrip l :
  map rebuild_enum (map (fun e => {| re_name := en_name e; re_desc := opt_desc (en_desc e); re_isdep := is_dep (en_depr e);
                                      re_reason := reason_other fixed (en_depr e) |})
                        (filter (fun e => true || negb (is_dep (en_depr e))) l)) = map norm_enum l.
Proof.
  rewrite (filter_ext _ (fun _ => true)) by reflexivity.
  induction l as [|e l IH]; cbn [filter map]; [reflexivity|].
  rewrite IH. f_equal.
  unfold rebuild_enum, norm_enum; cbn. now rewrite desc_roundtrip, depr_other_roundtrip.
Qed.

Lemma nil_b_true {A} (l : list A) : nil_b l = true -> l = [].
Proof. destruct l; [reflexivity|discriminate]. Qed.
Lemma none_b_true {A} (o : option A) : none_b o = true -> o = None.
Proof. destruct o; [discriminate|reflexivity]. Qed.
Lemma negb_true b : negb b = true -> b = false.
Proof. destruct b; [discriminate|reflexivity]. Qed.

Ltac split_wf H :=
  repeat match type of H with
         | (_ && _)%bool = true => let H1 := fresh "W" in apply andb_true_iff in H as [H H1]
         end.

Lemma type_roundtrip s d : wf_type d = true -> rebuild_type (intro_type fixed s d) = norm_type d.
Proof.
  intros W. unfold wf_type in W.
  destruct d as [k n ds fs ifs ms es sp oo]; cbn [td_kind td_fields td_ifaces td_members td_enums td_oneof td_specified] in W.
  unfold rebuild_type, intro_type, norm_type, intro_fields, intro_inputs, intro_enums, intro_ifaces, possible_names;
    cbn [td_kind td_name td_desc td_fields td_ifaces td_members td_enums td_oneof td_specified
         rt_kind rt_name rt_desc rt_spec rt_fields rt_inputs rt_ifaces rt_enums rt_possible rt_oneof v_iface_ifaces fixed].
  rewrite desc_roundtrip.
  destruct k; split_wf W;
    repeat match goal with
           | H : nil_b _ = true |- _ => apply nil_b_true in H; subst
           | H : none_b _ = true |- _ => apply none_b_true in H; subst
           | H : negb _ = true |- _ => apply negb_true in H; subst
           end; cbn [map filter]; try reflexivity.
  - (* object *) now rewrite fields_roundtrip, map_ref_name by assumption.
  - (* interface *) now rewrite fields_roundtrip, map_ref_name by assumption.
  - (* union *) now rewrite map_ref_name.
  - (* enum *) now rewrite enums_roundtrip.
  - (* input *) now rewrite inputs_roundtrip by assumption.
Qed.

Lemma dir_roundtrip s d : rebuild_dir (intro_dir fixed s d) = norm_dir d.
Proof.
  unfold rebuild_dir, intro_dir, norm_dir; cbn. now rewrite desc_roundtrip, invals_roundtrip.
Qed.

(** sorting commutes with a key-preserving map *)
Section SortMap.
  Context {A B : Type} (ka : A -> string) (kb : B -> string) (f : A -> B).
  Hypothesis key_ok : forall x, kb (f x) = ka x.
  Lemma map_insert x l : map f (insert_by ka x l) = insert_by kb (f x) (map f l).
  Proof.
    induction l as [|y l IH]; cbn [insert_by map]; [reflexivity|].
    rewrite !key_ok. destruct (String.leb (ka x) (ka y)); cbn [map]; [reflexivity|]. now rewrite IH.
  Qed.
  Lemma map_sort l : map f (sort_by ka l) = sort_by kb (map f l).
  Proof. induction l as [|x l IH]; cbn [sort_by map]; [reflexivity|]. now rewrite map_insert, IH. Qed.
End SortMap.

Lemma map_ext_forallb {A B} (p : A -> bool) (f g : A -> B) l :
  forallb p l = true -> (forall x, p x = true -> f x = g x) -> map f l = map g l.
Proof.
  induction l as [|x l IH]; cbn [forallb map]; [reflexivity|].
  intros H E. apply andb_true_iff in H as [Hx Hl]. now rewrite (E x Hx), (IH Hl E).
Qed.

Theorem introspection_roundtrip s : wf_schema s = true -> rebuild (introspect fixed s) = normalise s.
Proof.
  intros W. unfold rebuild, introspect, normalise; cbn.
  rewrite desc_roundtrip. f_equal.
  - rewrite (map_sort rt_name td_name rebuild_type) by reflexivity.
    f_equal. rewrite map_map.
    apply (map_ext_forallb wf_type); [exact W|]. intros d Hd. now apply type_roundtrip.
  - rewrite (map_sort rd_name dd_name rebuild_dir) by reflexivity.
    f_equal. rewrite map_map. apply map_ext. intros d. apply dir_roundtrip.
Qed.

(** Each element's own deprecation status *)
Theorem own_deprecation_args s f :
  map (fun a => (ri_name a, ri_isdep a)) (rf_args (intro_field fixed s f)) = map (fun a => (iv_name a, is_dep (iv_depr a))) (fl_args f).
Proof. unfold intro_field; cbn. rewrite map_map. reflexivity. Qed.

Theorem own_deprecation_field s f : rf_isdep (intro_field fixed s f) = is_dep (fl_depr f).
Proof. reflexivity. Qed.

(** normalisation only reorders, hides the two implicit entry fields and reads the directive's default *)
Lemma norm_type_name d : td_name (norm_type d) = td_name d. Proof. reflexivity. Qed.
Lemma norm_depr_idem d : norm_depr (norm_depr d) = norm_depr d.
Proof. now destruct d as [[?|]|]. Qed.
Lemma norm_field_idem f : norm_field (norm_field f) = norm_field f.
Proof.
  unfold norm_field; cbn. f_equal; [|apply norm_depr_idem].
  rewrite map_map. apply map_ext. intros a. unfold norm_inval; cbn. f_equal. apply norm_depr_idem.
Qed.
Lemma filter_norm_fields l :
  filter (fun f => negb (has_dunder (fl_name f))) (map norm_field l) =
  map norm_field (filter (fun f => negb (has_dunder (fl_name f))) l).
Proof.
  induction l as [|f l IH]; cbn [map filter]; [reflexivity|].
  cbn [norm_field fl_name]. destruct (negb (has_dunder (fl_name f))); cbn [map]; now rewrite IH.
Qed.
Lemma filter_idem {A} (p : A -> bool) l : filter p (filter p l) = filter p l.
Proof.
  induction l as [|x l IH]; cbn [filter]; [reflexivity|].
  destruct (p x) eqn:E; cbn [filter]; rewrite ?E, IH; reflexivity.
Qed.
Lemma normalise_idempotent_types d : norm_type (norm_type d) = norm_type d.
Proof.
  unfold norm_type; cbn. f_equal.
  - destruct (td_kind d); rewrite ?filter_norm_fields, ?filter_idem, map_map;
      apply map_ext; intros f; apply norm_field_idem.
  - rewrite map_map. apply map_ext. intros e. unfold norm_enum; cbn. f_equal. apply norm_depr_idem.
Qed.

(** No reference dangles when every mentioned name is defined (in Go: Kind() never dereferences nil). *)
Section Exists.
  Context {A : Type} (key : A -> string) (p : A -> bool).
  Lemma existsb_insert x l : existsb p (insert_by key x l) = (p x || existsb p l)%bool.
  Proof.
    induction l as [|y l IH]; cbn [insert_by existsb]; [reflexivity|].
    destruct (String.leb (key x) (key y)); cbn [existsb]; [reflexivity|]. rewrite IH.
    destruct (p x), (p y); reflexivity.
  Qed.
  Lemma existsb_sort l : existsb p (sort_by key l) = existsb p l.
  Proof. induction l as [|x l IH]; cbn [sort_by existsb]; [reflexivity|]. now rewrite existsb_insert, IH. Qed.
End Exists.

Lemma existsb_map {A B} (f : A -> B) p l : existsb p (map f l) = existsb (fun x => p (f x)) l.
Proof. induction l as [|x l IH]; cbn [map existsb]; [reflexivity|]. now rewrite IH. Qed.

Lemma existsb_false_forallb {A} (p q : A -> bool) l :
  forallb q l = true -> (forall x, q x = true -> p x = false) -> existsb p l = false.
Proof.
  induction l as [|x l IH]; cbn [forallb existsb]; [reflexivity|].
  intros H E. apply andb_true_iff in H as [Hx Hl]. now rewrite (E x Hx), (IH Hl E).
Qed.

Lemma named_ref_defined s n : defined s n = true -> dangling (named_ref s n) = false.
Proof. unfold defined, named_ref. destruct (find_td (sc_types s) n); [reflexivity|discriminate]. Qed.

Lemma tref_defined s t : defined s (ty_name t) = true -> dangling (tref_of s t) = false.
Proof.
  induction t as [n nn|e IH nn]; cbn [ty_name tref_of]; intros H.
  - destruct nn; cbn [dangling]; now apply named_ref_defined.
  - destruct nn; cbn [dangling]; now apply IH.
Qed.

Lemma inval_closed v s d a : closed_inval s a = true -> dangling_inval (intro_inval v s d a) = false.
Proof. unfold closed_inval, dangling_inval, intro_inval; cbn. apply tref_defined. Qed.

Lemma find_td_in l d : In d l -> exists d', find_td l (td_name d) = Some d'.
Proof.
  induction l as [|x l IH]; [intros []|]. intros [->|Hin]; cbn [find_td].
  - rewrite String.eqb_refl. eauto.
  - destruct (String.eqb (td_name x) (td_name d)); eauto.
Qed.

Lemma forallb_filter_in {A} (p q : A -> bool) l :
  (forall x, In x l -> q x = true) -> forallb q (filter p l) = true.
Proof.
  intros H. apply forallb_forall. intros x Hx. apply filter_In in Hx as [Hx _]. auto.
Qed.

Lemma existsb_sort_id p l : existsb p (sort_by (fun x : string => x) l) = existsb p l.
Proof. apply existsb_sort. Qed.

Lemma type_closed v s d : closed_type s d = true -> dangling_type (intro_type v s d) = false.
Proof.
  unfold closed_type. intros H. apply andb_true_iff in H as [H Hm]. apply andb_true_iff in H as [Hf Hi].
  unfold dangling_type, intro_type; cbn.
  assert (E0 : forall l, forallb (closed_field s) l = true ->
               existsb (fun f => (dangling (rf_type f) || existsb dangling_inval (rf_args f))%bool) (map (intro_field v s) l) = false).
  { intros l Hl. rewrite existsb_map. eapply existsb_false_forallb; [exact Hl|].
    intros f Hc. unfold closed_field in Hc. apply andb_true_iff in Hc as [Ht Ha].
    unfold intro_field; cbn. rewrite (tref_defined _ _ Ht). cbn [orb].
    rewrite existsb_map. eapply existsb_false_forallb; [exact Ha|]. intros a Hc. now apply inval_closed. }
  assert (E1 : existsb (fun f => (dangling (rf_type f) || existsb dangling_inval (rf_args f))%bool) (intro_fields v s true d) = false).
  { unfold intro_fields. destruct (td_kind d); try reflexivity; apply E0; apply forallb_filter_in;
      intros x Hx; eapply forallb_forall in Hf; eauto. }
  assert (E2 : existsb dangling_inval (intro_inputs v s d) = false).
  { unfold intro_inputs. destruct (td_kind d); try reflexivity.
    rewrite existsb_map. eapply existsb_false_forallb; [exact Hf|].
    intros f Hc. unfold closed_field in Hc. apply andb_true_iff in Hc as [Ht _].
    unfold dangling_inval, intro_inval, fld_as_inval; cbn. now apply tref_defined. }
  assert (E3 : existsb dangling (intro_ifaces v s d) = false).
  { unfold intro_ifaces. destruct (td_kind d); try reflexivity; try destruct (v_iface_ifaces v); try reflexivity;
      rewrite existsb_map; (eapply existsb_false_forallb; [exact Hi|]); intros n Hn; now apply named_ref_defined. }
  assert (E4 : existsb dangling (map (named_ref s) (possible_names v s d)) = false).
  { rewrite existsb_map. unfold possible_names. destruct (td_kind d); try reflexivity.
    - rewrite existsb_map.
      apply existsb_false_forallb with (q := fun o => if find_td (sc_types s) (td_name o) then true else false).
      + apply forallb_filter_in. intros x Hx. destruct (find_td_in _ _ Hx) as [d' ->]. reflexivity.
      + intros o Ho. apply named_ref_defined. unfold defined. destruct (find_td (sc_types s) (td_name o)); [reflexivity|discriminate].
    - eapply existsb_false_forallb; [exact Hm|]. intros n Hn. now apply named_ref_defined. }
  now rewrite E1, E2, E3, E4.
Qed.

Theorem no_dangling v s : closed_schema s = true -> dangling_schema (introspect v s) = false.
Proof.
  unfold closed_schema, dangling_schema, introspect; cbn. intros H. apply andb_true_iff in H as [Ht Hd].
  rewrite !existsb_sort, !existsb_map.
  rewrite (existsb_false_forallb _ _ _ Ht (fun d Hc => type_closed v s d Hc)). cbn [orb].
  eapply existsb_false_forallb; [exact Hd|]. intros d Hc. unfold intro_dir; cbn.
  rewrite existsb_map. eapply existsb_false_forallb; [exact Hc|]. intros a Ha. now apply inval_closed.
Qed.

(** possibleTypes of an interface: exactly the object types that declare it *)
Lemma find_td_nodup l o : NoDup (map td_name l) -> In o l -> find_td l (td_name o) = Some o.
Proof.
  induction l as [|x l IH]; [intros _ []|]. cbn [map find_td]. intros ND [->|Hin].
  - now rewrite String.eqb_refl.
  - inversion ND as [|? ? Hnot ND']; subst.
    destruct (String.eqb (td_name x) (td_name o)) eqn:E.
    + apply String.eqb_eq in E. exfalso. apply Hnot. rewrite E. now apply in_map.
    + now apply IH.
Qed.

Theorem possible_of_interface_are_its_objects s d :
  NoDup (map td_name (sc_types s)) -> td_kind d = KIface ->
  rt_possible (intro_type fixed s d) =
  map (fun o => RNamed KObj (td_name o))
      (filter (fun o => match td_kind o with KObj => existsb (String.eqb (td_name d)) (td_ifaces o) | _ => false end) (sc_types s)).
Proof.
  intros ND Hk. unfold intro_type; cbn [rt_possible]. unfold possible_names. rewrite Hk.
  rewrite map_map.
  rewrite (filter_ext _ (fun o => match td_kind o with KObj => existsb (String.eqb (td_name d)) (td_ifaces o) | _ => false end))
    by (intros o; destruct (td_kind o); reflexivity).
  apply map_ext_in. intros o Ho. apply filter_In in Ho as [Hin Hp].
  unfold named_ref. rewrite (find_td_nodup _ _ ND Hin).
  destruct (td_kind o); try discriminate. reflexivity.
Qed.
