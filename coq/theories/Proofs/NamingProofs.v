(** C17 / C18: the name registry never hands one Go name to two keys, and a key keeps its name. *)
From GV Require Import Base.Prelude Model.Naming.
Open Scope string_scope.
Open Scope list_scope.

Section Proofs.
  Variables (to_go to_go_private valid : string -> string) (num : nat -> string).
  Notation gmn := (go_model_name to_go to_go_private valid num).
  Notation run := (run_calls to_go to_go_private valid num).

  Lemma name_exists_in reg n : name_exists reg n = true <-> In n (map snd reg).
  Proof.
    unfold name_exists. rewrite existsb_exists. split.
    - intros [[k v] [Hin E]]. cbn in E. apply String.eqb_eq in E. subst n. change v with (snd (k, v)). now apply in_map.
    - intros H. apply in_map_iff in H as [[k v] [E Hin]]. cbn in E. subst n. exists (k, v). split; [exact Hin|cbn; apply String.eqb_refl].
  Qed.

  Lemma first_free_fresh reg base : forall fuel start n, first_free num reg base start fuel = Some n -> ~ In n (map snd reg).
  Proof.
    induction fuel as [|f IH]; intros start n; cbn [first_free]; [discriminate|].
    destruct (name_exists reg (base ++ num start)) eqn:E; [apply IH|].
    intros H; inversion H; subst. intros Hin. apply name_exists_in in Hin. congruence.
  Qed.

  Lemma pretty_fresh private reg parts : forall i n, pretty to_go to_go_private valid private reg parts i = Some n -> ~ In n (map snd reg).
  Proof.
    induction i as [|j IH]; intros n; cbn [pretty]; [discriminate|].
    match goal with |- context [name_exists reg ?t] => destruct (name_exists reg t) eqn:E end; [apply IH|].
    intros H; inversion H; subst. intros Hin. apply name_exists_in in Hin. congruence.
  Qed.

  Definition inv (reg : registry) : Prop := NoDup (map snd reg) /\ NoDup (map fst reg).

  Lemma lookup_none_notin reg k : lookup reg k = None -> ~ In k (map fst reg).
  Proof.
    induction reg as [|[k' v] r IH]; cbn [lookup map fst]; [intros _ []|].
    destruct (String.eqb k k') eqn:E; [discriminate|]. intros H [Heq|Hin]; [subst; now rewrite String.eqb_refl in E|now apply IH].
  Qed.

  Lemma lookup_in reg k v : lookup reg k = Some v -> In (k, v) reg.
  Proof.
    induction reg as [|[k' v'] r IH]; cbn [lookup]; [discriminate|].
    destruct (String.eqb k k') eqn:E; [intros H; inversion H; subst; apply String.eqb_eq in E; subst; now left|intros H; right; auto].
  Qed.

  (** one call: the invariant is kept; the name returned is the one now registered for the key; an existing
      registration is never changed *)
  Lemma gmn_step reg call reg' n :
    inv reg -> gmn reg call = (reg', Some n) ->
    inv reg' /\ lookup reg' (join_key (snd call)) = Some n /\ (forall k v, lookup reg k = Some v -> lookup reg' k = Some v).
  Proof.
    intros [ND1 ND2] H. destruct call as [private parts]. unfold go_model_name in H. cbn [snd].
    destruct (lookup reg (join_key parts)) as [m|] eqn:L.
    - inversion H; subst. repeat split; auto.
    - assert (Alloc : forall o, (match o with Some x => ((join_key parts, x) :: reg, Some x) | None => (reg, None) end) = (reg', Some n) ->
                      (forall x, o = Some x -> ~ In x (map snd reg)) ->
                      inv reg' /\ lookup reg' (join_key parts) = Some n /\ (forall k v, lookup reg k = Some v -> lookup reg' k = Some v)).
      { intros o Ho Hf. destruct o as [x|]; [|discriminate]. inversion Ho; subst. split; [|split].
        - split; cbn [map fst snd]; constructor; auto. now apply lookup_none_notin.
        - cbn [lookup]. now rewrite String.eqb_refl.
        - intros k v Hk. cbn [lookup]. destruct (String.eqb k (join_key parts)) eqn:E; [|exact Hk].
          apply String.eqb_eq in E. subst. congruence. }
      destruct (negb (name_exists reg (apply_to_go to_go to_go_private private parts))) eqn:E.
      + apply (Alloc (Some (apply_to_go to_go to_go_private private parts)) H). intros x Hx; inversion Hx; subst. apply negb_true_iff in E. intros Hin. apply name_exists_in in Hin. congruence.
      + destruct parts as [|p0 [|p1 ps]].
        * destruct (pretty to_go to_go_private valid private reg [] (List.length (@nil string) - 1)) as [s|] eqn:P.
          -- apply (Alloc (Some s) H). intros x Hx; inversion Hx; subst. eapply pretty_fresh; eauto.
          -- match type of H with (match ?o with _ => _ end) = _ => apply (Alloc o H) end. intros x Hx. eapply first_free_fresh; eauto.
        * match type of H with (match ?o with _ => _ end) = _ => apply (Alloc o H) end. intros x Hx. eapply first_free_fresh; eauto.
        * destruct (pretty to_go to_go_private valid private reg (p0 :: p1 :: ps) (List.length (p0 :: p1 :: ps) - 1)) as [s|] eqn:P.
          -- apply (Alloc (Some s) H). intros x Hx; inversion Hx; subst. eapply pretty_fresh; eauto.
          -- match type of H with (match ?o with _ => _ end) = _ => apply (Alloc o H) end. intros x Hx. eapply first_free_fresh; eauto.
  Qed.

  Lemma gmn_none_unchanged reg call reg' : gmn reg call = (reg', None) -> reg' = reg.
  Proof.
    destruct call as [private parts]. unfold go_model_name.
    destruct (lookup reg (join_key parts)); [intros H; now inversion H|].
    assert (A : forall o, (match o with Some x => ((join_key parts, x) :: reg, Some x) | None => (reg, None) end) = (reg', None) -> reg' = reg).
    { intros [x|] H; inversion H; reflexivity. }
    destruct (negb _); [intros H; inversion H|].
    destruct parts as [|p0 [|p1 ps]].
    - destruct (pretty _ _ _ _ _ _ _) as [s|]; [intros H; inversion H|]. intros H. match type of H with (match ?o with _ => _ end) = _ => apply (A o H) end.
    - intros H. match type of H with (match ?o with _ => _ end) = _ => apply (A o H) end.
    - destruct (pretty _ _ _ _ _ _ _) as [s|]; [intros H; inversion H|]. intros H. match type of H with (match ?o with _ => _ end) = _ => apply (A o H) end.
  Qed.

  (** Over every history of calls from the empty registry: the registered names are pairwise distinct and so are
      the keys. *)
  Theorem registry_injective_lemma calls : forall reg, inv reg -> inv (fst (run reg calls)).
  Proof.
    induction calls as [|c r IH]; intros reg I; cbn [run_calls]; [exact I|].
    destruct (gmn reg c) as [reg1 [n|]] eqn:G.
    - destruct (gmn_step _ _ _ _ I G) as [I1 _]. specialize (IH reg1 I1). destruct (run reg1 r). exact IH.
    - apply gmn_none_unchanged in G. subst. specialize (IH reg I). destruct (run reg r). exact IH.
  Qed.

  (** two keys that both have a name have different names *)
  Theorem distinct_keys_distinct_names_lemma reg k1 k2 n1 n2 :
    inv reg -> lookup reg k1 = Some n1 -> lookup reg k2 = Some n2 -> k1 <> k2 -> n1 <> n2.
  Proof.
    intros [ND _] L1 L2 Hk Hn. subst n2. apply lookup_in in L1. apply lookup_in in L2.
    clear -ND L1 L2 Hk. induction reg as [|[k v] r IH]; [destruct L1|].
    cbn [map snd] in ND. inversion ND as [|? ? Hnot ND']; subst.
    destruct L1 as [E1|I1]; destruct L2 as [E2|I2].
    - inversion E1; inversion E2; subst. now elim Hk.
    - inversion E1; subst. apply Hnot. change n1 with (snd (k2, n1)). now apply in_map.
    - inversion E2; subst. apply Hnot. change n1 with (snd (k1, n1)). now apply in_map.
    - now apply IH.
  Qed.

  (** a key keeps its name through every later history *)
  Theorem name_stable_lemma calls : forall reg k v, inv reg -> lookup reg k = Some v -> lookup (fst (run reg calls)) k = Some v.
  Proof.
    induction calls as [|c r IH]; intros reg k v I L; cbn [run_calls]; [exact L|].
    destruct (gmn reg c) as [reg1 [n|]] eqn:G.
    - destruct (gmn_step _ _ _ _ I G) as [I1 [_ Keep]]. specialize (IH reg1 k v I1 (Keep _ _ L)). destruct (run reg1 r). exact IH.
    - apply gmn_none_unchanged in G. subst. specialize (IH reg k v I L). destruct (run reg r). exact IH.
  Qed.

  (** numbering never runs out: among length reg + 1 different candidates one is free *)
  Hypothesis num_injective : forall i j, num i = num j -> i = j.

  Lemma append_inj_l (a b c : string) : (a ++ b)%string = (a ++ c)%string -> b = c.
  Proof. induction a as [|x a IH]; cbn; [auto|]. intros H; inversion H; auto. Qed.

  Lemma first_free_none_all reg base : forall fuel start,
    first_free num reg base start fuel = None -> forall i, (i < fuel)%nat -> In (base ++ num (start + i))%string (map snd reg).
  Proof.
    induction fuel as [|f IH]; intros start H i Hi; [lia|]. cbn [first_free] in H.
    destruct (name_exists reg (base ++ num start)%string) eqn:E; [|discriminate].
    destruct i as [|i].
    - rewrite Nat.add_0_r. now apply name_exists_in.
    - replace (start + S i)%nat with (S start + i)%nat by lia. apply IH; [exact H|lia].
  Qed.

  Theorem numbering_total_lemma reg base : first_free num reg base 0 (S (List.length reg)) <> None.
  Proof.
    intros H. pose proof (first_free_none_all reg base _ 0 H) as All.
    set (cands := map (fun i => (base ++ num i)%string) (seq 0 (S (List.length reg)))).
    assert (ND : NoDup cands).
    { unfold cands. generalize (seq_NoDup (S (List.length reg)) 0). generalize (seq 0 (S (List.length reg))).
      induction l as [|i l IHl]; intros NDl; cbn [map]; [constructor|]. inversion NDl as [|? ? Hni NDl']; subst.
      constructor; [|auto]. intros Hin. apply in_map_iff in Hin as [j [E Hj]].
      apply append_inj_l in E. apply num_injective in E. subst. contradiction. }
    assert (Incl : incl cands (map snd reg)).
    { intros x Hx. unfold cands in Hx. apply in_map_iff in Hx as [i [<- Hi]]. apply in_seq in Hi. apply (All i). lia. }
    pose proof (NoDup_incl_length ND Incl) as Len. unfold cands in Len. rewrite map_length, seq_length, map_length in Len. lia.
  Qed.
End Proofs.
