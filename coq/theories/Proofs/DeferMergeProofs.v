(** C13: one object whose fields are split into an initial payload (null placeholders for the deferred keys) and one
    payload per label: merging the group payloads into the initial object, in ANY order (and even repeatedly), gives
    the object a plain execution returns. *)
From GV Require Import Base.Prelude Model.Exec Model.Defer.
Open Scope string_scope.
Open Scope list_scope.

Lemma set_key_as_map l k v :
  NoDup (map fst l) -> In k (map fst l) ->
  set_key l k v = map (fun kv => if String.eqb k (fst kv) then (fst kv, v) else kv) l.
Proof.
  induction l as [|[k' v'] l IH]; [intros _ []|]. cbn [map fst set_key]. intros N Hin. inversion N as [|? ? Hk N']; subst.
  destruct (String.eqb k k') eqn:E.
  - apply String.eqb_eq in E. subst k'. f_equal. symmetry. rewrite <- (map_id l) at 2. apply map_ext_in. intros [k2 v2] H2. cbn [fst].
    destruct (String.eqb k k2) eqn:E2; [|reflexivity]. apply String.eqb_eq in E2. subst k2. exfalso. apply Hk. apply in_map_iff. now exists (k, v2).
  - f_equal. apply IH; [exact N'|]. destruct Hin as [H|H]; [subst; rewrite String.eqb_refl in E; discriminate|exact H].
Qed.

Section OneObject.
  Variable mark : string -> option string.          (* the label of the group a key is deferred into, if any *)
  Variable fields : list (string * jt).             (* the object a plain execution returns *)
  Hypothesis keys_unique : NoDup (map fst fields).  (* response keys of one object are unique (C01_collect_keys_unique) *)

  Definition in_group (lab : string) (kv : string * jt) : bool :=
    match mark (fst kv) with Some l => String.eqb l lab | None => false end.
  Definition initial_obj : list (string * jt) :=
    map (fun kv => (fst kv, match mark (fst kv) with Some _ => TNull | None => snd kv end)) fields.
  Definition group_obj (lab : string) : list (string * jt) := filter (in_group lab) fields.
  Definition merge_keys (acc patch : list (string * jt)) : list (string * jt) :=
    fold_left (fun a kv => set_key a (fst kv) (snd kv)) patch acc.
  Definition memk (k : string) (q : list (string * jt)) : bool := existsb (fun x => String.eqb k (fst x)) q.

  (** the object after the groups in [done] have been delivered *)
  Definition partial_val (done : list string) (kv : string * jt) : string * jt :=
    (fst kv, match mark (fst kv) with
             | Some l => if existsb (String.eqb l) done then snd kv else TNull
             | None => snd kv end).

  Lemma merge_sub q : forall h,
    (forall x, In x q -> In x fields) -> (forall kv, fst (h kv) = fst kv) ->
    merge_keys (map h fields) q = map (fun kv => if memk (fst kv) q then kv else h kv) fields.
  Proof.
    induction q as [|x q IH]; intros h Hq Hh; [reflexivity|]. unfold merge_keys. cbn [fold_left].
    rewrite set_key_as_map.
    - rewrite map_map. fold (merge_keys (map (fun kv => if String.eqb (fst x) (fst (h kv)) then (fst (h kv), snd x) else h kv) fields) q).
      rewrite IH.
      + apply map_ext_in. intros kv Hkv. cbn [memk existsb]. rewrite Hh. rewrite (String.eqb_sym (fst kv) (fst x)).
        destruct (String.eqb (fst x) (fst kv)) eqn:E; cbn [orb].
        * apply String.eqb_eq in E. assert (kv = x) as ->.
          { clear -keys_unique Hkv Hq E. assert (In x fields) as Hx by (apply Hq; now left). clear Hq.
            induction fields as [|y l IHl]; [destruct Hx|]. cbn [map] in keys_unique. inversion keys_unique as [|? ? Hn N']; subst.
            destruct Hkv as [->|Hkv], Hx as [->|Hx]; [reflexivity| | |now apply IHl].
            - exfalso. apply Hn. apply in_map_iff. exists x. now split.
            - exfalso. apply Hn. apply in_map_iff. exists kv. now split. }
          destruct (memk (fst x) q); [reflexivity|]. now destruct x.
        * reflexivity.
      + intros y Hy. apply Hq. now right.
      + intros kv. rewrite Hh. destruct (String.eqb (fst x) (fst kv)); [reflexivity|apply Hh].
    - rewrite map_map. erewrite map_ext; [exact keys_unique|]. intros kv. apply Hh.
    - rewrite map_map. erewrite map_ext; [|intros kv; apply Hh]. apply in_map. apply Hq. now left.
  Qed.

  Lemma memk_group lab kv : In kv fields -> memk (fst kv) (group_obj lab) = in_group lab kv.
  Proof.
    intros Hkv. unfold memk, group_obj. destruct (in_group lab kv) eqn:G.
    - apply existsb_exists. exists kv. split; [apply filter_In; now split|apply String.eqb_refl].
    - destruct (existsb _ _) eqn:E; [|reflexivity]. apply existsb_exists in E as (x & Hx & Ex). apply filter_In in Hx as [_ Gx].
      apply String.eqb_eq in Ex. unfold in_group in *. rewrite <- Ex in Gx. congruence.
  Qed.

  Lemma step_group done lab :
    merge_keys (map (partial_val done) fields) (group_obj lab) = map (partial_val (lab :: done)) fields.
  Proof.
    rewrite merge_sub; [|intros x Hx; now apply filter_In in Hx|reflexivity].
    apply map_ext_in. intros kv Hkv. rewrite (memk_group lab kv Hkv). unfold in_group, partial_val. cbn [existsb].
    destruct (mark (fst kv)) as [l|]; [|now destruct kv]. destruct (String.eqb l lab) eqn:E; cbn [orb]; [now destruct kv|reflexivity].
  Qed.

  Lemma fold_groups order : forall done,
    fold_left (fun acc lab => merge_keys acc (group_obj lab)) order (map (partial_val done) fields)
    = map (partial_val (rev order ++ done)) fields.
  Proof.
    induction order as [|lab order' IH]; intros done; [reflexivity|]. cbn [fold_left rev]. rewrite step_group, IH. now rewrite <- app_assoc.
  Qed.

  (** any delivery order of the groups, repetitions allowed, as long as every group arrives *)
  Theorem flat_groups_merge_lemma (order : list string) :
    (forall kv l, In kv fields -> mark (fst kv) = Some l -> In l order) ->
    fold_left (fun acc lab => merge_keys acc (group_obj lab)) order initial_obj = fields.
  Proof.
    intros Cover. replace initial_obj with (map (partial_val []) fields) by reflexivity.
    rewrite fold_groups, app_nil_r. rewrite <- (map_id fields) at 2. apply map_ext_in. intros kv Hkv. unfold partial_val.
    destruct (mark (fst kv)) as [l|] eqn:M; [|now destruct kv].
    assert (existsb (String.eqb l) (rev order) = true) as ->; [|now destruct kv].
    apply existsb_exists. exists l. split; [|apply String.eqb_refl]. apply in_rev. rewrite rev_involutive. exact (Cover kv l Hkv M).
  Qed.

  (** and before they have all arrived the object holds exactly the delivered groups, placeholders elsewhere *)
  Theorem partial_delivery_lemma (order : list string) :
    fold_left (fun acc lab => merge_keys acc (group_obj lab)) order initial_obj = map (partial_val (rev order)) fields.
  Proof. replace initial_obj with (map (partial_val []) fields) by reflexivity. now rewrite fold_groups, app_nil_r. Qed.
End OneObject.

(** the same in terms of the client's merge of the delivery model *)
Lemma fold_obj_merge (g : string -> list (string * jt)) order : forall a,
  fold_left (fun acc lab => obj_merge acc (TObj (g lab))) order (TObj a)
  = TObj (fold_left (fun acc lab => merge_keys acc (g lab)) order a).
Proof. induction order as [|lab order IH]; intros a; [reflexivity|]. cbn [fold_left obj_merge]. apply IH. Qed.

Theorem groups_of_one_object_any_order_lemma mark fields order :
  NoDup (map fst fields) ->
  (forall kv l, In kv fields -> mark (fst kv) = Some l -> In l order) ->
  fold_left (fun acc lab => obj_merge acc (TObj (group_obj mark fields lab))) order (TObj (initial_obj mark fields)) = TObj fields.
Proof. intros N C. rewrite fold_obj_merge. f_equal. now apply flat_groups_merge_lemma. Qed.

(** groups that failed deliver null and leave their placeholders: the object holds the keys of exactly the groups that
    arrived alive, null everywhere else in a deferred position - which is what the content function prescribes for a
    dead group (propagation stops at the object) *)
Definition group_payload mark fields (p : string * bool) : jt := if snd p then TObj (group_obj mark fields (fst p)) else TNull.

Theorem groups_with_failures_lemma mark fields (order : list (string * bool)) :
  NoDup (map fst fields) ->
  fold_left (fun acc p => obj_merge acc (group_payload mark fields p)) order (TObj (initial_obj mark fields))
  = TObj (map (partial_val mark (rev (map fst (filter snd order)))) fields).
Proof.
  intros N.
  assert (forall done, fold_left (fun acc p => obj_merge acc (group_payload mark fields p)) order (TObj (map (partial_val mark done) fields))
                       = TObj (map (partial_val mark (rev (map fst (filter snd order)) ++ done)) fields)) as G.
  { induction order as [|[lab alive] order IH]; intros done; [reflexivity|]. cbn [fold_left filter snd].
    destruct alive; cbn [group_payload snd fst obj_merge map rev].
    - fold (merge_keys (map (partial_val mark done) fields) (group_obj mark fields lab)). rewrite (step_group mark fields N).
      rewrite IH. now rewrite <- app_assoc.
    - apply IH. }
  replace (initial_obj mark fields) with (map (partial_val mark []) fields) by reflexivity. now rewrite G, app_nil_r.
Qed.
