From GV Require Import Base.Prelude Base.Utf8 Base.Json Model.Scalars Proofs.Utf8Proofs.
Ltac Zify.zify_post_hook ::= Z.div_mod_to_equations.
Open Scope N_scope.

(** * writeQuotedString *)

Lemma hex_low b : b < 32 -> hex4 48 48 (hexdigit (b / 16)) (hexdigit (b mod 16)) = Some b.
Proof.
  intros H.
  assert (E : b = 0 \/ b = 1 \/ b = 2 \/ b = 3 \/ b = 4 \/ b = 5 \/ b = 6 \/ b = 7 \/ b = 8 \/ b = 9 \/ b = 10 \/
              b = 11 \/ b = 12 \/ b = 13 \/ b = 14 \/ b = 15 \/ b = 16 \/ b = 17 \/ b = 18 \/ b = 19 \/ b = 20 \/
              b = 21 \/ b = 22 \/ b = 23 \/ b = 24 \/ b = 25 \/ b = 26 \/ b = 27 \/ b = 28 \/ b = 29 \/ b = 30 \/ b = 31) by lia.
  repeat (destruct E as [E|E]; [subst b; reflexivity|]). subst b; reflexivity.
Qed.

(** One loop iteration of the escaper denotes exactly the rune Go decoded. *)
Lemma escape_step s c rest0 body rs :
  decode1 s = Some (c, rest0) -> jstr_body body rs ->
  jstr_body (escape_chunk true c ++ body) (chunk_rune c :: rs).
Proof.
  intros Ed Hb. destruct c as [b|cp raw|b]; cbn [escape_chunk chunk_rune].
  - pose proof (decode1_ascii _ _ _ Ed) as Hlt.
    destruct (b =? 9) eqn:E9. { apply N.eqb_eq in E9; subst. apply (jb_simple 116 9); [reflexivity|exact Hb]. }
    destruct (b =? 13) eqn:E13. { apply N.eqb_eq in E13; subst. apply (jb_simple 114 13); [reflexivity|exact Hb]. }
    destruct (b =? 10) eqn:E10. { apply N.eqb_eq in E10; subst. apply (jb_simple 110 10); [reflexivity|exact Hb]. }
    destruct (b =? 92) eqn:E92. { apply N.eqb_eq in E92; subst. apply (jb_simple 92 92); [reflexivity|exact Hb]. }
    destruct (b =? 34) eqn:E34. { apply N.eqb_eq in E34; subst. apply (jb_simple 34 34); [reflexivity|exact Hb]. }
    destruct (b <? 32) eqn:E32.
    + cbn [app]. apply jb_u; [apply hex_low; lia | exact Hb].
    + change ([b] ++ body) with ([b] ++ body). apply jb_plain; try lia; [apply ascii_encode; exact Hlt | exact Hb].
  - destruct (decode1_multi _ _ _ _ Ed) as [He Hge]. apply jb_plain; try lia; [exact He | exact Hb].
  - cbn [app]. apply jb_u; [reflexivity | exact Hb].
Qed.

Lemma ascii_valid (l : bytes) rest : Forall (fun b => b < 0x80) l -> utf8_valid rest -> utf8_valid (l ++ rest).
Proof.
  intros Hl [rs Hr]. induction Hl as [|b l Hb _ IH]; [exists rs; exact Hr|].
  destruct IH as [rs' Hr']. exists (b :: rs'). change ((b :: l) ++ rest) with ([b] ++ (l ++ rest)).
  constructor; [apply ascii_encode; exact Hb | exact Hr'].
Qed.

Lemma hexdigit_ascii n : n < 16 -> hexdigit n < 0x80.
Proof. unfold hexdigit. destruct (n <? 10) eqn:E; lia. Qed.

Lemma escape_valid s c rest0 out :
  decode1 s = Some (c, rest0) -> utf8_valid out -> utf8_valid (escape_chunk true c ++ out).
Proof.
  intros Ed Ho. destruct c as [b|cp raw|b]; cbn [escape_chunk].
  - pose proof (decode1_ascii _ _ _ Ed) as Hlt.
    repeat match goal with |- context [if ?c then _ else _] => destruct c eqn:? end;
      (apply ascii_valid; [|exact Ho]);
      repeat (apply Forall_cons; [first [lia | apply hexdigit_ascii; lia]|]); apply Forall_nil.
  - destruct (decode1_multi _ _ _ _ Ed) as [He _]. destruct Ho as [rs Hr]. exists (cp :: rs). constructor; assumption.
  - apply ascii_valid; [repeat (apply Forall_cons; [lia|]); apply Forall_nil | exact Ho].
Qed.

Lemma body_spec s :
  jstr_body (flat_map (escape_chunk true) (chunks s)) (runes s)
  /\ forall tail, utf8_valid tail -> utf8_valid (flat_map (escape_chunk true) (chunks s) ++ tail).
Proof.
  unfold runes. induction s as [|s c rest Ed [IH1 IH2]] using chunks_ind.
  - rewrite chunks_unfold. cbn. split; [constructor | intros tail H; exact H].
  - rewrite chunks_unfold, Ed. cbn [flat_map map]. split.
    + eapply escape_step; eassumption.
    + intros tail Ht. rewrite <- app_assoc. eapply escape_valid; [exact Ed | apply IH2; exact Ht].
Qed.

(** C08, strings: for every byte string the bytes written are valid UTF-8, form a JSON string literal,
    and that literal denotes the input with each offending byte replaced by U+FFFD. *)
Theorem quoted_string_json_lemma s :
  is_json_string (write_quoted s) (runes s)
  /\ utf8_valid (write_quoted s)
  /\ encodes (runes s) (sanitize s)
  /\ (valid_utf8_input s = true -> sanitize s = s).
Proof.
  destruct (body_spec s) as [B1 B2]. repeat split.
  - exists (flat_map (escape_chunk true) (chunks s)). split; [reflexivity | exact B1].
  - unfold write_quoted, write_quoted_gen.
    change (34 :: flat_map (escape_chunk true) (chunks s) ++ [34])
      with ([34] ++ (flat_map (escape_chunk true) (chunks s) ++ [34])).
    apply ascii_valid; [apply Forall_cons; [lia|apply Forall_nil]|]. apply B2.
    change [34] with ([34] ++ []). apply ascii_valid; [apply Forall_cons; [lia|apply Forall_nil] | exists []; constructor].
  - apply sanitize_encodes.
  - apply sanitize_valid_id.
Qed.

(** The escaper as it was before the repair emitted an offending byte verbatim. *)
Lemma some_inj {A} (a b : A) : Some a = Some b -> a = b.
Proof. congruence. Qed.

Ltac forall_list := repeat (apply Forall_cons; [lia|]); apply Forall_nil.

Lemma encode_bytes_small cp raw : utf8_encode cp = Some raw -> Forall (fun b => b < 0xF8) raw.
Proof.
  unfold utf8_encode.
  destruct (cp <? 128) eqn:E1. { intros H; apply some_inj in H; subst raw. forall_list. }
  destruct (cp <? 2048) eqn:E2. { intros H; apply some_inj in H; subst raw. forall_list. }
  destruct (cp <? 65536) eqn:E3.
  { destruct ((55296 <=? cp) && (cp <=? 57343))%bool; [discriminate|]. intros H; apply some_inj in H; subst raw. forall_list. }
  destruct (cp <? 1114112) eqn:E4; [|discriminate]. intros H; apply some_inj in H; subst raw. forall_list.
Qed.

Lemma encodes_bytes_small rs bs : encodes rs bs -> Forall (fun b => b < 0xF8) bs.
Proof.
  induction 1 as [|cp raw rs bs He _ IH]; [constructor|].
  apply Forall_app. split; [eapply encode_bytes_small; exact He | exact IH].
Qed.

Theorem string_utf8_legacy_refuted_lemma : ~ utf8_valid (write_quoted_legacy [0xFF]).
Proof.
  intros [rs H]. apply encodes_bytes_small in H.
  assert (E : write_quoted_legacy [0xFF] = [34; 255; 34]) by (vm_compute; reflexivity). rewrite E in H.
  inversion H as [|? ? _ H1]; subst. inversion H1 as [|? ? Hb _]; subst. lia.
Qed.

(** * Integers *)
Open Scope Z_scope.

Lemma digit_back d : 0 <= d < 10 -> is_digit (Z.to_N (48 + d)) = true /\ Z.of_N (Z.to_N (48 + d)) - 48 = d.
Proof. intros H. unfold is_digit. split; lia. Qed.

Lemma digits_roundtrip fuel : forall n acc, 0 <= n < 10 ^ Z.of_nat fuel ->
  digits_val 0 (digits_fuel fuel n acc) = digits_val n acc.
Proof.
  induction fuel as [|f IH]; intros n acc Hn.
  - cbn in Hn. assert (n = 0) by lia. subst. reflexivity.
  - cbn [digits_fuel]. cbv zeta.
    assert (Hd : 0 <= n mod 10 < 10) by (apply Z.mod_pos_bound; lia).
    destruct (digit_back _ Hd) as [D1 D2].
    destruct (n <? 10) eqn:E.
    + cbn [digits_val]. rewrite D1, D2. f_equal. rewrite Z.mod_small by lia. lia.
    + rewrite IH.
      * cbn [digits_val]. rewrite D1, D2. f_equal. lia.
      * rewrite Nat2Z.inj_succ, Z.pow_succ_r in Hn by lia. lia.
Qed.

(** Shape of the token: digits only, non-empty, no leading zero unless it is "0". *)
Lemma digits_shape fuel : forall n acc, (0 < fuel)%nat -> 0 <= n < 10 ^ Z.of_nat fuel ->
  exists d ds, digits_fuel fuel n acc = d :: ds ++ acc
               /\ forallb is_digit (d :: ds) = true
               /\ (n < 10 -> ds = [] /\ d = Z.to_N (48 + n))
               /\ (10 <= n -> d <> 48%N).
Proof.
  induction fuel as [|f IH]; intros n acc Hf Hn; [lia|].
  cbn [digits_fuel]. cbv zeta.
  assert (Hd : 0 <= n mod 10 < 10) by (apply Z.mod_pos_bound; lia).
  destruct (digit_back _ Hd) as [D1 _].
  destruct (n <? 10) eqn:E.
  - exists (Z.to_N (48 + n mod 10)), []. cbn [app forallb]. rewrite D1. repeat split; try reflexivity; try lia.
  - assert (Hn' : 0 <= n / 10 < 10 ^ Z.of_nat f).
    { rewrite Nat2Z.inj_succ, Z.pow_succ_r in Hn by lia. lia. }
    destruct f as [|f'].
    { cbn in Hn'. lia. }
    destruct (IH (n / 10) (Z.to_N (48 + n mod 10) :: acc) ltac:(lia) Hn') as [d [ds [E1 [E2 [E3 E4]]]]].
    exists d, (ds ++ [Z.to_N (48 + n mod 10)]). rewrite E1. rewrite <- app_assoc. cbn [app].
    split; [reflexivity|]. split.
    + cbn [forallb] in *. apply andb_prop in E2. destruct E2 as [Ea Eb]. rewrite Ea. cbn [andb].
      rewrite forallb_app, Eb. cbn [forallb]. rewrite D1. reflexivity.
    + split; [lia|]. intros _. destruct (Z_lt_ge_dec (n / 10) 10) as [Hlt|Hge].
      * destruct (E3 Hlt) as [_ ->]. lia.
      * apply E4. lia.
Qed.

Definition pow20 : Z := 10 ^ 20.

Lemma format_nonneg_parse n : 0 <= n < pow20 ->
  digits_val 0 (format_nonneg n) = Some n
  /\ exists d ds, format_nonneg n = d :: ds /\ is_digit d = true /\ json_int_token (d :: ds) = true.
Proof.
  intros Hn. unfold format_nonneg. split.
  - rewrite digits_roundtrip by exact Hn. reflexivity.
  - destruct (digits_shape 20 n [] ltac:(lia) Hn) as [d [ds [E1 [E2 [E3 E4]]]]].
    rewrite app_nil_r in E1. exists d, ds. split; [exact E1|].
    pose proof E2 as E2'. cbn [forallb] in E2'. apply andb_prop in E2'. destruct E2' as [Ed _]. split; [exact Ed|].
    unfold json_int_token.
    assert (Hne : (d =? 45)%N = false) by (unfold is_digit in Ed; lia). rewrite Hne. cbv zeta. rewrite E2. cbn [andb].
    destruct (Z_lt_ge_dec n 10) as [Hlt|Hge].
    + destruct (E3 Hlt) as [-> _]. apply orb_true_r.
    + specialize (E4 ltac:(lia)). assert (Hb : (d =? 48)%N = false) by (apply N.eqb_neq; exact E4). rewrite Hb. reflexivity.
Qed.

Lemma parse_int_format lo hi z : - pow20 < z < pow20 -> lo <= z <= hi -> parse_int lo hi (format_Z z) = Ok z.
Proof.
  intros Hz Hr. unfold format_Z. destruct (z <? 0) eqn:En.
  - destruct (format_nonneg_parse (- z) ltac:(lia)) as [P [d [ds [E [Ed _]]]]].
    unfold parse_int. rewrite N.eqb_refl. rewrite E in *. rewrite P.
    destruct (andb (lo <=? - - z) (- - z <=? hi)) eqn:Eb; [f_equal; lia|lia].
  - destruct (format_nonneg_parse z ltac:(lia)) as [P [d [ds [E [Ed _]]]]].
    unfold parse_int. rewrite E in *.
    assert (H45 : (d =? 45)%N = false) by (unfold is_digit in Ed; lia).
    assert (H43 : (d =? 43)%N = false) by (unfold is_digit in Ed; lia). rewrite H45, H43.
    rewrite P. destruct (andb (lo <=? z) (z <=? hi)) eqn:Eb; [reflexivity|lia].
Qed.

Lemma parse_uint_format hi z : 0 <= z < pow20 -> z <= hi -> parse_uint hi (format_Z z) = Ok z.
Proof.
  intros Hz Hr. unfold format_Z. destruct (z <? 0) eqn:En; [lia|].
  destruct (format_nonneg_parse z Hz) as [P [d [ds [E _]]]].
  unfold parse_uint. rewrite E in *. rewrite P. destruct (z <=? hi) eqn:Eb; [reflexivity|lia].
Qed.

Lemma format_json_token z : - pow20 < z < pow20 -> json_int_token (format_Z z) = true.
Proof.
  intros Hz. unfold format_Z. destruct (z <? 0) eqn:En.
  - destruct (format_nonneg_parse (- z) ltac:(lia)) as [_ [d [ds [E [Ed Hj]]]]]. rewrite E.
    unfold json_int_token in *. rewrite N.eqb_refl.
    assert (Hne : (d =? 45)%N = false) by (unfold is_digit in Ed; lia). rewrite Hne in Hj. exact Hj.
  - destruct (format_nonneg_parse z ltac:(lia)) as [_ [d [ds [E [_ Hj]]]]]. rewrite E. exact Hj.
Qed.

(** Round trip of every integer scalar through its own marshaler, gqlgen's JSON decoding (UseNumber:
    the token text as json.Number; quoted IDs as strings) and its unmarshaler. *)
Theorem int_roundtrip_lemma z :
  (minI64 <= z <= maxI64 -> unmarshal_int (GNumber (marshal_int z)) = Ok z /\ unmarshal_int_id (GString (format_Z z)) = Ok z)
  /\ (minI32 <= z <= maxI32 -> unmarshal_int32 (GNumber (marshal_int z)) = Ok z)
  /\ (0 <= z <= maxU64 -> unmarshal_uint64 (GNumber (marshal_int z)) = Ok z /\ unmarshal_uint_id (GString (format_Z z)) = Ok z)
  /\ (0 <= z <= maxU32 -> unmarshal_uint32 (GNumber (marshal_int z)) = Ok z)
  /\ (- pow20 < z < pow20 -> json_int_token (marshal_int z) = true).
Proof.
  unfold minI64, maxI64, minI32, maxI32, maxU64, maxU32, minInt, maxInt, two63, two64, two31, two32, marshal_int.
  split; [intros H; split|split; [intros H|split; [intros H; split|split; [intros H|intros H]]]].
  - cbn [unmarshal_int]. apply parse_int_format; unfold pow20, minI64, maxI64, minInt, maxInt, two63; lia.
  - cbn [unmarshal_int_id]. apply parse_int_format; unfold pow20, minI64, maxI64, minInt, maxInt, two63; lia.
  - cbn [unmarshal_int32]. rewrite parse_int_format by (unfold pow20, minI64, maxI64, minInt, maxInt, two63; lia).
    cbn [obind]. unfold safe_cast_i32, maxI32, minI32, two31. match goal with |- context [if ?c then _ else _] => destruct c eqn:E end; [lia|reflexivity].
  - cbn [unmarshal_uint64]. apply parse_uint_format; unfold pow20, maxU64, two64; lia.
  - unfold unmarshal_uint_id. cbn [unmarshal_uint_id_gen]. apply parse_uint_format; unfold pow20, maxU64, two64; lia.
  - cbn [unmarshal_uint32]. rewrite parse_uint_format by (unfold pow20, maxU64, two64; lia).
    cbn [obind]. unfold safe_cast_u32, maxU32, two32. match goal with |- context [if ?c then _ else _] => destruct c eqn:E end; [lia|reflexivity].
  - apply format_json_token. exact H.
Qed.

(** * No unmarshaler silently changes a number. *)
Lemma parse_int_widen lo hi s z : parse_int lo hi s = Ok z -> - 10 ^ 30 <= lo -> hi <= 10 ^ 30 ->
  parse_int (- 10 ^ 30) (10 ^ 30) s = Ok z /\ lo <= z <= hi.
Proof.
  unfold parse_int.
  destruct (match s with b :: r => if (b =? 45)%N then (true, r) else if (b =? 43)%N then (false, r) else (false, s) | [] => (false, s) end) as [neg ds].
  destruct ds as [|d ds']; [discriminate|].
  destruct (digits_val 0 (d :: ds')) as [v|]; [|discriminate]. cbv zeta.
  destruct (andb (lo <=? (if neg then - v else v)) ((if neg then - v else v) <=? hi)) eqn:E; [|discriminate].
  intros H Hlo Hhi. inversion H; subst. split; [|lia].
  destruct (andb (- 10 ^ 30 <=? (if neg then - v else v)) ((if neg then - v else v) <=? 10 ^ 30)) eqn:E2; [reflexivity|lia].
Qed.

Lemma digits_val_nonneg l : forall a v, 0 <= a -> digits_val a l = Some v -> 0 <= v.
Proof.
  induction l as [|b r IH]; intros a v Ha; cbn [digits_val].
  - intros H; inversion H; subst; exact Ha.
  - destruct (is_digit b) eqn:E; [|discriminate]. apply IH. unfold is_digit in E. lia.
Qed.

Lemma parse_uint_as_int hi s z : parse_uint hi s = Ok z -> hi <= 10 ^ 30 ->
  parse_int (- 10 ^ 30) (10 ^ 30) s = Ok z /\ 0 <= z <= hi.
Proof.
  unfold parse_uint. destruct s as [|d ds]; [discriminate|].
  destruct (digits_val 0 (d :: ds)) as [v|] eqn:Ev; [|discriminate].
  destruct (v <=? hi) eqn:E; [|discriminate]. intros H Hhi. inversion H; subst.
  pose proof (digits_val_nonneg _ _ _ (Z.le_refl 0) Ev) as Hv.
  assert (Hd : is_digit d = true). { cbn [digits_val] in Ev. destruct (is_digit d); [reflexivity|discriminate]. }
  unfold parse_int.
  assert (H45 : (d =? 45)%N = false) by (unfold is_digit in Hd; lia).
  assert (H43 : (d =? 43)%N = false) by (unfold is_digit in Hd; lia). rewrite H45, H43.
  rewrite Ev. split; [|lia].
  destruct (andb (- 10 ^ 30 <=? z) (z <=? 10 ^ 30)) eqn:E2; [reflexivity|lia].
Qed.

Ltac big := unfold minI64, maxI64, minI32, maxI32, maxU64, maxU32, minInt, maxInt, two63, two64, two31, two32 in *.

(** For every integer unmarshaler U (after the UintID repair) and every input that is not nil: if U
    accepts, the result is the mathematical value of the input and lies in the type's range.  Hypothesis
    [wf]: typed Go values carry a value of their own width (what the Go type system guarantees). *)
Definition wf_goval (v : goval) : Prop :=
  match v with
  | GInt z | GInt64 z => minI64 <= z <= maxI64
  | GInt32 z => minI32 <= z <= maxI32
  | GUint32 z => 0 <= z <= maxU32
  | GUint64 z => 0 <= z <= maxU64
  | _ => True
  end.

Lemma P1 s z : parse_int minI64 maxI64 s = Ok z ->
  num_of (GString s) = Some z /\ num_of (GNumber s) = Some z /\ minI64 <= z <= maxI64.
Proof. intros H. destruct (parse_int_widen _ _ _ _ H) as [W R]; [big; lia | big; lia |]. cbn [num_of]. rewrite W. auto. Qed.

Lemma P2 s z : parse_uint maxU64 s = Ok z ->
  num_of (GString s) = Some z /\ num_of (GNumber s) = Some z /\ 0 <= z <= maxU64.
Proof. intros H. destruct (parse_uint_as_int _ _ _ H) as [W R]; [big; lia|]. cbn [num_of]. rewrite W. auto. Qed.

Ltac ok_inv H := injection H as H; subst.
Ltac cast32 H :=
  match type of H with
  | safe_cast_i32 ?z = Ok _ => unfold safe_cast_i32 in H; destruct (orb (z >? maxI32) (z <? minI32)) eqn:?; [discriminate|ok_inv H]
  | safe_cast_u32 ?z = Ok _ => unfold safe_cast_u32 in H; destruct (z >? maxU32) eqn:?; [discriminate|ok_inv H]
  end.
Ltac via_parse H :=
  match type of H with
  | parse_int minI64 maxI64 ?s = Ok _ => apply P1 in H; cbn [num_of] in H
  | parse_uint maxU64 ?s = Ok _ => apply P2 in H; cbn [num_of] in H
  | obind (parse_int minI64 maxI64 ?s) _ = Ok _ =>
      let Ep := fresh "Ep" in destruct (parse_int minI64 maxI64 s) as [?z| |] eqn:Ep; cbn [obind] in H; [|discriminate|discriminate];
      cast32 H; apply P1 in Ep; cbn [num_of] in Ep
  | obind (parse_uint maxU64 ?s) _ = Ok _ =>
      let Ep := fresh "Ep" in destruct (parse_uint maxU64 s) as [?z| |] eqn:Ep; cbn [obind] in H; [|discriminate|discriminate];
      cast32 H; apply P2 in Ep; cbn [num_of] in Ep
  end.
Ltac fin := first [ tauto | split; [first [reflexivity | tauto] | big; lia] | (big; lia) ].

Lemma nsc_int v n : wf_goval v -> v <> GNil -> unmarshal_int v = Ok n -> num_of v = Some n /\ minI64 <= n <= maxI64.
Proof.
  intros Hwf Hnil H. destruct v; cbn [unmarshal_int wf_goval num_of] in *; try discriminate; try contradiction;
    try (via_parse H; fin); try (ok_inv H; fin).
Qed.
Lemma nsc_int32 v n : wf_goval v -> v <> GNil -> unmarshal_int32 v = Ok n -> num_of v = Some n /\ minI32 <= n <= maxI32.
Proof.
  intros Hwf Hnil H. destruct v; cbn [unmarshal_int32 wf_goval num_of] in *; try discriminate; try contradiction;
    try (via_parse H; fin); try (cast32 H; fin).
Qed.
Lemma nsc_uint64 v n : wf_goval v -> v <> GNil -> unmarshal_uint64 v = Ok n -> num_of v = Some n /\ 0 <= n <= maxU64.
Proof.
  intros Hwf Hnil H. destruct v; cbn [unmarshal_uint64 wf_goval num_of] in *; try discriminate; try contradiction;
    try (via_parse H; fin); try (destruct (z <? 0) eqn:Ez; [discriminate|ok_inv H; fin]).
Qed.
Lemma nsc_uint32 v n : wf_goval v -> v <> GNil -> unmarshal_uint32 v = Ok n -> num_of v = Some n /\ 0 <= n <= maxU32.
Proof.
  intros Hwf Hnil H. destruct v; cbn [unmarshal_uint32 wf_goval num_of] in *; try discriminate; try contradiction;
    try (via_parse H; fin); try (destruct (z <? 0) eqn:Ez; [discriminate|cast32 H; fin]).
Qed.
Lemma nsc_int_id v n : wf_goval v -> unmarshal_int_id v = Ok n -> num_of v = Some n /\ minI64 <= n <= maxI64.
Proof.
  intros Hwf H. destruct v; cbn [unmarshal_int_id wf_goval num_of] in *; try discriminate;
    try (via_parse H; fin); try (ok_inv H; fin).
Qed.
Lemma nsc_uint_id v n : wf_goval v -> unmarshal_uint_id v = Ok n -> num_of v = Some n /\ 0 <= n <= maxU64.
Proof.
  intros Hwf H. unfold unmarshal_uint_id in H. destruct v; cbn [unmarshal_uint_id_gen wf_goval num_of] in *; try discriminate;
    try (via_parse H; fin); try (destruct (z <? 0) eqn:Ez; [discriminate|ok_inv H; fin]); try (ok_inv H; fin).
Qed.

Theorem no_silent_numeric_change_lemma v n : wf_goval v -> v <> GNil ->
  (unmarshal_int v = Ok n -> num_of v = Some n /\ minI64 <= n <= maxI64)
  /\ (unmarshal_int32 v = Ok n -> num_of v = Some n /\ minI32 <= n <= maxI32)
  /\ (unmarshal_uint64 v = Ok n -> num_of v = Some n /\ 0 <= n <= maxU64)
  /\ (unmarshal_uint32 v = Ok n -> num_of v = Some n /\ 0 <= n <= maxU32)
  /\ (unmarshal_int_id v = Ok n -> num_of v = Some n /\ minI64 <= n <= maxI64)
  /\ (unmarshal_uint_id v = Ok n -> num_of v = Some n /\ 0 <= n <= maxU64).
Proof.
  intros Hwf Hnil.
  split; [apply nsc_int; assumption|]. split; [apply nsc_int32; assumption|].
  split; [apply nsc_uint64; assumption|]. split; [apply nsc_uint32; assumption|].
  split; [apply nsc_int_id; assumption | apply nsc_uint_id; assumption].
Qed.

(** The function as it was: uint(v) on a negative int wraps to a huge ID without an error. *)
Theorem uint_id_legacy_refuted_lemma :
  unmarshal_uint_id_legacy (GInt (-1)) = Ok 18446744073709551615 /\ num_of (GInt (-1)) = Some (-1).
Proof. vm_compute. split; reflexivity. Qed.

Lemma float_context_spec c : float_context_ok c = true <-> c = FFinite.
Proof. destruct c; cbn; split; intros H; try reflexivity; discriminate. Qed.
