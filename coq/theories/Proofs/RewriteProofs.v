(** C19: what regeneration keeps - the partition of a file's declarations, the slicing of a method body out of
    the source, TrimSpace, and the lexical shape of the warning block. *)
From GV Require Import Base.Prelude Model.Rewrite.
Open Scope list_scope.

(** ---- 1. nothing is lost: every declaration of a regenerated file is carried over, is an import, or its
    source text is part of the file's remaining source ---- *)
Open Scope string_scope.

Lemma prefix_app p s : String.prefix p (p ++ s) = true.
Proof.
  induction p as [|a p IH]; cbn; [now destruct s|].
  destruct (ascii_dec a a) as [_|N]; [exact IH|now elim N].
Qed.

Lemma contains_here p s : contains p (p ++ s) = true.
Proof. destruct (p ++ s) eqn:E; cbn [contains]; rewrite <- E, prefix_app; reflexivity. Qed.

Lemma contains_skip p a s : contains p s = true -> contains p (a ++ s) = true.
Proof.
  induction a as [|c a IH]; cbn [append]; [auto|]. intros H. cbn [contains]. rewrite (IH H). now rewrite orb_true_r.
Qed.

Lemma append_nil_r' (s : string) : s ++ "" = s.
Proof. induction s as [|a s IH]; cbn; [reflexivity|now rewrite IH]. Qed.

Lemma contains_join sep x l : In x l -> contains x (join sep l) = true.
Proof.
  induction l as [|y l IH]; [intros []|]. intros [->|Hin].
  - destruct l as [|z l]; cbn [join].
    + rewrite <- (append_nil_r' x) at 2. apply contains_here.
    + apply contains_here.
  - destruct l as [|z l]; [destruct Hin|]. cbn [join]. apply contains_skip, contains_skip. now apply IH.
Qed.
Close Scope string_scope.

Theorem nothing_lost_lemma lv f d :
  In d (f_decls f) ->
  copied lv d = true \/ is_import d = true \/ contains (d_src d) (remaining_source lv f) = true.
Proof.
  intros Hin. destruct (copied lv d) eqn:C; [now left|]. destruct (is_import d) eqn:I; [right; now left|].
  right. right. unfold remaining_source. apply contains_join. apply in_map. unfold left_over.
  apply filter_In. split; [exact Hin|]. now rewrite C, I.
Qed.

(** and the partition is exact: what is carried over is not repeated in the remaining source's declarations *)
Theorem left_over_disjoint lv f d : In d (left_over lv f) -> copied lv d = false /\ is_import d = false.
Proof.
  unfold left_over. intros H. apply filter_In in H as [_ H]. apply andb_true_iff in H as [H1 H2].
  split; [now apply negb_true_iff in H1|now apply negb_true_iff in H2].
Qed.

(** ---- 2. GetMethodBody: the bytes strictly between the braces ---- *)
Theorem method_body_slice_lemma {A} (pre body post : list A) (lb rb : A) :
  method_body_bytes (pre ++ lb :: body ++ rb :: post) (List.length pre) (List.length pre + List.length body + 2) = body.
Proof.
  unfold method_body_bytes, slice.
  replace (List.length pre + 1)%nat with (List.length (pre ++ [lb])) by (rewrite app_length; cbn; lia).
  replace (pre ++ lb :: body ++ rb :: post) with ((pre ++ [lb]) ++ body ++ rb :: post) by (now rewrite <- app_assoc).
  rewrite skipn_app, skipn_all, Nat.sub_diag. cbn [skipn app].
  replace (List.length pre + List.length body + 2 - 1 - List.length (pre ++ [lb]))%nat with (List.length body)
    by (rewrite app_length; cbn; lia).
  rewrite firstn_app, firstn_all, Nat.sub_diag. cbn. now rewrite app_nil_r.
Qed.

(** ---- 3. TrimSpace is idempotent and leaves the inside alone ---- *)
Definition no_lead (l : bytes) : bool := match l with [] => true | b :: _ => negb (is_space b) end.

Lemma trim_left_no_lead l : no_lead (trim_left l) = true.
Proof. induction l as [|b l IH]; [reflexivity|]. cbn [trim_left]. destruct (is_space b) eqn:E; [exact IH|]. cbn. now rewrite E. Qed.
Lemma trim_left_id l : no_lead l = true -> trim_left l = l.
Proof. destruct l as [|b l]; [reflexivity|]. cbn. intros H. apply negb_true_iff in H. now rewrite H. Qed.
Lemma trim_left_snoc u a : is_space a = false -> trim_left (u ++ [a]) = trim_left u ++ [a].
Proof.
  intros Ha. induction u as [|b u IH]; cbn [app trim_left]; [now rewrite Ha|].
  destruct (is_space b); [exact IH|reflexivity].
Qed.

Lemma no_lead_rev_trim_rev y : no_lead y = true -> no_lead (rev (trim_left (rev y))) = true.
Proof.
  destruct y as [|a y]; [reflexivity|]. cbn [no_lead]. intros Ha. apply negb_true_iff in Ha.
  cbn [rev]. rewrite (trim_left_snoc _ _ Ha), rev_app_distr. cbn. now rewrite Ha.
Qed.

Theorem trim_idempotent_lemma l : trim (trim l) = trim l.
Proof.
  unfold trim. set (y := trim_left l). set (z := trim_left (rev y)).
  assert (Hy : no_lead y = true) by apply trim_left_no_lead.
  assert (Hz : no_lead z = true) by apply trim_left_no_lead.
  assert (Hr : no_lead (rev z) = true) by (subst z; now apply no_lead_rev_trim_rev).
  rewrite (trim_left_id (rev z) Hr), rev_involutive, (trim_left_id z Hz). reflexivity.
Qed.

Theorem trim_inside_lemma l : no_lead l = true -> no_lead (rev l) = true -> trim l = l.
Proof. intros H1 H2. unfold trim. rewrite (trim_left_id l H1), (trim_left_id (rev l) H2). apply rev_involutive. Qed.

(** ---- 4. the warning block lexes as comments, whatever code it rescues ---- *)
Lemma lex_line_prefix code : forall rest, lex_run LLine (prefix_lines code ++ rest) = lex_run LLine rest.
Proof.
  induction code as [|b code IH]; intros rest; [reflexivity|]. cbn [prefix_lines].
  destruct (N.eqb b NL) eqn:E.
  - cbn [app lex_run lex_step]. rewrite E. cbn [lex_run lex_step is_space N.eqb SLASH Pos.eqb orb]. apply IH.
  - cbn [app lex_run lex_step]. rewrite E. apply IH.
Qed.

(** inside a block comment: without an end marker in the text the scanner stays inside *)
Definition in_block (st : lexst) : bool := match st with LBlock | LBlockStar => true | _ => false end.

Lemma lex_block_stays code : forall st,
  in_block st = true -> has_block_end code = false ->
  (st = LBlockStar -> match code with b :: _ => N.eqb b SLASH = false | [] => True end) ->
  exists st', lex_run st code = Some st' /\ in_block st' = true.
Proof.
  induction code as [|a code IH]; intros st Hin Hno Hfirst; [exists st; split; [reflexivity|exact Hin]|].
  assert (Hno' : has_block_end code = false).
  { destruct code as [|b r]; [reflexivity|]. cbn [has_block_end] in Hno. now apply orb_false_iff in Hno as [_ H]. }
  assert (Hpair : N.eqb a STAR = true -> match code with b :: _ => N.eqb b SLASH = false | [] => True end).
  { intros Ha. destruct code as [|b r]; [exact I|]. cbn [has_block_end] in Hno. apply orb_false_iff in Hno as [H _].
    rewrite Ha in H. cbn in H. exact H. }
  destruct st; try discriminate; cbn [lex_run lex_step].
  - destruct (N.eqb a STAR) eqn:Ea.
    + apply IH; [reflexivity|exact Hno'|intros _; now apply Hpair].
    + apply IH; [reflexivity|exact Hno'|discriminate].
  - specialize (Hfirst eq_refl). cbn in Hfirst. rewrite Hfirst. destruct (N.eqb a STAR) eqn:Ea.
    + apply IH; [reflexivity|exact Hno'|intros _; now apply Hpair].
    + apply IH; [reflexivity|exact Hno'|discriminate].
Qed.

Lemma lex_run_app a : forall st b, lex_run st (a ++ b) = match lex_run st a with Some st' => lex_run st' b | None => None end.
Proof. induction a as [|x a IH]; intros st b; cbn [app lex_run]; [reflexivity|]. destruct (lex_step st x); [apply IH|reflexivity]. Qed.

Theorem warning_block_is_comment_lemma code : comments_only (warning_block true code) = true.
Proof.
  unfold comments_only, warning_block. cbn [andb]. destruct (has_block_end code) eqn:H.
  - change (SLASH :: SLASH :: 32%N :: prefix_lines code ++ [NL]) with ([SLASH; SLASH; 32%N] ++ (prefix_lines code ++ [NL])).
    rewrite lex_run_app. assert (E0 : lex_run LCode [SLASH; SLASH; 32%N] = Some LLine) by reflexivity. rewrite E0.
    rewrite lex_line_prefix. reflexivity.
  - change (SLASH :: STAR :: NL :: code ++ [NL; STAR; SLASH; NL]) with ([SLASH; STAR; NL] ++ (code ++ [NL; STAR; SLASH; NL])).
    rewrite lex_run_app. assert (E0 : lex_run LCode [SLASH; STAR; NL] = Some LBlock) by reflexivity. rewrite E0.
    rewrite lex_run_app.
    destruct (lex_block_stays code LBlock eq_refl H ltac:(discriminate)) as [st' [E Hin]]. rewrite E.
    destruct st'; try discriminate; reflexivity.
Qed.
