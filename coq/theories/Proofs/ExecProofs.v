From GV Require Import Base.Prelude Model.Exec.
Open Scope string_scope.
Open Scope list_scope.

(** Induction principle for the nested inductive [rnode]. *)
Section RnodeInd.
  Variable P : rnode -> Prop.
  Hypothesis Hleaf : forall tk f, P (NLeaf tk f).
  Hypothesis Hnil : forall s, P (NNil s).
  Hypothesis Hfail : forall e, P (NFail e).
  Hypothesis Hlist : forall enn l, Forall P l -> P (NList enn l).
  Hypothesis Hobj : forall tn fs, Forall (fun kf => P (snd kf)) fs -> P (NObj tn fs).
  Fixpoint rnode_ind' (n : rnode) {struct n} : P n :=
    match n with
    | NLeaf tk f => Hleaf tk f
    | NNil s => Hnil s
    | NFail e => Hfail e
    | NList enn l =>
        Hlist enn l ((fix go (l : list rnode) : Forall P l :=
                        match l with [] => Forall_nil P | x :: r => Forall_cons x (rnode_ind' x) (go r) end) l)
    | NObj tn fs =>
        Hobj tn fs ((fix go (l : list (string * bool * rnode)) : Forall (fun kf => P (snd kf)) l :=
                       match l with
                       | [] => Forall_nil _
                       | kf :: r => Forall_cons kf (rnode_ind' (snd kf)) (go r)
                       end) fs)
    end.
End RnodeInd.

(** The relation between gqlgen's marshaler-with-Null-marker and the specification's value-or-propagate. *)
Definition R (nn : bool) (m : mval) (v : option jt) : Prop :=
  match v with
  | None => nn = true /\ m = MNullMark
  | Some j => mval_json m = j /\ (nn = true -> is_null_mark m = false)
  end.

(** the list loops, named *)
Fixpoint impl_list (enn : bool) (p : path) (i : nat) (l : list rnode) {struct l} : list mval * list err :=
  match l with
  | [] => ([], [])
  | x :: r => let '(m, es) := complete_impl enn (p ++ [PIdx i]) x in
              let '(ms, es') := impl_list enn p (S i) r in (m :: ms, es ++ es')
  end.
Fixpoint spec_list (tol enn : bool) (p : path) (i : nat) (l : list rnode) {struct l} : option (list jt) * list err :=
  match l with
  | [] => (Some [], [])
  | x :: r => let '(v, es) := complete_spec_gen tol enn (p ++ [PIdx i]) x in
              let '(vs, es') := spec_list tol enn p (S i) r in
              (match v, vs with Some a, Some b => Some (a :: b) | _, _ => None end, es ++ es')
  end.
Fixpoint impl_obj (p : path) (l : list (string * bool * rnode)) {struct l} : list (string * mval) * nat * list err :=
  match l with
  | [] => ([], O, [])
  | (k, fnn, child) :: r =>
      let '(m, es) := complete_impl fnn (p ++ [PKey k]) child in
      let '(out, invalids, es') := impl_obj p r in
      ((k, m) :: out, (if fnn && is_null_mark m then S invalids else invalids), es ++ es')
  end.
Fixpoint spec_obj (tol : bool) (p : path) (l : list (string * bool * rnode)) {struct l} : option (list (string * jt)) * list err :=
  match l with
  | [] => (Some [], [])
  | (k, fnn, child) :: r =>
      let '(v, es) := complete_spec_gen tol fnn (p ++ [PKey k]) child in
      let '(vs, es') := spec_obj tol p r in
      (match v, vs with Some a, Some b => Some ((k, a) :: b) | _, _ => None end, es ++ es')
  end.

Lemma complete_impl_list nn p enn l :
  complete_impl nn p (NList enn l) =
  let '(ms, es) := impl_list enn p O l in
  (if enn && existsb is_null_mark ms then MNullMark else MArr ms, es).
Proof.
  cbn [complete_impl].
  assert (H : forall i, (fix go (i : nat) (l : list rnode) {struct l} : list mval * list err :=
                           match l with
                           | [] => ([], [])
                           | x :: r => let '(m, es) := complete_impl enn (p ++ [PIdx i]) x in
                                       let '(ms, es') := go (S i) r in (m :: ms, es ++ es')
                           end) i l = impl_list enn p i l).
  { induction l as [|x r IH]; intros i; cbn [impl_list]; [reflexivity|]. rewrite IH. reflexivity. }
  rewrite H. reflexivity.
Qed.

Lemma complete_spec_list tol nn p enn l :
  complete_spec_gen tol nn p (NList enn l) =
  let '(vs, es) := spec_list tol enn p O l in
  (match vs with Some l => Some (TArr l) | None => if nn then None else Some TNull end, es).
Proof.
  cbn [complete_spec_gen].
  assert (H : forall i, (fix go (i : nat) (l : list rnode) {struct l} : option (list jt) * list err :=
                           match l with
                           | [] => (Some [], [])
                           | x :: r => let '(v, es) := complete_spec_gen tol enn (p ++ [PIdx i]) x in
                                       let '(vs, es') := go (S i) r in
                                       (match v, vs with Some a, Some b => Some (a :: b) | _, _ => None end, es ++ es')
                           end) i l = spec_list tol enn p i l).
  { induction l as [|x r IH]; intros i; cbn [spec_list]; [reflexivity|]. rewrite IH. reflexivity. }
  rewrite H. reflexivity.
Qed.

Lemma complete_impl_obj nn p tn fs :
  complete_impl nn p (NObj tn fs) =
  let '(out, invalids, es) := impl_obj p fs in
  (if Nat.ltb 0 invalids then MNullMark else MObj out, es).
Proof.
  cbn [complete_impl].
  assert (H : (fix go (l : list (string * bool * rnode)) {struct l} : list (string * mval) * nat * list err :=
                 match l with
                 | [] => ([], O, [])
                 | (k, fnn, child) :: r =>
                     let '(m, es) := complete_impl fnn (p ++ [PKey k]) child in
                     let '(out, invalids, es') := go r in
                     ((k, m) :: out, (if fnn && is_null_mark m then S invalids else invalids), es ++ es')
                 end) fs = impl_obj p fs).
  { induction fs as [|[[k fnn] child] r IH]; cbn [impl_obj]; [reflexivity|]. rewrite IH. reflexivity. }
  rewrite H. reflexivity.
Qed.

Lemma complete_spec_obj tol nn p tn fs :
  complete_spec_gen tol nn p (NObj tn fs) =
  let '(vs, es) := spec_obj tol p fs in
  (match vs with Some l => Some (TObj l) | None => if nn then None else Some TNull end, es).
Proof.
  cbn [complete_spec_gen].
  assert (H : (fix go (l : list (string * bool * rnode)) {struct l} : option (list (string * jt)) * list err :=
                 match l with
                 | [] => (Some [], [])
                 | (k, fnn, child) :: r =>
                     let '(v, es) := complete_spec_gen tol fnn (p ++ [PKey k]) child in
                     let '(vs, es') := go r in
                     (match v, vs with Some a, Some b => Some ((k, a) :: b) | _, _ => None end, es ++ es')
                 end) fs = spec_obj tol p fs).
  { induction fs as [|[[k fnn] child] r IH]; cbn [spec_obj]; [reflexivity|]. rewrite IH. reflexivity. }
  rewrite H. reflexivity.
Qed.

(** gqlgen's completion (Null marker, Invalids counter, errors appended as they occur) computes exactly
    the specification's CompleteValue with the typed-nil rule: same errors in the same order, and the
    marshaler denotes the specified value, Null exactly where the specification propagates. *)
Theorem complete_equiv_lemma n : forall nn p,
  snd (complete_impl nn p n) = snd (complete_spec_gen true nn p n)
  /\ R nn (fst (complete_impl nn p n)) (fst (complete_spec_gen true nn p n)).
Proof.
  induction n as [tk f|s|e|enn l IH|tn fs IH] using rnode_ind'; intros nn p.
  - cbn. split; [reflexivity|]. split; [reflexivity|]. intros _. reflexivity.
  - cbn [complete_impl complete_spec_gen fst snd]. destruct nn; cbn [andb negb fst snd R].
    + destruct s; cbn; split; try reflexivity; split; reflexivity.
    + split; [reflexivity|]. split; [reflexivity|discriminate].
  - cbn [complete_impl complete_spec_gen fst snd]. split; [reflexivity|]. destruct nn; cbn [R fst].
    + split; reflexivity.
    + split; [reflexivity|discriminate].
  - (* list *)
    rewrite complete_impl_list, complete_spec_list.
    assert (HL : forall i,
      snd (impl_list enn p i l) = snd (spec_list true enn p i l)
      /\ match fst (spec_list true enn p i l) with
         | Some js => map mval_json (fst (impl_list enn p i l)) = js
                      /\ (enn = true -> existsb is_null_mark (fst (impl_list enn p i l)) = false)
         | None => enn = true /\ existsb is_null_mark (fst (impl_list enn p i l)) = true
         end).
    { induction IH as [|x r Hx _ IHr]; intros i; cbn [impl_list spec_list].
      - cbn. split; [reflexivity|]. split; [reflexivity|]. intros _. reflexivity.
      - destruct (Hx enn (p ++ [PIdx i])) as [E1 R1]. specialize (IHr (S i)). destruct IHr as [E2 R2].
        destruct (complete_impl enn (p ++ [PIdx i]) x) as [m es].
        destruct (complete_spec_gen true enn (p ++ [PIdx i]) x) as [v es'].
        destruct (impl_list enn p (S i) r) as [ms es2]. destruct (spec_list true enn p (S i) r) as [vs es2'].
        cbn [fst snd] in *. subst es' es2'. split; [reflexivity|].
        unfold R in R1. destruct v as [j|].
        + destruct R1 as [Rj Rn]. destruct vs as [js|].
          * destruct R2 as [Rjs Rns]. cbn [map existsb]. split; [rewrite Rj, Rjs; reflexivity|].
            intros He. rewrite (Rn He), (Rns He). reflexivity.
          * destruct R2 as [He Rex]. split; [exact He|]. cbn [existsb]. rewrite Rex. apply orb_true_r.
        + destruct R1 as [He ->]. split; [exact He|]. cbn [existsb is_null_mark]. reflexivity. }
    destruct (HL O) as [E RL]. destruct (impl_list enn p O l) as [ms es]. destruct (spec_list true enn p O l) as [vs es'].
    cbn [fst snd] in *. subst es'. split; [reflexivity|].
    destruct vs as [js|].
    + destruct RL as [Rjs Rns]. destruct enn; cbn [andb].
      * rewrite (Rns eq_refl). cbn [R mval_json]. split; [rewrite Rjs; reflexivity|]. intros _. reflexivity.
      * cbn [R mval_json]. split; [rewrite Rjs; reflexivity|]. intros _. reflexivity.
    + destruct RL as [-> Rex]. rewrite Rex. cbn [andb]. destruct nn; cbn [R].
      * split; reflexivity.
      * split; [reflexivity|discriminate].
  - (* object *)
    rewrite complete_impl_obj, complete_spec_obj.
    assert (HO :
      snd (impl_obj p fs) = snd (spec_obj true p fs)
      /\ match fst (spec_obj true p fs) with
         | Some js => map (fun kv => (fst kv, mval_json (snd kv))) (fst (fst (impl_obj p fs))) = js
                      /\ snd (fst (impl_obj p fs)) = O
         | None => (0 < snd (fst (impl_obj p fs)))%nat
         end).
    { induction IH as [|[[k fnn] child] r Hx _ IHr]; cbn [impl_obj spec_obj].
      - cbn. auto.
      - cbn [snd] in Hx. destruct (Hx fnn (p ++ [PKey k])) as [E1 R1]. destruct IHr as [E2 R2].
        destruct (complete_impl fnn (p ++ [PKey k]) child) as [m es].
        destruct (complete_spec_gen true fnn (p ++ [PKey k]) child) as [v es'].
        destruct (impl_obj p r) as [[out inv] es2]. destruct (spec_obj true p r) as [vs es2'].
        cbn [fst snd] in *. subst es' es2'. split; [reflexivity|].
        unfold R in R1. destruct v as [j|].
        + destruct R1 as [Rj Rn]. destruct vs as [js|].
          * destruct R2 as [Rjs Rinv]. cbn [map fst snd]. split; [rewrite Rj, Rjs; reflexivity|].
            destruct fnn; cbn [andb]; [rewrite (Rn eq_refl); exact Rinv | exact Rinv].
          * destruct (fnn && is_null_mark m)%bool; lia.
        + destruct R1 as [-> ->]. cbn [andb is_null_mark]. lia. }
    destruct HO as [E RO]. destruct (impl_obj p fs) as [[out inv] es]. destruct (spec_obj true p fs) as [vs es'].
    cbn [fst snd] in *. subst es'. split; [reflexivity|].
    destruct vs as [js|].
    + destruct RO as [Rjs ->]. cbn [Nat.ltb Nat.leb R mval_json]. split; [rewrite Rjs; reflexivity|]. intros _. reflexivity.
    + assert (Hlt : Nat.ltb 0 inv = true) by (apply Nat.ltb_lt; exact RO). rewrite Hlt. destruct nn; cbn [R].
      * split; reflexivity.
      * split; [reflexivity|discriminate].
Qed.

(** Trees without a silent typed nil: the tolerant specification IS the specification. *)
Fixpoint no_silent (n : rnode) {struct n} : bool :=
  match n with
  | NNil s => negb s
  | NList _ l => forallb no_silent l
  | NObj _ fs => forallb (fun kf => no_silent (snd kf)) fs
  | _ => true
  end.

Lemma spec_tolerant_same n : forall nn p, no_silent n = true ->
  complete_spec_gen true nn p n = complete_spec_gen false nn p n.
Proof.
  induction n as [tk f|s|e|enn l IH|tn fs IH] using rnode_ind'; intros nn p Hn; try reflexivity.
  - cbn in Hn. destruct s; [discriminate|]. reflexivity.
  - rewrite !complete_spec_list. cbn [no_silent] in Hn.
    assert (H : forall i, spec_list true enn p i l = spec_list false enn p i l).
    { induction IH as [|x r Hx _ IHr]; intros i; cbn [spec_list]; [reflexivity|].
      cbn [forallb] in Hn. apply andb_prop in Hn. destruct Hn as [H1 H2].
      rewrite (Hx enn (p ++ [PIdx i]) H1), (IHr H2 (S i)). reflexivity. }
    rewrite H. reflexivity.
  - rewrite !complete_spec_obj. cbn [no_silent] in Hn.
    assert (H : spec_obj true p fs = spec_obj false p fs).
    { induction IH as [|[[k fnn] child] r Hx _ IHr]; cbn [spec_obj]; [reflexivity|].
      cbn [forallb snd] in Hn. apply andb_prop in Hn. destruct Hn as [H1 H2]. cbn [snd] in Hx.
      rewrite (Hx fnn (p ++ [PKey k]) H1), (IHr H2). reflexivity. }
    rewrite H. reflexivity.
Qed.

Theorem complete_equiv_spec_lemma n nn p : no_silent n = true ->
  snd (complete_impl nn p n) = snd (complete_spec nn p n)
  /\ R nn (fst (complete_impl nn p n)) (fst (complete_spec nn p n)).
Proof. intros H. unfold complete_spec. rewrite <- (spec_tolerant_same n nn p H). apply complete_equiv_lemma. Qed.

(** The kept finding: a typed nil pointer inside an interface value at a non-null position nulls its
    ancestors without any error. *)
Lemma typed_nil_refuted_witness :
  let n := NObj "Query" [("a", false, NObj "A" [("kids", true, NList true [NLeaf KLeafString "x"; NNil true])])] in
  complete_impl false [] n = (MObj [("a", MNullMark)], [])
  /\ snd (complete_spec false [] n) = [([PKey "a"; PKey "kids"; PIdx 1], ENullNonNull)].
Proof. vm_compute. split; reflexivity. Qed.

(** ** Exactly one error per originating failure, at the path of the position that failed. *)
Fixpoint failures (nn : bool) (p : path) (n : rnode) {struct n} : list err :=
  match n with
  | NLeaf _ _ => []
  | NNil _ => if nn then [(p, ENullNonNull)] else []
  | NFail e => [(p, e)]
  | NList enn l =>
      (fix go (i : nat) (l : list rnode) {struct l} : list err :=
         match l with [] => [] | x :: r => failures enn (p ++ [PIdx i]) x ++ go (S i) r end) O l
  | NObj _ fs =>
      (fix go (l : list (string * bool * rnode)) {struct l} : list err :=
         match l with [] => [] | (k, fnn, c) :: r => failures fnn (p ++ [PKey k]) c ++ go r end) fs
  end.

Theorem one_error_per_failure_lemma n : forall nn p, snd (complete_spec nn p n) = failures nn p n.
Proof.
  unfold complete_spec.
  induction n as [tk f|s|e|enn l IH|tn fs IH] using rnode_ind'; intros nn p; try reflexivity.
  - cbn. destruct nn; reflexivity.
  - rewrite complete_spec_list. cbn [failures].
    assert (H : forall i, snd (spec_list false enn p i l) =
                          (fix go (i : nat) (l : list rnode) {struct l} : list err :=
                             match l with [] => [] | x :: r => failures enn (p ++ [PIdx i]) x ++ go (S i) r end) i l).
    { induction IH as [|x r Hx _ IHr]; intros i; cbn [spec_list]; [reflexivity|].
      specialize (Hx enn (p ++ [PIdx i])). specialize (IHr (S i)).
      destruct (complete_spec_gen false enn (p ++ [PIdx i]) x) as [v es]. destruct (spec_list false enn p (S i) r) as [vs es'].
      cbn [snd] in *. rewrite Hx, IHr. reflexivity. }
    specialize (H O). destruct (spec_list false enn p O l) as [vs es]. cbn [snd] in *. exact H.
  - rewrite complete_spec_obj. cbn [failures].
    assert (H : snd (spec_obj false p fs) =
                (fix go (l : list (string * bool * rnode)) {struct l} : list err :=
                   match l with [] => [] | (k, fnn, c) :: r => failures fnn (p ++ [PKey k]) c ++ go r end) fs).
    { induction IH as [|[[k fnn] child] r Hx _ IHr]; cbn [spec_obj]; [reflexivity|].
      cbn [snd] in Hx. specialize (Hx fnn (p ++ [PKey k])).
      destruct (complete_spec_gen false fnn (p ++ [PKey k]) child) as [v es]. destruct (spec_obj false p r) as [vs es'].
      cbn [snd] in *. rewrite Hx, IHr. reflexivity. }
    destruct (spec_obj false p fs) as [vs es]. cbn [snd] in *. exact H.
Qed.
