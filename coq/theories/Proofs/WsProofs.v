(** C11: invariants of the websocket session LTS over ALL label sequences. *)
From GV Require Import Base.Prelude Model.WsProto.
Open Scope string_scope.
Open Scope list_scope.
Open Scope nat_scope.

Lemma run_app c s l1 l2 :
  run c s (l1 ++ l2) = let (s1, o1) := run c s l1 in let (s2, o2) := run c s1 l2 in (s2, o1 ++ o2).
Proof.
  revert s. induction l1 as [|l r IH]; intros s; cbn [app run].
  - destruct (run c s l2); reflexivity.
  - destruct (step c s l) as [s1 o1]. rewrite IH. destruct (run c s1 r) as [s2 o2]. destruct (run c s2 l2) as [s3 o3].
    now rewrite app_assoc.
Qed.

(** ---- 1. nothing is executed and no result is sent before the handshake was accepted ---- *)
Definition quiet (o : out) : bool := match o with EvExec _ | OData _ | OAck => false | _ => true end.

Lemma before_ack_quiet l r : forallb quiet l = true -> before_ack_ok (l ++ r) = before_ack_ok r.
Proof.
  induction l as [|o l IH]; [reflexivity|]. cbn [forallb app]. intros H. apply andb_true_iff in H as [Ho Hl].
  destruct o; cbn in *; try discriminate; auto.
Qed.

Lemma do_close_quiet s code : forallb quiet (snd (do_close s code)) = true.
Proof.
  unfold do_close; cbn [snd forallb quiet andb]. rewrite forallb_app. apply andb_true_iff. split; [|reflexivity].
  induction (filter (fun o => negb (op_cancelled o)) (ops s)); [reflexivity|exact IHl].
Qed.

Lemma do_close_phase s code : ph (fst (do_close s code)) = Closed.
Proof. reflexivity. Qed.

Lemma closed_stays c ls : forall s, ph s = Closed -> ph (fst (run c s ls)) = Closed /\ forallb quiet (snd (run c s ls)) = true.
Proof.
  induction ls as [|l r IH]; intros s Hp; cbn [run]; [split; [exact Hp|reflexivity]|].
  assert (Hs : ph (fst (step c s l)) = Closed /\ snd (step c s l) = []).
  { unfold step. rewrite Hp. destruct l as [m|e]; [split; [exact Hp|reflexivity]|].
    destruct e; try (split; [exact Hp|reflexivity]); unfold end_op; destruct (find_op (ops s) id); cbn [fst snd ph]; rewrite ?Hp;
      split; first [exact Hp|reflexivity]. }
  destruct (step c s l) as [s1 o1]. cbn [fst snd] in Hs. destruct Hs as [H1 ->].
  destruct (IH s1 H1) as [H2 H3]. destruct (run c s1 r) as [s2 o2]. cbn [fst snd app] in *. split; assumption.
Qed.

(** a step while the handshake is awaited: nothing happens, or it is accepted, or the connection is closed *)
Lemma await_step c s l : ph s = AwaitInit ->
  step c s l = (s, []) \/ snd (step c s l) = [OAck; OKa] \/
  (ph (fst (step c s l)) = Closed /\ forallb quiet (snd (step c s l)) = true).
Proof.
  intros Hp. unfold step. rewrite Hp.
  assert (Q : forall code, forallb quiet (snd (do_close s code)) = true) by (intros; apply do_close_quiet).
  assert (P : forall code, ph (fst (do_close s code)) = Closed) by reflexivity.
  assert (Q1 : forall code, forallb quiet (OConnError :: snd (do_close s code)) = true) by (intros; cbn [forallb quiet andb]; apply Q).
  destruct l as [m|e].
  - destruct m as [p|id k|id| | | | | | |]; try destruct p; try destruct (w_init_accepts c);
      try (right; left; reflexivity);
      try (right; right; split; [apply P|apply Q]);
      try (right; right; rewrite (surjective_pairing (do_close s close_protocol)); cbn [fst snd]; split; [apply P|apply Q1]);
      try (right; right; rewrite (surjective_pairing (do_close s close_normal)); cbn [fst snd]; split; [apply P|apply Q1]).
  - destruct e; try (left; reflexivity); right; right; split; [apply P|apply Q].
Qed.

Lemma quiet_before_ack l : forallb quiet l = true -> before_ack_ok l = true.
Proof.
  induction l as [|o l IH]; [reflexivity|]. cbn [forallb]. intros H. apply andb_true_iff in H as [Ho Hl].
  destruct o; cbn in *; try discriminate; auto.
Qed.

Theorem no_exec_before_ack_lemma c ls : before_ack_ok (snd (run c ws0 ls)) = true.
Proof.
  assert (G : forall ls s, ph s = AwaitInit -> before_ack_ok (snd (run c s ls)) = true).
  { clear ls. induction ls as [|l r IH]; intros s Hp; cbn [run]; [reflexivity|].
    destruct (await_step c s l Hp) as [E|[E|[Hc Hq]]].
    - rewrite E. specialize (IH s Hp). destruct (run c s r) as [s2 o2]. exact IH.
    - destruct (step c s l) as [s1 o1]. cbn [snd] in E. subst o1. destruct (run c s1 r) as [s2 o2]. reflexivity.
    - destruct (step c s l) as [s1 o1]. cbn [fst snd] in Hc, Hq.
      destruct (closed_stays c r s1 Hc) as [_ Hq2]. destruct (run c s1 r) as [s2 o2]. cbn [snd] in *.
      apply quiet_before_ack. rewrite forallb_app. now rewrite Hq, Hq2. }
  apply G. reflexivity.
Qed.

(** ---- 2. the close callback fires at most once, and exactly once when the session reaches Closed ---- *)
Lemma count_closefunc_app a b : count_closefunc (a ++ b) = count_closefunc a + count_closefunc b.
Proof. unfold count_closefunc. now rewrite filter_app, app_length. Qed.

Lemma count_do_close s code : count_closefunc (snd (do_close s code)) = 1.
Proof.
  unfold do_close; cbn [snd]. change (OCloseFrame code :: ?l) with ([OCloseFrame code] ++ l).
  rewrite !count_closefunc_app. cbn.
  assert (H : count_closefunc (map (fun o => EvCancel (op_id o)) (filter (fun o => negb (op_cancelled o)) (ops s))) = 0).
  { unfold count_closefunc. induction (filter (fun o => negb (op_cancelled o)) (ops s)); [reflexivity|exact IHl]. }
  rewrite H. reflexivity.
Qed.

Definition closed_b (p : phase) : nat := match p with Closed => 1 | _ => 0 end.

Definition iscf (o : out) : bool := match o with EvCloseFunc _ => true | _ => false end.
Lemma filter_cf_cancels (l : list op) : filter iscf (map (fun o => EvCancel (op_id o)) l) = [].
Proof. induction l as [|o l IH]; [reflexivity|exact IH]. Qed.

Ltac solve_cf Hp :=
  unfold end_op, do_close, count_closefunc;
  repeat match goal with
         | |- context [find_op ?l ?i] => destruct (find_op l i) as [?o|]
         | |- context [op_cancelled ?o] => destruct (op_cancelled o)
         end;
  cbn [fst snd ph ops closed_b filter app]; rewrite ?Hp; cbn [closed_b];
  fold iscf; rewrite ?filter_app, ?filter_cf_cancels; cbn [filter iscf app List.length];
  rewrite ?app_length; cbn [List.length]; try reflexivity; try lia.

Lemma step_closefunc c s l :
  closed_b (ph (fst (step c s l))) = closed_b (ph s) + count_closefunc (snd (step c s l)).
Proof.
  unfold step. destruct (ph s) eqn:Hp.
  - destruct l as [m|e]; [destruct m as [p|id k|id| | | | | | |]; try destruct p; try destruct (w_init_accepts c)|destruct e];
      solve_cf Hp.
  - destruct l as [m|e]; [destruct m as [p|id k|id| | | | | | |]; try destruct k|destruct e; try destruct reason];
      solve_cf Hp; destruct (w_tick c); reflexivity.
  - destruct l as [m|e]; [|destruct e]; solve_cf Hp.
Qed.

Theorem close_callback_once_lemma c ls : forall s,
  closed_b (ph (fst (run c s ls))) = closed_b (ph s) + count_closefunc (snd (run c s ls)).
Proof.
  induction ls as [|l r IH]; intros s; cbn [run]; [cbn; lia|].
  pose proof (step_closefunc c s l) as Hs. destruct (step c s l) as [s1 o1]. cbn [fst snd] in Hs.
  specialize (IH s1). destruct (run c s1 r) as [s2 o2]. cbn [fst snd] in *. rewrite count_closefunc_app. lia.
Qed.

(** ---- 3. every executed operation's context is cancelled exactly once: on stop, at its end, or on close ---- *)
Definition count_exec (id : string) (l : list out) : nat :=
  List.length (filter (fun o => match o with EvExec i => String.eqb i id | _ => false end) l).
Definition count_cancel (id : string) (l : list out) : nat :=
  List.length (filter (fun o => match o with EvCancel i => String.eqb i id | _ => false end) l).
Definition live (id : string) (l : list op) : nat :=
  List.length (filter (fun o => String.eqb (op_id o) id && negb (op_cancelled o)) l).

Lemma count_exec_app id a b : count_exec id (a ++ b) = count_exec id a + count_exec id b.
Proof. unfold count_exec. now rewrite filter_app, app_length. Qed.
Lemma count_cancel_app id a b : count_cancel id (a ++ b) = count_cancel id a + count_cancel id b.
Proof. unfold count_cancel. now rewrite filter_app, app_length. Qed.
Lemma live_app id a b : live id (a ++ b) = live id a + live id b.
Proof. unfold live. now rewrite filter_app, app_length. Qed.

Lemma live_all_cancelled id l : live id (map (fun o => {| op_id := op_id o; op_cancelled := true |}) l) = 0.
Proof. unfold live. induction l as [|o l IH]; [reflexivity|]. cbn. rewrite andb_false_r. exact IH. Qed.

Lemma cancel_count_close id l :
  count_cancel id (map (fun o => EvCancel (op_id o)) (filter (fun o => negb (op_cancelled o)) l)) = live id l.
Proof.
  unfold count_cancel, live. induction l as [|o l IH]; [reflexivity|]. cbn [filter].
  destruct (op_cancelled o); cbn [negb map filter].
  - rewrite andb_false_r. exact IH.
  - rewrite andb_true_r. destruct (String.eqb (op_id o) id); cbn [List.length]; now rewrite IH.
Qed.

Lemma do_close_balance id s code :
  count_exec id (snd (do_close s code)) = 0 /\
  count_cancel id (snd (do_close s code)) = live id (ops s) /\ live id (ops (fst (do_close s code))) = 0.
Proof.
  unfold do_close; cbn [fst snd ops]. repeat split.
  - unfold count_exec. cbn [filter]. rewrite filter_app. cbn [filter app_length]. rewrite app_length. cbn.
    induction (filter (fun o => negb (op_cancelled o)) (ops s)); [reflexivity|exact IHl].
  - change (OCloseFrame code :: ?l) with ([OCloseFrame code] ++ l). rewrite !count_cancel_app, cancel_count_close. cbn. lia.
  - apply live_all_cancelled.
Qed.

(** reachable states: once closed, every remaining operation has been cancelled *)
Definition inv (s : wst) : Prop := ph s = Closed -> forallb op_cancelled (ops s) = true.

Lemma do_close_inv s code : inv (fst (do_close s code)).
Proof. intros _. unfold do_close; cbn [fst ops]. induction (ops s); [reflexivity|exact IHl]. Qed.

Lemma forallb_remove_op l x : forallb op_cancelled l = true -> forallb op_cancelled (remove_op l x) = true.
Proof.
  induction l as [|y l IH]; [reflexivity|]. cbn [forallb remove_op]. intros H. apply andb_true_iff in H as [Hy Hl].
  destruct (String.eqb (op_id y) x); [exact Hl|]. cbn [forallb]. now rewrite Hy, IH.
Qed.

Ltac close_cases :=
  repeat match goal with
         | |- context [let (_, _) := do_close ?s ?code in _] =>
             pose proof (do_close_inv s code); destruct (do_close s code) as [? ?]; cbn [fst snd] in *
         end.

Lemma inv_step c s l : inv s -> inv (fst (step c s l)).
Proof.
  intros I. unfold step. destruct (ph s) eqn:Hp.
  - destruct l as [m|e]; [destruct m as [p|id k|id| | | | | | |]; try destruct p; try destruct (w_init_accepts c)|destruct e];
      close_cases; cbn [fst]; try assumption; try apply do_close_inv; try (intros H; cbn in H; discriminate).
    all: try (intros H; rewrite Hp in H; discriminate).
  - destruct l as [m|e]; [destruct m as [p|id k|id| | | | | | |]; try destruct k|destruct e; try destruct reason];
      close_cases; unfold end_op;
      try (destruct (find_op (ops s) id) as [o|]; [try destruct (op_cancelled o)|]);
      cbn [fst]; try assumption; try apply do_close_inv; try (intros H; cbn in H; try rewrite Hp in H; discriminate).
  - destruct l as [m|e]; [exact I|]. destruct e; try exact I; unfold end_op;
      (destruct (find_op (ops s) id) as [o|]; [|exact I]); cbn [fst]; intros H; cbn [ops ph] in *;
      apply forallb_remove_op; apply I; exact Hp.
Qed.

Lemma inv_run c ls : forall s, inv s -> inv (fst (run c s ls)).
Proof.
  induction ls as [|l r IH]; intros s I; cbn [run]; [exact I|].
  pose proof (inv_step c s l I) as I1. destruct (step c s l) as [s1 o1]. cbn [fst] in I1.
  specialize (IH s1 I1). destruct (run c s1 r) as [s2 o2]. exact IH.
Qed.

Lemma inv_ws0 : inv ws0. Proof. intros H; discriminate. Qed.

(** Stopping an operation, its own end, or closing the connection: in every state reached from the start, once
    the session is closed every operation still running has had its context cancelled. *)
Theorem close_cancels_all_lemma c ls :
  ph (fst (run c ws0 ls)) = Closed -> forallb op_cancelled (ops (fst (run c ws0 ls))) = true.
Proof. apply (inv_run c ls ws0 inv_ws0). Qed.

(** ---- 4. per-operation frames ---- *)
Definition fo (id : string) (l : list out) : list out := filter (is_frame_of id) l.
Lemma fo_app id a b : fo id (a ++ b) = fo id a ++ fo id b. Proof. apply filter_app. Qed.

Fixpoint cnt (id : string) (l : list op) {struct l} : nat :=
  match l with [] => 0 | o :: r => (if String.eqb (op_id o) id then 1 else 0) + cnt id r end.

Lemma cnt_zero_find id l : cnt id l = 0 -> find_op l id = None.
Proof.
  induction l as [|o l IH]; [reflexivity|]. cbn [cnt find_op]. destruct (String.eqb (op_id o) id); [discriminate|]. exact IH.
Qed.
Lemma cnt_app id a b : cnt id (a ++ b) = cnt id a + cnt id b.
Proof. induction a as [|o a IH]; cbn [app cnt]; [reflexivity|]. rewrite IH. lia. Qed.
Lemma cnt_map_cancel id l : cnt id (map (fun o => {| op_id := op_id o; op_cancelled := true |}) l) = cnt id l.
Proof. induction l as [|o l IH]; cbn [map cnt op_id]; [reflexivity|]. now rewrite IH. Qed.
Lemma cnt_cancel_op id l x : cnt id (cancel_op l x) = cnt id l.
Proof.
  induction l as [|o l IH]; [reflexivity|]. cbn [cancel_op]. destruct (String.eqb (op_id o) x) eqn:E; cbn [cnt op_id].
  - apply String.eqb_eq in E. now rewrite E.
  - now rewrite IH.
Qed.
Lemma cnt_remove_other id l x : x <> id -> cnt id (remove_op l x) = cnt id l.
Proof.
  intros Hne. induction l as [|o l IH]; [reflexivity|]. cbn [remove_op]. destruct (String.eqb (op_id o) x) eqn:E; cbn [cnt].
  - apply String.eqb_eq in E. destruct (String.eqb (op_id o) id) eqn:E2; [apply String.eqb_eq in E2; congruence|reflexivity].
  - now rewrite IH.
Qed.
Lemma cnt_remove_same id l : cnt id l = 1 -> cnt id (remove_op l id) = 0.
Proof.
  induction l as [|o l IH]; [discriminate|]. cbn [cnt remove_op]. destruct (String.eqb (op_id o) id) eqn:E.
  - intros H. lia.
  - cbn [cnt]. rewrite E. cbn. exact IH.
Qed.

Lemma fo_close id s code : fo id (snd (do_close s code)) = [].
Proof.
  unfold do_close, fo; cbn [snd filter is_frame_of]. rewrite filter_app. cbn.
  induction (filter (fun o => negb (op_cancelled o)) (ops s)); [reflexivity|exact IHl].
Qed.
Lemma cnt_close id s code : cnt id (ops (fst (do_close s code))) = cnt id (ops s).
Proof. unfold do_close; cbn [fst ops]. apply cnt_map_cancel. Qed.

(** one step, seen from one id that is NOT being started by this label: either nothing about it changes and no
    frame of it is written, or the step is about this id *)
Definition about (id : string) (l : label) : bool :=
  match l with
  | LC (CStart i _) => String.eqb i id
  | LS (SEmit i) | LS (SEnd i) | LS (SFailEnd i) | LS (SPanic i) => String.eqb i id
  | _ => false
  end.

Ltac dc_facts id :=
  repeat match goal with
         | |- context [let (_, _) := do_close ?s ?code in _] =>
             let F := fresh "F" in let C := fresh "C" in
             pose proof (fo_close id s code) as F; pose proof (cnt_close id s code) as C;
             destruct (do_close s code) as [? ?]; cbn [fst snd] in F, C
         end.

Ltac fin_other Ha Hp :=
  unfold fo in *; cbn [fst snd filter is_frame_of ops app]; rewrite ?Hp, ?Ha; cbn [fst snd filter is_frame_of ops app]; rewrite ?Ha;
  cbn [filter];
  first [ split; [reflexivity|reflexivity]
        | split; [assumption|assumption]
        | split; [apply fo_close|apply cnt_close]
        | split; [reflexivity|rewrite cnt_app; cbn [cnt op_id]; rewrite Ha; lia]
        | split; [reflexivity|apply cnt_cancel_op]
        | split; [reflexivity|apply cnt_remove_other; intros ->; rewrite String.eqb_refl in Ha; discriminate] ].

Lemma step_other c id s l : about id l = false ->
  fo id (snd (step c s l)) = [] /\ cnt id (ops (fst (step c s l))) = cnt id (ops s).
Proof.
  intros Ha. unfold step. destruct (ph s) eqn:Hp.
  - destruct l as [m|e]; [destruct m as [p|i k|i| | | | | | |]; try destruct p; try destruct (w_init_accepts c)|destruct e];
      dc_facts id; fin_other Ha Hp.
  - destruct l as [m|e]; [destruct m as [p|i k|i| | | | | | |]; try destruct k|destruct e; try destruct reason];
      cbn [about] in Ha; dc_facts id; unfold end_op;
      repeat match goal with
             | |- context [find_op ?l ?i] => destruct (find_op l i) as [?o|]
             | |- context [op_cancelled ?o] => destruct (op_cancelled o)
             end;
      try (destruct (w_tick c)); fin_other Ha Hp.
  - destruct l as [m|e]; [fin_other Ha Hp|]. destruct e; cbn [about] in Ha; unfold end_op;
      repeat match goal with
             | |- context [find_op ?l ?i] => destruct (find_op l i) as [?o|]
             end; fin_other Ha Hp.
Qed.

Lemma cnt_pos_find id l : cnt id l <> 0 -> exists o, find_op l id = Some o.
Proof.
  induction l as [|o l IH]; [intros H; now elim H|]. cbn [cnt find_op]. destruct (String.eqb (op_id o) id); eauto.
Qed.

(** an event about an operation that is not running changes nothing *)
Lemma step_absent_event c id s e :
  cnt id (ops s) = 0 -> (e = SEmit id \/ e = SEnd id \/ e = SFailEnd id \/ e = SPanic id) ->
  step c s (LS e) = (s, []).
Proof.
  intros Hc He. pose proof (cnt_zero_find _ _ Hc) as Hf. unfold step, end_op.
  destruct He as [->|[->|[->| ->]]]; destruct (ph s); rewrite ?Hf; reflexivity.
Qed.

Lemma about_true_cases id l : about id l = true ->
  (exists k, l = LC (CStart id k)) \/ l = LS (SEmit id) \/ l = LS (SEnd id) \/ l = LS (SFailEnd id) \/ l = LS (SPanic id).
Proof.
  destruct l as [m|e]; [destruct m|destruct e]; cbn [about]; try discriminate; intros H; apply String.eqb_eq in H; subst; eauto 6.
Qed.

Lemma ids_of_cons l ls : ids_of (l :: ls) = (match l with LC (CStart i _) => [i] | _ => [] end) ++ ids_of ls.
Proof. reflexivity. Qed.

Lemma absent_no_frames c id ls : forall s,
  cnt id (ops s) = 0 -> ~ In id (ids_of ls) -> fo id (snd (run c s ls)) = [].
Proof.
  induction ls as [|l r IH]; intros s Hc Hn; cbn [run]; [reflexivity|].
  assert (Hr : ~ In id (ids_of r)).
  { intros H. apply Hn. rewrite ids_of_cons. apply in_or_app. now right. }
  destruct (about id l) eqn:Ha.
  - destruct (about_true_cases id l Ha) as [[k ->]|He].
    + exfalso. apply Hn. rewrite ids_of_cons. now left.
    + assert (E : step c s l = (s, [])).
      { destruct He as [->|[->|[->| ->]]]; apply (step_absent_event c id); auto. }
      rewrite E. specialize (IH s Hc Hr). destruct (run c s r) as [s2 o2]. exact IH.
  - destruct (step_other c id s l Ha) as [F C]. destruct (step c s l) as [s1 o1]. cbn [fst snd] in F, C.
    assert (Hc1 : cnt id (ops s1) = 0) by lia.
    specialize (IH s1 Hc1 Hr). destruct (run c s1 r) as [s2 o2]. cbn [snd] in *. now rewrite fo_app, F, IH.
Qed.

(** a running operation: data frames until its goroutine ends, then its terminator, then nothing *)
Lemma running_frames c id ls : forall s,
  cnt id (ops s) = 1 -> ~ In id (ids_of ls) -> frames_ok GData (fo id (snd (run c s ls))) = true.
Proof.
  induction ls as [|l r IH]; intros s Hc Hn; cbn [run]; [reflexivity|].
  assert (Hr : ~ In id (ids_of r)).
  { intros H. apply Hn. rewrite ids_of_cons. apply in_or_app. now right. }
  destruct (about id l) eqn:Ha.
  - destruct (about_true_cases id l Ha) as [[k ->]|He].
    + exfalso. apply Hn. rewrite ids_of_cons. now left.
    + destruct (cnt_pos_find id (ops s)) as [o Hf]; [lia|].
      assert (Hrem : cnt id (remove_op (ops s) id) = 0) by (now apply cnt_remove_same).
      destruct He as [->|[->|[->| ->]]]; unfold step, end_op; destruct (ph s) eqn:Hp; rewrite ?Hf;
        try (specialize (IH s Hc Hr); destruct (run c s r) as [s2 o2]; exact IH);
        try (destruct (op_cancelled o);
             [specialize (IH s Hc Hr); destruct (run c s r) as [s2 o2]; exact IH
             |specialize (IH s Hc Hr); destruct (run c s r) as [s2 o2]; cbn [snd app fo filter is_frame_of];
              rewrite String.eqb_refl; cbn [frames_ok]; exact IH]);
        (* the operation ends: what follows carries no frame of it *)
        match goal with
        | |- context [run c {| ph := ?p; ops := remove_op (ops s) id |} r] =>
            pose proof (absent_no_frames c id r {| ph := p; ops := remove_op (ops s) id |} Hrem Hr) as Hz;
            destruct (run c {| ph := p; ops := remove_op (ops s) id |} r) as [s2 o2]; cbn [snd] in *;
            rewrite fo_app, Hz, app_nil_r; destruct (op_cancelled o);
            unfold fo; rewrite ?filter_app; cbn [filter is_frame_of app]; rewrite ?String.eqb_refl; cbn [filter app frames_ok]; reflexivity
        end.
  - destruct (step_other c id s l Ha) as [F C]. destruct (step c s l) as [s1 o1]. cbn [fst snd] in F, C.
    assert (Hc1 : cnt id (ops s1) = 1) by lia.
    specialize (IH s1 Hc1 Hr). destruct (run c s1 r) as [s2 o2]. cbn [snd] in *. now rewrite fo_app, F.
Qed.

(** For every session in which the client uses each operation id once: the frames carrying that id are results,
    then an error and/or a completion - at most one completion, nothing after it, no result after an error. *)
Lemma per_operation_frames_gen c id ls : forall s,
  cnt id (ops s) = 0 -> NoDup (ids_of ls) -> frames_ok GData (fo id (snd (run c s ls))) = true.
Proof.
  induction ls as [|l r IH]; intros s Hc ND; cbn [run]; [reflexivity|].
  assert (NDr : NoDup (ids_of r)).
  { rewrite ids_of_cons in ND. destruct l as [[p|i k|i| | | | | | |]|e]; cbn [app] in ND; try exact ND. now inversion ND. }
  destruct (about id l) eqn:Ha.
  - destruct (about_true_cases id l Ha) as [[k ->]|He].
    + assert (Hr : ~ In id (ids_of r)) by (rewrite ids_of_cons in ND; cbn [app] in ND; now inversion ND).
      unfold step. destruct (ph s) eqn:Hp.
      * (* before the handshake: the connection is closed *)
        pose proof (fo_close id s close_protocol) as F. pose proof (cnt_close id s close_protocol) as C.
        destruct (do_close s close_protocol) as [s1 o1]. cbn [fst snd] in F, C.
        assert (Hc1 : cnt id (ops s1) = 0) by lia.
        pose proof (absent_no_frames c id r s1 Hc1 Hr) as Hz. destruct (run c s1 r) as [s2 o2]. cbn [snd] in *.
        change (OConnError :: o1) with ([OConnError] ++ o1). rewrite !fo_app, F, Hz. reflexivity.
      * destruct k.
        -- assert (Hc1 : cnt id (ops s ++ [{| op_id := id; op_cancelled := false |}]) = 1).
           { rewrite cnt_app. cbn [cnt op_id]. rewrite String.eqb_refl. lia. }
           pose proof (running_frames c id r {| ph := Running; ops := ops s ++ [{| op_id := id; op_cancelled := false |}] |} Hc1 Hr) as Hz.
           destruct (run c _ r) as [s2 o2]. cbn [snd app] in *. unfold fo at 1. cbn [filter is_frame_of]. exact Hz.
        -- pose proof (absent_no_frames c id r s Hc Hr) as Hz. destruct (run c s r) as [s2 o2]. cbn [snd] in *.
           rewrite fo_app, Hz. unfold fo; cbn [filter is_frame_of]. rewrite String.eqb_refl. reflexivity.
        -- pose proof (absent_no_frames c id r s Hc Hr) as Hz. destruct (run c s r) as [s2 o2]. cbn [snd] in *.
           rewrite fo_app, Hz. unfold fo; cbn [filter is_frame_of]. rewrite String.eqb_refl. reflexivity.
        -- pose proof (absent_no_frames c id r s Hc Hr) as Hz. destruct (run c s r) as [s2 o2]. cbn [snd] in *.
           rewrite fo_app, Hz. unfold fo; cbn [filter is_frame_of]. rewrite String.eqb_refl. reflexivity.
      * pose proof (absent_no_frames c id r s Hc Hr) as Hz. destruct (run c s r) as [s2 o2]. cbn [snd app] in *. now rewrite Hz.
    + assert (E : step c s l = (s, [])).
      { destruct He as [->|[->|[->| ->]]]; apply (step_absent_event c id); auto. }
      rewrite E. specialize (IH s Hc NDr). destruct (run c s r) as [s2 o2]. exact IH.
  - destruct (step_other c id s l Ha) as [F C]. destruct (step c s l) as [s1 o1]. cbn [fst snd] in F, C.
    assert (Hc1 : cnt id (ops s1) = 0) by lia.
    specialize (IH s1 Hc1 NDr). destruct (run c s1 r) as [s2 o2]. cbn [snd] in *. now rewrite fo_app, F.
Qed.

Theorem per_operation_frames_lemma c id ls :
  NoDup (ids_of ls) -> op_frames_ok id (snd (run c ws0 ls)) = true.
Proof. intros ND. exact (per_operation_frames_gen c id ls ws0 eq_refl ND). Qed.
