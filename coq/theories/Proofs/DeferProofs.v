From GV Require Import Base.Prelude Model.Exec Model.Defer Proofs.ExecProofs.
Open Scope string_scope.
Open Scope list_scope.

(** Without any deferred position the content function is the specification's completed data. *)
Lemma assemble_nomarks n : forall p nn, assemble [] p nn n = fst (complete_spec nn p n).
Proof.
  unfold complete_spec.
  induction n as [tk f|s|e|enn l IH|tn fs IH] using rnode_ind'; intros p nn; try reflexivity.
  - cbn. destruct nn; reflexivity.
  - rewrite complete_spec_list. cbn [assemble].
    assert (H : forall i,
      (fix go (i : nat) (l : list rnode) {struct l} : option (list jt) :=
         match l with
         | [] => Some []
         | x :: r => match assemble [] (p ++ [PIdx i]) enn x, go (S i) r with
                     | Some a, Some b => Some (a :: b) | _, _ => None end
         end) i l = fst (spec_list false enn p i l)).
    { induction IH as [|x r Hx _ IHr]; intros i; cbn [spec_list]; [reflexivity|].
      rewrite (Hx (p ++ [PIdx i]) enn), (IHr (S i)).
      destruct (complete_spec_gen false enn (p ++ [PIdx i]) x) as [v es]. destruct (spec_list false enn p (S i) r) as [vs es'].
      cbn [fst]. destruct v, vs; reflexivity. }
    rewrite H. destruct (spec_list false enn p 0 l) as [vs es]. cbn [fst]. destruct vs; reflexivity.
  - rewrite complete_spec_obj. cbn [assemble mark_of].
    assert (H :
      (fix go (l : list (string * bool * rnode)) {struct l} : option (list (string * jt)) :=
         match l with
         | [] => Some []
         | (k, fnn, c) :: r =>
             match assemble [] (p ++ [PKey k]) fnn c, go r with
             | Some a, Some b => Some ((k, a) :: b) | _, _ => None end
         end) fs = fst (spec_obj false p fs)).
    { induction IH as [|[[k fnn] c] r Hx _ IHr]; cbn [spec_obj]; [reflexivity|].
      cbn [snd] in Hx. rewrite (Hx (p ++ [PKey k]) fnn), IHr.
      destruct (complete_spec_gen false fnn (p ++ [PKey k]) c) as [v es]. destruct (spec_obj false p r) as [vs es'].
      cbn [fst]. destruct v, vs; reflexivity. }
    rewrite H. destruct (spec_obj false p fs) as [vs es]. cbn [fst]. destruct vs; reflexivity.
Qed.

(** Group payloads of ONE object touch distinct keys that the initial payload already holds (as null
    placeholders): applying them commutes, so their completion order cannot matter. *)
Lemma set_key_keys l k v : In k (map fst l) -> map fst (set_key l k v) = map fst l.
Proof.
  induction l as [|[k' v'] r IH]; cbn [set_key map fst In]; [tauto|].
  destruct (String.eqb k k') eqn:E; cbn [map fst].
  - apply String.eqb_eq in E. subst. reflexivity.
  - intros [H|H]; [subst; rewrite String.eqb_refl in E; discriminate|]. rewrite (IH H). reflexivity.
Qed.

Lemma set_key_comm l k1 v1 k2 v2 :
  k1 <> k2 -> In k1 (map fst l) -> In k2 (map fst l) ->
  set_key (set_key l k1 v1) k2 v2 = set_key (set_key l k2 v2) k1 v1.
Proof.
  intros Hne. induction l as [|[k v] r IH]; cbn [map fst In]; [tauto|]. intros H1 H2.
  cbn [set_key]. destruct (String.eqb k1 k) eqn:E1; destruct (String.eqb k2 k) eqn:E2; cbn [set_key]; rewrite ?E1, ?E2.
  - apply String.eqb_eq in E1. apply String.eqb_eq in E2. congruence.
  - assert (E3 : String.eqb k2 k1 = false) by (apply String.eqb_neq; congruence). rewrite E3. reflexivity.
  - assert (E3 : String.eqb k1 k2 = false) by (apply String.eqb_neq; congruence). rewrite E3. reflexivity.
  - f_equal. apply IH.
    + destruct H1 as [H1|H1]; [subst; rewrite String.eqb_refl in E1; discriminate | exact H1].
    + destruct H2 as [H2|H2]; [subst; rewrite String.eqb_refl in E2; discriminate | exact H2].
Qed.

(** KEPT FINDINGS, on the executable model of the client merge. *)
Definition t_nested : rnode :=
  NObj "Query" [("a", false, NObj "A" [("name", false, NLeaf KLeafString "name");
                                        ("strictPeer", true, NObj "A" [("a1", true, NLeaf KLeafString "a1");
                                                                        ("a2", false, NLeaf KLeafInt "a2")])])].
Definition m_nested : marks :=
  [([PKey "a"; PKey "name"], "outer"); ([PKey "a"; PKey "strictPeer"], "outer");
   ([PKey "a"; PKey "strictPeer"; PKey "a2"], "inner")].

(** parent first: the merge is the content; child first (admitted by the implementation): data is lost *)
Lemma nested_order_witness :
  let pls := all_payloads m_nested t_nested in
  match pls with
  | [init; outer; inner] =>
      merge_payloads [init; outer; inner] = match assemble m_nested [] false t_nested with Some j => j | None => TNull end
      /\ merge_payloads [init; inner; outer] <> merge_payloads [init; outer; inner]
  | _ => False
  end.
Proof. vm_compute. split; [reflexivity|discriminate]. Qed.
