(** C16, gate closed: nothing of the schema is obtained, whatever the query looks like. *)
From GV Require Import Base.Prelude Model.Introspect Model.IntroQuery.
Open Scope string_scope.

Lemma root_field_disabled v s qn q :
  root_field v false s qn q =
  if is (q_name q) "__typename" then (JS qn, false)
  else if is_intro_root (q_name q) then (JN, true) else (opaque, false).
Proof. destruct q as [a n i an subs]; cbn [root_field q_name]. reflexivity. Qed.

(** Non-interference: with introspection disabled the response is the same function of the query for every
    schema value (the name of the query type is what [__typename] answers and is not part of the secret). *)
Theorem disabled_noninterference v1 v2 s1 s2 qn roots :
  exec_roots v1 false s1 qn roots = exec_roots v2 false s2 qn roots.
Proof.
  unfold exec_roots.
  assert (E : map (fun q => (q, root_field v1 false s1 qn q)) roots = map (fun q => (q, root_field v2 false s2 qn q)) roots).
  { apply map_ext. intros q. now rewrite !root_field_disabled. }
  now rewrite E.
Qed.

Lemma lookup_key_map (f : qsel -> jv) k roots :
  lookup_key k (map (fun q => (q_alias q, f q)) roots) =
  option_map f (find (fun q => String.eqb k (q_alias q)) roots).
Proof.
  induction roots as [|q r IH]; cbn [map lookup_key find option_map]; [reflexivity|].
  destruct (String.eqb k (q_alias q)); [reflexivity|exact IH].
Qed.

Lemma find_nodup_alias q roots :
  NoDup (map q_alias roots) -> In q roots -> find (fun q' => String.eqb (q_alias q) (q_alias q')) roots = Some q.
Proof.
  induction roots as [|x r IH]; [intros _ []|].
  cbn [map find]. intros ND [->|Hin].
  - now rewrite String.eqb_refl.
  - inversion ND as [|? ? Hnot ND']; subst.
    destruct (String.eqb (q_alias q) (q_alias x)) eqn:E.
    + apply String.eqb_eq in E. exfalso. apply Hnot. rewrite <- E. now apply in_map.
    + now apply IH.
Qed.

(** With the gate closed, every response key whose field is [__schema], [__type] or [_service] is null (or the
    whole data is, when the non-null [_service] propagates) and is named by an error - for every selection,
    however aliased, merged from fragments or parameterised. *)
Theorem disabled_reveals_nothing v s qn roots :
  NoDup (map q_alias roots) ->
  let r := exec_roots v false s qn roots in
  monitor_disabled roots (rr_data r) (rr_errors r) = true.
Proof.
  intros ND r. unfold monitor_disabled. apply forallb_forall. intros q Hin.
  destruct (is_intro_root (q_name q)) eqn:Hi; [|reflexivity].
  assert (Hnt : is (q_name q) "__typename" = false).
  { unfold is_intro_root, is in *. destruct (String.eqb (q_name q) "__typename") eqn:E; [|reflexivity].
    apply String.eqb_eq in E. rewrite E in Hi. discriminate. }
  apply andb_true_iff. split.
  - (* an error names the key *)
    subst r. unfold exec_roots; cbn [rr_errors].
    apply existsb_exists. exists (q_alias q). split; [|apply String.eqb_refl].
    apply in_map_iff. exists (q, root_field v false s qn q). split; [reflexivity|].
    apply filter_In. split; [apply in_map_iff; eauto|].
    rewrite root_field_disabled, Hnt, Hi. reflexivity.
  - subst r. unfold exec_roots; cbn [rr_data].
    match goal with |- context [if ?b then JN else _] => destruct b end; [reflexivity|].
    rewrite map_map. cbn [fst snd].
    rewrite (lookup_key_map (fun x => fst (root_field v false s qn x))).
    rewrite (find_nodup_alias q roots ND Hin). cbn [option_map].
    rewrite root_field_disabled, Hnt, Hi. reflexivity.
Qed.

(** and the errors are exactly those keys *)
Theorem disabled_errors_exact v s qn roots :
  rr_errors (exec_roots v false s qn roots) = map q_alias (filter (fun q => is_intro_root (q_name q)) roots).
Proof.
  unfold exec_roots; cbn [rr_errors].
  induction roots as [|q r IH]; cbn [map filter]; [reflexivity|].
  rewrite root_field_disabled.
  destruct (is (q_name q) "__typename") eqn:Ht.
  - assert (Hi : is_intro_root (q_name q) = false).
    { unfold is in Ht. apply String.eqb_eq in Ht. rewrite Ht. reflexivity. }
    rewrite Hi. cbn [snd]. exact IH.
  - destruct (is_intro_root (q_name q)); cbn [snd map fst]; now rewrite IH.
Qed.
