(** C03 under concurrent requests: with the rule swap under the write lock and the validation under the read lock,
    every request of every interleaving gets the verdict it gets alone; the pinned commit (no lock) is refuted. *)
From GV Require Import Base.Prelude Base.Threads Model.RuleSwap.
Open Scope nat_scope.
Open Scope list_scope.

Record qinv (s : qstate) : Prop := {
  qi_w : count swapping (g_thr s) = if g_writer s then 1 else 0;
  qi_r : count reading (g_thr s) = g_readers s;
  qi_x : g_writer s = true -> g_readers s = 0;
  qi_p : g_writer s = false -> present (g_rules s) = true;
  qi_rep : forall i t, nth_error (g_thr s) i = Some t -> q_pc t = QReplaced -> r_nosugg (g_rules s) = true;
  qi_v : forall i t v, nth_error (g_thr s) i = Some t -> q_verdict t = Some v -> v = alone (q_doc t) }.

Lemma qinv_init reqs : qinv (qinit reqs).
Proof.
  constructor; cbn.
  - induction reqs; cbn; auto.
  - induction reqs; cbn; auto.
  - discriminate.
  - reflexivity.
  - intros i t H. rewrite nth_error_map in H. destruct (nth_error reqs i); [|discriminate]. inversion H; subst. discriminate.
  - intros i t v H. rewrite nth_error_map in H. destruct (nth_error reqs i); [|discriminate]. inversion H; subst. discriminate.
Qed.

(** the generic step: thread [i] becomes [t'], the globals become [r], [w], [n] *)
Lemma put_qinv s i t t' (r : rules) (w : bool) (n : nat) :
  qinv s -> nth_error (g_thr s) i = Some t ->
  (count swapping (g_thr s) + (if swapping t' then 1 else 0) = (if w then 1 else 0) + (if swapping t then 1 else 0)) ->
  (count reading (g_thr s) + (if reading t' then 1 else 0) = n + (if reading t then 1 else 0)) ->
  (w = true -> n = 0) ->
  (w = false -> present r = true) ->
  (r = g_rules s \/ (swapping t = true /\ g_writer s = true)) ->
  (q_pc t' = QReplaced -> r_nosugg r = true) ->
  (forall v, q_verdict t' = Some v -> v = alone (q_doc t')) ->
  q_doc t' = q_doc t ->
  qinv (g_put s i t' r w n).
Proof.
  intros [Iw Ir Ix Ip Irep Iv] Ni Hw Hr Hx Hp Hrules Hrep Hv Hd. constructor; cbn [g_put g_thr g_rules g_writer g_readers].
  - pose proof (count_upd swapping i t' t _ Ni). lia.
  - pose proof (count_upd reading i t' t _ Ni). lia.
  - exact Hx.
  - exact Hp.
  - intros j tj Nj Pj. destruct (nth_upd_cases _ _ _ _ _ _ Ni Nj) as [[-> ->]|[N Nj']]; [exact (Hrep Pj)|].
    destruct Hrules as [->|[St Wt]]; [exact (Irep j tj Nj' Pj)|].
    exfalso. assert (swapping tj = true) as Sj by (unfold swapping; now rewrite Pj).
    pose proof (count_two swapping _ i j t tj (fun e => N (eq_sym e)) Ni Nj' St Sj). rewrite Wt in Iw. lia.
  - intros j tj v Nj Vj. destruct (nth_upd_cases _ _ _ _ _ _ Ni Nj) as [[-> ->]|[N Nj']]; [exact (Hv v Vj)|exact (Iv j tj v Nj' Vj)].
Qed.

Ltac thread_facts Pc t :=
  match type of Pc with _ = ?c =>
    let St := fresh "St" in let Rt := fresh "Rt" in
    assert (swapping t = match c with QWHeld | QRemRead | QRemoved | QRepRead | QReplaced => true | _ => false end) as St by (unfold swapping; now rewrite Pc);
    assert (reading t = match c with QRHeld | QValidated => true | _ => false end) as Rt by (unfold reading; now rewrite Pc);
    cbn in St, Rt; rewrite ?St, ?Rt
  end.
Ltac new_thread :=
  repeat match goal with
  | |- context [swapping (q_with ?t ?pc ?l ?v)] => let b := eval cbn in (swapping (q_with t pc l v)) in change (swapping (q_with t pc l v)) with b
  | |- context [reading (q_with ?t ?pc ?l ?v)] => let b := eval cbn in (reading (q_with t pc l v)) in change (reading (q_with t pc l v)) with b
  end.
Ltac finish_put Pc t :=
  cbn [q_with q_pc q_verdict q_doc]; new_thread; thread_facts Pc t; unfold present; cbn [r_orig r_nosugg];
  rewrite ?orb_true_r; try lia; try discriminate; try tauto; auto.

Theorem qstep_inv s i s' : qinv s -> qstep true s i = Some s' -> qinv s'.
Proof.
  intros I. pose proof I as [Iw Ir Ix Ip Irep Iv]. unfold qstep, to_validate.
  destruct (nth_error (g_thr s) i) as [t|] eqn:Ni; [|discriminate].
  assert (forall v, q_verdict t = Some v -> v = alone (q_doc t)) as Vt by (intros v; exact (Iv i t v Ni)).
  assert (g_writer s = true -> swapping t = true -> forall j tj, j <> i -> nth_error (g_thr s) j = Some tj -> swapping tj = false) as Only.
  { intros Wt St j tj N Nj. destruct (swapping tj) eqn:Sj; [|reflexivity]. exfalso.
    pose proof (count_two swapping _ i j t tj (fun e => N (eq_sym e)) Ni Nj St Sj). rewrite Wt in Iw. lia. }
  assert (swapping t = true -> g_writer s = true) as SW.
  { intros St. destruct (g_writer s) eqn:W; [reflexivity|]. exfalso.
    pose proof (count_zero_all swapping _ i t Iw Ni). congruence. }
  assert (reading t = true -> g_writer s = false) as RW.
  { intros Rt. destruct (g_writer s) eqn:W; [|reflexivity]. exfalso.
    specialize (Ix eq_refl). rewrite Ix in Ir. pose proof (count_zero_all reading _ i t Ir Ni). congruence. }
  destruct (q_pc t) eqn:Pc.
  - (* start *)
    destruct (q_disable t).
    + destruct (g_writer s) eqn:W; [discriminate|]. destruct (Nat.eqb (g_readers s) 0) eqn:R0; [|discriminate]. cbn [orb negb].
      apply Nat.eqb_eq in R0. intros E; inversion E; subst; clear E.
      apply (put_qinv s i t); try assumption; finish_put Pc t.
    + destruct (g_writer s) eqn:W; [discriminate|]. intros E; inversion E; subst; clear E.
      apply (put_qinv s i t); try assumption; finish_put Pc t.
  - (* RemoveRule reads *)
    assert (swapping t = true) as St by (unfold swapping; now rewrite Pc). pose proof (SW St) as W. pose proof Iw as Iw'. rewrite W in Iw'.
    intros E; inversion E; subst; clear E.
    apply (put_qinv s i t); try assumption; rewrite ?W; finish_put Pc t.
  - (* RemoveRule writes *)
    assert (swapping t = true) as St by (unfold swapping; now rewrite Pc). pose proof (SW St) as W. pose proof Iw as Iw'. rewrite W in Iw'.
    intros E; inversion E; subst; clear E.
    apply (put_qinv s i t); try assumption; rewrite ?W; finish_put Pc t.
  - (* ReplaceRule reads *)
    assert (swapping t = true) as St by (unfold swapping; now rewrite Pc). pose proof (SW St) as W. pose proof Iw as Iw'. rewrite W in Iw'.
    intros E; inversion E; subst; clear E.
    apply (put_qinv s i t); try assumption; rewrite ?W; finish_put Pc t.
  - (* ReplaceRule writes *)
    assert (swapping t = true) as St by (unfold swapping; now rewrite Pc). pose proof (SW St) as W. pose proof Iw as Iw'. rewrite W in Iw'.
    intros E; inversion E; subst; clear E.
    apply (put_qinv s i t); try assumption; rewrite ?W; finish_put Pc t.
  - (* Unlock *)
    assert (swapping t = true) as St by (unfold swapping; now rewrite Pc). pose proof (SW St) as W. pose proof Iw as Iw'. rewrite W in Iw'.
    intros E; inversion E; subst; clear E.
    pose proof (Irep i t Ni Pc) as Ns.
    apply (put_qinv s i t); try assumption; rewrite ?W, ?Ns; finish_put Pc t.
  - (* RLock *)
    destruct (g_writer s) eqn:W; [discriminate|]. intros E; inversion E; subst; clear E.
    apply (put_qinv s i t); try assumption; finish_put Pc t.
  - (* Validate reads the rule set *)
    assert (reading t = true) as Rt by (unfold reading; now rewrite Pc). pose proof (RW Rt) as W. pose proof (Ip W) as Pr. pose proof Iw as Iw'. rewrite W in Iw'.
    intros E; inversion E; subst; clear E.
    apply (put_qinv s i t); try assumption; rewrite ?W; finish_put Pc t.
    intros v Ev. inversion Ev; subst. unfold rejects, alone, present in *. destruct (q_doc t); try reflexivity. exact Pr.
  - (* RUnlock *)
    assert (reading t = true) as Rt by (unfold reading; now rewrite Pc). pose proof (RW Rt) as W. pose proof Iw as Iw'. rewrite W in Iw'.
    assert (1 <= g_readers s) as R1. { rewrite <- Ir. clear -Ni Rt. revert i Ni; induction (g_thr s) as [|x l IH]; intros [|i] Ni; cbn in *; try discriminate; [inversion Ni; subst; rewrite Rt; lia|specialize (IH _ Ni); lia]. }
    intros E; inversion E; subst; clear E.
    apply (put_qinv s i t); try assumption; rewrite ?W; finish_put Pc t.
  - discriminate.
Qed.

Theorem qrun_inv tr : forall s s', qinv s -> qrun true s tr = Some s' -> qinv s'.
Proof.
  induction tr as [|i tr IH]; intros s s' I; cbn [qrun]; [intros E; now inversion E; subst|].
  destruct (qstep true s i) as [s1|] eqn:E; [|discriminate]. apply IH. exact (qstep_inv _ _ _ I E).
Qed.

(** every request of every interleaving is answered as if it ran alone: an invalid document is rejected, whatever
    the other requests (of executors with or without suggestions) are doing *)
Theorem concurrent_validation_lemma reqs tr s i t v :
  qrun true (qinit reqs) tr = Some s -> nth_error (g_thr s) i = Some t -> q_verdict t = Some v -> v = alone (q_doc t).
Proof. intros R Ni V. exact (qi_v _ (qrun_inv tr _ _ (qinv_init reqs) R) i t v Ni V). Qed.

(** the documents never change *)
Lemma qstep_docs l s i s' : qstep l s i = Some s' -> map q_doc (g_thr s') = map q_doc (g_thr s).
Proof.
  unfold qstep, to_validate. destruct (nth_error (g_thr s) i) as [t|] eqn:Ni; [|discriminate].
  assert (forall t', q_doc t' = q_doc t -> map q_doc (upd i t' (g_thr s)) = map q_doc (g_thr s)) as K
    by (intros t' E; exact (map_upd_same _ _ _ _ _ Ni E)).
  destruct (q_pc t); repeat match goal with |- context [if ?b then _ else _] => destruct b end; try discriminate;
    intros E; inversion E; subst; clear E; cbn [g_put g_thr]; apply K; reflexivity.
Qed.

Lemma qrun_docs l tr : forall s s', qrun l s tr = Some s' -> map q_doc (g_thr s') = map q_doc (g_thr s).
Proof.
  induction tr as [|i tr IH]; intros s s'; cbn [qrun]; [intros E; now inversion E|].
  destruct (qstep l s i) as [s1|] eqn:E; [|discriminate]. intros R. rewrite (IH _ _ R). exact (qstep_docs _ _ _ _ E).
Qed.

(** stated on the requests as submitted *)
Theorem concurrent_verdicts_lemma reqs tr s :
  qrun true (qinit reqs) tr = Some s ->
  Forall2 (fun r v => v = None \/ v = Some (alone (snd r))) reqs (verdicts s).
Proof.
  intros R. pose proof (qrun_inv tr _ _ (qinv_init reqs) R) as I. pose proof (qrun_docs _ _ _ _ R) as D.
  cbn [qinit g_thr] in D. rewrite map_map in D. cbn [qstart q_doc] in D. unfold verdicts.
  destruct I as [_ _ _ _ _ Iv]. clear R. revert reqs D Iv. generalize (g_thr s). clear.
  induction l as [|t l IH]; intros [|r reqs] D Iv; cbn in D; try discriminate; constructor.
  - inversion D as [[Dt Dl]]. destruct (q_verdict t) as [v|] eqn:V; [right|now left]. f_equal. rewrite (Iv 0 t v eq_refl V). cbn in Dt. now rewrite Dt.
  - inversion D as [[Dt Dl]]. apply IH; [exact Dl|]. intros j tj v Nj. exact (Iv (S j) tj v Nj).
Qed.

(** never deadlocked: while some request is unfinished some request can step *)
Theorem concurrent_progress_lemma reqs tr s :
  qrun true (qinit reqs) tr = Some s ->
  (exists i t, nth_error (g_thr s) i = Some t /\ qdone t = false) -> exists j, qstep true s j <> None.
Proof.
  intros R (i & t & Ni & Nd). destruct (qrun_inv tr _ _ (qinv_init reqs) R) as [Iw Ir Ix Ip Irep Iv].
  destruct (g_writer s) eqn:W.
  - (* the writer can always step *)
    destruct (count_pos_exists swapping (g_thr s)) as (j & tj & Nj & Sj); [lia|].
    exists j. unfold qstep. rewrite Nj. unfold swapping in Sj. destruct (q_pc tj); try discriminate.
  - destruct (Nat.eq_dec (g_readers s) 0) as [Z|NZ].
    + exists i. unfold qstep, to_validate. rewrite Ni, W, Z. cbn [orb negb Nat.eqb].
      unfold qdone in Nd. destruct (q_pc t) eqn:Pc; try discriminate; try (destruct (q_disable t); discriminate).
    + destruct (count_pos_exists reading (g_thr s)) as (j & tj & Nj & Rj); [lia|].
      exists j. unfold qstep. rewrite Nj. unfold reading in Rj. destruct (q_pc tj); try discriminate.
Qed.

(** ** the pinned commit (no lock), refuted *)

(** two requests of one executor with suggestions disabled, the first ones of the process: the second request's
    swap is undone by the first request's RemoveRule writing back the copy it read earlier, and the second request's
    document, which selects a field that does not exist, passes validation *)
Theorem unlocked_swap_lost_update_witness :
  exists s, qrun false (qinit [(true, DValid); (true, DUnknownField)]) [0; 0; 1; 1; 1; 1; 1; 1; 0; 1; 1] = Some s /\
            nth_error (verdicts s) 1 = Some (Some false).
Proof. eexists. split; [vm_compute; reflexivity|reflexivity]. Qed.

(** an executor with suggestions enabled, in the same process, validates while the other executor's swap is half done *)
Theorem unlocked_swap_window_witness :
  exists s, qrun false (qinit [(true, DValid); (false, DUnknownField)]) [0; 0; 0; 1; 1] = Some s /\
            nth_error (verdicts s) 1 = Some (Some false).
Proof. eexists. split; [vm_compute; reflexivity|reflexivity]. Qed.

(** non-vacuity: the repaired code under the same two schedules' requests runs to the end, both verdicts as alone *)
Example locked_swap_runs :
  exists s, qrun true (qinit [(true, DValid); (true, DUnknownField); (false, DOtherInvalid)])
              [0; 0; 0; 0; 0; 0; 0; 0; 2; 2; 2; 0; 1; 1; 1; 1; 1; 1; 1; 1; 1] = Some s /\
            verdicts s = [Some false; Some true; Some true] /\ forallb qdone (g_thr s) = true.
Proof. eexists. split; [vm_compute; reflexivity|split; reflexivity]. Qed.
