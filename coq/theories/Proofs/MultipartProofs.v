(** C12 (multipart/mixed): wherever the flush ticks fall between the payloads of an operation, the stream
    parses into parts that deliver the initial payload once, first, every incremental payload once and in
    order, and ends with the closing boundary, which appears nowhere else. *)
From GV Require Import Base.Prelude Model.Multipart.
Open Scope list_scope.

Definition pending (s : mst) : list payload := (match m_initial s with Some p => [p] | None => [] end) ++ m_deferred s.
Definition nxt (s : mst) : pstate := if last_hn s then ExpHeader else PClosed.

(** hasNext pattern *)
Lemma hn_cons2 p q r : hn_pattern (p :: q :: r) = (p_hasnext p && hn_pattern (q :: r))%bool.
Proof. reflexivity. Qed.

Lemma hn_split a : forall b, b <> [] -> hn_pattern (a ++ b) = true -> forallb p_hasnext a = true /\ hn_pattern b = true.
Proof.
  induction a as [|p a IH]; intros b Hb H; [split; [reflexivity|exact H]|].
  destruct (a ++ b) as [|q r] eqn:E.
  - destruct a; [cbn in E; contradiction|discriminate].
  - cbn [app] in H. rewrite E, hn_cons2 in H. apply andb_true_iff in H as [Hp Hr]. rewrite <- E in Hr.
    destruct (IH b Hb Hr) as [H1 H2]. cbn [forallb]. now rewrite Hp, H1.
Qed.

Lemma hn_last a p : hn_pattern (a ++ [p]) = true -> p_hasnext p = false.
Proof.
  intros H. destruct (hn_split a [p] ltac:(discriminate) H) as [_ H2]. cbn in H2. now destruct (p_hasnext p).
Qed.

Lemma hn_last_false_end a p b : p_hasnext p = false -> hn_pattern ((a ++ [p]) ++ b) = true -> b = [].
Proof.
  intros Hp H. destruct b as [|q b]; [reflexivity|exfalso].
  destruct (hn_split (a ++ [p]) (q :: b) ltac:(discriminate) H) as [H1 _].
  rewrite forallb_app in H1. cbn in H1. rewrite Hp in H1. now rewrite andb_false_r in H1.
Qed.

(** the last pending payload decides the delimiter *)
Lemma pending_last s : pending s <> [] -> exists a p, pending s = a ++ [p] /\ last_hn s = p_hasnext p.
Proof.
  unfold pending, last_hn. intros H.
  destruct (m_deferred s) as [|d ds] eqn:D.
  - destruct (m_initial s) as [p|]; [|now elim H]. exists [], p. cbn. split; reflexivity.
  - destruct (exists_last (l := d :: ds) ltac:(discriminate)) as [l' [x E]]. rewrite E, rev_app_distr. cbn [rev app].
    exists ((match m_initial s with Some p => [p] | None => [] end) ++ l'), x. now rewrite app_assoc.
Qed.

(** parsing what one flush writes *)
Lemma parse_flush_initial s p rest : m_initial s = Some p ->
  parse_toks ExpBoundary (flush_toks s ++ rest) =
  cons_body (BInitial p) (match m_deferred s with
                          | [] => parse_toks (nxt s) rest
                          | d => cons_body (BIncr d (last_hn s)) (parse_toks (nxt s) rest)
                          end).
Proof.
  intros Hi. unfold flush_toks, nxt. rewrite Hi. destruct (m_deferred s) as [|d ds]; destruct (last_hn s); reflexivity.
Qed.

Lemma parse_flush_deferred s d ds rest : m_initial s = None -> m_deferred s = d :: ds ->
  parse_toks ExpHeader (flush_toks s ++ rest) = cons_body (BIncr (d :: ds) (last_hn s)) (parse_toks (nxt s) rest).
Proof.
  intros Hi Hd. unfold flush_toks, nxt. rewrite Hi, Hd. destruct (last_hn s); reflexivity.
Qed.

(** the parser state matches what the aggregator has already written *)
Definition consistent (s : mst) (st : pstate) : Prop :=
  match st with
  | ExpBoundary => (m_first s = true /\ m_initial s = None /\ m_deferred s = []) \/ (m_first s = false /\ m_initial s <> None)
  | ExpHeader => m_first s = false /\ m_initial s = None
  | PClosed => m_first s = false /\ m_initial s = None /\ m_deferred s = []
  end.

Lemma adds_app a b : adds (a ++ b) = adds a ++ adds b. Proof. apply flat_map_app. Qed.

Ltac fin_boundary p :=
  split; [reflexivity|]; split; [first [reflexivity|assumption|idtac]|];
  [..|split; [intros Hne; now elim Hne|intros _; exists p; split; [reflexivity|eauto]]].
Ltac fin_inner :=
  split; [reflexivity|]; split; [first [reflexivity|assumption|idtac]|];
  [..|split; [intros _; first [reflexivity|assumption]|intros Heq; discriminate]].

(** bodies of what remains after a flush, put behind the bodies of that flush *)
Lemma framing_gen acts : forall s st,
  consistent s st ->
  (st <> PClosed -> hn_pattern (pending s ++ adds acts) = true) ->
  (st = PClosed -> adds acts = []) ->
  exists bs, parse_toks st (mrun s (acts ++ [MDone])) = Some (bs, PClosed)
             /\ initial_of bs ++ incrementals_of bs = pending s ++ adds acts
             /\ (st <> ExpBoundary -> initial_of bs = [])
             /\ (st = ExpBoundary -> exists p, initial_of bs = [p] /\ exists r, bs = BInitial p :: r).
Proof.
  induction acts as [|a acts IH]; intros s st C Hhn Hcl.
  - (* Done at the end *)
    cbn [app mrun mstep adds flat_map]. rewrite !app_nil_r in *.
    destruct st.
    + specialize (Hhn ltac:(discriminate)).
      destruct C as [[_ [Hi Hd]]|[_ Hi]]; [unfold pending in Hhn; rewrite Hi, Hd in Hhn; discriminate|].
      destruct (m_initial s) as [p|] eqn:Ei; [|now elim Hi].
      destruct (pending_last s) as [a0 [pl [Ep El]]]; [unfold pending; rewrite Ei; discriminate|].
      rewrite Ep in Hhn. pose proof (hn_last _ _ Hhn) as Hf.
      rewrite <- (app_nil_r (flush_toks s)), (parse_flush_initial s p [] Ei).
      unfold nxt. rewrite El, Hf. unfold pending. rewrite Ei.
      destruct (m_deferred s) as [|d ds]; cbn [parse_toks cons_body].
      * exists [BInitial p]. fin_boundary p.
      * exists [BInitial p; BIncr (d :: ds) false]. fin_boundary p. cbn. now rewrite app_nil_r.
    + specialize (Hhn ltac:(discriminate)). destruct C as [_ Hi].
      destruct (m_deferred s) as [|d ds] eqn:Ed; [unfold pending in Hhn; rewrite Hi, Ed in Hhn; discriminate|].
      destruct (pending_last s) as [a0 [pl [Ep El]]]; [unfold pending; rewrite Hi, Ed; discriminate|].
      rewrite Ep in Hhn. pose proof (hn_last _ _ Hhn) as Hf.
      rewrite <- (app_nil_r (flush_toks s)), (parse_flush_deferred s d ds [] Hi Ed).
      unfold nxt. rewrite El, Hf. cbn [parse_toks cons_body].
      exists [BIncr (d :: ds) false]. unfold pending. rewrite Hi, Ed. fin_inner. cbn. now rewrite app_nil_r.
    + destruct C as [_ [Hi Hd]]. unfold flush_toks, pending. rewrite Hi, Hd. cbn.
      exists []. fin_inner.
  - assert (T : forall s st, consistent s st ->
              (st <> PClosed -> hn_pattern (pending s ++ adds acts) = true) ->
              (st = PClosed -> adds acts = []) ->
              exists bs, parse_toks st (flush_toks s ++ mrun (flushed s) (acts ++ [MDone])) = Some (bs, PClosed)
                         /\ initial_of bs ++ incrementals_of bs = pending s ++ adds acts
                         /\ (st <> ExpBoundary -> initial_of bs = [])
                         /\ (st = ExpBoundary -> exists p, initial_of bs = [p] /\ exists r, bs = BInitial p :: r)).
    { clear s st C Hhn Hcl. intros s st C Hhn Hcl.
      destruct (pending s) as [|x xs] eqn:Ep.
      - (* nothing pending: nothing written *)
        assert (Hi : m_initial s = None /\ m_deferred s = []).
        { unfold pending in Ep. destruct (m_initial s); [discriminate|]. cbn in Ep. now split. }
        destruct Hi as [Hi Hd]. unfold flush_toks. rewrite Hi, Hd. cbn [app].
        assert (Es : flushed s = s) by (destruct s; cbn in *; now subst).
        rewrite Es. destruct (IH s st C) as [bs [P [Q [R S]]]].
        + intros Hne. specialize (Hhn Hne). now rewrite Ep.
        + exact Hcl.
        + exists bs. rewrite Ep in Q. auto.
      - destruct (pending_last s) as [a0 [pl [Epl El]]]; [rewrite Ep; discriminate|]. rewrite <- Ep in *. clear Ep x xs.
        (* what follows the flush *)
        assert (Next : forall b, last_hn s = b -> hn_pattern (pending s ++ adds acts) = true -> m_first s = false ->
                  exists bs, parse_toks (nxt s) (mrun (flushed s) (acts ++ [MDone])) = Some (bs, PClosed)
                             /\ initial_of bs = [] /\ incrementals_of bs = adds acts).
        { intros b Eb Hh Hf. unfold nxt. rewrite Eb. destruct b.
          - assert (Hne : adds acts <> []).
            { intros Ea. rewrite Epl, Ea, app_nil_r in Hh. apply hn_last in Hh. congruence. }
            destruct (hn_split (pending s) (adds acts) Hne Hh) as [_ Hb].
            destruct (IH (flushed s) ExpHeader) as [bs [P [Q [R _]]]].
            + split; [exact Hf|reflexivity].
            + intros _. unfold pending; cbn [flushed m_initial m_deferred app]. exact Hb.
            + discriminate.
            + exists bs. specialize (R ltac:(discriminate)). rewrite R in Q. unfold pending in Q.
              cbn [flushed m_initial m_deferred app] in Q. auto.
          - assert (Ea : adds acts = []).
            { rewrite Epl in Hh. eapply hn_last_false_end; [|exact Hh]. congruence. }
            destruct (IH (flushed s) PClosed) as [bs [P [Q [R _]]]].
            + repeat split; exact Hf.
            + intros H; now elim H.
            + intros _; exact Ea.
            + exists bs. specialize (R ltac:(discriminate)). rewrite R in Q. unfold pending in Q.
              cbn [flushed m_initial m_deferred app] in Q. rewrite Ea in *. auto. }
        destruct st.
        + destruct C as [[_ [Hi Hd]]|[Hf Hi]]; [unfold pending in Epl; rewrite Hi, Hd in Epl; destruct a0; discriminate|].
          destruct (m_initial s) as [p|] eqn:Ei; [|now elim Hi].
          specialize (Hhn ltac:(discriminate)). rewrite (parse_flush_initial s p _ Ei).
          destruct (Next _ eq_refl Hhn Hf) as [bs [P [Q1 Q2]]]. rewrite P.
          unfold pending. rewrite Ei.
          destruct (m_deferred s) as [|d ds]; cbn [cons_body].
          * exists (BInitial p :: bs).
            assert (I1 : initial_of (BInitial p :: bs) = [p]).
            { cbn [initial_of flat_map app]. fold (initial_of bs). now rewrite Q1. }
            split; [reflexivity|]. split.
            { rewrite I1. cbn [incrementals_of flat_map app]. fold (incrementals_of bs). now rewrite Q2. }
            split; [intros Hne; now elim Hne|]. intros _. exists p. split; [exact I1|eauto].
          * exists (BInitial p :: BIncr (d :: ds) (last_hn s) :: bs).
            assert (I1 : initial_of (BInitial p :: BIncr (d :: ds) (last_hn s) :: bs) = [p]).
            { cbn [initial_of flat_map app]. fold (initial_of bs). now rewrite Q1. }
            split; [reflexivity|]. split.
            { rewrite I1. cbn [incrementals_of flat_map app]. fold (incrementals_of bs). rewrite Q2. cbn [app]. reflexivity. }
            split; [intros Hne; now elim Hne|]. intros _. exists p. split; [exact I1|eauto].
        + destruct C as [Hf Hi].
          destruct (m_deferred s) as [|d ds] eqn:Ed; [unfold pending in Epl; rewrite Hi, Ed in Epl; destruct a0; discriminate|].
          specialize (Hhn ltac:(discriminate)). rewrite (parse_flush_deferred s d ds _ Hi Ed).
          destruct (Next _ eq_refl Hhn Hf) as [bs [P [Q1 Q2]]]. rewrite P. cbn [cons_body].
          exists (BIncr (d :: ds) (last_hn s) :: bs). unfold pending. rewrite Hi, Ed.
          assert (I1 : initial_of (BIncr (d :: ds) (last_hn s) :: bs) = []).
          { cbn [initial_of flat_map app]. fold (initial_of bs). exact Q1. }
          split; [reflexivity|]. split.
          { rewrite I1. cbn [incrementals_of flat_map app]. fold (incrementals_of bs). rewrite Q2. reflexivity. }
          split; [intros _; exact I1|intros Heq; discriminate].
        + destruct C as [_ [Hi Hd]]. unfold pending in Epl. rewrite Hi, Hd in Epl. destruct a0; discriminate. }
    destruct a as [p| |]; [|exact (T s st C Hhn Hcl)|exact (T s st C Hhn Hcl)].
    cbn [app mrun mstep]. destruct (m_first s) eqn:Ef.
    + (* the initial response *)
      destruct st; cbn [consistent] in C.
      * destruct C as [[_ [Hi Hd]]|[Hf _]]; [|congruence].
        cbn [app]. destruct (IH {| m_first := false; m_initial := Some p; m_deferred := m_deferred s |} ExpBoundary) as [bs [P [Q [R S]]]].
        -- right. split; [reflexivity|discriminate].
        -- intros _. specialize (Hhn ltac:(discriminate)). unfold pending in *. cbn [m_initial m_deferred].
           rewrite Hi, Hd in *. cbn [adds flat_map app] in *. exact Hhn.
        -- discriminate.
        -- exists bs. split; [exact P|]. split; [|split; assumption].
           rewrite Q. unfold pending. cbn [m_initial m_deferred]. rewrite Hi, Hd. reflexivity.
      * destruct C as [Hf _]. congruence.
      * destruct C as [Hf _]. congruence.
    + cbn [app].
      assert (Hp : pending {| m_first := false; m_initial := m_initial s; m_deferred := m_deferred s ++ [p] |} ++ adds acts
                   = pending s ++ adds (MAdd p :: acts)).
      { unfold pending. cbn [m_initial m_deferred adds flat_map]. now rewrite <- !app_assoc. }
      destruct st.
      * destruct C as [[Hf _]|[_ Hi]]; [congruence|].
        destruct (IH {| m_first := false; m_initial := m_initial s; m_deferred := m_deferred s ++ [p] |} ExpBoundary) as [bs [P [Q [R S]]]].
        -- right. split; [reflexivity|exact Hi].
        -- intros _. rewrite Hp. apply Hhn. discriminate.
        -- discriminate.
        -- exists bs. split; [exact P|]. split; [now rewrite Q, Hp|split; assumption].
      * destruct C as [_ Hi].
        destruct (IH {| m_first := false; m_initial := m_initial s; m_deferred := m_deferred s ++ [p] |} ExpHeader) as [bs [P [Q [R S]]]].
        -- split; [reflexivity|exact Hi].
        -- intros _. rewrite Hp. apply Hhn. discriminate.
        -- discriminate.
        -- exists bs. split; [exact P|]. split; [now rewrite Q, Hp|split; assumption].
      * specialize (Hcl eq_refl). discriminate.
Qed.

(** For every operation whose payloads say hasNext on all but the last, and every placement of flush ticks
    (and of early Done flushes) among them: the stream parses; the parts deliver the initial payload exactly
    once and first, every incremental payload exactly once and in order; the closing boundary is the last
    token and occurs only there (the parser rejects anything after it). *)
Theorem multipart_framing_lemma acts p0 ps :
  adds acts = p0 :: ps -> hn_pattern (p0 :: ps) = true ->
  exists bs, parse_toks ExpBoundary (mrun m0 (acts ++ [MDone])) = Some (BInitial p0 :: bs, PClosed)
             /\ initial_of bs = [] /\ incrementals_of bs = ps.
Proof.
  intros Ha Hh.
  destruct (framing_gen acts m0 ExpBoundary) as [bs [P [Q [_ S]]]].
  - left. repeat split.
  - intros _. unfold pending; cbn. now rewrite Ha.
  - discriminate.
  - destruct (S eq_refl) as [p [Hi [r Hr]]]. subst bs.
    cbn [initial_of incrementals_of flat_map app] in *. fold (initial_of r) (incrementals_of r) in *.
    unfold pending in Q; cbn [m0 m_initial m_deferred app] in Q. rewrite Ha in Q.
    inversion Hi as [Hir]. rewrite Hir in Q. cbn [app] in Q. inversion Q; subst.
    exists r. repeat split; auto.
Qed.

(** ** streams left open: the operation ends after a payload that announced more (its context ended, say) ** *)

Definition cons_bodies (bs : list body) (o : option (list body * pstate)) : option (list body * pstate) :=
  fold_right cons_body o bs.

Lemma cons_bodies_some bs l st : cons_bodies bs (Some (l, st)) = Some (bs ++ l, st).
Proof. induction bs as [|b bs IH]; cbn; [reflexivity|]. unfold cons_bodies in IH. now rewrite IH. Qed.

Lemma ends_open_snoc l : ends_open (l ++ [TBoundary]) = true.
Proof. unfold ends_open. now rewrite rev_app_distr. Qed.

Lemma ends_open_cons x r : r <> [] -> ends_open (x :: r) = ends_open r.
Proof.
  intros H. unfold ends_open. cbn [rev]. destruct (rev r) as [|y ys] eqn:E; [|reflexivity].
  exfalso. apply H. apply (f_equal (@rev tok)) in E. now rewrite rev_involutive in E.
Qed.

(** a flush that writes something and whose last payload announces more ends with the plain boundary *)
Lemma flush_toks_open s : pending s <> [] -> last_hn s = true -> exists front, flush_toks s = front ++ [TBoundary].
Proof.
  unfold pending, flush_toks. intros Hp Hl. rewrite Hl.
  destruct (m_initial s) as [p|]; destruct (m_deferred s) as [|d ds]; try (now elim Hp).
  - exists [TBoundary; THeader; TInitial p; TCRLF]. reflexivity.
  - exists ([TBoundary; THeader; TInitial p; TCRLF; TBoundary; THeader; TIncremental (d :: ds) true; TCRLF]). reflexivity.
  - exists ([THeader; TIncremental (d :: ds) true; TCRLF]). reflexivity.
Qed.

Lemma all_true_last s rest : pending s <> [] -> forallb p_hasnext (pending s ++ rest) = true -> last_hn s = true.
Proof.
  intros Hp Ha. destruct (pending_last s Hp) as [a [p [E L]]]. rewrite L.
  rewrite E, forallb_app, forallb_app in Ha. cbn in Ha.
  destruct (p_hasnext p); [reflexivity|]. rewrite andb_false_r in Ha. cbn in Ha. rewrite ?andb_false_r in Ha. discriminate.
Qed.

Lemma open_gen acts : forall s st pre,
  consistent s st -> st <> PClosed ->
  forallb p_hasnext (pending s ++ adds acts) = true ->
  (st = ExpHeader -> ends_open pre = true) ->
  (st = ExpBoundary -> pending s ++ adds acts <> []) ->
  exists bs,
    (forall rest, parse_toks st (mrun s (acts ++ [MDone]) ++ rest) = cons_bodies bs (parse_toks ExpHeader rest)) /\
    initial_of bs ++ incrementals_of bs = pending s ++ adds acts /\
    (st = ExpHeader -> initial_of bs = []) /\
    (st = ExpBoundary -> exists p r, bs = BInitial p :: r /\ initial_of r = []) /\
    ends_open (pre ++ mrun s (acts ++ [MDone])) = true.
Proof.
  induction acts as [|a acts IH]; intros s st pre C Hst Hall Hpre Hne.
  - (* Done at the end *)
    cbn [app mrun mstep adds flat_map] in *. rewrite !app_nil_r in *.
    destruct (pending s) as [|x xs] eqn:Ep.
    + destruct st; [now elim (Hne eq_refl)| |now elim Hst].
      assert (Hi : m_initial s = None /\ m_deferred s = []).
      { unfold pending in Ep. destruct (m_initial s); [discriminate|]. cbn in Ep. now split. }
      destruct Hi as [Hi Hd]. unfold flush_toks. rewrite Hi, Hd. cbn [app]. rewrite app_nil_r.
      exists []. repeat split; try reflexivity; try (intros; discriminate). exact (Hpre eq_refl).
    + assert (Hp : pending s <> []) by (rewrite Ep; discriminate).
      assert (Hl : last_hn s = true) by (apply (all_true_last s []); [exact Hp|now rewrite app_nil_r, Ep]).
      destruct (flush_toks_open s Hp Hl) as [front Ef].
      assert (Eo : ends_open (pre ++ flush_toks s) = true) by (rewrite Ef, app_assoc; apply ends_open_snoc).
      rewrite <- Ep in *. clear Ep x xs.
      destruct st; [| |now elim Hst].
      * destruct C as [[_ [Hi Hd]]|[Hf Hi]]; [unfold pending in Hp; rewrite Hi, Hd in Hp; now elim Hp|].
        destruct (m_initial s) as [p|] eqn:Ei; [|now elim Hi].
        destruct (m_deferred s) as [|d ds] eqn:Ed.
        -- exists [BInitial p]. split; [|split; [|split; [|split]]].
           ++ intros rest. rewrite (parse_flush_initial s p rest Ei), Ed. unfold nxt. rewrite Hl. reflexivity.
           ++ unfold pending. rewrite Ei, Ed. reflexivity.
           ++ discriminate.
           ++ intros _. exists p, []. now split.
           ++ exact Eo.
        -- exists [BInitial p; BIncr (d :: ds) true]. split; [|split; [|split; [|split]]].
           ++ intros rest. rewrite (parse_flush_initial s p rest Ei), Ed. unfold nxt. rewrite Hl. reflexivity.
           ++ unfold pending. rewrite Ei, Ed. cbn. now rewrite app_nil_r.
           ++ discriminate.
           ++ intros _. exists p, [BIncr (d :: ds) true]. now split.
           ++ exact Eo.
      * destruct C as [Hf Hi].
        destruct (m_deferred s) as [|d ds] eqn:Ed; [unfold pending in Hp; rewrite Hi, Ed in Hp; now elim Hp|].
        exists [BIncr (d :: ds) true]. split; [|split; [|split; [|split]]].
        -- intros rest. rewrite (parse_flush_deferred s d ds rest Hi Ed). unfold nxt. rewrite Hl. reflexivity.
        -- unfold pending. rewrite Hi, Ed. cbn. now rewrite app_nil_r.
        -- reflexivity.
        -- discriminate.
        -- exact Eo.
  - (* a flush (tick, or an early Done) or an Add *)
    assert (T : forall s st pre, consistent s st -> st <> PClosed ->
              forallb p_hasnext (pending s ++ adds acts) = true ->
              (st = ExpHeader -> ends_open pre = true) ->
              (st = ExpBoundary -> pending s ++ adds acts <> []) ->
              exists bs,
                (forall rest, parse_toks st ((flush_toks s ++ mrun (flushed s) (acts ++ [MDone])) ++ rest) = cons_bodies bs (parse_toks ExpHeader rest)) /\
                initial_of bs ++ incrementals_of bs = pending s ++ adds acts /\
                (st = ExpHeader -> initial_of bs = []) /\
                (st = ExpBoundary -> exists p r, bs = BInitial p :: r /\ initial_of r = []) /\
                ends_open (pre ++ flush_toks s ++ mrun (flushed s) (acts ++ [MDone])) = true).
    { clear s st pre C Hst Hall Hpre Hne. intros s st pre C Hst Hall Hpre Hne.
      destruct (pending s) as [|x xs] eqn:Ep.
      - assert (Hi : m_initial s = None /\ m_deferred s = []).
        { unfold pending in Ep. destruct (m_initial s); [discriminate|]. cbn in Ep. now split. }
        destruct Hi as [Hi Hd]. unfold flush_toks. rewrite Hi, Hd. cbn [app].
        assert (Es : flushed s = s) by (destruct s; cbn in *; now subst).
        rewrite Es. destruct (IH s st pre C Hst) as [bs (P & Q & R & S & E)].
        + now rewrite Ep.
        + exact Hpre.
        + intros H. rewrite Ep. exact (Hne H).
        + exists bs. rewrite Ep in Q. auto.
      - assert (Hp : pending s <> []) by (rewrite Ep; discriminate).
        rewrite <- Ep in *. clear Ep x xs.
        assert (Hl : last_hn s = true) by (exact (all_true_last s (adds acts) Hp Hall)).
        destruct (flush_toks_open s Hp Hl) as [front Ef].
        assert (Ha : forallb p_hasnext (adds acts) = true) by (rewrite forallb_app in Hall; now apply andb_prop in Hall).
        assert (Hfirst : m_first s = false).
        { destruct st; cbn [consistent] in C; [destruct C as [[_ [Hi Hd]]|[Hf _]]; [unfold pending in Hp; rewrite Hi, Hd in Hp; now elim Hp|exact Hf]|now destruct C|now elim Hst]. }
        destruct (IH (flushed s) ExpHeader (pre ++ flush_toks s)) as [bs (P & Q & R & _ & E)].
        + split; [exact Hfirst|reflexivity].
        + discriminate.
        + unfold pending; cbn [flushed m_initial m_deferred app]. exact Ha.
        + intros _. rewrite Ef, app_assoc. apply ends_open_snoc.
        + discriminate.
        + specialize (R eq_refl). unfold pending in Q; cbn [flushed m_initial m_deferred app] in Q. rewrite R in Q. cbn [app] in Q.
          rewrite <- app_assoc in E.
          destruct st; [| |now elim Hst].
          * destruct C as [[_ [Hi Hd]]|[_ Hi]]; [unfold pending in Hp; rewrite Hi, Hd in Hp; now elim Hp|].
            destruct (m_initial s) as [p|] eqn:Ei; [|now elim Hi].
            destruct (m_deferred s) as [|d ds] eqn:Ed.
            -- exists (BInitial p :: bs). split; [|split; [|split; [|split]]].
               ++ intros rest. rewrite <- app_assoc, (parse_flush_initial s p _ Ei), Ed. unfold nxt. rewrite Hl, P. reflexivity.
               ++ cbn [initial_of incrementals_of flat_map app]. fold (initial_of bs) (incrementals_of bs). rewrite R. cbn [app].
                  unfold pending. rewrite Ei, Ed. cbn [app]. now rewrite Q.
               ++ discriminate.
               ++ intros _. exists p, bs. now split.
               ++ exact E.
            -- exists (BInitial p :: BIncr (d :: ds) true :: bs). split; [|split; [|split; [|split]]].
               ++ intros rest. rewrite <- app_assoc, (parse_flush_initial s p _ Ei), Ed. unfold nxt. rewrite Hl, P. reflexivity.
               ++ cbn [initial_of incrementals_of flat_map app]. fold (initial_of bs) (incrementals_of bs). rewrite R. cbn [app].
                  unfold pending. rewrite Ei, Ed. cbn [app]. rewrite Q. reflexivity.
               ++ discriminate.
               ++ intros _. exists p, (BIncr (d :: ds) true :: bs). split; [reflexivity|]. cbn [initial_of flat_map app]. exact R.
               ++ exact E.
          * destruct C as [_ Hi].
            destruct (m_deferred s) as [|d ds] eqn:Ed; [unfold pending in Hp; rewrite Hi, Ed in Hp; now elim Hp|].
            exists (BIncr (d :: ds) true :: bs). split; [|split; [|split; [|split]]].
            -- intros rest. rewrite <- app_assoc, (parse_flush_deferred s d ds _ Hi Ed). unfold nxt. rewrite Hl, P. reflexivity.
            -- cbn [initial_of incrementals_of flat_map app]. fold (initial_of bs) (incrementals_of bs). rewrite R. cbn [app].
               unfold pending. rewrite Hi, Ed. cbn [app]. now rewrite Q.
            -- intros _. cbn [initial_of flat_map app]. exact R.
            -- discriminate.
            -- exact E. }
    destruct a as [p| |]; [|exact (T s st pre C Hst Hall Hpre Hne)|exact (T s st pre C Hst Hall Hpre Hne)].
    cbn [app mrun mstep]. destruct (m_first s) eqn:Ef.
    + destruct st; cbn [consistent] in C; [|destruct C as [Hf _]; congruence|now elim Hst].
      destruct C as [[_ [Hi Hd]]|[Hf _]]; [|congruence].
      cbn [app].
      destruct (IH {| m_first := false; m_initial := Some p; m_deferred := m_deferred s |} ExpBoundary pre) as [bs (P & Q & R & S & E)].
      * right. split; [reflexivity|discriminate].
      * discriminate.
      * unfold pending in *. cbn [m_initial m_deferred]. rewrite Hi, Hd in *. cbn [adds flat_map app] in *. exact Hall.
      * discriminate.
      * intros _. unfold pending. cbn [m_initial m_deferred app]. discriminate.
      * exists bs. split; [exact P|]. split; [|split; [exact R|split; [exact S|exact E]]].
        rewrite Q. unfold pending. cbn [m_initial m_deferred]. rewrite Hi, Hd. reflexivity.
    + cbn [app].
      assert (Hp : pending {| m_first := false; m_initial := m_initial s; m_deferred := m_deferred s ++ [p] |} ++ adds acts
                   = pending s ++ adds (MAdd p :: acts)).
      { unfold pending. cbn [m_initial m_deferred adds flat_map]. now rewrite <- !app_assoc. }
      destruct st; [| |now elim Hst].
      * destruct C as [[Hf _]|[_ Hi]]; [congruence|].
        destruct (IH {| m_first := false; m_initial := m_initial s; m_deferred := m_deferred s ++ [p] |} ExpBoundary pre) as [bs (P & Q & R & S & E)].
        -- right. split; [reflexivity|exact Hi].
        -- discriminate.
        -- now rewrite Hp.
        -- discriminate.
        -- intros _. rewrite Hp. exact (Hne eq_refl).
        -- exists bs. split; [exact P|]. split; [now rewrite Q, Hp|split; [exact R|split; [exact S|exact E]]].
      * destruct C as [_ Hi].
        destruct (IH {| m_first := false; m_initial := m_initial s; m_deferred := m_deferred s ++ [p] |} ExpHeader pre) as [bs (P & Q & R & S & E)].
        -- split; [reflexivity|exact Hi].
        -- discriminate.
        -- now rewrite Hp.
        -- exact Hpre.
        -- discriminate.
        -- exists bs. split; [exact P|]. split; [now rewrite Q, Hp|split; [exact R|split; [exact S|exact E]]].
Qed.

(** a stream that parses up to the closing boundary does not end with a plain boundary *)
Lemma parse_closed_not_open (n : nat) : forall l st bs,
  (List.length l <= n)%nat -> parse_toks st l = Some (bs, PClosed) -> st <> PClosed -> ends_open l = false.
Proof.
  induction n as [|n IH]; intros l st bs Hn P Hst.
  - destruct l; [|cbn in Hn; lia]. cbn in P. injection P as _ E. now elim Hst.
  - destruct l as [|t r]; [cbn in P; injection P as _ E; now elim Hst|].
    destruct st; [| |now elim Hst].
    + destruct t; try discriminate. cbn [parse_toks] in P.
      destruct r as [|t2 r2]; [cbn in P; discriminate|].
      rewrite ends_open_cons by discriminate. apply (IH _ ExpHeader bs); [cbn in *; lia|exact P|discriminate].
    + destruct t; try discriminate. cbn [parse_toks] in P.
      destruct r as [|x r]; [discriminate|]. destruct r as [|y r]; [destruct x; discriminate|]. destruct r as [|z r]; [destruct x, y; discriminate|].
      assert (Tail : forall b o, cons_body b o = Some (bs, PClosed) -> exists bs', o = Some (bs', PClosed)).
      { intros b o H. destruct o as [[l' st']|]; [|discriminate]. cbn in H. injection H as _ E. subst. now exists l'. }
      rewrite !ends_open_cons by discriminate.
      destruct x; try discriminate; destruct y; try discriminate; destruct z; try discriminate.
      * (* initial, then a plain boundary *)
        destruct (Tail _ _ P) as [bs' P']. destruct r as [|w r]; [cbn in P'; discriminate|].
        rewrite ends_open_cons by discriminate. apply (IH _ ExpHeader bs'); [cbn in *; lia|exact P'|discriminate].
      * destruct (Tail _ _ P) as [bs' P']. destruct r; [reflexivity|cbn in P'; discriminate].
      * destruct (Tail _ _ P) as [bs' P']. destruct r as [|w r]; [cbn in P'; discriminate|].
        rewrite ends_open_cons by discriminate. apply (IH _ ExpHeader bs'); [cbn in *; lia|exact P'|discriminate].
      * destruct (Tail _ _ P) as [bs' P']. destruct r; [reflexivity|cbn in P'; discriminate].
      * destruct (Tail _ _ P) as [bs' P']. destruct r; [reflexivity|cbn in P'; discriminate].
Qed.

(** for an operation that runs to its end (hasNext false on its last payload) Done adds nothing: the stream is the
    one [multipart_framing_lemma] is about *)
Theorem multipart_done_complete_lemma acts p0 ps :
  adds acts = p0 :: ps -> hn_pattern (p0 :: ps) = true -> mrun_done acts = mrun m0 (acts ++ [MDone]).
Proof.
  intros Ha Hh. destruct (multipart_framing_lemma acts p0 ps Ha Hh) as [bs [P _]].
  unfold mrun_done. rewrite (parse_closed_not_open _ _ ExpBoundary _ (Nat.le_refl _) P); [reflexivity|discriminate].
Qed.

(** an operation that ends after payloads that all announced more (its context ended): wherever the flush ticks
    fall, the stream parses; the initial payload once and first, every incremental payload once and in order, then
    one part saying that nothing follows, then the closing boundary - which is the last token and occurs only there *)
Theorem multipart_left_open_lemma acts p0 ps :
  adds acts = p0 :: ps -> forallb p_hasnext (p0 :: ps) = true ->
  exists bs, parse_toks ExpBoundary (mrun_done acts) = Some (BInitial p0 :: bs ++ [BFinal], PClosed)
             /\ initial_of bs = [] /\ incrementals_of bs = ps.
Proof.
  intros Ha Hall.
  destruct (open_gen acts m0 ExpBoundary []) as [bs (P & Q & _ & S & E)].
  - left. repeat split.
  - discriminate.
  - unfold pending; cbn [m0 m_initial m_deferred app]. now rewrite Ha.
  - discriminate.
  - intros _. unfold pending; cbn [m0 m_initial m_deferred app]. rewrite Ha. discriminate.
  - destruct (S eq_refl) as [p [r [-> Hr]]].
    unfold mrun_done. cbn [app] in E. rewrite E. rewrite (P close_toks).
    cbn [close_toks parse_toks cons_body]. rewrite cons_bodies_some.
    unfold pending in Q; cbn [m0 m_initial m_deferred app] in Q. rewrite Ha in Q.
    cbn [initial_of incrementals_of flat_map app] in Q. fold (initial_of r) (incrementals_of r) in Q. rewrite Hr in Q. cbn [app] in Q.
    injection Q as -> Q2. exists r. split; [reflexivity|split; [exact Hr|exact Q2]].
Qed.
