(** C10: the upload form handler removes every temporary file it creates, never panics, hands out one reader per
    mapped path, and refuses an oversized request before touching anything. *)
From GV Require Import Base.Prelude Model.Upload Model.UploadForm Proofs.UploadProofs.
Open Scope list_scope.

(** ---- 1. every temporary file is removed, on every path out of the handler ---- *)
Lemma run_parts_no_leak spill parts : forall i st,
  st_defers st = st_created st ->
  fo_removed (run_parts false spill i st parts) = fo_created (run_parts false spill i st parts).
Proof.
  induction parts as [|p rest IH]; intros i st Inv.
  - cbn [run_parts]. destruct (st_map st); cbn; exact Inv.
  - cbn [run_parts]. destruct p as [key fid|key|]; [| |cbn; exact Inv].
    + destruct (map_lookup (st_map st) key) as [[|pa paths]|]; [cbn; exact Inv| |cbn; exact Inv].
      destruct spill; cbn [andb st_vars st_map st_created st_defers st_readers st_next];
        match goal with |- context [add_paths ?xa ?xb ?xc ?xd ?xe] => destruct (add_paths xa xb xc xd xe) as [[[vs'|e|pp] rd] nx] end;
        try (cbn; now rewrite ?Inv); apply IH; cbn; now rewrite ?Inv.
    + destruct (map_lookup (st_map st) key) as [[|pa paths]|]; [cbn; exact Inv| |cbn; exact Inv].
      destruct spill; cbn; now rewrite ?Inv.
Qed.

Theorem form_no_leak_lemma f : fo_removed (run_form false f) = fo_created (run_form false f) /\ leaked (run_form false f) = [].
Proof.
  assert (fo_removed (run_form false f) = fo_created (run_form false f)) as E.
  { unfold run_form. destruct (fm_over f); [reflexivity|]. destruct (fm_ops f); [|reflexivity]. destruct (fm_map f); [|reflexivity].
    now apply run_parts_no_leak. }
  split; [exact E|]. unfold leaked. rewrite E. generalize (fo_created (run_form false f)). intros l.
  assert (forall (g : nat -> bool) m, (forall x, In x m -> g x = false) -> filter g m = []) as FN.
  { intros g m. induction m as [|x m IH]; [reflexivity|]. intros H. cbn. rewrite (H x (or_introl eq_refl)). apply IH. intros y Hy. apply H. now right. }
  apply FN. intros x Hx. apply negb_false_iff. apply existsb_exists. exists x. split; [exact Hx|apply Nat.eqb_refl].
Qed.

(** ---- 2. never through the panic path ---- *)
Lemma add_paths_no_panic paths : forall vs rd nx fid p r n, add_paths vs rd nx fid paths <> (Panic p, r, n).
Proof.
  induction paths as [|[pre segs] paths IH]; intros vs rd nx fid p r n; cbn [add_paths]; [discriminate|].
  destruct (add_upload true pre vs segs nx) eqn:E; [apply IH|discriminate|]. exfalso. exact (add_upload_total_lemma _ _ _ _ _ E).
Qed.

Lemma run_parts_no_panic late spill parts : forall i st, fo_result (run_parts late spill i st parts) <> FPanicked.
Proof.
  induction parts as [|p rest IH]; intros i st.
  - cbn [run_parts]. destruct (st_map st); cbn; discriminate.
  - cbn [run_parts]. destruct p as [key fid|key|]; [| |cbn; discriminate].
    + destruct (map_lookup (st_map st) key) as [[|pa paths]|]; [cbn; discriminate| |cbn; discriminate].
      match goal with |- context [add_paths ?xa ?xb ?xc ?xd ?xe] => destruct (add_paths xa xb xc xd xe) as [[[vs'|e|pp] rd] nx] eqn:E end;
        [apply IH|cbn; discriminate|exfalso; exact (add_paths_no_panic _ _ _ _ _ _ _ _ E)].
    + destruct (map_lookup (st_map st) key) as [[|pa paths]|]; cbn; discriminate.
Qed.

Theorem form_never_panics_lemma late f : fo_result (run_form late f) <> FPanicked.
Proof.
  unfold run_form. destruct (fm_over f); [cbn; discriminate|]. destruct (fm_ops f); [|cbn; discriminate].
  destruct (fm_map f); [|cbn; discriminate]. apply run_parts_no_panic.
Qed.

(** ---- 3. the size limit is enforced before anything is read ---- *)
Theorem form_over_limit_lemma late f :
  fm_over f = true -> accepted (run_form late f) = false /\ fo_created (run_form late f) = [] /\ fo_readers (run_form late f) = [].
Proof. intros H. unfold run_form. rewrite H. repeat split. Qed.

Lemma NoDup_app_snoc' {A} (l : list A) x : NoDup l -> ~ In x l -> NoDup (l ++ [x]).
Proof.
  induction l as [|y l IH]; intros N H; cbn; [constructor; [auto|constructor]|].
  inversion N as [|? ? Hy N']; subst. constructor.
  - intros C. apply in_app_or in C as [C|[C|[]]]; [auto|]. subst. apply H. now left.
  - apply IH; [exact N'|]. intros C. apply H. now right.
Qed.

(** ---- 4. readers: one per mapped path, pairwise distinct, each on a file part of the request ---- *)
Definition readers_ok (parts : list part) (rd : list (nat * nat)) (nx : nat) : Prop :=
  NoDup (map fst rd) /\ (forall r fid, In (r, fid) rd -> (r < nx)%nat /\ exists key, In (PFile key fid) parts).

Lemma add_paths_readers all key fid paths : forall vs rd nx o rd' nx',
  In (PFile key fid) all -> readers_ok all rd nx -> add_paths vs rd nx fid paths = (o, rd', nx') -> readers_ok all rd' nx'.
Proof.
  intros vs rd nx o rd' nx' Hin. revert vs rd nx o rd' nx'.
  assert (forall rd nx, readers_ok all rd nx -> readers_ok all (rd ++ [(nx, fid)]) (S nx)) as Step.
  { intros rd nx [N A]. split.
    - rewrite map_app. cbn. apply NoDup_app_snoc'; [exact N|]. intros C. apply in_map_iff in C as ([r f] & E & C). cbn in E. subst r.
      destruct (A _ _ C) as [L _]. lia.
    - intros r f H. apply in_app_or in H as [H|[H|[]]].
      + destruct (A _ _ H) as [L E]. split; [lia|exact E].
      + inversion H; subst. split; [lia|]. now exists key. }
  induction paths as [|[pre segs] paths IH]; intros vs rd nx o rd' nx' Ok E; cbn [add_paths] in E.
  - inversion E; subst. exact Ok.
  - destruct (add_upload true pre vs segs nx); [eapply IH; [apply Step; exact Ok|exact E]| |]; inversion E; subst; now apply Step.
Qed.

Lemma run_parts_readers late spill all parts : forall i st,
  (forall p, In p parts -> In p all) -> readers_ok all (st_readers st) (st_next st) ->
  let o := run_parts late spill i st parts in NoDup (map fst (fo_readers o)) /\
  (forall r fid, In (r, fid) (fo_readers o) -> exists key, In (PFile key fid) all).
Proof.
  assert (forall rd nx, readers_ok all rd nx -> NoDup (map fst rd) /\ (forall r fid, In (r, fid) rd -> exists key, In (PFile key fid) all)) as Fin.
  { intros rd nx [N A]. split; [exact N|]. intros r fid H. now destruct (A _ _ H). }
  induction parts as [|p rest IH]; intros i st Sub Ok.
  - cbn [run_parts]. destruct (st_map st); cbn; now apply (Fin _ (st_next st)).
  - cbn [run_parts]. destruct p as [key fid|key|]; [| |cbn; now apply (Fin _ (st_next st))].
    + destruct (map_lookup (st_map st) key) as [[|pa paths]|]; [cbn; now apply (Fin _ (st_next st))| |cbn; now apply (Fin _ (st_next st))].
      match goal with |- context [add_paths ?xa ?xb ?xc ?xd ?xe] => destruct (add_paths xa xb xc xd xe) as [[o rd] nx] eqn:E end.
      assert (readers_ok all rd nx) as Ok'.
      { eapply (add_paths_readers all key fid); [apply Sub; now left| |exact E].
        destruct spill, late; cbn; exact Ok. }
      destruct o as [vs'|e|pp]; [|cbn; now apply (Fin _ nx)|cbn; now apply (Fin _ nx)].
      apply IH; [intros q Hq; apply Sub; now right|exact Ok'].
    + destruct (map_lookup (st_map st) key) as [[|pa paths]|]; cbn; try now apply (Fin _ (st_next st)).
      destruct spill; cbn; now apply (Fin _ (st_next st)).
Qed.

Theorem form_readers_lemma late f :
  let o := run_form late f in
  NoDup (map fst (fo_readers o)) /\ (forall r fid, In (r, fid) (fo_readers o) -> exists key, In (PFile key fid) (fm_parts f)).
Proof.
  unfold run_form. destruct (fm_over f); [cbn; split; [constructor|intros ? ? []]|].
  destruct (fm_ops f); [|cbn; split; [constructor|intros ? ? []]]. destruct (fm_map f); [|cbn; split; [constructor|intros ? ? []]].
  apply run_parts_readers; [auto|]. cbn. split; [constructor|intros ? ? []].
Qed.

(** ---- 5. an accepted form: every part was a complete file whose key the map names, and the map is used up ---- *)
Definition is_file (p : part) : bool := match p with PFile _ _ => true | _ => false end.

Lemma run_parts_accepted late spill parts : forall i st,
  accepted (run_parts late spill i st parts) = true -> forallb is_file parts = true.
Proof.
  induction parts as [|p rest IH]; intros i st; [reflexivity|]. cbn [run_parts forallb].
  destruct p as [key fid|key|]; [| |cbn; discriminate].
  - destruct (map_lookup (st_map st) key) as [[|pa paths]|]; [cbn; discriminate| |cbn; discriminate].
    match goal with |- context [add_paths ?xa ?xb ?xc ?xd ?xe] => destruct (add_paths xa xb xc xd xe) as [[[vs'|e|pp] rd] nx] end;
      [cbn [is_file andb]; apply IH|cbn; discriminate|cbn; discriminate].
  - destruct (map_lookup (st_map st) key) as [[|pa paths]|]; cbn; try discriminate; try (destruct spill; cbn; discriminate).
Qed.

Theorem form_accepted_lemma late f :
  accepted (run_form late f) = true ->
  fm_over f = false /\ fm_ops f <> None /\ fm_map f <> None /\ forallb is_file (fm_parts f) = true.
Proof.
  unfold run_form. destruct (fm_over f); [cbn; discriminate|]. destruct (fm_ops f); [|cbn; discriminate].
  destruct (fm_map f); [|cbn; discriminate]. intros H. repeat split; try discriminate. exact (run_parts_accepted _ _ _ _ _ H).
Qed.
