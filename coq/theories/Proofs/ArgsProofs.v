From GV Require Import Base.Prelude Model.Args.
Open Scope string_scope.
Open Scope list_scope.

(** [shows a b]: the Go value [b] shows the specification's value [a] as far as Go types can - an omitted
    nullable field is either "not set" (Omittable) or nil (a plain pointer). *)
Inductive shows : aval -> aval -> Prop :=
| sh_same a : (forall l, a <> AList l) -> (forall f, a <> AObj f) -> a <> AOmitted -> shows a a
| sh_omit_o : shows AOmitted AOmitted
| sh_omit_n : shows AOmitted ANull
| sh_list la lb : Forall2 shows la lb -> shows (AList la) (AList lb)
| sh_obj fa fb : Forall2 (fun x y => fst x = fst y /\ shows (snd x) (snd y)) fa fb -> shows (AObj fa) (AObj fb).

Definition agree (s i : cres) : Prop :=
  match s with
  | COk a => exists b, i = COk b /\ shows a b
  | CErr p => i = CErr p
  end.

Lemma leaf_shows n v a : coerce_leaf n v = Some a -> shows a a.
Proof.
  unfold coerce_leaf. destruct v; try discriminate; try (intros H; injection H as <-; apply sh_same; intros; discriminate).
  - destruct (String.eqb n "ID"); intros H; injection H as <-; apply sh_same; intros; discriminate.
  - destruct (String.eqb n "Fragile" && String.eqb s "bad"); [discriminate|]. intros H; injection H as <-; apply sh_same; intros; discriminate.
Qed.

(** the list loop *)
Lemma list_go_agree cs ci : forall l i, (forall x, In x l -> agree (cs x) (ci x)) ->
  match spec_list_go cs i l with
  | COk (AList a) => exists b, impl_list_go ci i l = COk (AList b) /\ Forall2 shows a b
  | COk _ => False
  | CErr p => impl_list_go ci i l = CErr p
  end.
Proof.
  intros l. induction l as [|x r IH]; intros i H; cbn [spec_list_go impl_list_go].
  - exists []. split; [reflexivity|constructor].
  - pose proof (H x (or_introl eq_refl)) as Hx. specialize (IH (S i) (fun y Hy => H y (or_intror Hy))).
    destruct (cs x) as [a|p]; cbn [agree] in Hx.
    + destruct Hx as [b [-> Hs]]. destruct (spec_list_go cs (S i) r) as [[| | | | | | |la|]|p'].
      all: try contradiction.
      * destruct IH as [lb [-> Hl]]. exists (b :: lb). split; [reflexivity|constructor; assumption].
      * rewrite IH. reflexivity.
    + rewrite Hx. reflexivity.
Qed.

(** the field loop *)
Definition field_ok (cs ci : ity -> ival -> cres) (provided : list (string * ival)) (fd : ifield) : Prop :=
  match lookup_val provided (if_name fd) with
  | Some x => agree (cs (if_type fd) x) (ci (if_type fd) x)
  | None => match if_default fd with
            | Some d => agree (cs (if_type fd) d) (ci (if_type fd) d)
            | None => ity_nn (if_type fd) = false
            end
  end.

Lemma obj_go_agree cs ci provided : forall fs, (forall fd, In fd fs -> field_ok cs ci provided fd) ->
  match spec_obj_go cs provided fs with
  | COk (AObj a) => exists b, impl_obj_go ci provided fs = COk (AObj b)
                              /\ Forall2 (fun x y => fst x = fst y /\ shows (snd x) (snd y)) a b
  | COk _ => False
  | CErr p => impl_obj_go ci provided fs = CErr p
  end.
Proof.
  intros fs. induction fs as [|fd r IH]; intros H; cbn [spec_obj_go impl_obj_go].
  - exists []. split; [reflexivity|constructor].
  - pose proof (H fd (or_introl eq_refl)) as Hf. specialize (IH (fun y Hy => H y (or_intror Hy))).
    unfold field_ok in Hf.
    destruct (lookup_val provided (if_name fd)) as [x|] eqn:El.
    + destruct (cs (if_type fd) x) as [a|p]; cbn [agree] in Hf.
      * destruct Hf as [b [-> Hs]]. destruct (spec_obj_go cs provided r) as [[| | | | | | | |la]|p']; try contradiction.
        -- destruct IH as [lb [-> Hl]]. exists ((if_name fd, b) :: lb). split; [reflexivity|]. constructor; [split; [reflexivity|exact Hs] | exact Hl].
        -- rewrite IH. reflexivity.
      * rewrite Hf. reflexivity.
    + destruct (if_default fd) as [d|] eqn:Ed.
      * destruct (cs (if_type fd) d) as [a|p]; cbn [agree] in Hf.
        -- destruct Hf as [b [-> Hs]]. destruct (spec_obj_go cs provided r) as [[| | | | | | | |la]|p']; try contradiction.
           ++ destruct IH as [lb [-> Hl]]. exists ((if_name fd, b) :: lb). split; [reflexivity|]. constructor; [split; [reflexivity|exact Hs] | exact Hl].
           ++ rewrite IH. reflexivity.
        -- rewrite Hf. reflexivity.
      * rewrite Hf. destruct (spec_obj_go cs provided r) as [[| | | | | | | |la]|p']; try contradiction.
        -- destruct IH as [lb [-> Hl]]. eexists. split; [reflexivity|]. constructor; [|exact Hl].
           split; [reflexivity|]. cbn [snd]. destruct (if_omittable fd); [apply sh_omit_o | apply sh_omit_n].
        -- rewrite IH. reflexivity.
Qed.

Section Equiv.
  Variable sch : ischema.

  (** C02: for every type, every value handed over after validation and every depth, gqlgen's coercion
      agrees with the specification's: the same error path, or a received value that shows the coerced
      value (defaults applied, omitted vs null kept apart wherever the Go type can, single values wrapped
      into lists, nested input objects). *)
  Theorem args_equiv_lemma fuel : forall t v, valid_in sch fuel t v = true ->
    agree (coerce_spec sch fuel t v) (coerce_impl sch fuel t v).
  Proof.
    induction fuel as [|f IH]; intros t v Hv; cbn [coerce_spec coerce_impl].
    - reflexivity.
    - assert (Hnull : agree (if ity_nn t then CErr [] else COk ANull) (if ity_nn t then CErr [] else COk ANull)).
      { destruct (ity_nn t); cbn; [reflexivity|]. eexists. split; [reflexivity|]. apply sh_same; intros; discriminate. }
      assert (Hlist : forall e items, forallb (valid_in sch f e) items = true ->
                agree (spec_list_go (coerce_spec sch f e) 0 items) (impl_list_go (coerce_impl sch f e) 0 items)).
      { intros e items Hi.
        pose proof (list_go_agree (coerce_spec sch f e) (coerce_impl sch f e) items 0
                      (fun x Hx => IH e x (proj1 (forallb_forall _ _) Hi x Hx))) as HL.
        destruct (spec_list_go (coerce_spec sch f e) 0 items) as [[| | | | | | |la|]|p]; try contradiction.
        - destruct HL as [lb [-> Hl]]. cbn. eexists. split; [reflexivity|]. constructor. exact Hl.
        - cbn. exact HL. }
      assert (Hnamed : forall n, (match lookup_named sch n, v with
                                  | Some (NInput fields), VObj provided =>
                                      forallb (fun fd =>
                                        match lookup_val provided (if_name fd) with
                                        | Some x => valid_in sch f (if_type fd) x
                                        | None => match if_default fd with
                                                  | Some d => valid_in sch f (if_type fd) d
                                                  | None => negb (ity_nn (if_type fd))
                                                  end
                                        end) fields
                                  | _, _ => true
                                  end = true) ->
                agree (coerce_named sch n (coerce_spec sch f) spec_obj_go v) (coerce_named sch n (coerce_impl sch f) impl_obj_go v)).
      { intros n Hn. unfold coerce_named. destruct (lookup_named sch n) as [[| values | defs]|].
        - destruct (coerce_leaf n v) as [a|] eqn:El; cbn; [eexists; split; [reflexivity | eapply leaf_shows; exact El] | reflexivity].
        - destruct v; cbn; try reflexivity;
            (destruct (existsb (String.eqb s) values); cbn; [eexists; split; [reflexivity | apply sh_same; intros; discriminate] | reflexivity]).
        - destruct v as [| | | | | | |provided]; cbn; try reflexivity.
          pose proof (obj_go_agree (coerce_spec sch f) (coerce_impl sch f) provided defs) as HO.
          assert (Hall : forall fd, In fd defs -> field_ok (coerce_spec sch f) (coerce_impl sch f) provided fd).
          { intros fd Hfd. pose proof (proj1 (forallb_forall _ _) Hn fd Hfd) as Hfv. cbv beta in Hfv. unfold field_ok.
            destruct (lookup_val provided (if_name fd)) as [x|]; [apply IH; exact Hfv|].
            destruct (if_default fd) as [d|]; [apply IH; exact Hfv|]. apply negb_true_iff. exact Hfv. }
          specialize (HO Hall).
          destruct (spec_obj_go (coerce_spec sch f) provided defs) as [[| | | | | | | |la]|p]; try contradiction.
          + destruct HO as [lb [-> Hl]]. eexists. split; [reflexivity|]. constructor. exact Hl.
          + exact HO.
        - destruct (coerce_leaf n v) as [a|] eqn:El; cbn; [eexists; split; [reflexivity | eapply leaf_shows; exact El] | reflexivity]. }
      cbn [valid_in] in Hv.
      destruct v as [|z|s|b|s|i|l|fields]; try exact Hnull;
        destruct t as [n nn|e nn]; try (apply Hnamed; exact Hv); try (apply Hlist; exact Hv).
  Qed.
End Equiv.

(** Omitted versus explicit null, on an Omittable field without default: "not set" exactly when the key is
    absent, null exactly when null was given; on a plain pointer both are nil. *)
Lemma omitted_vs_null_lemma c fd provided rest :
  if_default fd = None ->
  match impl_obj_go c provided rest with
  | COk (AObj b) =>
      (lookup_val provided (if_name fd) = None ->
       impl_obj_go c provided (fd :: rest) = COk (AObj ((if_name fd, if if_omittable fd then AOmitted else ANull) :: b)))
      /\ (lookup_val provided (if_name fd) = Some VNull -> c (if_type fd) VNull = COk ANull ->
          impl_obj_go c provided (fd :: rest) = COk (AObj ((if_name fd, ANull) :: b)))
  | _ => True
  end.
Proof.
  intros Hd. destruct (impl_obj_go c provided rest) as [[| | | | | | | |b]|p] eqn:E; try exact I.
  split; intros Hl; cbn [impl_obj_go]; rewrite Hl, ?Hd, ?E.
  - reflexivity.
  - intros Hc. rewrite Hc. reflexivity.
Qed.
