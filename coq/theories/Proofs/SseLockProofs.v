(** C05 / C12: the SSE lock discipline as written - over every interleaving every write happens under the lock,
    nothing is written after the completion, the handler is never blocked for good; each of the three slips the
    discipline excludes is refuted by a witness. *)
From GV Require Import Base.Prelude Model.SseLock.
Open Scope nat_scope.
Open Scope list_scope.

Definition is_hcomplete (a : hact) : bool := match a with HComplete => true | _ => false end.
Definition is_icomplete (x : item * bool) : bool := match fst x with IComplete => true | _ => false end.

(** the handler's remaining program: events and ticker resets, then the completion and the final flush *)
Fixpoint prog_shape (p : list hact) {struct p} : bool :=
  match p with
  | [] => true
  | [HFlush] => true
  | [HComplete; HFlush] => true
  | (HEvent | HReset) :: r => prog_shape r && existsb is_hcomplete r
  | _ => false
  end.

Record skinv (s : skstate) : Prop := {
  ski_h : sk_hholds s = true <-> sk_holder s = Some TH;
  ski_k : sk_k s = KHold <-> sk_holder s = Some TK;
  ski_dec : sk_kdecided s = false;
  ski_locked : forallb snd (sk_out s) = true;
  ski_shape : prog_shape (sk_prog s) = true;
  ski_done : sk_done s = negb (existsb is_hcomplete (sk_prog s));
  ski_out : existsb is_icomplete (sk_out s) = sk_done s;
  ski_after : nothing_after_complete (sk_out s) = true }.

Lemma program_shape n : prog_shape (program n) = true /\ existsb is_hcomplete (program n) = true.
Proof.
  unfold program. generalize 0. induction n as [|n IH]; intros k; [split; reflexivity|].
  cbn [seq flat_map app]. destruct (IH (S k)) as [A B]. split.
  - cbn [prog_shape]. cbn [prog_shape] in *. rewrite A, B. cbn. now rewrite B.
  - cbn. exact B.
Qed.

Lemma skinv_init n : skinv (skinit n).
Proof.
  destruct (program_shape n) as [A B].
  constructor; cbn; try reflexivity; try (split; discriminate); [exact A|now rewrite B].
Qed.

Lemma nac_snoc_no_complete out x :
  existsb is_icomplete out = false -> nothing_after_complete out = true -> nothing_after_complete (out ++ [x]) = true.
Proof.
  induction out as [|[i b] out IH]; cbn [app]; intros E N.
  - destruct x as [[] ?]; reflexivity.
  - cbn [existsb] in E. apply orb_false_iff in E as [E1 E2]. destruct i; cbn in E1; try discriminate; cbn [nothing_after_complete] in *; now apply IH.
Qed.

Lemma shape_tail a r : prog_shape (a :: r) = true -> prog_shape r = true.
Proof.
  destruct a; cbn [prog_shape].
  - intros H. now apply andb_true_iff in H as [H _].
  - intros H. now apply andb_true_iff in H as [H _].
  - destruct r as [|[] [|? ?]]; try discriminate; reflexivity.
  - destruct r; [reflexivity|discriminate].
Qed.

Theorem skstep_inv s l s' : skinv s -> skstep as_written s l = Some s' -> skinv s'.
Proof.
  intros [Ih Ik Id Il Is Idn Io Ia]. destruct l; cbn [skstep as_written v_events_locked v_check_under_lock v_done_unlocks].
  - (* handler *)
    destruct (sk_prog s) as [|a rest] eqn:P; [discriminate|]. destruct (sk_hholds s) eqn:Hh.
    + assert (sk_k s <> KHold) as NK. { intros C. apply Ik in C. destruct Ih as [Ih1 _]. rewrite (Ih1 eq_refl) in C. discriminate. }
      pose proof (shape_tail _ _ Is) as St.
      assert (existsb is_icomplete (sk_out s) = false -> forall x, is_icomplete x = false ->
              existsb is_icomplete (sk_out s ++ [x]) = false) as Ex.
      { intros E0 x Hx. rewrite existsb_app, E0. cbn. now rewrite Hx. }
      destruct a; intros E; inversion E; subst; clear E.
      * (* an event *)
        cbn [prog_shape] in Is. apply andb_true_iff in Is as [_ Hc]. cbn [existsb is_hcomplete orb] in Idn. rewrite Hc in Idn. cbn in Idn.
        constructor; cbn [set_h sk_prog sk_hholds sk_k sk_kdecided sk_holder sk_done sk_out].
        -- split; discriminate.
        -- split; [intros C; contradiction|discriminate].
        -- exact Id.
        -- now rewrite forallb_app, Il.
        -- exact St.
        -- now rewrite Idn, Hc.
        -- rewrite Idn. apply Ex; [now rewrite Io|reflexivity].
        -- apply nac_snoc_no_complete; [now rewrite Io|exact Ia].
      * (* ticker reset *)
        cbn [prog_shape] in Is. apply andb_true_iff in Is as [_ Hc]. cbn [existsb is_hcomplete orb] in Idn.
        constructor; cbn [set_h sk_prog sk_hholds sk_k sk_kdecided sk_holder sk_done sk_out]; try assumption.
        -- split; discriminate.
        -- split; [intros C; contradiction|discriminate].
      * (* the completion *)
        assert (rest = [HFlush]) as -> by (destruct rest as [|[] [|? ?]]; cbn [prog_shape] in Is; try discriminate; reflexivity).
        cbn in Idn.
        constructor; cbn [set_h sk_prog sk_hholds sk_k sk_kdecided sk_holder sk_done sk_out].
        -- split; discriminate.
        -- split; [intros C; contradiction|discriminate].
        -- exact Id.
        -- now rewrite forallb_app, Il.
        -- reflexivity.
        -- reflexivity.
        -- rewrite existsb_app. cbn. now rewrite orb_true_r.
        -- apply nac_snoc_no_complete; [now rewrite Io|exact Ia].
      * (* the final flush *)
        assert (rest = []) as -> by (destruct rest; [reflexivity|discriminate]).
        cbn in Idn.
        constructor; cbn [set_h sk_prog sk_hholds sk_k sk_kdecided sk_holder sk_done sk_out]; try assumption.
        -- split; discriminate.
        -- split; [intros C; contradiction|discriminate].
    + assert (sk_holder s <> Some TH) as NH. { intros C. apply Ih in C. congruence. }
      assert ((match a with HEvent => match sk_holder s with None => Some (set_h s (a :: rest) true (Some TH) (sk_done s) (sk_out s)) | Some _ => None end
                          | _ => match sk_holder s with None => Some (set_h s (a :: rest) true (Some TH) (sk_done s) (sk_out s)) | Some _ => None end end) = Some s' -> skinv s') as K.
      { intros E. assert (sk_holder s = None /\ s' = set_h s (a :: rest) true (Some TH) (sk_done s) (sk_out s)) as [Hn ->].
        { destruct a, (sk_holder s); try discriminate; inversion E; auto. }
        constructor; cbn; try assumption; try (split; reflexivity).
        split; [intros C; apply Ik in C; congruence|discriminate]. }
      destruct a; exact K.
  - (* keep-alive *)
    destruct (sk_k s) eqn:Kp; try discriminate.
    + destruct (sk_holder s) eqn:Ho; [discriminate|]. intros E. inversion E; subst. constructor; cbn; try assumption.
      * split; [intros C; apply Ih in C; congruence|discriminate].
      * split; reflexivity.
    + rewrite Id. cbn [negb andb]. rewrite andb_true_r.
      assert (sk_holder s = Some TK) as Ho by (now apply Ik).
      assert (sk_hholds s = false) as Hh. { destruct (sk_hholds s) eqn:X; [|reflexivity]. exfalso. assert (sk_holder s = Some TH) by (now apply Ih). congruence. }
      destruct (sk_done s) eqn:Dn; intros E; inversion E; subst; clear E;
        constructor; cbn [set_k sk_prog sk_hholds sk_k sk_kdecided sk_holder sk_done sk_out]; try assumption;
        try (split; [intros C; congruence|discriminate]); try (split; discriminate); try reflexivity;
        try (now rewrite forallb_app, Il); try (rewrite existsb_app, Io; reflexivity);
        try (apply nac_snoc_no_complete; [now rewrite Io|exact Ia]).
      all: rewrite ?existsb_app, ?Io, ?Dn; try assumption; try reflexivity.
  - (* tick *)
    destruct (sk_k s) eqn:Kp; try discriminate. intros E. inversion E; subst; clear E.
    constructor; cbn [set_k sk_prog sk_hholds sk_k sk_kdecided sk_holder sk_done sk_out]; try assumption; try reflexivity.
    split; [discriminate|]. intros C. apply Ik in C. congruence.
  - destruct (sk_k s) eqn:Kp; try discriminate. intros E. inversion E; subst; clear E.
    constructor; cbn [set_k sk_prog sk_hholds sk_k sk_kdecided sk_holder sk_done sk_out]; try assumption; try reflexivity.
    split; [discriminate|]. intros C. apply Ik in C. congruence.
Qed.

Theorem skrun_inv tr : forall s s', skinv s -> skrun as_written s tr = Some s' -> skinv s'.
Proof.
  induction tr as [|l tr IH]; intros s s' I; cbn [skrun]; [intros E; now inversion E; subst|].
  destruct (skstep as_written s l) as [s1|] eqn:E; [|discriminate]. apply IH. exact (skstep_inv _ _ _ I E).
Qed.

(** every write under the lock; nothing after the completion - in every reachable state *)
Theorem sse_lock_safety_lemma n tr s :
  skrun as_written (skinit n) tr = Some s -> forallb snd (sk_out s) = true /\ nothing_after_complete (sk_out s) = true.
Proof. intros R. destruct (skrun_inv tr _ _ (skinv_init n) R). now split. Qed.

(** the handler is never blocked for good: it can step, or the keep-alive can and then the handler can *)
Theorem sse_lock_progress_lemma n tr s :
  skrun as_written (skinit n) tr = Some s -> handler_finished s = false ->
  skstep as_written s LHandler <> None \/
  exists s', skstep as_written s LKeepAlive = Some s' /\ skstep as_written s' LHandler <> None.
Proof.
  intros R F. destruct (skrun_inv tr _ _ (skinv_init n) R) as [Ih Ik Id Il Is Idn Io Ia].
  unfold handler_finished in F. destruct (sk_prog s) as [|a rest] eqn:P; [discriminate|].
  destruct (sk_hholds s) eqn:Hh.
  - left. cbn [skstep]. rewrite P, Hh. destruct a; discriminate.
  - destruct (sk_holder s) as [[]|] eqn:Ho.
    + exfalso. assert (false = true) as X by (now apply Ih). discriminate X.
    + right. assert (sk_k s = KHold) as Kp by (now apply Ik). clear Ik.
      assert (forall s', skstep as_written s LKeepAlive = Some s' -> sk_prog s' = a :: rest /\ sk_hholds s' = false /\ sk_holder s' = None) as Q.
      { cbn [skstep as_written v_done_unlocks]. rewrite Kp, Id. cbn [negb andb]. rewrite andb_true_r.
        destruct (sk_done s); intros s' E; inversion E; subst; cbn; rewrite P, Hh; auto. }
      destruct (skstep as_written s LKeepAlive) as [s'|] eqn:E.
      * exists s'. split; [reflexivity|]. destruct (Q s' eq_refl) as (Q1 & Q2 & Q3). cbn [skstep as_written v_events_locked]. rewrite Q1, Q2, Q3.
        destruct a; discriminate.
      * exfalso. revert E. cbn [skstep as_written v_done_unlocks]. rewrite Kp, Id. cbn [negb andb]. destruct (sk_done s && true); discriminate.
    + left. cbn [skstep as_written v_events_locked]. rewrite P, Hh, Ho. destruct a; discriminate.
Qed.

(** ---- the slips, as witnesses ---- *)
(** the "already completed" branch returns without unlocking: the handler's final flush blocks for ever *)
Lemma no_unlock_deadlock_witness :
  let v := {| v_done_unlocks := false; v_check_under_lock := true; v_events_locked := true |} in
  match skrun v (skinit 0) [LTick; LHandler; LHandler; LKeepAlive; LKeepAlive] with
  | Some s => handler_finished s = false /\ sk_k s = KEnd /\ skstep v s LHandler = None /\ skstep v s LKeepAlive = None
              /\ skstep v s LTick = None /\ skstep v s LCtxDone = None
  | None => False
  end.
Proof. vm_compute. repeat split; reflexivity. Qed.

(** [done] read before taking the lock: a ping after the completion *)
Lemma check_outside_lock_witness :
  let v := {| v_done_unlocks := true; v_check_under_lock := false; v_events_locked := true |} in
  option_map (fun s => map fst (sk_out s)) (skrun v (skinit 0) [LTick; LHandler; LHandler; LKeepAlive; LKeepAlive]) = Some [IComplete; IPing].
Proof. vm_compute. reflexivity. Qed.

(** an event written without the lock, while the keep-alive holds it *)
Lemma unlocked_event_witness :
  let v := {| v_done_unlocks := true; v_check_under_lock := true; v_events_locked := false |} in
  option_map (fun s => (sk_holder s, sk_out s)) (skrun v (skinit 1) [LTick; LKeepAlive; LHandler]) = Some (Some TK, [(IEv, false)]).
Proof. vm_compute. reflexivity. Qed.
