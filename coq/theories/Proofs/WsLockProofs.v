(** C11: the websocket write discipline as written - for any number of writers with any programs and over every
    interleaving, at most one writer is inside a write, the close frame is written at most once and CloseFunc called
    as often, every writer's frames are on the wire in its program order, and the system is never deadlocked; the two
    slips the discipline excludes are refuted by witnesses. *)
From GV Require Import Base.Prelude Base.Threads Model.WsLock.
Open Scope nat_scope.
Open Scope list_scope.

(** ** lists (the generic lemmas on [count] / [upd] are in Base.Threads) *)
Lemma proj_snoc i j f out : proj i (out ++ [(j, f)]) = proj i out ++ (if Nat.eqb j i then [f] else []).
Proof. unfold proj. rewrite filter_app, map_app. cbn. destruct (Nat.eqb j i); reflexivity. Qed.

Lemma msgs_snoc l f : msgs (l ++ [f]) = msgs l ++ msgs [f].
Proof. unfold msgs. now rewrite flat_map_app. Qed.

(** ** the invariant *)
Definition thread_ok (t : wthread) : Prop :=
  (t_pc t <> WUWriting /\ t_pc t <> WLeaked) /\ t_forced t = false /\ forallb op_as_written (t_prog t) = true /\
  ((t_pc t = WHeld \/ t_pc t = WWriting) -> t_prog t <> []) /\
  msgs (t_done t) ++ wmsgs (t_prog t) = wmsgs (t_prog0 t).

Record wsinv (s : wsstate) : Prop := {
  wi_hold : count holding (ws_thr s) <= 1;
  wi_thr : Forall thread_ok (ws_thr s);
  wi_closing : forall i t c r, nth_error (ws_thr s) i = Some t -> t_pc t = WWriting -> t_prog t = WClose c :: r -> ws_closed s = false;
  wi_closed : close_frames s = if ws_closed s then 1 else 0;
  wi_cb : ws_cb s = close_frames s;
  wi_proj : forall i t, nth_error (ws_thr s) i = Some t -> proj i (ws_out s) = t_done t }.

Lemma wsinv_init progs : progs_as_written progs = true -> wsinv (wsinit progs).
Proof.
  intros W. constructor; cbn.
  - induction progs; cbn; [lia|]. apply andb_true_iff in W as [_ W]. auto.
  - induction progs as [|p progs IH]; cbn; constructor.
    + apply andb_true_iff in W as [W _]. repeat split; cbn; try discriminate; try assumption. intros [C|C]; discriminate.
    + apply andb_true_iff in W as [_ W]. auto.
  - intros i t c r H P. rewrite nth_error_map in H. destruct (nth_error progs i); [|discriminate]. inversion H; subst. discriminate.
  - reflexivity.
  - reflexivity.
  - intros i t H. rewrite nth_error_map in H. destruct (nth_error progs i); [|discriminate]. inversion H; subst. destruct i; reflexivity.
Qed.

Lemma put_inv s i t t' :
  wsinv s -> nth_error (ws_thr s) i = Some t -> thread_ok t' -> t_done t' = t_done t ->
  (holding t' = true -> holding t = false -> count holding (ws_thr s) = 0) ->
  (t_pc t' = WWriting -> forall c r, t_prog t' = WClose c :: r -> ws_closed s = false) ->
  wsinv (put s i t').
Proof.
  intros [Ih It Ic Icl Icb Ip] Ni Ok Dn Hh Cl. constructor; cbn [put ws_thr ws_closed ws_out ws_cb].
  - pose proof (count_upd holding i t' t _ Ni) as C. destruct (holding t') eqn:H1; destruct (holding t) eqn:H2; try lia.
  - now apply Forall_upd.
  - intros j tj c r Nj Pj Prj. destruct (nth_upd_cases _ _ _ _ _ _ Ni Nj) as [[-> ->]|[N Nj']].
    + exact (Cl Pj c r Prj).
    + exact (Ic j tj c r Nj' Pj Prj).
  - exact Icl.
  - exact Icb.
  - intros j tj Nj. destruct (nth_upd_cases _ _ _ _ _ _ Ni Nj) as [[-> ->]|[N Nj']].
    + rewrite Dn. now apply Ip.
    + now apply Ip.
Qed.

Lemma emit_inv s i t o rest :
  wsinv s -> nth_error (ws_thr s) i = Some t -> t_pc t = WWriting -> t_prog t = o :: rest ->
  (forall u, o <> WLook u) ->
  wsinv (put_emit s i (emitted t WWrote rest (frame_of o)) (frame_of o) (is_close_op o)).
Proof.
  intros I Ni Pc Pr NL. pose proof I as [Ih It Ic Icl Icb Ip].
  pose proof (Forall_nth _ _ _ _ It Ni) as (Tu & Tf & Tw & Tn & Tm).
  assert (holding t = true) as Ht by (unfold holding; now rewrite Pc).
  assert (is_close_op o = true -> ws_closed s = false) as Cf.
  { destruct o as [k n l|c|u]; cbn; try discriminate. intros _. exact (Ic i t c rest Ni Pc Pr). }
  assert (close_frames (put_emit s i (emitted t WWrote rest (frame_of o)) (frame_of o) (is_close_op o))
          = close_frames s + (if is_close_op o then 1 else 0)) as CF.
  { unfold close_frames. cbn [put_emit ws_out]. rewrite count_snoc. cbn [snd]. destruct o as [k n l|c|u]; try reflexivity. exfalso. exact (NL u eq_refl). }
  constructor.
  - cbn [put_emit ws_thr]. pose proof (count_upd holding i (emitted t WWrote rest (frame_of o)) t _ Ni) as C.
    rewrite Ht in C. cbn [holding emitted t_pc] in C. lia.
  - cbn [put_emit ws_thr]. apply Forall_upd; [exact It|]. unfold thread_ok; cbn [emitted t_pc t_forced t_prog t_done t_prog0].
    rewrite Pr in Tw, Tm. cbn [forallb] in Tw. apply andb_true_iff in Tw as [_ Tw].
    repeat split; try discriminate; try assumption.
    + intros [C|C]; discriminate.
    + rewrite msgs_snoc, <- app_assoc, <- Tm. destruct o; reflexivity.
  - cbn [put_emit ws_thr ws_closed]. intros j tj c r Nj Pj Prj.
    destruct (nth_upd_cases _ _ _ _ _ _ Ni Nj) as [[-> ->]|[N Nj']]; [discriminate|].
    exfalso. assert (holding tj = true) as Hj by (unfold holding; now rewrite Pj).
    pose proof (count_two holding _ i j t tj (fun e => N (eq_sym e)) Ni Nj' Ht Hj). lia.
  - rewrite CF. unfold put_emit; cbn [ws_closed]. destruct (is_close_op o) eqn:Co.
    + rewrite (Cf eq_refl) in Icl |- *. cbn [orb]. cbn in Icl. lia.
    + rewrite orb_false_r. lia.
  - rewrite CF. unfold put_emit; cbn [ws_cb]. destruct (is_close_op o); lia.
  - cbn [put_emit ws_thr ws_out]. intros j tj Nj. rewrite proj_snoc.
    destruct (nth_upd_cases _ _ _ _ _ _ Ni Nj) as [[-> ->]|[N Nj']].
    + rewrite Nat.eqb_refl. cbn [emitted t_done]. now rewrite (Ip i t Ni).
    + replace (Nat.eqb i j) with false by (symmetry; apply Nat.eqb_neq; congruence). rewrite app_nil_r. now apply Ip.
Qed.

Theorem wsstep_inv s i s' : wsinv s -> wsstep s i = Some s' -> wsinv s'.
Proof.
  intros I. pose proof I as [Ih It Ic Icl Icb Ip]. unfold wsstep.
  destruct (nth_error (ws_thr s) i) as [t|] eqn:Ni; [|discriminate].
  pose proof (Forall_nth _ _ _ _ It Ni) as (Tu & Tf & Tw & Tn & Tm).
  destruct (t_pc t) eqn:Pc.
  - (* idle *)
    destruct (t_prog t) as [|o rest] eqn:Pr; [discriminate|].
    assert (op_as_written o = true) as Wo by (cbn [forallb] in Tw; now apply andb_true_iff in Tw as [Tw _]).
    assert ((if Nat.eqb (count holding (ws_thr s)) 0 then Some (put s i (with_pc t WHeld)) else None) = Some s' -> wsinv s') as K.
    { destruct (Nat.eqb (count holding (ws_thr s)) 0) eqn:Fr; [|discriminate]. intros E; inversion E; subst; clear E.
      apply Nat.eqb_eq in Fr. apply (put_inv s i t); try assumption; try reflexivity.
      - unfold thread_ok; cbn [with_pc t_pc t_forced t_prog t_done t_prog0]. rewrite ?Pr.
        repeat split; try discriminate; try assumption.
      - intros _ _. exact Fr.
      - discriminate. }
    destruct o as [k n [|]|[|]|[|]]; cbn in Wo; try discriminate; exact K.
  - (* holds the lock *)
    assert (holding t = true) as Ht by (unfold holding; now rewrite Pc).
    destruct (t_prog t) as [|o rest] eqn:Pr; [discriminate|].
    assert (op_as_written o = true) as Wo by (cbn [forallb] in Tw; now apply andb_true_iff in Tw as [Tw _]).
    destruct o as [k n l|c|u].
    3: { (* a look-up: unlock and go on *)
      cbn in Wo. subst u. intros E; inversion E; subst; clear E. apply (put_inv s i t); try assumption; try reflexivity.
      - unfold thread_ok; cbn [with_prog t_pc t_forced t_prog t_done t_prog0]. cbn [forallb] in Tw. apply andb_true_iff in Tw as [_ Tw].
        repeat split; try discriminate; try assumption. intros [C|C]; discriminate.
      - intros _ C. congruence.
      - discriminate. }
    + intros E; inversion E; subst; clear E. apply (put_inv s i t); try assumption; try reflexivity.
      * unfold thread_ok; cbn [with_pc t_pc t_forced t_prog t_done t_prog0]. rewrite ?Pr.
        repeat split; try discriminate; try assumption.
      * intros _ C. congruence.
      * cbn [with_pc t_prog]. rewrite Pr. discriminate.
    + cbn in Wo. subst c. cbn [orb]. rewrite andb_true_r. destruct (ws_closed s) eqn:Cl; intros E; inversion E; subst; clear E.
      * apply (put_inv s i t); try assumption; try reflexivity.
        -- unfold thread_ok; cbn [with_prog t_pc t_forced t_prog t_done t_prog0]. cbn [forallb] in Tw. apply andb_true_iff in Tw as [_ Tw].
           repeat split; try discriminate; try assumption. intros [C|C]; discriminate.
        -- intros _ C. congruence.
        -- discriminate.
      * apply (put_inv s i t); try assumption; try reflexivity.
        -- unfold thread_ok; cbn [with_pc t_pc t_forced t_prog t_done t_prog0]. rewrite ?Pr.
           repeat split; try discriminate; try assumption.
        -- intros _ C. congruence.
        -- intros; exact Cl.
  - (* inside the write *)
    destruct (t_prog t) as [|o rest] eqn:Pr; [discriminate|].
    destruct o as [k n l|c|u].
    3: { assert (holding t = true) as Ht by (unfold holding; now rewrite Pc).
      intros E; inversion E; subst; clear E. apply (put_inv s i t); try assumption; try reflexivity.
      - unfold thread_ok; cbn [with_prog t_pc t_forced t_prog t_done t_prog0]. cbn [forallb] in Tw. apply andb_true_iff in Tw as [_ Tw].
        repeat split; try discriminate; try assumption. intros [C|C]; discriminate.
      - intros _ C. congruence.
      - discriminate. }
    all: intros E; inversion E; subst; clear E; apply (emit_inv s i t _ rest I Ni Pc Pr); intros u; discriminate.
  - (* unlock *)
    intros E; inversion E; subst; clear E. apply (put_inv s i t); try assumption; try reflexivity.
    + unfold thread_ok; cbn [with_pc t_pc t_forced t_prog t_done t_prog0]. repeat split; try discriminate; try assumption. intros [C|C]; discriminate.
    + cbn. discriminate.
    + discriminate.
  - destruct Tu; contradiction.
  - discriminate.
Qed.

Theorem wsrun_inv tr : forall s s', wsinv s -> wsrun s tr = Some s' -> wsinv s'.
Proof.
  induction tr as [|i tr IH]; intros s s' I; cbn [wsrun]; [intros E; now inversion E; subst|].
  destruct (wsstep s i) as [s1|] eqn:E; [|discriminate]. apply IH. exact (wsstep_inv _ _ _ I E).
Qed.

(** ** the programs never change *)
Lemma wsstep_prog0 s i s' : wsstep s i = Some s' -> map t_prog0 (ws_thr s') = map t_prog0 (ws_thr s).
Proof.
  unfold wsstep. destruct (nth_error (ws_thr s) i) as [t|] eqn:Ni; [|discriminate].
  assert (forall t', t_prog0 t' = t_prog0 t -> map t_prog0 (upd i t' (ws_thr s)) = map t_prog0 (ws_thr s)) as K
    by (intros t' E; exact (map_upd_same _ _ _ _ _ Ni E)).
  destruct (t_pc t); destruct (t_prog t) as [|[k n [|]|[|]|[|]] rest]; try discriminate;
    repeat match goal with |- context [if ?b then _ else _] => destruct b end; try discriminate;
    intros E; inversion E; subst; clear E; cbn [put put_emit ws_thr]; apply K; reflexivity.
Qed.

Lemma wsrun_prog0 tr : forall s s', wsrun s tr = Some s' -> map t_prog0 (ws_thr s') = map t_prog0 (ws_thr s).
Proof.
  induction tr as [|i tr IH]; intros s s'; cbn [wsrun]; [intros E; now inversion E|].
  destruct (wsstep s i) as [s1|] eqn:E; [|discriminate]. intros R. rewrite (IH _ _ R). exact (wsstep_prog0 _ _ _ E).
Qed.

Lemma init_prog0 progs : map t_prog0 (ws_thr (wsinit progs)) = progs.
Proof. cbn. rewrite map_map. cbn. apply map_id. Qed.

(** ** the theorems *)

(** at most one writer inside a write; the close frame at most once; CloseFunc as often as the close frame *)
Theorem ws_lock_safety_lemma progs tr s :
  progs_as_written progs = true -> wsrun (wsinit progs) tr = Some s ->
  writers_inside s <= 1 /\ close_frames s <= 1 /\ ws_cb s = close_frames s.
Proof.
  intros W R. destruct (wsrun_inv tr _ _ (wsinv_init progs W) R) as [Ih It Ic Icl Icb Ip]. repeat split.
  - unfold writers_inside. etransitivity; [|exact Ih]. apply count_le.
    eapply Forall_impl; [|exact It]. intros t ((Tu & _) & _) Wr. unfold writing, holding in *. destruct (t_pc t); try discriminate; try reflexivity. contradiction.
  - rewrite Icl. destruct (ws_closed s); lia.
  - exact Icb.
Qed.

(** every writer's frames are on the wire in its program's order: what it has written, followed by what it still has
    to write, is its program *)
Theorem ws_writer_order_lemma progs tr s i t :
  progs_as_written progs = true -> wsrun (wsinit progs) tr = Some s -> nth_error (ws_thr s) i = Some t ->
  exists p, nth_error progs i = Some p /\ msgs (proj i (ws_out s)) ++ wmsgs (t_prog t) = wmsgs p.
Proof.
  intros W R Ni. destruct (wsrun_inv tr _ _ (wsinv_init progs W) R) as [Ih It Ic Icl Icb Ip].
  pose proof (wsrun_prog0 _ _ _ R) as P0. rewrite init_prog0 in P0.
  exists (t_prog0 t). split.
  - rewrite <- P0. now apply map_nth_error.
  - rewrite (Ip i t Ni). now destruct (Forall_nth _ _ _ _ It Ni) as (_ & _ & _ & _ & Tm).
Qed.

(** never deadlocked: while some writer is unfinished some writer can step *)
Theorem ws_lock_progress_lemma progs tr s :
  progs_as_written progs = true -> wsrun (wsinit progs) tr = Some s ->
  (exists i t, nth_error (ws_thr s) i = Some t /\ unfinished t = true) -> exists j, wsstep s j <> None.
Proof.
  intros W R (i & t & Ni & Un). destruct (wsrun_inv tr _ _ (wsinv_init progs W) R) as [Ih It Ic Icl Icb Ip].
  destruct (Nat.eq_dec (count holding (ws_thr s)) 0) as [Z|NZ].
  - exists i. unfold wsstep. rewrite Ni, Z. cbn [Nat.eqb].
    destruct (Forall_nth _ _ _ _ It Ni) as (Tu & Tf & Tw & Tn & Tm).
    pose proof (count_zero_all _ _ _ _ Z Ni) as Hf. unfold holding in Hf. unfold unfinished in Un.
    destruct (t_pc t); try discriminate; [|destruct Tu; contradiction].
    destruct (t_prog t) as [|[k n [|]|[|]|[|]] rest]; try discriminate; cbn in Tw; discriminate.
  - destruct (count_pos_exists holding (ws_thr s)) as (j & tj & Nj & Hj); [lia|].
    exists j. unfold wsstep. rewrite Nj. destruct (Forall_nth _ _ _ _ It Nj) as (Tu & Tf & Tw & Tn & Tm).
    unfold holding in Hj. destruct (t_pc tj); try discriminate.
    + destruct (t_prog tj) as [|[k n l|c|u] rest]; [exfalso; apply Tn; auto|discriminate| |discriminate].
      destruct (ws_closed s && (c || negb (t_forced tj))); discriminate.
    + destruct (t_prog tj) as [|[k n l|c|u] rest]; [exfalso; apply Tn; auto|discriminate|discriminate|discriminate].
    + destruct Tu; contradiction.
Qed.

(** ** the two slips, refuted *)

(** a pong written by the read loop without the lock while an operation's goroutine is inside its own write *)
Theorem ws_unlocked_write_witness :
  exists s, wsrun (wsinit [[WWrite "pong" 1 false]; [WWrite "next" 1 true]]) [1; 1; 0] = Some s /\ writers_inside s = 2.
Proof. eexists. split; [vm_compute; reflexivity|reflexivity]. Qed.

(** [closed] read before the lock is taken: two goroutines both decide to close *)
Theorem ws_close_check_outside_lock_witness :
  exists s, wsrun (wsinit [[WClose false]; [WClose false]]) [0; 1; 0; 0; 0; 0; 1; 1; 1] = Some s /\ close_frames s = 2 /\ ws_cb s = 2.
Proof. eexists. split; [vm_compute; reflexivity|split; reflexivity]. Qed.

(** non-vacuity: a session of the code as written - read loop (ack, two pongs, close), an operation (two results and
    the completion), a ticker, closeOnCancel (which closes first, so that the read loop's own close finds the connection closed) - run to the end *)
Definition sample_progs : list (list wop) :=
  [[WWrite "connection_ack" 0 true; WWrite "pong" 1 true; WWrite "pong" 2 true; WClose true];
   [WWrite "next" 1 true; WWrite "next" 2 true; WWrite "complete" 0 true];
   [WWrite "ping" 0 true]; [WClose true]].
Definition sample_trace : list nat :=
  [0;0;0;0;1;1;1;1;2;2;2;2;3;3;3;3;0;0;0;0;1;1;1;1;0;0;0;0;0;0;0;1;1;1;1].
Example ws_sample_runs :
  progs_as_written sample_progs = true /\
  exists s, wsrun (wsinit sample_progs) sample_trace = Some s /\ close_frames s = 1 /\ ws_cb s = 1 /\
            forallb (fun t => negb (unfinished t)) (ws_thr s) = true.
Proof. split; [reflexivity|]. eexists. split; [vm_compute; reflexivity|repeat split; reflexivity]. Qed.

(** ** every schedule ends: a step costs one unit of a budget of four per operation *)
Definition tweight (t : wthread) : nat :=
  let n := List.length (t_prog t) in
  match t_pc t with WIdle => 4 * n | WHeld => 4 * n - 1 | WWriting | WUWriting => 4 * n - 2 | WWrote | WLeaked => 4 * n + 1 end.
Definition weight (s : wsstate) : nat := list_sum (map tweight (ws_thr s)).

Lemma wsstep_weight s i s' : wsinv s -> wsstep s i = Some s' -> S (weight s') <= weight s.
Proof.
  intros [Ih It Ic Icl Icb Ip]. unfold wsstep, weight.
  destruct (nth_error (ws_thr s) i) as [t|] eqn:Ni; [|discriminate].
  destruct (Forall_nth _ _ _ _ It Ni) as (Tu & Tf & Tw & Tn & Tm).
  assert (forall t', S (tweight t') <= tweight t -> S (list_sum (map tweight (upd i t' (ws_thr s)))) <= list_sum (map tweight (ws_thr s))) as K.
  { intros t' L. pose proof (sum_upd tweight i t' t _ Ni). lia. }
  unfold tweight in K.
  destruct (t_pc t) eqn:Pc; try contradiction;
    destruct (t_prog t) as [|[k n [|]|[|]|[|]] rest] eqn:Pr; try discriminate; cbn in Tw; try discriminate;
    repeat match goal with |- context [if ?b then _ else _] => destruct b end; try discriminate;
    intros E; inversion E; subst; clear E; cbn [put put_emit ws_thr]; apply K;
    cbn [with_pc with_prog emitted t_pc t_prog List.length]; rewrite ?Pr; cbn [List.length]; lia.
Qed.

Theorem ws_lock_bounded_lemma progs tr s :
  progs_as_written progs = true -> wsrun (wsinit progs) tr = Some s ->
  List.length tr + weight s <= 4 * list_sum (map (@List.length wop) progs).
Proof.
  intros W R.
  assert (weight (wsinit progs) = 4 * list_sum (map (@List.length wop) progs)) as <-.
  { unfold weight. cbn [wsinit ws_thr]. rewrite map_map. clear. unfold list_sum. induction progs as [|p ps IH]; cbn [map fold_right]; [reflexivity|].
    rewrite IH. unfold tweight. cbn [start_thread t_pc t_prog]. lia. }
  pose proof (wsinv_init progs W) as I. revert R I. generalize (wsinit progs). induction tr as [|i tr IH]; intros s0 R I; cbn [wsrun] in R.
  - inversion R; subst. cbn. lia.
  - destruct (wsstep s0 i) as [s1|] eqn:E; [|discriminate].
    pose proof (wsstep_weight _ _ _ I E). specialize (IH _ R (wsstep_inv _ _ _ I E)). cbn [List.length]. lia.
Qed.

(** a path that returns without unlocking (a stop for an id nothing runs under): every other goroutine of the
    connection is blocked for good - the next result, a tick, the close *)
Theorem ws_lock_left_locked_witness :
  exists s, wsrun (wsinit [[WLook false; WLook true]; [WWrite "next" 1 true]; [WClose true]]) [0; 0] = Some s /\
            wsstep s 0 = None /\ wsstep s 1 = None /\ wsstep s 2 = None /\
            existsb unfinished (ws_thr s) = true.
Proof. eexists. split; [vm_compute; reflexivity|repeat split; reflexivity]. Qed.
