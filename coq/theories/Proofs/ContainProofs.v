From GV Require Import Base.Prelude Model.Exec Proofs.ExecProofs.
Open Scope string_scope.
Open Scope list_scope.

(** One-hole contexts over outcome trees. *)
Inductive ctx :=
| CHole
| CField (tn : string) (before : list (string * bool * rnode)) (k : string) (fnn : bool) (c : ctx)
         (after : list (string * bool * rnode))
| CElem (enn : bool) (before : list rnode) (c : ctx) (after : list rnode).

Fixpoint plug (c : ctx) (n : rnode) {struct c} : rnode :=
  match c with
  | CHole => n
  | CField tn b k fnn c' a => NObj tn (b ++ (k, fnn, plug c' n) :: a)
  | CElem enn b c' a => NList enn (b ++ plug c' n :: a)
  end.

(** nullability and response path of the hole, given those of the context's root *)
Fixpoint hole_nn (c : ctx) (nn : bool) {struct c} : bool :=
  match c with CHole => nn | CField _ _ _ fnn c' _ => hole_nn c' fnn | CElem enn _ c' _ => hole_nn c' enn end.
Fixpoint hole_path (c : ctx) (p : path) {struct c} : path :=
  match c with
  | CHole => p
  | CField _ _ k _ c' _ => hole_path c' (p ++ [PKey k])
  | CElem _ b c' _ => hole_path c' (p ++ [PIdx (List.length b)])
  end.
(** every position strictly below the context's root, down to and including the hole, is non-null *)
Fixpoint chain (c : ctx) {struct c} : bool :=
  match c with CHole => true | CField _ _ _ fnn c' _ => fnn && chain c' | CElem enn _ c' _ => enn && chain c' end.

Definition opt_app {A} (a b : option (list A)) : option (list A) :=
  match a, b with Some x, Some y => Some (x ++ y) | _, _ => None end.

Lemma spec_obj_app tol p l1 l2 :
  spec_obj tol p (l1 ++ l2) =
  (opt_app (fst (spec_obj tol p l1)) (fst (spec_obj tol p l2)), snd (spec_obj tol p l1) ++ snd (spec_obj tol p l2)).
Proof.
  induction l1 as [|[[k fnn] c] r IH]; cbn [app spec_obj].
  - destruct (spec_obj tol p l2) as [v e]. cbn. destruct v; reflexivity.
  - rewrite IH. destruct (complete_spec_gen tol fnn (p ++ [PKey k]) c) as [v e].
    destruct (spec_obj tol p r) as [vs es]. destruct (spec_obj tol p l2) as [vs2 es2]. cbn [fst snd].
    rewrite app_assoc. destruct v, vs, vs2; reflexivity.
Qed.

Lemma spec_list_app tol enn p l1 : forall i l2,
  spec_list tol enn p i (l1 ++ l2) =
  (opt_app (fst (spec_list tol enn p i l1)) (fst (spec_list tol enn p (i + List.length l1) l2)),
   snd (spec_list tol enn p i l1) ++ snd (spec_list tol enn p (i + List.length l1) l2)).
Proof.
  induction l1 as [|x r IH]; intros i l2; cbn [app spec_list List.length].
  - rewrite Nat.add_0_r. destruct (spec_list tol enn p i l2) as [v e]. cbn. destruct v; reflexivity.
  - rewrite IH. replace (S i + List.length r)%nat with (i + S (List.length r))%nat by lia.
    destruct (complete_spec_gen tol enn (p ++ [PIdx i]) x) as [v e].
    destruct (spec_list tol enn p (S i) r) as [vs es].
    destruct (spec_list tol enn p (i + S (List.length r)) l2) as [vs2 es2]. cbn [fst snd].
    rewrite app_assoc. destruct v, vs, vs2; reflexivity.
Qed.

(** (a) A nullable position never propagates: whatever fails below it stays below it. *)
Theorem nullable_absorbs_lemma n p : fst (complete_spec false p n) <> None.
Proof.
  unfold complete_spec. destruct n as [tk f|s|e|enn l|tn fs].
  - discriminate.
  - discriminate.
  - discriminate.
  - rewrite complete_spec_list. destruct (spec_list false enn p 0 l) as [[js|] es]; discriminate.
  - rewrite complete_spec_obj. destruct (spec_obj false p fs) as [[js|] es]; discriminate.
Qed.

(** (b) The rest of the response depends on a subtree only through that subtree's own completed value:
    everything outside the hole keeps its value. *)
Theorem congruence_lemma c : forall nn p n1 n2,
  fst (complete_spec (hole_nn c nn) (hole_path c p) n1) = fst (complete_spec (hole_nn c nn) (hole_path c p) n2) ->
  fst (complete_spec nn p (plug c n1)) = fst (complete_spec nn p (plug c n2)).
Proof.
  unfold complete_spec.
  induction c as [|tn b k fnn c IH a|enn b c IH a]; intros nn p n1 n2 H; cbn [plug hole_nn hole_path] in *.
  - exact H.
  - rewrite !complete_spec_obj, !spec_obj_app. cbn [spec_obj fst snd].
    specialize (IH fnn (p ++ [PKey k]) n1 n2 H).
    destruct (complete_spec_gen false fnn (p ++ [PKey k]) (plug c n1)) as [v1 e1].
    destruct (complete_spec_gen false fnn (p ++ [PKey k]) (plug c n2)) as [v2 e2].
    cbn [fst] in IH. subst v2. destruct (spec_obj false p a) as [va ea]. cbn [fst snd]. reflexivity.
  - rewrite !complete_spec_list, !spec_list_app. cbn [spec_list fst snd]. rewrite Nat.add_0_l.
    specialize (IH enn (p ++ [PIdx (List.length b)]) n1 n2 H).
    destruct (complete_spec_gen false enn (p ++ [PIdx (List.length b)]) (plug c n1)) as [v1 e1].
    destruct (complete_spec_gen false enn (p ++ [PIdx (List.length b)]) (plug c n2)) as [v2 e2].
    cbn [fst] in IH. subst v2. destruct (spec_list false enn p (S (List.length b)) a) as [va ea]. cbn [fst snd]. reflexivity.
Qed.

(** (c) The errors of the response are the errors of the surroundings plus the errors of the subtree:
    a failure adds exactly its own entries, with its own path. *)
Theorem errors_compositional_lemma c : forall nn p, exists eb ea, forall n,
  snd (complete_spec nn p (plug c n)) = eb ++ snd (complete_spec (hole_nn c nn) (hole_path c p) n) ++ ea.
Proof.
  unfold complete_spec.
  induction c as [|tn b k fnn c IH a|enn b c IH a]; intros nn p; cbn [plug hole_nn hole_path].
  - exists [], []. intros n. rewrite app_nil_r. reflexivity.
  - destruct (IH fnn (p ++ [PKey k])) as [eb [ea Hc]].
    exists (snd (spec_obj false p b) ++ eb), (ea ++ snd (spec_obj false p a)). intros n.
    rewrite complete_spec_obj, spec_obj_app. cbn [spec_obj fst snd]. specialize (Hc n).
    destruct (complete_spec_gen false fnn (p ++ [PKey k]) (plug c n)) as [v e]. cbn [snd] in Hc. subst e.
    destruct (spec_obj false p a) as [va ea']. cbn [fst snd].
    destruct (opt_app (fst (spec_obj false p b)) match v with Some a0 => match va with Some b0 => Some ((k, a0) :: b0) | None => None end | None => None end);
      cbn [snd]; rewrite <- !app_assoc; reflexivity.
  - destruct (IH enn (p ++ [PIdx (List.length b)])) as [eb [ea Hc]].
    exists (snd (spec_list false enn p 0 b) ++ eb), (ea ++ snd (spec_list false enn p (S (List.length b)) a)). intros n.
    rewrite complete_spec_list, spec_list_app. cbn [spec_list fst snd]. rewrite Nat.add_0_l. specialize (Hc n).
    destruct (complete_spec_gen false enn (p ++ [PIdx (List.length b)]) (plug c n)) as [v e]. cbn [snd] in Hc. subst e.
    destruct (spec_list false enn p (S (List.length b)) a) as [va ea']. cbn [fst snd].
    destruct (opt_app (fst (spec_list false enn p 0 b)) match v with Some a0 => match va with Some b0 => Some (a0 :: b0) | None => None end | None => None end);
      cbn [snd]; rewrite <- !app_assoc; reflexivity.
Qed.

(** (d) Ordinary null propagation: through a chain of non-null positions a failure reaches the chain's
    root, which is null if it is nullable and propagates further if it is not. *)
Theorem chain_propagates_lemma c : forall nn p n,
  chain c = true -> fst (complete_spec (hole_nn c nn) (hole_path c p) n) = None ->
  fst (complete_spec nn p (plug c n)) = if nn then None else Some TNull.
Proof.
  unfold complete_spec.
  induction c as [|tn b k fnn c IH a|enn b c IH a]; intros nn p n Hc Hn; cbn [plug hole_nn hole_path chain] in *.
  - (* the hole itself: a propagating result at a nullable position is impossible *)
    destruct nn; [exact Hn|]. exfalso. exact (nullable_absorbs_lemma n p Hn).
  - apply andb_prop in Hc. destruct Hc as [-> Hc].
    rewrite complete_spec_obj, spec_obj_app. cbn [spec_obj fst snd].
    pose proof (IH true (p ++ [PKey k]) n Hc Hn) as E.
    destruct (complete_spec_gen false true (p ++ [PKey k]) (plug c n)) as [v e]. cbn [fst] in E. subst v.
    destruct (spec_obj false p a) as [va ea]. cbn [fst snd]. destruct (fst (spec_obj false p b)); reflexivity.
  - apply andb_prop in Hc. destruct Hc as [-> Hc].
    rewrite complete_spec_list, spec_list_app. cbn [spec_list fst snd]. rewrite Nat.add_0_l.
    pose proof (IH true (p ++ [PIdx (List.length b)]) n Hc Hn) as E.
    destruct (complete_spec_gen false true (p ++ [PIdx (List.length b)]) (plug c n)) as [v e]. cbn [fst] in E. subst v.
    destruct (spec_list false true p (S (List.length b)) a) as [va ea]. cbn [fst snd]. destruct (fst (spec_list false true p 0 b)); reflexivity.
Qed.

(** Containment.  A failure [e] at a position whose ancestors up to (excluding) a nullable ancestor are all
    non-null: the response data is exactly the data in which that nullable ancestor resolved to null -
    nothing outside it changes - and the errors grow by exactly the failure's own entry, at its path. *)
Theorem containment_lemma co ci nn p e :
  hole_nn co nn = false -> chain ci = true -> hole_nn ci false = true ->
  fst (complete_spec nn p (plug co (plug ci (NFail e)))) = fst (complete_spec nn p (plug co (NNil false)))
  /\ exists eb ea, snd (complete_spec nn p (plug co (plug ci (NFail e))))
                   = eb ++ [(hole_path ci (hole_path co p), e)] ++ ea.
Proof.
  intros Hco Hci Hnn. split.
  - apply congruence_lemma. rewrite Hco.
    rewrite (chain_propagates_lemma ci false (hole_path co p) (NFail e) Hci).
    + reflexivity.
    + rewrite Hnn. reflexivity.
  - destruct (errors_compositional_lemma co nn p) as [eb1 [ea1 H1]].
    destruct (errors_compositional_lemma ci (hole_nn co nn) (hole_path co p)) as [eb2 [ea2 H2]].
    exists (eb1 ++ eb2), (ea2 ++ ea1). rewrite H1, H2. cbn [complete_spec complete_spec_gen snd].
    unfold complete_spec. cbn [complete_spec_gen snd]. rewrite <- !app_assoc. reflexivity.
Qed.

(** the recover hook: one invocation per panic that execution reached = the panic entries of the errors *)
Fixpoint count_panics (n : rnode) {struct n} : nat :=
  match n with
  | NFail (EPanic _) => 1
  | NList _ l => fold_right (fun x a => count_panics x + a)%nat O l
  | NObj _ fs => fold_right (fun kf a => count_panics (snd kf) + a)%nat O fs
  | _ => O
  end.
Definition is_panic_e (e : err) : bool := match snd e with EPanic _ => true | _ => false end.

Theorem recover_once_lemma n : forall nn p,
  List.length (filter is_panic_e (snd (complete_spec nn p n))) = count_panics n.
Proof.
  intros nn p. rewrite one_error_per_failure_lemma. revert nn p.
  induction n as [tk f|s|e|enn l IH|tn fs IH] using rnode_ind'; intros nn p.
  - reflexivity.
  - cbn. destruct nn; reflexivity.
  - cbn. destruct e; reflexivity.
  - cbn [failures count_panics].
    assert (H : forall i, List.length (filter is_panic_e
              ((fix go (i : nat) (l : list rnode) {struct l} : list err :=
                  match l with [] => [] | x :: r => failures enn (p ++ [PIdx i]) x ++ go (S i) r end) i l))
            = fold_right (fun x a => count_panics x + a)%nat O l).
    { induction IH as [|x r Hx _ IHr]; intros i; [reflexivity|].
      cbn [fold_right]. rewrite filter_app, app_length, Hx, IHr. reflexivity. }
    apply H.
  - cbn [failures count_panics].
    induction IH as [|[[k fnn] c] r Hx _ IHr]; [reflexivity|].
    cbn [fold_right snd]. rewrite filter_app, app_length. cbn [snd] in Hx. rewrite Hx, IHr. reflexivity.
Qed.
