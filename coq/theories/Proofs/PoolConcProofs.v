(** C07 with requests in flight together: whatever object the pool hands out and however the requests interleave,
    every executor is handed what its request decodes to on a fresh object; returning the object to the pool before
    its last use is refuted. *)
From GV Require Import Base.Prelude Base.Threads Model.ParamPool Proofs.ParamPoolProofs Model.PoolConc.
Open Scope nat_scope.
Open Scope list_scope.

Definition thread_fact (heap : list (params * owner)) (t : pthread) : Prop :=
  match pt_pc t with
  | PStart | PDone => pt_obj t = None
  | PGot | PCleaned => exists id o, pt_obj t = Some id /\ nth_error heap id = Some (pzero, o)
  | PFilled => exists id o, pt_obj t = Some id /\
                 nth_error heap id = Some (fst (alone_sees (pt_hdr t) (pt_body t)), o) /\
                 pt_ok t = snd (alone_sees (pt_hdr t) (pt_body t))
  | PSeen => exists id, pt_obj t = Some id
  end.

Record pcinv (s : pstate) : Prop := {
  pj_own : forall i t id, nth_error (ps_thr s) i = Some t -> pt_obj t = Some id -> exists v, nth_error (ps_heap s) id = Some (v, Held i);
  pj_pool : forall id v, nth_error (ps_heap s) id = Some (v, InPool) -> v = pzero;
  pj_fact : forall i t, nth_error (ps_thr s) i = Some t -> thread_fact (ps_heap s) t;
  pj_seen : forall i t v, nth_error (ps_thr s) i = Some t -> pt_seen t = Some v -> v = alone_sees (pt_hdr t) (pt_body t) }.

Lemma pcinv_init_f reqs : pcinv (pinit_f reqs).
Proof.
  constructor; cbn.
  - intros i t id H. rewrite nth_error_map in H. destruct (nth_error reqs i); [|discriminate]. inversion H; subst. discriminate.
  - intros [|id] v H; discriminate.
  - intros i t H. rewrite nth_error_map in H. destruct (nth_error reqs i); [|discriminate]. inversion H; subst. reflexivity.
  - intros i t v H. rewrite nth_error_map in H. destruct (nth_error reqs i); [|discriminate]. inversion H; subst. discriminate.
Qed.
Lemma pcinv_init reqs : pcinv (pinit reqs).
Proof. apply pcinv_init_f. Qed.

(** a thread's fact only looks at the entry of its own object *)
Lemma thread_fact_ext heap heap' t :
  (forall id, pt_obj t = Some id -> nth_error heap' id = nth_error heap id) -> thread_fact heap t -> thread_fact heap' t.
Proof.
  unfold thread_fact. intros E. destruct (pt_pc t); auto.
  - intros (id & o & Ho & Hn). exists id, o. split; [exact Ho|]. now rewrite (E id Ho).
  - intros (id & o & Ho & Hn & Hk). exists id, o. repeat split; auto. now rewrite (E id Ho).
  - intros (id & o & Ho & Hn). exists id, o. split; [exact Ho|]. now rewrite (E id Ho).
Qed.

(** the generic step: thread [i] becomes [t'] and the heap changes at [id], an entry thread [i] owns or takes from
    the pool, or grows by one entry owned by [i] *)
Lemma step_pcinv s i t t' heap' :
  pcinv s -> nth_error (ps_thr s) i = Some t ->
  (forall j tj idj, j <> i -> nth_error (ps_thr s) j = Some tj -> pt_obj tj = Some idj -> nth_error heap' idj = nth_error (ps_heap s) idj) ->
  (forall id v, nth_error heap' id = Some (v, InPool) -> v = pzero) ->
  (forall id, pt_obj t' = Some id -> exists v, nth_error heap' id = Some (v, Held i)) ->
  thread_fact heap' t' ->
  (forall v, pt_seen t' = Some v -> v = alone_sees (pt_hdr t') (pt_body t')) ->
  pcinv {| ps_thr := upd i t' (ps_thr s); ps_heap := heap' |}.
Proof.
  intros [Jo Jp Jf Js] Ni Hother Hpool Hown Hfact Hseen. constructor; cbn [ps_thr ps_heap].
  - intros j tj id Nj Oj. destruct (nth_upd_cases _ _ _ _ _ _ Ni Nj) as [[-> ->]|[N Nj']]; [exact (Hown id Oj)|].
    rewrite (Hother j tj id N Nj' Oj). exact (Jo j tj id Nj' Oj).
  - exact Hpool.
  - intros j tj Nj. destruct (nth_upd_cases _ _ _ _ _ _ Ni Nj) as [[-> ->]|[N Nj']]; [exact Hfact|].
    apply (thread_fact_ext (ps_heap s)); [|exact (Jf j tj Nj')]. intros id Oj. exact (Hother j tj id N Nj' Oj).
  - intros j tj v Nj Sj. destruct (nth_upd_cases _ _ _ _ _ _ Ni Nj) as [[-> ->]|[N Nj']]; [exact (Hseen v Sj)|exact (Js j tj v Nj' Sj)].
Qed.

Lemma nth_app_old {A} (l : list A) x id y : nth_error l id = Some y -> nth_error (l ++ [x]) id = Some y.
Proof. intros H. rewrite nth_error_app1; [exact H|]. apply nth_error_Some. congruence. Qed.

Lemma nth_app_cases {A} (l : list A) x id y : nth_error (l ++ [x]) id = Some y -> nth_error l id = Some y \/ (id = List.length l /\ y = x).
Proof.
  intros H. destruct (Nat.lt_ge_cases id (List.length l)) as [L|G].
  - rewrite nth_error_app1 in H by exact L. now left.
  - rewrite nth_error_app2 in H by exact G. right. destruct (id - List.length l) as [|k] eqn:E; cbn in H.
    + inversion H; subst. split; [lia|reflexivity].
    + destruct k; discriminate.
Qed.

Theorem pstep_inv s i c s' : pcinv s -> pstep as_written_pool s i c = Some s' -> pcinv s'.
Proof.
  intros I. pose proof I as [Jo Jp Jf Js]. unfold pstep.
  destruct (nth_error (ps_thr s) i) as [t|] eqn:Ni; [|discriminate].
  pose proof (Jf i t Ni) as Ft. unfold thread_fact in Ft.
  (* the objects of the other threads are not the one thread [i] touches *)
  assert (forall id o, (exists v, nth_error (ps_heap s) id = Some (v, o)) -> (o = InPool \/ o = Held i) ->
          forall x j tj idj, j <> i -> nth_error (ps_thr s) j = Some tj -> pt_obj tj = Some idj ->
          nth_error (upd id x (ps_heap s)) idj = nth_error (ps_heap s) idj) as Other.
  { intros id o (v & Hv) Ho x j tj idj N Nj Oj. destruct (Jo j tj idj Nj Oj) as (vj & Hj).
    apply nth_upd_other. intros ->. rewrite Hv in Hj. inversion Hj; subst. destruct Ho as [Ho|Ho]; [discriminate|inversion Ho; congruence]. }
  destruct (pt_pc t) eqn:Pc.
  - (* Get *)
    destruct c as [id|].
    + destruct (nth_error (ps_heap s) id) as [[v o]|] eqn:Hid; [|discriminate]. destruct o; [|discriminate].
      intros E; inversion E; subst; clear E. pose proof (Jp id v Hid) as ->.
      apply (step_pcinv s i t); auto.
      * intros j tj idj N Nj Oj. eapply (Other id InPool); eauto.
      * intros id' v' H. destruct (Nat.eq_dec id' id) as [->|N].
        -- rewrite (nth_upd_same _ _ _ _ Hid) in H. discriminate.
        -- rewrite nth_upd_other in H by congruence. exact (Jp id' v' H).
      * cbn. intros id' E. inversion E; subst. exists pzero. exact (nth_upd_same _ _ _ _ Hid).
      * unfold thread_fact; cbn. exists id, (Held i). split; [reflexivity|]. exact (nth_upd_same _ _ _ _ Hid).
      * cbn. discriminate.
    + intros E; inversion E; subst; clear E.
      apply (step_pcinv s i t); auto.
      * intros j tj idj N Nj Oj. destruct (Jo j tj idj Nj Oj) as (vj & Hj). now rewrite (nth_app_old _ _ _ _ Hj).
      * intros id v H. destruct (nth_app_cases _ _ _ _ H) as [H'|[_ H']]; [exact (Jp id v H')|discriminate].
      * cbn. intros id E. inversion E; subst. exists pzero. rewrite nth_error_app2 by lia. now rewrite Nat.sub_diag.
      * unfold thread_fact; cbn. exists (List.length (ps_heap s)), (Held i). split; [reflexivity|].
        rewrite nth_error_app2 by lia. now rewrite Nat.sub_diag.
      * cbn. discriminate.
  - (* decode into the object *)
    destruct Ft as (id & o & Ho & Hn). rewrite Ho, Hn. destruct (Jo i t id Ni Ho) as (v0 & Hv0). rewrite Hn in Hv0. inversion Hv0; subst.
    destruct (fill pzero (pt_hdr t) (pt_body t)) as [v' ok] eqn:F. intros E; inversion E; subst; clear E.
    apply (step_pcinv s i t); auto.
    + intros j tj idj N Nj Oj. eapply (Other id (Held i)); eauto.
    + intros id' v H. destruct (Nat.eq_dec id' id) as [->|N].
      * rewrite (nth_upd_same _ _ _ _ Hn) in H. discriminate.
      * rewrite nth_upd_other in H by congruence. exact (Jp id' v H).
    + cbn. intros id' E. inversion E; subst. exists v'. exact (nth_upd_same _ _ _ _ Hn).
    + unfold thread_fact, alone_sees; cbn. exists id, (Held i). rewrite F. cbn. repeat split. exact (nth_upd_same _ _ _ _ Hn).
    + cbn. discriminate.
  - (* the executor reads the object *)
    destruct Ft as (id & o & Ho & Hn & Hk). rewrite Ho, Hn. intros E; inversion E; subst; clear E.
    apply (step_pcinv s i t); auto.
    + cbn. intros id' E. inversion E; subst. exact (Jo i t id' Ni Ho).
    + unfold thread_fact; cbn. now exists id.
    + cbn. intros v E. inversion E; subst. rewrite Hk. now destruct (alone_sees (pt_hdr t) (pt_body t)).
  - (* the deferred clean-up *)
    destruct Ft as (id & Ho). rewrite Ho. destruct (Jo i t id Ni Ho) as (v0 & Hv0). rewrite Hv0. cbn [as_written_pool v_clean_on_panic v_clean_on_decode_error negb]. rewrite !andb_false_r. cbn [orb]. rewrite cleanup_all. intros E; inversion E; subst; clear E.
    apply (step_pcinv s i t); auto.
    + intros j tj idj N Nj Oj. eapply (Other id (Held i)); eauto.
    + intros id' v H. destruct (Nat.eq_dec id' id) as [->|N].
      * rewrite (nth_upd_same _ _ _ _ Hv0) in H. discriminate.
      * rewrite nth_upd_other in H by congruence. exact (Jp id' v H).
    + cbn. intros id' E. inversion E; subst. eexists. exact (nth_upd_same _ _ _ _ Hv0).
    + unfold thread_fact; cbn. exists id, (Held i). split; [reflexivity|]. exact (nth_upd_same _ _ _ _ Hv0).
    + cbn. intros v Sv. exact (Js i t v Ni Sv).
  - (* Put *)
    destruct Ft as (id & o & Ho & Hn). rewrite Ho, Hn. destruct (Jo i t id Ni Ho) as (v0 & Hv0). rewrite Hn in Hv0. inversion Hv0; subst.
    intros E; inversion E; subst; clear E.
    apply (step_pcinv s i t); auto.
    + intros j tj idj N Nj Oj. eapply (Other id (Held i)); eauto.
    + intros id' v H. destruct (Nat.eq_dec id' id) as [->|N].
      * rewrite (nth_upd_same _ _ _ _ Hn) in H. now inversion H.
      * rewrite nth_upd_other in H by congruence. exact (Jp id' v H).
    + cbn. discriminate.
    + unfold thread_fact; cbn. reflexivity.
    + cbn. intros v Sv. exact (Js i t v Ni Sv).
  - discriminate.
Qed.

Theorem prun_pool_inv tr : forall s s', pcinv s -> prun_pool as_written_pool s tr = Some s' -> pcinv s'.
Proof.
  induction tr as [|[i c] tr IH]; intros s s' I; cbn [prun_pool]; [intros E; now inversion E; subst|].
  destruct (pstep as_written_pool s i c) as [s1|] eqn:E; [|discriminate]. apply IH. exact (pstep_inv _ _ _ _ I E).
Qed.

(** requests never change *)
Lemma pstep_reqs e s i c s' : pstep e s i c = Some s' ->
  map (fun t => (pt_hdr t, pt_body t)) (ps_thr s') = map (fun t => (pt_hdr t, pt_body t)) (ps_thr s).
Proof.
  unfold pstep. destruct (nth_error (ps_thr s) i) as [t|] eqn:Ni; [|discriminate].
  assert (forall t', (pt_hdr t', pt_body t') = (pt_hdr t, pt_body t) ->
          map (fun t => (pt_hdr t, pt_body t)) (upd i t' (ps_thr s)) = map (fun t => (pt_hdr t, pt_body t)) (ps_thr s)) as K
    by (intros t' E; exact (map_upd_same _ _ _ _ _ Ni E)).
  destruct (pt_pc t); try discriminate;
    repeat match goal with
           | |- context [match ?x with _ => _ end] => destruct x eqn:?; try discriminate
           end;
    intros E; inversion E; subst; clear E; cbn [ps_thr]; apply K; reflexivity.
Qed.

Lemma prun_pool_reqs e tr : forall s s', prun_pool e s tr = Some s' ->
  map (fun t => (pt_hdr t, pt_body t)) (ps_thr s') = map (fun t => (pt_hdr t, pt_body t)) (ps_thr s).
Proof.
  induction tr as [|[i c] tr IH]; intros s s'; cbn [prun_pool]; [intros E; now inversion E|].
  destruct (pstep e s i c) as [s1|] eqn:E; [|discriminate]. intros R. rewrite (IH _ _ R). exact (pstep_reqs _ _ _ _ _ E).
Qed.

(** every request of every interleaving, whatever objects the pool hands out and whichever operations panic: the
    executor is handed what the request decodes to on a fresh object *)
Theorem pool_in_flight_as_alone_f_lemma (reqs : list ((string * list member) * bool)) tr s :
  prun_pool as_written_pool (pinit_f reqs) tr = Some s ->
  Forall2 (fun r v => v = None \/ v = Some (alone_sees (fst (fst r)) (snd (fst r)))) reqs (seen_by s).
Proof.
  intros R. pose proof (prun_pool_inv tr _ _ (pcinv_init_f reqs) R) as [_ _ _ Js]. pose proof (prun_pool_reqs _ _ _ _ R) as D.
  cbn [pinit_f ps_thr] in D. rewrite map_map in D. cbn [pstart_f pt_hdr pt_body] in D. unfold seen_by.
  clear R. revert reqs D Js. generalize (ps_thr s). clear.
  induction l as [|t l IH]; intros [|r reqs] D Js; cbn in D; try discriminate; constructor.
  - inversion D as [[Dh Db Dl]]. destruct (pt_seen t) as [v|] eqn:V; [right|now left]. f_equal. rewrite (Js 0 t v eq_refl V). now rewrite Dh, Db.
  - inversion D as [[Dh Db Dl]]. apply IH; [exact Dl|]. intros j tj v Nj. exact (Js (S j) tj v Nj).
Qed.

Lemma Forall2_map_left {A B C} (f : A -> B) (P : B -> C -> Prop) l l' : Forall2 P (map f l) l' -> Forall2 (fun x y => P (f x) y) l l'.
Proof. revert l'; induction l as [|x l IH]; intros l' H; inversion H; subst; constructor; auto. Qed.

Theorem pool_in_flight_as_alone_lemma reqs tr s :
  prun_pool as_written_pool (pinit reqs) tr = Some s ->
  Forall2 (fun r v => v = None \/ v = Some (alone_sees (fst r) (snd r))) reqs (seen_by s).
Proof. intros R. unfold pinit in R. exact (Forall2_map_left _ _ _ _ (pool_in_flight_as_alone_f_lemma _ _ _ R)). Qed.

(** never stuck: a request that is not done can always step (with New as the pool's choice) *)
Theorem pool_in_flight_progress_lemma reqs tr s i t :
  prun_pool as_written_pool (pinit reqs) tr = Some s -> nth_error (ps_thr s) i = Some t -> pt_pc t <> PDone ->
  pstep as_written_pool s i None <> None.
Proof.
  intros R Ni Nd. pose proof (prun_pool_inv tr _ _ (pcinv_init reqs) R) as [Jo _ Jf _].
  pose proof (Jf i t Ni) as Ft. unfold thread_fact in Ft. unfold pstep. rewrite Ni.
  destruct (pt_pc t) eqn:Pc; try contradiction; try discriminate.
  - destruct Ft as (id & o & Ho & Hn). rewrite Ho, Hn. now destruct (fill pzero (pt_hdr t) (pt_body t)).
  - destruct Ft as (id & o & Ho & Hn & _). rewrite Ho, Hn. discriminate.
  - destruct Ft as (id & Ho). rewrite Ho. destruct (Jo i t id Ni Ho) as (v & Hv). rewrite Hv. discriminate.
  - destruct Ft as (id & o & Ho & Hn). rewrite Ho, Hn. discriminate.
Qed.

(** the object goes back to the pool before its last use: another request gets it and decodes into it *)
Theorem early_put_witness :
  exists s, prun_pool {| v_early_put := true; v_clean_on_panic := true; v_clean_on_decode_error := true |} (pinit [("h1", [MText FQuery "{ a }"]); ("h2", [MText FQuery "{ b }"; MText FOpName "B"])])
              [(0, None); (0, None); (1, Some 0); (1, None); (0, None)] = Some s /\
            nth_error (seen_by s) 0 <> Some (Some (alone_sees "h1" [MText FQuery "{ a }"])).
Proof. eexists. split; [vm_compute; reflexivity|]. vm_compute. intros E. discriminate. Qed.

Example in_flight_runs :
  exists s, prun_pool as_written_pool (pinit [("h1", [MText FQuery "{ a }"]); ("h2", [MText FQuery "{ b }"; MText FOpName "B"])])
              [(0, None); (0, None); (1, None); (0, None); (0, None); (0, None); (1, None); (1, None); (1, None); (1, None)] = Some s /\
            seen_by s = [Some (alone_sees "h1" [MText FQuery "{ a }"]); Some (alone_sees "h2" [MText FQuery "{ b }"; MText FOpName "B"])].
Proof. eexists. split; [vm_compute; reflexivity|reflexivity]. Qed.

(** the clean-up is no deferred call: a request whose operation panics leaves its operation name behind, and the next
    request, served with the same object and naming no operation, is handed that name *)
Theorem cleanup_skipped_on_panic_witness :
  exists s, prun_pool {| v_early_put := false; v_clean_on_panic := false; v_clean_on_decode_error := true |}
              (pinit_f [(("h1", [MText FQuery "query Boom { a }"; MText FOpName "Boom"]), true); (("h2", [MText FQuery "{ a }"]), false)])
              [(0, None); (0, None); (0, None); (0, None); (0, None); (1, Some 0); (1, None); (1, None)] = Some s /\
            nth_error (seen_by s) 1 <> Some (Some (alone_sees "h2" [MText FQuery "{ a }"])).
Proof. eexists. split; [vm_compute; reflexivity|]. vm_compute. intros E. discriminate. Qed.

(** the clean-up is skipped on the early return taken when the body does not decode: a body with a member of the wrong
    type has stored its query by then, and the next request, which carries none, is handed it *)
Theorem cleanup_skipped_on_decode_error_witness :
  exists s, prun_pool {| v_early_put := false; v_clean_on_panic := true; v_clean_on_decode_error := false |}
              (pinit [("h1", [MText FQuery "{ b }"; MWrongType FVariables]); ("h2", [MObject FExtensions [("k", "v")]])])
              [(0, None); (0, None); (0, None); (0, None); (0, None); (1, Some 0); (1, None); (1, None)] = Some s /\
            nth_error (seen_by s) 1 <> Some (Some (alone_sees "h2" [MObject FExtensions [("k", "v")]])).
Proof. eexists. split; [vm_compute; reflexivity|]. vm_compute. intros E. discriminate. Qed.
