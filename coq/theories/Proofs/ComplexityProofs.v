From GV Require Import Base.Prelude Model.Complexity.
Ltac Zify.zify_post_hook ::= Z.div_mod_to_equations.

Lemma wrap64_id z : in_int z -> wrap64 z = z.
Proof. unfold in_int, wrap64, minInt, maxInt, two64, two63. intros H. lia. Qed.

Lemma wrap64_range z : in_int (wrap64 z).
Proof. unfold in_int, wrap64, minInt, maxInt, two64, two63. lia. Qed.

(** safeAdd on two non-negative ints is the saturating sum: Go's wrap is detected, never observed. *)
Lemma safe_add_nonneg a b :
  0 <= a <= maxInt -> 0 <= b <= maxInt -> safe_add a b = sat_add a b.
Proof.
  unfold safe_add, sat_add, wrap64, maxInt, two64, two63. intros Ha Hb.
  destruct (a <? 0) eqn:Ea; [lia|]. destruct (b <? 0) eqn:Eb; [lia|].
  cbv zeta.
  destruct ((a + b + 9223372036854775808) mod 18446744073709551616 - 9223372036854775808 <? a) eqn:Ec; lia.
Qed.

Lemma safe_add_full a b :
  in_int a -> in_int b ->
  safe_add a b =
    if a <? 0 then (if b <? 0 then 1 else b) else if b <? 0 then a else sat_add a b.
Proof.
  intros Ha Hb. destruct (a <? 0) eqn:Ea.
  - unfold safe_add. rewrite Ea. reflexivity.
  - destruct (b <? 0) eqn:Eb.
    + unfold safe_add. rewrite Ea, Eb. reflexivity.
    + apply safe_add_nonneg; unfold in_int, minInt in *; lia.
Qed.

Lemma safe_add_range a b : in_int a -> in_int b -> in_int (safe_add a b).
Proof.
  intros Ha Hb. rewrite safe_add_full by assumption.
  unfold sat_add, in_int, minInt, maxInt, two63 in *.
  destruct (a <? 0) eqn:Ea; destruct (b <? 0) eqn:Eb; lia.
Qed.

Lemma sat_add_range a b : 0 <= a -> 0 <= b -> 0 <= sat_add a b <= maxInt.
Proof. unfold sat_add, maxInt, two63. lia. Qed.

Lemma sat_add_0_r a : 0 <= a <= maxInt -> sat_add a 0 = a.
Proof. unfold sat_add. lia. Qed.
Lemma sat_add_0_l a : 0 <= a <= maxInt -> sat_add 0 a = a.
Proof. unfold sat_add. lia. Qed.
Lemma sat_add_comm a b : sat_add a b = sat_add b a.
Proof. unfold sat_add. lia. Qed.
Lemma sat_add_assoc a b c : 0 <= a -> 0 <= b -> 0 <= c ->
  sat_add (sat_add a b) c = sat_add a (sat_add b c).
Proof. unfold sat_add, maxInt, two63. lia. Qed.
Lemma sat_add_mono a a' b b' : a <= a' -> b <= b' -> sat_add a b <= sat_add a' b'.
Proof. unfold sat_add. lia. Qed.
Lemma sat_add_ge_l a b : 0 <= b -> a <= maxInt -> a <= sat_add a b.
Proof. unfold sat_add. lia. Qed.

(** Induction principle for the nested inductive [csel]. *)
Section CselInd.
  Variable P : csel -> Prop.
  Hypothesis Hfield : forall i o f sc co a sels, Forall P sels -> P (CField i o f sc co a sels).
  Hypothesis Hfrag : forall sels, Forall P sels -> P (CFrag sels).
  Fixpoint csel_ind' (s : csel) {struct s} : P s :=
    match s with
    | CField i o f sc co a sels =>
        Hfield i o f sc co a sels
          ((fix go (l : list csel) : Forall P l :=
              match l with [] => Forall_nil P | x :: r => Forall_cons x (csel_ind' x) (go r) end) sels)
    | CFrag sels =>
        Hfrag sels
          ((fix go (l : list csel) : Forall P l :=
              match l with [] => Forall_nil P | x :: r => Forall_cons x (csel_ind' x) (go r) end) sels)
    end.
End CselInd.

Section WalkerProofs.
  Variable custom : string -> string -> Z -> option Z -> option Z.
  Variable impls : string -> list string.
  (** The custom function returns a Go [int]. *)
  Hypothesis custom_int : forall o f c a v, custom o f c a = Some v -> in_int v.

  Notation field_cx := (field_cx custom).
  Notation iface_cx := (iface_cx custom impls).
  Notation sel_cx := (sel_cx custom impls).
  Notation sels_cx := (sels_cx custom impls).
  Notation spec_field := (spec_field custom).
  Notation spec_iface := (spec_iface custom impls).
  Notation spec_sel := (spec_sel custom impls).
  Notation spec_sels := (spec_sels custom impls).

  Definition cost (z : Z) : Prop := 0 <= z <= maxInt.

  Lemma field_cx_spec o f child a : cost child ->
    field_cx o f child a = spec_field o f child a /\ cost (field_cx o f child a).
  Proof.
    intros Hc. unfold Complexity.field_cx, Complexity.spec_field, cost in *.
    assert (H1 : safe_add 1 child = sat_add 1 child).
    { apply safe_add_nonneg; unfold maxInt, two63 in *; lia. }
    rewrite H1.
    assert (H2 : 0 <= sat_add 1 child <= maxInt) by (apply sat_add_range; lia).
    destruct (custom o f child a) as [v|] eqn:Ecu.
    - destruct (v >=? child) eqn:Ev.
      + split; [reflexivity|]. apply custom_int in Ecu. unfold in_int in Ecu. lia.
      + split; [reflexivity|exact H2].
    - split; [reflexivity|exact H2].
  Qed.

  Lemma iface_fold_spec f child a (l : list string) m : cost child -> cost m ->
    fold_left (fun m t => if field_cx t f child a >? m then field_cx t f child a else m) l m
    = Z.max m (fold_right (fun t m => Z.max (spec_field t f child a) m) 0 l)
    /\ cost (fold_left (fun m t => if field_cx t f child a >? m then field_cx t f child a else m) l m).
  Proof.
    intros Hc. revert m. induction l as [|t l IH]; intros m Hm; cbn [fold_left fold_right].
    - split; [unfold cost in *; lia|exact Hm].
    - destruct (field_cx_spec t f child a Hc) as [E C]. cbv zeta.
      assert (Hm' : cost (if field_cx t f child a >? m then field_cx t f child a else m)).
      { destruct (field_cx t f child a >? m); assumption. }
      destruct (IH _ Hm') as [E2 C2]. split; [|exact C2].
      rewrite E2. rewrite <- E.
      destruct (field_cx t f child a >? m) eqn:Eg; lia.
  Qed.

  Lemma iface_cx_spec o f child a : cost child ->
    iface_cx o f child a = spec_iface o f child a /\ cost (iface_cx o f child a).
  Proof.
    intros Hc. unfold Complexity.iface_cx, Complexity.spec_iface.
    assert (H0 : cost 0) by (unfold cost, maxInt, two63; lia).
    destruct (iface_fold_spec f child a (impls o) 0 Hc H0) as [E C]. split; [|exact C].
    rewrite E.
    assert (Hge : forall l, 0 <= fold_right (fun t m => Z.max (spec_field t f child a) m) 0 l).
    { induction l as [|x l IH]; cbn [fold_right]; lia. }
    specialize (Hge (impls o)). lia.
  Qed.

  (** Key step lemma: one loop iteration adds the specified cost of the selection, saturating. *)
  Lemma sel_cx_spec s : forall acc, cost acc ->
    sel_cx acc s = sat_add acc (spec_sel s) /\ cost (spec_sel s).
  Proof.
    induction s as [i o f sc co a sels IH | sels IH] using csel_ind'; intros acc Hacc.
    - (* field *)
      assert (Hfold : forall acc0, cost acc0 ->
                fold_left sel_cx sels acc0
                = sat_add acc0 (fold_right (fun x r => sat_add (spec_sel x) r) 0 sels)
                /\ cost (fold_right (fun x r => sat_add (spec_sel x) r) 0 sels)).
      { induction IH as [|x l Hx Hl IHl]; intros acc0 H0; cbn [fold_left fold_right].
        - split; [rewrite sat_add_0_r; [reflexivity|exact H0] | unfold cost, maxInt, two63; lia].
        - destruct (Hx acc0 H0) as [E1 C1].
          assert (C0 : cost (sat_add acc0 (spec_sel x))).
          { apply sat_add_range; unfold cost in *; lia. }
          destruct (IHl _ C0) as [E2 C2]. rewrite E1, E2. split.
          + apply sat_add_assoc; unfold cost in *; lia.
          + apply sat_add_range; unfold cost in *; lia. }
      cbn [Complexity.sel_cx Complexity.spec_sel].
      destruct sc.
      + split; [rewrite sat_add_0_r; [reflexivity|exact Hacc] | unfold cost, maxInt, two63; lia].
      + set (child := if co then fold_left sel_cx sels 0 else 0).
        set (schild := if co then fold_right (fun x r => sat_add (spec_sel x) r) 0 sels else 0).
        assert (H0 : cost 0) by (unfold cost, maxInt, two63; lia).
        assert (Hch : child = schild /\ cost child).
        { unfold child, schild. destruct co; [|split; [reflexivity|exact H0]].
          destruct (Hfold 0 H0) as [E C]. rewrite E. rewrite sat_add_0_l by exact C. split; [reflexivity|exact C]. }
        destruct Hch as [Ech Cch]. cbv zeta. fold child. fold schild.
        destruct i.
        * destruct (iface_cx_spec o f child a Cch) as [E C]. rewrite <- Ech, <- E.
          split; [|exact C]. apply safe_add_nonneg; assumption.
        * destruct (field_cx_spec o f child a Cch) as [E C]. rewrite <- Ech, <- E.
          split; [|exact C]. apply safe_add_nonneg; assumption.
    - (* fragment *)
      assert (Hfold : forall acc0, cost acc0 ->
                fold_left sel_cx sels acc0
                = sat_add acc0 (fold_right (fun x r => sat_add (spec_sel x) r) 0 sels)
                /\ cost (fold_right (fun x r => sat_add (spec_sel x) r) 0 sels)).
      { induction IH as [|x l Hx Hl IHl]; intros acc0 H0; cbn [fold_left fold_right].
        - split; [rewrite sat_add_0_r; [reflexivity|exact H0] | unfold cost, maxInt, two63; lia].
        - destruct (Hx acc0 H0) as [E1 C1].
          assert (C0 : cost (sat_add acc0 (spec_sel x))).
          { apply sat_add_range; unfold cost in *; lia. }
          destruct (IHl _ C0) as [E2 C2]. rewrite E1, E2. split.
          + apply sat_add_assoc; unfold cost in *; lia.
          + apply sat_add_range; unfold cost in *; lia. }
      cbn [Complexity.sel_cx Complexity.spec_sel].
      assert (H0 : cost 0) by (unfold cost, maxInt, two63; lia).
      destruct (Hfold 0 H0) as [E C]. rewrite E. rewrite sat_add_0_l by exact C.
      split; [|exact C]. apply safe_add_nonneg; assumption.
  Qed.

  Lemma sels_fold_spec l : forall acc, cost acc ->
    fold_left sel_cx l acc = sat_add acc (spec_sels l) /\ cost (spec_sels l).
  Proof.
    unfold Complexity.spec_sels.
    induction l as [|x l IH]; intros acc H0; cbn [fold_left fold_right].
    - split; [rewrite sat_add_0_r; [reflexivity|exact H0] | unfold cost, maxInt, two63; lia].
    - destruct (sel_cx_spec x acc H0) as [E1 C1].
      assert (C0 : cost (sat_add acc (spec_sel x))).
      { apply sat_add_range; unfold cost in *; lia. }
      destruct (IH _ C0) as [E2 C2]. rewrite E1, E2. split.
      + apply sat_add_assoc; unfold cost in *; lia.
      + apply sat_add_range; unfold cost in *; lia.
  Qed.

  (** complexity.Calculate equals the documented definition, and is a saturated non-negative int. *)
  Theorem complexity_definition_lemma l : sels_cx l = spec_sels l /\ 0 <= sels_cx l <= maxInt.
  Proof.
    unfold Complexity.sels_cx.
    assert (H0 : cost 0) by (unfold cost, maxInt, two63; lia).
    destruct (sels_fold_spec l 0 H0) as [E C]. rewrite E, sat_add_0_l by exact C.
    split; [reflexivity|exact C].
  Qed.

  (** Negative custom costs are ignored: the field costs what it would cost with no custom function. *)
  Lemma negative_custom_ignored_lemma o f child a v :
    0 <= child <= maxInt -> custom o f child a = Some v -> v < 0 ->
    field_cx o f child a = sat_add 1 child.
  Proof.
    intros Hc Hcu Hv. unfold Complexity.field_cx. rewrite Hcu.
    destruct (v >=? child) eqn:E; [lia|]. apply safe_add_nonneg; unfold maxInt, two63 in *; lia.
  Qed.

  (** ** Monotonicity.  [ext l l']: l' is l with selections added anywhere (at any depth). *)
  Inductive ext_sel : csel -> csel -> Prop :=
  | ext_field i o f sc co a sels sels' : ext sels sels' -> ext_sel (CField i o f sc co a sels) (CField i o f sc co a sels')
  | ext_frag sels sels' : ext sels sels' -> ext_sel (CFrag sels) (CFrag sels')
  with ext : list csel -> list csel -> Prop :=
  | ext_nil : ext [] []
  | ext_add x l l' : ext l l' -> ext l (x :: l')
  | ext_keep x x' l l' : ext_sel x x' -> ext l l' -> ext (x :: l) (x' :: l').

  Scheme ext_sel_mut := Induction for ext_sel Sort Prop
    with ext_mut := Induction for ext Sort Prop.

  (** What the theorem needs from custom complexity functions: growing the child cost never makes a
      value that was in force disappear or shrink. *)
  Hypothesis custom_mono : forall o f a c c' v,
    0 <= c <= c' -> c' <= maxInt -> custom o f c a = Some v -> v >= c ->
    exists v', custom o f c' a = Some v' /\ v <= v'.

  Lemma spec_field_mono o f a c c' : 0 <= c <= c' -> c' <= maxInt ->
    spec_field o f c a <= spec_field o f c' a.
  Proof.
    intros Hc Hm.
    destruct (Z.eq_dec c c') as [->|Hne]; [lia|].
    assert (Hlow : c' <= spec_field o f c' a).
    { unfold Complexity.spec_field. destruct (custom o f c' a) as [v'|].
      - destruct (v' >=? c') eqn:E; [lia|]. unfold sat_add. lia.
      - unfold sat_add. lia. }
    unfold Complexity.spec_field at 1.
    destruct (custom o f c a) as [v|] eqn:Ecu.
    - destruct (v >=? c) eqn:Ev.
      + destruct (custom_mono o f a c c' v Hc Hm Ecu ltac:(lia)) as [v' [Ecu' Hvv]].
        unfold Complexity.spec_field. rewrite Ecu'. destruct (v' >=? c') eqn:Ev'; [lia|].
        unfold sat_add. lia.
      + unfold sat_add in *. lia.
    - unfold sat_add in *. lia.
  Qed.

  Lemma spec_iface_mono o f a c c' : 0 <= c <= c' -> c' <= maxInt ->
    spec_iface o f c a <= spec_iface o f c' a.
  Proof.
    intros Hc Hm. unfold Complexity.spec_iface.
    induction (impls o) as [|t l IH]; cbn [fold_right]; [lia|].
    pose proof (spec_field_mono t f a c c' Hc Hm). lia.
  Qed.

  Lemma spec_sels_cost l : cost (spec_sels l).
  Proof.
    assert (H0 : cost 0) by (unfold cost, maxInt, two63; lia).
    exact (proj2 (sels_fold_spec l 0 H0)).
  Qed.
  Lemma spec_sel_cost s : cost (spec_sel s).
  Proof.
    assert (H0 : cost 0) by (unfold cost, maxInt, two63; lia).
    exact (proj2 (sel_cx_spec s 0 H0)).
  Qed.

  Lemma monotone_mut :
    (forall s s', ext_sel s s' -> spec_sel s <= spec_sel s') /\
    (forall l l', ext l l' -> spec_sels l <= spec_sels l').
  Proof.
    split.
    - apply (ext_sel_mut (fun s s' _ => spec_sel s <= spec_sel s') (fun l l' _ => spec_sels l <= spec_sels l')).
      + intros i o f sc co a sels sels' _ IH. cbn [Complexity.spec_sel].
        destruct sc; [lia|]. fold (spec_sels sels). fold (spec_sels sels').
        pose proof (spec_sels_cost sels) as C1. pose proof (spec_sels_cost sels') as C2. unfold cost in *.
        destruct co.
        * destruct i; [apply spec_iface_mono | apply spec_field_mono]; lia.
        * lia.
      + intros sels sels' _ IH. cbn [Complexity.spec_sel]. exact IH.
      + lia.
      + intros x l l' _ IH. unfold Complexity.spec_sels in *. cbn [fold_right].
        pose proof (spec_sel_cost x) as Cx. pose proof (spec_sels_cost l') as Cl. unfold cost, Complexity.spec_sels in *.
        unfold sat_add at 1. unfold sat_add in *. lia.
      + intros x x' l l' _ IHx _ IHl. unfold Complexity.spec_sels in *. cbn [fold_right].
        apply sat_add_mono; assumption.
    - apply (ext_mut (fun s s' _ => spec_sel s <= spec_sel s') (fun l l' _ => spec_sels l <= spec_sels l')).
      + intros i o f sc co a sels sels' _ IH. cbn [Complexity.spec_sel].
        destruct sc; [lia|]. fold (spec_sels sels). fold (spec_sels sels').
        pose proof (spec_sels_cost sels) as C1. pose proof (spec_sels_cost sels') as C2. unfold cost in *.
        destruct co.
        * destruct i; [apply spec_iface_mono | apply spec_field_mono]; lia.
        * lia.
      + intros sels sels' _ IH. cbn [Complexity.spec_sel]. exact IH.
      + lia.
      + intros x l l' _ IH. unfold Complexity.spec_sels in *. cbn [fold_right].
        pose proof (spec_sel_cost x) as Cx. pose proof (spec_sels_cost l') as Cl. unfold cost, Complexity.spec_sels in *.
        unfold sat_add at 1. unfold sat_add in *. lia.
      + intros x x' l l' _ IHx _ IHl. unfold Complexity.spec_sels in *. cbn [fold_right].
        apply sat_add_mono; assumption.
  Qed.

  Theorem monotone_lemma l l' : ext l l' -> sels_cx l <= sels_cx l'.
  Proof.
    intros H. rewrite (proj1 (complexity_definition_lemma l)), (proj1 (complexity_definition_lemma l')).
    exact (proj2 monotone_mut l l' H).
  Qed.
End WalkerProofs.

(** Every function of the harness's table family returns a Go int. *)
Lemma table_custom_int tbl o f c a v : table_custom tbl o f c a = Some v ->
  (forall o f k, lookup2 tbl o f = Some (CConst k) -> in_int k) -> in_int v.
Proof.
  unfold table_custom. intros H Hk. destruct (lookup2 tbl o f) as [cf|] eqn:E; [|discriminate].
  destruct cf; cbn [eval_cfun] in H; try discriminate; inversion H; subst; try apply wrap64_range.
  eapply Hk; eassumption.
Qed.

(** The gate. *)
Lemma limit_gate_spec cx limit :
  (limit_gate cx limit = Reject <-> cx > limit) /\ (limit_gate cx limit = Accept <-> cx <= limit).
Proof. unfold limit_gate. destruct (cx >? limit) eqn:E; split; split; intros H; try discriminate; try reflexivity; lia. Qed.

(** Without the monotonicity hypothesis on custom functions the theorem is false. *)
Definition bad_custom : string -> string -> Z -> option Z -> option Z :=
  fun _ f child _ => if (String.eqb f "a" && (child =? 0))%bool then Some 100 else None.
Lemma monotone_needs_hyp_witness :
  let l  := [CField false "Q" "a" false true None []] in
  let l' := [CField false "Q" "a" false true None [CField false "A" "x" false false None []]] in
  sels_cx bad_custom (fun _ => []) l = 100 /\ sels_cx bad_custom (fun _ => []) l' = 2.
Proof. vm_compute. split; reflexivity. Qed.
