(** The JSON (RFC 8259) fragments gqlgen's writers must produce: string literals, integer tokens and
    compact objects/arrays.  Specification side: relations, plus small executable recognisers. *)
From GV Require Import Base.Prelude Base.Utf8.
Open Scope N_scope.

Definition hexval (b : N) : option N :=
  if (48 <=? b) && (b <=? 57) then Some (b - 48)
  else if (65 <=? b) && (b <=? 70) then Some (b - 55)
  else if (97 <=? b) && (b <=? 102) then Some (b - 87)
  else None.

Definition hex4 (a b c d : N) : option N :=
  match hexval a, hexval b, hexval c, hexval d with
  | Some x, Some y, Some z, Some w => Some (x * 4096 + y * 256 + z * 16 + w)
  | _, _, _, _ => None
  end.

(** the two-character escapes: quote, backslash, slash, b, f, n, r, t *)
Definition simple_escape (e : N) : option N :=
  if e =? 34 then Some 34 else if e =? 92 then Some 92 else if e =? 47 then Some 47
  else if e =? 98 then Some 8 else if e =? 102 then Some 12 else if e =? 110 then Some 10
  else if e =? 114 then Some 13 else if e =? 116 then Some 9 else None.

(** [jstr_body bs rs]: [bs] is the inside of a JSON string literal denoting the code points [rs]
    (\u escapes denote their code unit; surrogate pairs are not needed for what gqlgen emits). *)
Inductive jstr_body : bytes -> list N -> Prop :=
| jb_nil : jstr_body [] []
| jb_plain cp raw rest rs :
    utf8_encode cp = Some raw -> 0x20 <= cp -> cp <> 34 -> cp <> 92 ->
    jstr_body rest rs -> jstr_body (raw ++ rest) (cp :: rs)
| jb_simple e cp rest rs :
    simple_escape e = Some cp -> jstr_body rest rs -> jstr_body (92 :: e :: rest) (cp :: rs)
| jb_u a b c d cp rest rs :
    hex4 a b c d = Some cp -> jstr_body rest rs -> jstr_body (92 :: 117 :: a :: b :: c :: d :: rest) (cp :: rs).

Definition is_json_string (out : bytes) (rs : list N) : Prop :=
  exists body, out = 34 :: body ++ [34] /\ jstr_body body rs.

(** Integer token: optional minus, then 0 or a non-zero digit followed by digits *)
Definition is_digit (b : N) : bool := (48 <=? b) && (b <=? 57).
Definition json_int_token (bs : bytes) : bool :=
  let ds := match bs with b :: r => if b =? 45 then r else bs | [] => bs end in
  match ds with
  | [] => false
  | d :: r => forallb is_digit (d :: r) && (negb (d =? 48) || match r with [] => true | _ => false end)
  end.

(** JSON values as trees, and the compact (no whitespace) rendering relation. *)
Inductive jtree :=
| JNull | JBool (b : bool) | JInt (z : Z) | JStr (rs : list N) | JRaw (tok : bytes)
| JArr (l : list jtree) | JObj (l : list (list N * jtree)).
