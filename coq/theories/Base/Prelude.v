(** Shared vocabulary for every model: numbers, byte strings, outcomes of Go calls. *)
From Coq Require Export List ZArith NArith Bool Lia String Ascii.
From Coq Require Export ZifyBool ZifyNat ZifyN.
Export ListNotations.
Open Scope Z_scope.

(** A Go call that may return an error or panic.  Nothing is totalised away: where Go
    panics the model says [Panic]. *)
Inductive outcome (A : Type) :=
| Ok (a : A)
| Err (e : string)
| Panic (p : string).
Arguments Ok {A} _.
Arguments Err {A} _.
Arguments Panic {A} _.

Definition is_panic {A} (o : outcome A) : bool :=
  match o with Panic _ => true | _ => false end.
Definition is_ok {A} (o : outcome A) : bool :=
  match o with Ok _ => true | _ => false end.

Definition obind {A B} (o : outcome A) (f : A -> outcome B) : outcome B :=
  match o with Ok a => f a | Err e => Err e | Panic p => Panic p end.

(** Go's fixed-width integers, written explicitly. *)
Definition two63 : Z := 9223372036854775808.
Definition two64 : Z := 18446744073709551616.
Definition two31 : Z := 2147483648.
Definition two32 : Z := 4294967296.
Definition maxInt : Z := two63 - 1.
Definition minInt : Z := - two63.
Definition in_int (z : Z) : Prop := minInt <= z <= maxInt.
Definition in_intb (z : Z) : bool := (minInt <=? z) && (z <=? maxInt).

(** [wrap64 z]: the value an [int]/[int64] holds after computing the mathematical [z]. *)
Definition wrap64 (z : Z) : Z := (z + two63) mod two64 - two63.
Definition wrap32 (z : Z) : Z := (z + two31) mod two32 - two31.
Definition to_u64 (z : Z) : Z := z mod two64.
Definition to_u32 (z : Z) : Z := z mod two32.

(** Byte strings are lists of [N] below 256 (the harness prints them as numerals). *)
Definition bytes := list N.

Definition eqb_string (a b : string) : bool := String.eqb a b.

(** Indices of the [true]s in a list of verdicts: what every correspondence file prints. *)
Fixpoint indices_from (i : nat) (l : list bool) : list nat :=
  match l with
  | [] => []
  | b :: r => if b then i :: indices_from (S i) r else indices_from (S i) r
  end.
Definition failing {A} (ok : A -> bool) (cases : list A) : list nat :=
  indices_from 0 (map (fun c => negb (ok c)) cases).

Fixpoint list_eqb {A} (eqb : A -> A -> bool) (a b : list A) : bool :=
  match a, b with
  | [], [] => true
  | x :: a', y :: b' => eqb x y && list_eqb eqb a' b'
  | _, _ => false
  end.

Definition option_eqb {A} (eqb : A -> A -> bool) (a b : option A) : bool :=
  match a, b with
  | None, None => true
  | Some x, Some y => eqb x y
  | _, _ => false
  end.
