(** Interleavings of the atomic actions of concurrent tasks. *)
From GV Require Import Base.Prelude.
From Coq Require Export Permutation.
Open Scope list_scope.

(** [interleave tasks trace]: [trace] is obtained by repeatedly taking the next action of some task. *)
Inductive interleave {A : Type} : list (list A) -> list A -> Prop :=
| il_done : forall (tasks : list (list A)), Forall (fun t : list A => t = nil) tasks -> interleave tasks nil
| il_step : forall (ts1 : list (list A)) (a : A) (t : list A) (ts2 : list (list A)) (trace : list A),
    interleave (ts1 ++ t :: ts2) trace -> interleave (ts1 ++ (a :: t) :: ts2) (a :: trace).

Lemma concat_all_nil {A} (tasks : list (list A)) : Forall (fun t : list A => t = nil) tasks -> List.concat tasks = nil.
Proof. induction 1 as [|t r Ht _ IH]; [reflexivity|]. cbn. rewrite Ht, IH. reflexivity. Qed.

(** Every interleaving is a permutation of running the tasks one after another. *)
Lemma interleave_perm {A} (tasks : list (list A)) trace :
  interleave tasks trace -> Permutation trace (List.concat tasks).
Proof.
  induction 1 as [tasks H|ts1 a t ts2 trace _ IH].
  - rewrite concat_all_nil by exact H. constructor.
  - rewrite concat_app in *. cbn [List.concat] in *.
    rewrite <- app_comm_cons. apply Permutation_cons_app. rewrite IH. reflexivity.
Qed.

(** The sequential schedule is one of the interleavings. *)
Lemma interleave_cons_nil {A} (ts : list (list A)) tr : interleave ts tr -> interleave (nil :: ts) tr.
Proof.
  induction 1 as [tasks H|ts1 a t ts2 trace _ IH].
  - constructor. constructor; [reflexivity|exact H].
  - apply (il_step (nil :: ts1) a t ts2 trace). exact IH.
Qed.

Lemma interleave_sequential {A} (tasks : list (list A)) : interleave tasks (List.concat tasks).
Proof.
  induction tasks as [|t r IH]; [constructor; constructor|].
  cbn [List.concat]. induction t as [|a t IHt].
  - cbn [app]. apply interleave_cons_nil. exact IH.
  - cbn [app]. apply (il_step nil a t r). exact IHt.
Qed.
