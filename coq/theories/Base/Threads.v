(** Lists of threads: counting the threads in some condition and replacing the one that steps.  Shared by the
    lock-discipline models (Model.WsLock, Model.RuleSwap). *)
From GV Require Import Base.Prelude.
Open Scope nat_scope.
Open Scope list_scope.

Fixpoint count {A} (f : A -> bool) (l : list A) {struct l} : nat :=
  match l with [] => 0 | x :: r => (if f x then 1 else 0) + count f r end.

Fixpoint upd {A} (i : nat) (x : A) (l : list A) {struct l} : list A :=
  match l, i with
  | [], _ => []
  | _ :: r, O => x :: r
  | y :: r, S j => y :: upd j x r
  end.

Lemma upd_length {A} i (x : A) l : List.length (upd i x l) = List.length l.
Proof. revert i; induction l as [|y l IH]; intros [|i]; cbn; auto. Qed.

Lemma nth_upd_same {A} i (x y : A) l : nth_error l i = Some y -> nth_error (upd i x l) i = Some x.
Proof. revert i; induction l as [|z l IH]; intros [|i]; cbn; try discriminate; auto. Qed.

Lemma nth_upd_other {A} i j (x : A) l : i <> j -> nth_error (upd i x l) j = nth_error l j.
Proof. revert i j; induction l as [|z l IH]; intros [|i] [|j] N; cbn; try reflexivity; try congruence. apply IH. congruence. Qed.

Lemma nth_upd_cases {A} i j (x y t : A) l :
  nth_error l i = Some y -> nth_error (upd i x l) j = Some t -> (j = i /\ t = x) \/ (j <> i /\ nth_error l j = Some t).
Proof.
  intros Hi Hj. destruct (Nat.eq_dec j i) as [->|N].
  - rewrite (nth_upd_same _ _ _ _ Hi) in Hj. left. split; congruence.
  - right. split; [exact N|]. rewrite nth_upd_other in Hj by congruence. exact Hj.
Qed.

Lemma count_upd {A} (f : A -> bool) i (x y : A) l :
  nth_error l i = Some y -> count f (upd i x l) + (if f y then 1 else 0) = count f l + (if f x then 1 else 0).
Proof.
  revert i; induction l as [|z l IH]; intros [|i] H; cbn in *; try discriminate.
  - inversion H; subst. lia.
  - specialize (IH _ H). lia.
Qed.

Lemma count_le {A} (f g : A -> bool) l : Forall (fun t => f t = true -> g t = true) l -> count f l <= count g l.
Proof.
  induction 1 as [|x l H _ IH]; cbn; [lia|]. destruct (f x) eqn:F; [rewrite (H eq_refl)|destruct (g x)]; lia.
Qed.

Lemma count_two {A} (f : A -> bool) l i j a b :
  i <> j -> nth_error l i = Some a -> nth_error l j = Some b -> f a = true -> f b = true -> 2 <= count f l.
Proof.
  revert i j; induction l as [|z l IH]; intros [|i] [|j] N Hi Hj Fa Fb; cbn in *; try discriminate; try congruence.
  - inversion Hi; subst. rewrite Fa. assert (1 <= count f l); [|lia].
    clear -Hj Fb. revert j Hj; induction l as [|z l IH]; intros [|j] Hj; cbn in *; try discriminate.
    + inversion Hj; subst. rewrite Fb. lia.
    + specialize (IH _ Hj). lia.
  - inversion Hj; subst. rewrite Fb. assert (1 <= count f l); [|lia].
    clear -Hi Fa. revert i Hi; induction l as [|z l IH]; intros [|i] Hi; cbn in *; try discriminate.
    + inversion Hi; subst. rewrite Fa. lia.
    + specialize (IH _ Hi). lia.
  - assert (2 <= count f l) by (apply (IH i j); congruence). lia.
Qed.

Lemma count_pos_exists {A} (f : A -> bool) l : 1 <= count f l -> exists i t, nth_error l i = Some t /\ f t = true.
Proof.
  induction l as [|x l IH]; cbn; [lia|]. destruct (f x) eqn:F.
  - intros _. exists 0, x. split; [reflexivity|exact F].
  - intros H. destruct IH as (i & t & Hi & Ft); [lia|]. exists (S i), t. split; assumption.
Qed.

Lemma count_zero_all {A} (f : A -> bool) l i t : count f l = 0 -> nth_error l i = Some t -> f t = false.
Proof.
  revert i; induction l as [|x l IH]; intros [|i] C H; cbn in *; try discriminate.
  - inversion H; subst. destruct (f t); [lia|reflexivity].
  - apply (IH i); [destruct (f x); lia|exact H].
Qed.

Lemma Forall_upd {A} (P : A -> Prop) i x l : Forall P l -> P x -> Forall P (upd i x l).
Proof. intros H Px. revert i; induction H as [|y l Py Hl IH]; intros [|i]; cbn; try constructor; auto. Qed.

Lemma Forall_nth {A} (P : A -> Prop) l i t : Forall P l -> nth_error l i = Some t -> P t.
Proof. intros H. revert i; induction H as [|y l Py _ IH]; intros [|i] E; cbn in E; try discriminate; [inversion E; subst; exact Py|eauto]. Qed.

Lemma count_snoc {A} (f : A -> bool) l x : count f (l ++ [x]) = count f l + (if f x then 1 else 0).
Proof. induction l as [|y l IH]; cbn; [lia|]. rewrite IH. lia. Qed.

Lemma map_upd_same {A B} (f : A -> B) i x y l : nth_error l i = Some y -> f x = f y -> map f (upd i x l) = map f l.
Proof. revert i; induction l as [|z l IH]; intros [|i] H E; cbn in *; try discriminate; [inversion H; subst; now rewrite E|f_equal; eauto]. Qed.

Lemma sum_upd {A} (f : A -> nat) i x y l : nth_error l i = Some y -> list_sum (map f (upd i x l)) + f y = list_sum (map f l) + f x.
Proof.
  unfold list_sum. revert i; induction l as [|z l IH]; intros [|i] H; cbn [nth_error upd map fold_right] in *; try discriminate.
  - inversion H; subst. lia.
  - specialize (IH _ H). lia.
Qed.

