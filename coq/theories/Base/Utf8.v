(** UTF-8 as Go's [for i, c := range s] sees it, and as RFC 3629 defines it.  Definitions only. *)
From GV Require Import Base.Prelude.
Open Scope N_scope.

(** One step of Go's range-over-string: the decoded unit and the rest.  An offending byte is consumed
    alone and yields utf8.RuneError (width 1), exactly as the Go specification says. *)
Inductive chunk :=
| CAscii (b : N)                    (* b < 0x80 *)
| CMulti (cp : N) (raw : bytes)     (* a well-formed 2..4 byte sequence and its code point *)
| CBad (b : N).                     (* a byte that is not part of a well-formed sequence *)

Definition cont (b : N) : bool := (0x80 <=? b) && (b <=? 0xBF).

Definition decode1 (s : bytes) : option (chunk * bytes) :=
  match s with
  | [] => None
  | b0 :: r0 =>
      if b0 <? 0x80 then Some (CAscii b0, r0)
      else if (0xC2 <=? b0) && (b0 <=? 0xDF) then
        match r0 with
        | b1 :: r1 =>
            if cont b1 then Some (CMulti ((b0 - 0xC0) * 64 + (b1 - 0x80)) [b0; b1], r1)
            else Some (CBad b0, r0)
        | _ => Some (CBad b0, r0)
        end
      else if (0xE0 <=? b0) && (b0 <=? 0xEF) then
        match r0 with
        | b1 :: b2 :: r2 =>
            let lo := if b0 =? 0xE0 then 0xA0 else 0x80 in
            let hi := if b0 =? 0xED then 0x9F else 0xBF in
            if (lo <=? b1) && (b1 <=? hi) && cont b2
            then Some (CMulti ((b0 - 0xE0) * 4096 + (b1 - 0x80) * 64 + (b2 - 0x80)) [b0; b1; b2], r2)
            else Some (CBad b0, r0)
        | _ => Some (CBad b0, r0)
        end
      else if (0xF0 <=? b0) && (b0 <=? 0xF4) then
        match r0 with
        | b1 :: b2 :: b3 :: r3 =>
            let lo := if b0 =? 0xF0 then 0x90 else 0x80 in
            let hi := if b0 =? 0xF4 then 0x8F else 0xBF in
            if (lo <=? b1) && (b1 <=? hi) && cont b2 && cont b3
            then Some (CMulti ((b0 - 0xF0) * 262144 + (b1 - 0x80) * 4096 + (b2 - 0x80) * 64 + (b3 - 0x80))
                         [b0; b1; b2; b3], r3)
            else Some (CBad b0, r0)
        | _ => Some (CBad b0, r0)
        end
      else Some (CBad b0, r0)
  end.

(** The whole string; fuel = length suffices because every step consumes at least one byte. *)
Fixpoint chunks_fuel (fuel : nat) (s : bytes) {struct fuel} : list chunk :=
  match fuel with
  | O => []
  | S f => match decode1 s with
           | None => []
           | Some (c, rest) => c :: chunks_fuel f rest
           end
  end.
Definition chunks (s : bytes) : list chunk := chunks_fuel (List.length s) s.

Definition rune_error : N := 0xFFFD.
Definition chunk_rune (c : chunk) : N :=
  match c with CAscii b => b | CMulti cp _ => cp | CBad _ => rune_error end.
Definition chunk_raw (c : chunk) : bytes :=
  match c with CAscii b => [b] | CMulti _ raw => raw | CBad b => [b] end.
(** The original with each offending byte replaced by U+FFFD (EF BF BD). *)
Definition chunk_sane (c : chunk) : bytes :=
  match c with CAscii b => [b] | CMulti _ raw => raw | CBad _ => [0xEF; 0xBF; 0xBD] end.
Definition is_bad (c : chunk) : bool := match c with CBad _ => true | _ => false end.

Definition runes (s : bytes) : list N := map chunk_rune (chunks s).
Definition sanitize (s : bytes) : bytes := flat_map chunk_sane (chunks s).
Definition valid_utf8_input (s : bytes) : bool := forallb (fun c => negb (is_bad c)) (chunks s).

(** RFC 3629: the encoding of a Unicode scalar value (surrogates and > 0x10FFFF have none). *)
Definition utf8_encode (cp : N) : option bytes :=
  if cp <? 0x80 then Some [cp]
  else if cp <? 0x800 then Some [0xC0 + cp / 64; 0x80 + cp mod 64]
  else if cp <? 0x10000 then
    if (0xD800 <=? cp) && (cp <=? 0xDFFF) then None
    else Some [0xE0 + cp / 4096; 0x80 + (cp / 64) mod 64; 0x80 + cp mod 64]
  else if cp <? 0x110000 then
    Some [0xF0 + cp / 262144; 0x80 + (cp / 4096) mod 64; 0x80 + (cp / 64) mod 64; 0x80 + cp mod 64]
  else None.

(** [encodes rs bs]: [bs] is the UTF-8 encoding of the scalar values [rs]. *)
Inductive encodes : list N -> bytes -> Prop :=
| enc_nil : encodes [] []
| enc_cons cp raw rs bs : utf8_encode cp = Some raw -> encodes rs bs -> encodes (cp :: rs) (raw ++ bs).
Definition utf8_valid (bs : bytes) : Prop := exists rs, encodes rs bs.

Definition byte_ok (b : N) : Prop := b < 256.
