package main

import (
	"encoding/json"
	"fmt"
	"os"
	"strconv"

	"verifharness/engines/xeng"
)

// stress: `vh stress <config name> <race|norace> <n> <file>` runs the case of a probe replay file (query, variables,
// oracle) n times against the probe of one configuration - used to tell a schedule-dependent fault from a slow machine.
func stress(args []string) {
	if len(args) < 4 {
		fmt.Fprintln(os.Stderr, "usage: vh stress CONFIG race|norace N FILE")
		os.Exit(2)
	}
	n, _ := strconv.Atoi(args[2])
	var cfgs []xeng.Config
	for _, c := range xeng.ThoroughConfigs {
		if c.Name == args[0] {
			cfgs = append(cfgs, c)
		}
	}
	if len(cfgs) == 0 {
		fmt.Fprintln(os.Stderr, "no such configuration")
		os.Exit(2)
	}
	b, err := os.ReadFile(args[3])
	if err != nil {
		fmt.Fprintln(os.Stderr, err)
		os.Exit(2)
	}
	var in struct {
		Case struct {
			Replay struct {
				Query     string          `json:"query"`
				Variables map[string]any  `json:"variables"`
				Oracle    json.RawMessage `json:"oracle"`
				RegExt    bool            `json:"register_ext"`
			} `json:"replay"`
		} `json:"case"`
	}
	if err := json.Unmarshal(b, &in); err != nil {
		fmt.Fprintln(os.Stderr, err)
		os.Exit(2)
	}
	rp := in.Case.Replay
	orc := xeng.NewOracle()
	if len(rp.Oracle) > 0 {
		if err := json.Unmarshal(rp.Oracle, &orc); err != nil {
			fmt.Fprintln(os.Stderr, err)
			os.Exit(2)
		}
	}
	probes, err := xeng.BuildProbesRace(xeng.ProbeSchema, cfgs[:1], nil, args[1] == "race")
	if err != nil || probes[0].Built.Bin == "" {
		fmt.Fprintln(os.Stderr, err, probes[0].Built.GenErr, probes[0].Built.BuildErr)
		os.Exit(2)
	}
	var cases []xeng.Case
	for i := 0; i < n; i++ {
		cases = append(cases, xeng.Case{ID: i, Query: rp.Query, Variables: rp.Variables, Oracle: orc, RegisterExt: rp.RegExt})
	}
	res, err := xeng.RunAll(probes[0].Built.Bin, cases)
	if err != nil {
		fmt.Fprintln(os.Stderr, err)
		os.Exit(2)
	}
	hang, crashed := 0, 0
	distinct := map[string]int{}
	for _, r := range res {
		if r.Hang {
			hang++
		}
		if r.Crashed {
			crashed++
		}
		if len(r.Responses) > 0 {
			distinct[string(r.Responses[0])]++
		}
	}
	fmt.Printf("runs=%d hang=%d crashed=%d race-reports=%d distinct-first-responses=%d\n", len(res), hang, crashed, len(xeng.Races), len(distinct))
	for k, v := range distinct {
		fmt.Printf("%6d  %s\n", v, k)
	}
}
